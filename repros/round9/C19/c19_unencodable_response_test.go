package server

import (
	"encoding/json"
	"io"
	"net/http"
	"strings"
	"testing"
)

func c19uPost(t *testing.T, url, body string) (int, string) {
	t.Helper()
	resp, err := http.Post(url, "application/json", strings.NewReader(body))
	if err != nil {
		t.Fatalf("POST %s: %v", url, err)
	}
	defer resp.Body.Close()
	b, _ := io.ReadAll(resp.Body)
	return resp.StatusCode, string(b)
}

func c19uMustOK(t *testing.T, url, body string) {
	t.Helper()
	if code, out := c19uPost(t, url, body); code != http.StatusOK {
		t.Fatalf("POST %s %s: %d %s", url, body, code, out)
	}
}

func c19uWellFormed(t *testing.T, what string, code int, body string) {
	t.Helper()
	if strings.TrimSpace(body) == "" || !json.Valid([]byte(body)) {
		t.Errorf("%s: status %d with a body that is not JSON: %q", what, code, body)
	}
}

// Every request below is well-formed JSON with values of the right type and
// inside the published limits. The server has to answer with a well-formed
// response; on the unchanged tree it answers "200 OK, Content-Type:
// application/json" with an EMPTY body, because a NaN / +Inf reaches
// json.Encoder after the status line has been written.

// A float16 index stores 100000 as +Inf (float16 ends at 65504). The distance
// between the stored +Inf and the query's +Inf is Inf-Inf = NaN, the score
// 1/(1+NaN) is NaN.
func TestC19Float16OverflowSearchWithScores(t *testing.T) {
	ts, _ := newTestServer(t)
	c19uMustOK(t, ts.URL+"/vector/actions/create", `{"index_name":"h","metric":"euclidean","precision":"float16"}`)
	c19uMustOK(t, ts.URL+"/vector/actions/add", `{"index_name":"h","id":"a","vector":[100000,0]}`)
	c19uMustOK(t, ts.URL+"/vector/actions/add", `{"index_name":"h","id":"b","vector":[1,0]}`)

	code, body := c19uPost(t, ts.URL+"/vector/actions/search-with-scores", `{"index_name":"h","k":2,"query_vector":[100000,0]}`)
	c19uWellFormed(t, "search-with-scores on a float16 index", code, body)

	code, body = c19uPost(t, ts.URL+"/vector/actions/search", `{"index_name":"h","k":2,"query_vector":[100000,0],"hydrate":true}`)
	c19uWellFormed(t, "hydrated search on a float16 index", code, body)
}

// _created_at is ordinary metadata. A client that stores it in nanoseconds (or
// any value in the future) makes age negative in CalculateStability, and
// exp(-age/stability) overflows to +Inf: the stability score of the belief
// assessment is +Inf.
func TestC19BeliefAssessmentFutureCreatedAt(t *testing.T) {
	ts, _ := newTestServer(t)
	c19uMustOK(t, ts.URL+"/vector/actions/create", `{"index_name":"m","metric":"euclidean","precision":"float32"}`)
	c19uMustOK(t, ts.URL+"/vector/actions/add", `{"index_name":"m","id":"a","vector":[1,0],"metadata":{"content":"x","_created_at":1790000000000000000}}`)
	c19uMustOK(t, ts.URL+"/vector/actions/add", `{"index_name":"m","id":"b","vector":[1,1],"metadata":{"content":"y"}}`)

	code, body := c19uPost(t, ts.URL+"/vector/actions/belief-assessment", `{"index_name":"m","query_vec":[1,0],"limit":5}`)
	c19uWellFormed(t, "belief-assessment with a _created_at in the future", code, body)
}

// Components near the float32 maximum are accepted by /add. The centroid of the
// consensus computation is accumulated in float32 and overflows to +Inf;
// CosineDistance(node, centroid) is then Inf/Inf = NaN and the variance is NaN.
func TestC19BeliefAssessmentLargeComponents(t *testing.T) {
	ts, _ := newTestServer(t)
	c19uMustOK(t, ts.URL+"/vector/actions/create", `{"index_name":"m","metric":"euclidean","precision":"float32"}`)
	c19uMustOK(t, ts.URL+"/vector/actions/add", `{"index_name":"m","id":"a","vector":[3e38,1]}`)
	c19uMustOK(t, ts.URL+"/vector/actions/add", `{"index_name":"m","id":"b","vector":[3e38,2]}`)

	code, body := c19uPost(t, ts.URL+"/vector/actions/belief-assessment", `{"index_name":"m","query_vec":[3e38,1],"limit":5}`)
	c19uWellFormed(t, "belief-assessment over vectors with components near MaxFloat32", code, body)
}
