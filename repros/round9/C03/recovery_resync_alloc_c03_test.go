package engine

import (
	"math/rand"
	"os"
	"path/filepath"
	"runtime"
	"testing"
	"time"
)

// TestC03_ResyncAllocationIsProportionalToTheFile damages ONE bit in the payload
// of a 256 KiB binary value and restarts. Recovery has to skip that one frame
// and apply the command after it. The log is about 260 KiB long; recovery must
// not allocate gigabytes to get over one flipped bit.
func TestC03_ResyncAllocationIsProportionalToTheFile(t *testing.T) {
	dir := t.TempDir()
	opts := DefaultOptions(dir)
	opts.AutoSaveInterval = 0

	eng, err := Open(opts)
	if err != nil {
		t.Fatal(err)
	}
	if err := eng.KVSet("first", []byte("1")); err != nil {
		t.Fatal(err)
	}
	rng := rand.New(rand.NewSource(7))
	blob := make([]byte, 256<<10)
	rng.Read(blob) // arbitrary binary contents: about 1000 bytes equal 0xA5
	if err := eng.KVSet("blob", blob); err != nil {
		t.Fatal(err)
	}
	if err := eng.KVSet("last", []byte("2")); err != nil {
		t.Fatal(err)
	}
	if err := eng.Close(); err != nil {
		t.Fatal(err)
	}

	aof := filepath.Join(dir, opts.AofFilename)
	data, err := os.ReadFile(aof)
	if err != nil {
		t.Fatal(err)
	}
	data[200] ^= 0x01 // inside the blob's payload, near its beginning
	if err := os.WriteFile(aof, data, 0644); err != nil {
		t.Fatal(err)
	}

	var before, after runtime.MemStats
	runtime.GC()
	runtime.ReadMemStats(&before)
	start := time.Now()
	eng2, err := Open(opts)
	took := time.Since(start)
	runtime.ReadMemStats(&after)
	if err != nil {
		t.Fatalf("reopen: %v", err)
	}
	defer eng2.Close()

	if v, ok := eng2.KVGet("first"); !ok || string(v) != "1" {
		t.Errorf("first: %q %v", v, ok)
	}
	if v, ok := eng2.KVGet("last"); !ok || string(v) != "2" {
		t.Errorf("the intact command after the damaged frame was not applied: %q %v", v, ok)
	}

	allocated := after.TotalAlloc - before.TotalAlloc
	t.Logf("log size %d bytes, recovery took %v, allocated %d MiB in total, heap obtained from the OS grew by %d MiB",
		len(data), took, allocated>>20, (after.HeapSys-before.HeapSys)>>20)
	// 1000x the size of the file is already generous.
	if allocated > 1000*uint64(len(data)) {
		t.Errorf("recovery of a %d KiB log with one flipped bit allocated %d MiB (every 0xA5 byte in the damaged payload is tried as a frame header and its garbage length field, when below the 1 GiB cap, is allocated before it is known whether the file holds that many bytes)",
			len(data)>>10, allocated>>20)
	}
}
