package hnsw

import (
	"fmt"
	"io"
	"log/slog"
	"math/rand"
	"sort"
	"testing"

	"github.com/sanonone/kektordb/pkg/core/distance"
)

// TestC07VacuumOfEntryPointKeepsRecall: property C07 says that recall does not
// degrade after deletions and vacuum. On the unchanged tree it does, as soon as
// a vacuum removes the node that happens to be the entry point: Vacuum elects
// the first live node (lowest internal id) as the new entry point and sets the
// top level of the whole index to THAT node's level - usually 0 - so every
// later query skips the upper layers and starts a flat base-layer walk from one
// fixed node. On clustered data (clusters inserted one after the other) the
// base layer alone does not connect the clusters well enough.
func TestC07VacuumOfEntryPointKeepsRecall(t *testing.T) {
	old := slog.Default()
	slog.SetDefault(slog.New(slog.NewTextHandler(io.Discard, nil)))
	defer slog.SetDefault(old)

	const (
		clusters = 20
		per      = 150
		dim      = 16
	)
	rng := rand.New(rand.NewSource(1))
	idx, err := New(8, 64, distance.Euclidean, distance.Float32, "", "")
	if err != nil {
		t.Fatal(err)
	}
	vecs := map[string][]float32{}
	var ids []string
	for c := 0; c < clusters; c++ {
		center := make([]float32, dim)
		for j := range center {
			center[j] = float32(rng.NormFloat64()) * 10
		}
		for i := 0; i < per; i++ {
			v := make([]float32, dim)
			for j := range v {
				v[j] = center[j] + float32(rng.NormFloat64())
			}
			id := fmt.Sprintf("c%02d-%03d", c, i)
			if _, err := idx.Add(id, v); err != nil {
				t.Fatal(err)
			}
			vecs[id] = v
			ids = append(ids, id)
		}
	}

	measure := func() (selfRate, recall float64) {
		qr := rand.New(rand.NewSource(7))
		live := make([]string, 0, len(vecs))
		for _, id := range ids {
			if _, ok := vecs[id]; ok {
				live = append(live, id)
			}
		}
		miss := 0
		for _, id := range live {
			res := idx.SearchWithScores(vecs[id], 1, nil, 50)
			if len(res) != 1 {
				miss++
				continue
			}
			if ext, _ := idx.GetExternalID(res[0].DocID); ext != id && res[0].Score > 0 {
				miss++
			}
		}
		hit, tot := 0, 0
		for qn := 0; qn < 200; qn++ {
			base := vecs[live[qr.Intn(len(live))]]
			q := make([]float32, dim)
			for j := range q {
				q[j] = base[j] + float32(qr.NormFloat64())*0.05
			}
			type pd struct {
				id string
				d  float64
			}
			all := make([]pd, 0, len(live))
			for _, id := range live {
				var s float64
				for j, x := range vecs[id] {
					df := float64(x) - float64(q[j])
					s += df * df
				}
				all = append(all, pd{id, s})
			}
			sort.Slice(all, func(a, b int) bool { return all[a].d < all[b].d })
			got := map[string]bool{}
			for _, r := range idx.SearchWithScores(q, 10, nil, 50) {
				ext, _ := idx.GetExternalID(r.DocID)
				got[ext] = true
			}
			for _, p := range all[:10] {
				tot++
				if got[p.id] {
					hit++
				}
			}
		}
		return 1 - float64(miss)/float64(len(live)), float64(hit) / float64(tot)
	}

	selfBefore, recallBefore := measure()
	t.Logf("before: self-retrieval %.3f, recall@10 %.3f (ef_search 50), top level %d", selfBefore, recallBefore, idx.maxLevel.Load())

	// Delete the vector that is the entry point and vacuum; three times, so that
	// the outcome does not depend on the random level of one particular node.
	// Three vectors out of 3000 are removed in total.
	for round := 0; round < 3; round++ {
		ext, ok := idx.GetExternalID(idx.entrypointID.Load())
		if !ok {
			t.Fatalf("entry point has no external id")
		}
		idx.Delete(ext)
		delete(vecs, ext)
		if !idx.MaintenanceRun("vacuum") {
			t.Fatalf("vacuum did no work")
		}
	}

	selfAfter, recallAfter := measure()
	t.Logf("after deleting 3 vectors + vacuum: self-retrieval %.3f, recall@10 %.3f (ef_search 50), top level %d", selfAfter, recallAfter, idx.maxLevel.Load())

	if recallAfter < recallBefore-0.05 {
		t.Errorf("C07 violated: recall@10 fell from %.3f to %.3f after deleting 3 of 3000 vectors and vacuuming", recallBefore, recallAfter)
	}
	if selfAfter < selfBefore-0.05 {
		t.Errorf("C07 violated: retrieval of a stored vector by its own value fell from %.3f to %.3f after deleting 3 of 3000 vectors and vacuuming", selfBefore, selfAfter)
	}
}
