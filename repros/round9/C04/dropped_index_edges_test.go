package engine

import (
	"testing"

	"github.com/sanonone/kektordb/pkg/core/distance"
)

// An index that is dropped and created again under the same name is a new index: an id added to it has no relations —
// on the running engine, after a restart that replays the log, and after a restart from a snapshot.
func TestDroppedIndexTakesItsEdgesWithIt(t *testing.T) {
	for _, mode := range []string{"live", "replay", "snapshot"} {
		t.Run(mode, func(t *testing.T) {
			dir := t.TempDir()
			eng, err := Open(DefaultOptions(dir))
			if err != nil {
				t.Fatal(err)
			}
			create := func() {
				if err := eng.VCreate("mem", distance.Euclidean, 8, 50, distance.Float32, "", nil, nil, nil); err != nil {
					t.Fatal(err)
				}
			}
			create()
			if err := eng.VCreate("other", distance.Euclidean, 8, 50, distance.Float32, "", nil, nil, nil); err != nil {
				t.Fatal(err)
			}
			for _, ix := range []string{"mem", "other"} {
				for _, id := range []string{"a", "b"} {
					if err := eng.VAdd(ix, id, []float32{1, 2, 3}, nil); err != nil {
						t.Fatal(err)
					}
				}
				if err := eng.VLink(ix, "a", "b", "knows", "", 1, nil); err != nil {
					t.Fatal(err)
				}
			}
			// a namespace that is no index: its edges are first-class, and a refused drop of that name drops nothing
			if err := eng.VLink("ghost", "x", "y", "knows", "", 1, nil); err != nil {
				t.Fatal(err)
			}
			if err := eng.VDeleteIndex("ghost"); err == nil {
				t.Fatal("dropping a name that is no index must be refused")
			}
			if mode == "snapshot" {
				if err := eng.SaveSnapshot(); err != nil {
					t.Fatal(err)
				}
			}
			if err := eng.VDeleteIndex("mem"); err != nil {
				t.Fatal(err)
			}
			create()
			if err := eng.VAdd("mem", "a", []float32{4, 5, 6}, nil); err != nil {
				t.Fatal(err)
			}
			if mode != "live" {
				if err := eng.Close(); err != nil {
					t.Fatal(err)
				}
				if eng, err = Open(DefaultOptions(dir)); err != nil {
					t.Fatal(err)
				}
			}
			defer eng.Close()
			if got := eng.VGetRelations("mem", "a"); len(got) != 0 {
				t.Errorf("id 'a' of the re-created index has relations %v, want none", got)
			}
			if got := eng.VGetRelations("ghost", "x"); len(got["knows"]) != 1 {
				t.Errorf("a refused drop removed the edges of a namespace that is no index: %v", got)
			}
			if got := eng.VGetRelations("other", "a"); len(got["knows"]) != 1 {
				t.Errorf("the edges of another index were touched: %v", got)
			}
		})
	}
}
