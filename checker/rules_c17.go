package main

// rules_c17.go — C17: the AI gateway's admission decisions.
//
//   UNI-1        the score the engine hands out and the value the gateway compares with a distance
//                threshold are in the same unit (conversion parity), and the comparison points the right way
//   GRD-fw       every hand-off to the upstream model (and every cached answer) in ServeHTTP lies behind the
//                not-blocked edge of the pattern check and, with a vector available, of the semantic check
//   GRD-pattern  deny patterns are compiled case-insensitively on every path, none is skipped, a match blocks
//   GRD-cache    hit ⇒ within TTL; cache only for non-streaming; save only 200 answers; reply only on hit
//   SIB-cachekeys writer and readers of a cache entry agree on keys and (JSON-stable) dynamic types
//   GRD-inval    an entry is deleted only behind the exact does-it-cite-this-document test

import (
	"fmt"
	"go/token"
	"go/types"
	"regexp"
	"sort"
	"strings"

	"golang.org/x/tools/go/ssa"
)

const proxyPkg = "pkg/proxy"

func isConstOne(v ssa.Value) bool {
	f, ok := constFloat(v)
	return ok && f == 1
}

// inverseOfSim: v = 1/s − 1 or (1−s)/s; returns s.
func inverseOfSim(v ssa.Value) (ssa.Value, bool) {
	bo, ok := v.(*ssa.BinOp)
	if !ok {
		return nil, false
	}
	if bo.Op == token.SUB && isConstOne(bo.Y) {
		if q, ok := bo.X.(*ssa.BinOp); ok && q.Op == token.QUO && isConstOne(q.X) {
			return q.Y, true
		}
	}
	if bo.Op == token.QUO {
		if d, ok := bo.X.(*ssa.BinOp); ok && d.Op == token.SUB && isConstOne(d.X) && sameAddr(d.Y, bo.Y, 0) {
			return bo.Y, true
		}
	}
	return nil, false
}

// simOfDist: v = 1/(1+d); returns d.
func simOfDist(v ssa.Value) (ssa.Value, bool) {
	bo, ok := v.(*ssa.BinOp)
	if !ok || bo.Op != token.QUO || !isConstOne(bo.X) {
		return nil, false
	}
	if a, ok := bo.Y.(*ssa.BinOp); ok && a.Op == token.ADD {
		if isConstOne(a.X) {
			return a.Y, true
		}
		if isConstOne(a.Y) {
			return a.X, true
		}
	}
	return nil, false
}

func structFieldName(t types.Type, idx int) (owner, field string) {
	if p, ok := t.Underlying().(*types.Pointer); ok {
		t = p.Elem()
	}
	owner = typeLabel(t)
	if st, ok := t.Underlying().(*types.Struct); ok && idx < st.NumFields() {
		field = fieldNameAt(t, idx)
	}
	return
}

// scoreTrace follows v back to a read of engine.SearchResult.Score / ScoreBreakdown.Similarity and counts the
// similarity→distance conversions on the way. ok=false: provenance not understood.
func scoreTrace(v ssa.Value, depth int, seen map[ssa.Value]bool) (inv int, ok bool, why string) {
	if depth > 12 {
		return 0, false, "provenance too deep"
	}
	if seen[v] {
		return 0, false, "cyclic"
	}
	seen[v] = true
	defer delete(seen, v)
	if s, isInv := inverseOfSim(v); isInv {
		n, ok, why := scoreTrace(s, depth+1, seen)
		return n + 1, ok, why
	}
	switch x := v.(type) {
	case *ssa.Convert:
		return scoreTrace(x.X, depth+1, seen)
	case *ssa.ChangeType:
		return scoreTrace(x.X, depth+1, seen)
	case *ssa.Field:
		_, f := structFieldName(x.X.Type(), x.Field)
		if f == "Score" || f == "Similarity" {
			return 0, true, ""
		}
		return 0, false, "reads field " + f
	case *ssa.UnOp:
		if x.Op == token.MUL {
			if fa, ok := x.X.(*ssa.FieldAddr); ok {
				_, f := structFieldName(fa.X.Type(), fa.Field)
				if f == "Score" || f == "Similarity" {
					return 0, true, ""
				}
				return 0, false, "reads field " + f
			}
			if al, ok := x.X.(*ssa.Alloc); ok {
				first := true
				for _, ref := range *al.Referrers() {
					if st, ok := ref.(*ssa.Store); ok && st.Addr == al {
						n, ok, why := scoreTrace(st.Val, depth+1, seen)
						if !ok {
							return 0, false, why
						}
						if !first && n != inv {
							return 0, false, "paths disagree on the number of conversions"
						}
						inv, first = n, false
					}
				}
				return inv, !first, "local never assigned"
			}
		}
	case *ssa.Phi:
		first := true
		for _, e := range x.Edges {
			if _, isC := e.(*ssa.Const); isC {
				continue
			}
			n, ok, why := scoreTrace(e, depth+1, seen)
			if !ok {
				return 0, false, why
			}
			if !first && n != inv {
				return 0, false, "paths disagree on the number of conversions"
			}
			inv, first = n, false
		}
		return inv, !first, "phi of constants"
	case *ssa.Call:
		g := x.Call.StaticCallee()
		if g == nil || !inModule(g) || len(g.Blocks) == 0 || g.Signature.Results().Len() != 1 {
			return 0, false, "value comes from a call that is not a module function with one result"
		}
		first := true
		for _, rt := range findInstrs(g, isReturn) {
			rv := retVal(rt.(*ssa.Return), 0)
			if sentinelValue(rv) {
				continue
			}
			n, ok, why := scoreTrace(rv, depth+1, seen)
			if !ok {
				return 0, false, fnName(g) + ": " + why
			}
			if !first && n != inv {
				return 0, false, fnName(g) + ": returns disagree on the number of conversions"
			}
			inv, first = n, false
		}
		return inv, !first, fnName(g) + " returns only sentinels"
	}
	return 0, false, fmt.Sprintf("unrecognised step %T", v)
}

// sentinelValue: a constant, or ±Inf built by math.Inf (through conversions).
func sentinelValue(v ssa.Value) bool {
	for {
		switch x := v.(type) {
		case *ssa.Const:
			return true
		case *ssa.Convert:
			v = x.X
		case *ssa.Call:
			o := calleeObj(&x.Call)
			return o != nil && o.Pkg() != nil && o.Pkg().Path() == "math" && (o.Name() == "Inf" || o.Name() == "MaxFloat32")
		default:
			return false
		}
	}
}

func configFieldLoad(v ssa.Value, names ...string) (string, bool) {
	u, ok := v.(*ssa.UnOp)
	if !ok || u.Op != token.MUL {
		return "", false
	}
	fa, ok := u.X.(*ssa.FieldAddr)
	if !ok {
		return "", false
	}
	owner, f := structFieldName(fa.X.Type(), fa.Field)
	if !strings.HasSuffix(owner, "proxy.Config") {
		return "", false
	}
	for _, n := range names {
		if n == f {
			return f, true
		}
	}
	return "", false
}

func boolResultIndex(fn *ssa.Function) int {
	res := fn.Signature.Results()
	for i := 0; i < res.Len(); i++ {
		if basicKind(res.At(i).Type()) == types.Bool {
			return i
		}
	}
	return -1
}

func isConstBool(v ssa.Value, want bool) bool {
	c, ok := v.(*ssa.Const)
	if !ok || c.Value == nil || basicKind(c.Type()) != types.Bool && basicKind(c.Type()) != types.UntypedBool {
		return false
	}
	return c.Value.String() == fmt.Sprint(want)
}

func ruleUNI1(w *World, r *Report) {
	r.Doc("UNI-1", "the engine's scored search turns a distance d into the similarity 1/(1+d) exactly as many times as the gateway turns the score back (1/s−1) before it compares it with firewall_threshold / cache_threshold — both thresholds are distances — and the block/hit outcome is reachable only on the distance<threshold edge", 3)
	// producer
	prod := w.Func("pkg/engine", "Engine.VSearchWithScores")
	if prod == nil {
		r.Und("UNI-1", "anchor:Engine.VSearchWithScores", "", "anchor lost")
		return
	}
	pfn := w.SSAFunc(prod.Obj)
	fwd := 0
	var fwdAt ssa.Instruction
	for _, b := range pfn.Blocks {
		for _, in := range b.Instrs {
			if v, ok := in.(ssa.Value); ok {
				if d, ok := simOfDist(v); ok {
					if _, ok2, _ := scoreTrace(d, 0, map[ssa.Value]bool{}); ok2 {
						fwd++
						fwdAt = in
					}
				}
			}
		}
	}
	pos := w.Pos(prod.Decl.Pos())
	if fwdAt != nil {
		pos = w.Pos(fwdAt.Pos())
	}
	r.Cond(fwd <= 1, "UNI-1", "producer:Engine.VSearchWithScores", pos, fmt.Sprintf("applies distance→similarity %d time(s)", fwd), "the scored search converts its scores more than once: the unit handed to callers is undefined")
	n := 0
	for _, fn := range w.pkgSSAFuncs(proxyPkg) {
		for _, b := range fn.Blocks {
			for _, in := range b.Instrs {
				bo, ok := in.(*ssa.BinOp)
				if !ok {
					continue
				}
				switch bo.Op {
				case token.LSS, token.LEQ, token.GTR, token.GEQ:
				default:
					continue
				}
				var thr string
				var other ssa.Value
				thrOnRight := true
				if f, ok := configFieldLoad(bo.Y, "FirewallThreshold", "CacheThreshold"); ok {
					thr, other = f, bo.X
				} else if f, ok := configFieldLoad(bo.X, "FirewallThreshold", "CacheThreshold"); ok {
					thr, other, thrOnRight = f, bo.Y, false
				} else {
					continue
				}
				n++
				key := shortFn(fn) + ":" + thr
				inv, ok, why := scoreTrace(other, 0, map[ssa.Value]bool{})
				if !ok {
					r.Und("UNI-1", key, w.Pos(bo.Pos()), "cannot tell where the value compared with "+thr+" comes from: "+why)
					continue
				}
				if inv != fwd {
					unit := "a similarity (higher = closer)"
					if inv > fwd {
						unit = "a value converted more often than the engine's score was"
					}
					r.Bad("UNI-1", key, w.Pos(bo.Pos()), fmt.Sprintf("%s compares %s with the distance threshold %s: the engine applies distance→similarity %d time(s), the gateway converts back %d time(s). With '<' a prompt identical to a stored one (similarity 1) is never within the threshold — the semantic firewall lets exactly the closest prompts through and the cache never hits", shortFn(fn), unit, thr, fwd, inv))
					continue
				}
				// direction: positive outcome only on the distance<threshold edge
				lessIsTrue := (bo.Op == token.LSS || bo.Op == token.LEQ) == thrOnRight
				bi := boolResultIndex(fn)
				if bi < 0 {
					r.Ok("UNI-1", key, w.Pos(bo.Pos()), "units agree (no boolean outcome to orient)")
					continue
				}
				positive := func(x ssa.Instruction) bool {
					rt, ok := x.(*ssa.Return)
					return ok && !isConstBool(retVal(rt, bi), false)
				}
				me := ssa.Instruction(bo)
				okDir, wit := mustPassGuard(fn, positive, func(x ssa.Instruction) bool { return x == me }, func(x ssa.Instruction) ssa.Value { return bo }, lessIsTrue, nil)
				r.Cond(okDir, "UNI-1", key, w.Pos(bo.Pos()), fmt.Sprintf("units agree (%d conversion each way); the positive outcome is returned only when distance < %s", inv, thr), shortFn(fn)+" can report a match (block / cache hit) although the distance is not below "+thr+", or reports it on the ≥ edge: far prompts are refused / answered from the cache and near ones are not", w.witness(wit)...)
			}
		}
	}
	r.Count("threshold_comparisons", n)
	if n < 2 {
		r.Und("UNI-1", "anchor:threshold-comparisons", "", fmt.Sprintf("expected the firewall and cache threshold comparisons in %s, found %d", proxyPkg, n))
	}
}

// ---------- GRD-fw ----------

func extractOf(c *ssa.Call, idx int) ssa.Value {
	if c.Referrers() == nil {
		return nil
	}
	for _, ref := range *c.Referrers() {
		if e, ok := ref.(*ssa.Extract); ok && e.Index == idx {
			return e
		}
	}
	return nil
}

func ruleGRDfw(w *World, r *Report) {
	r.Doc("GRD-fw", "in AIProxy.ServeHTTP every hand-off to the upstream reverse proxy and every cached reply is reached only through the not-blocked edge of checkStaticFirewall (on the text extractPrompt returned, unmodified) and — with the firewall enabled and an embedding available — of the semantic check; the only exemption is an empty prompt", 6)
	fi := w.Func(proxyPkg, "AIProxy.ServeHTTP")
	if fi == nil {
		r.Und("GRD-fw", "anchor:AIProxy.ServeHTTP", "", "anchor lost")
		return
	}
	fn := w.SSAFunc(fi.Obj)
	isForward := func(in ssa.Instruction) bool {
		c, ok := in.(*ssa.Call)
		if !ok {
			return false
		}
		o := calleeObj(&c.Call)
		return o != nil && o.Pkg() != nil && o.Pkg().Path() == "net/http/httputil" && shortName(o) == "ReverseProxy.ServeHTTP"
	}
	isReply := func(in ssa.Instruction) bool {
		c, ok := in.(*ssa.Call)
		return ok && c.Call.IsInvoke() && c.Call.Method.Name() == "Write" && strings.HasSuffix(c.Call.Value.Type().String(), "http.ResponseWriter")
	}
	// a phase of the request handling may be a function of its own, called by ServeHTTP alone (admission on the text, the
	// answer from cache or upstream): its hand-offs and replies are ServeHTTP's
	top := fn
	phases := append([]*ssa.Function{top}, w.extractedHelpers(top)...)
	var sites []ssa.Instruction
	for _, f := range phases {
		sites = append(sites, findInstrs(f, isForward)...)
	}
	nf := len(sites)
	for _, f := range phases {
		sites = append(sites, findInstrs(f, isReply)...)
	}
	if nf < 3 {
		r.Und("GRD-fw", "anchor:forward-sites", w.Pos(fi.Decl.Pos()), fmt.Sprintf("expected ≥3 hand-offs to the reverse proxy in ServeHTTP, found %d", nf))
		return
	}
	// the prompt
	var prompt *ssa.Call
	for _, in := range findInstrs(fn, func(in ssa.Instruction) bool { return isModCall(in, proxyPkg, "extractPrompt") }) {
		prompt = in.(*ssa.Call)
	}
	if prompt == nil {
		r.Und("GRD-fw", "anchor:extractPrompt", w.Pos(fi.Decl.Pos()), "ServeHTTP no longer takes the prompt from extractPrompt")
		return
	}
	emptyEdges := map[edgeKey]bool{}
	for _, ref := range *prompt.Referrers() {
		bo, ok := ref.(*ssa.BinOp)
		if !ok || (bo.Op != token.EQL && bo.Op != token.NEQ) {
			continue
		}
		other := bo.Y
		if other == ssa.Value(prompt) {
			other = bo.X
		}
		if s, ok := constString(other); !ok || s != "" {
			continue
		}
		t, f := condEdges(bo)
		e := t
		if bo.Op == token.NEQ {
			e = f
		}
		for _, k := range e {
			emptyEdges[k] = true
		}
	}
	// the prompt extractor must not give up on the whole body because some OTHER message has an unexpected shape:
	// it decodes into an untyped value and picks what it needs (a struct with string-typed content fields makes
	// json.Unmarshal fail on a multimodal or tool message anywhere in the history, the prompt comes back empty and
	// the empty-prompt exemption forwards the request unchecked)
	if ep := w.Func(proxyPkg, "extractPrompt"); ep != nil {
		epf := w.SSAFunc(ep.Obj)
		k := 0
		for _, in := range findInstrs(epf, func(in ssa.Instruction) bool { _, ok := isStdCall(in, "encoding/json", "Unmarshal"); return ok }) {
			k++
			c := in.(*ssa.Call)
			tolerant := false
			tgt := c.Call.Args[1]
			if mi, ok := tgt.(*ssa.MakeInterface); ok {
				if pt, ok := mi.X.Type().Underlying().(*types.Pointer); ok {
					switch pt.Elem().Underlying().(type) {
					case *types.Map, *types.Interface:
						tolerant = true
					}
				}
			}
			r.Cond(tolerant, "GRD-fw", fmt.Sprintf("extractPrompt:decode#%d:shape-tolerant", k), w.Pos(c.Pos()), "the body is decoded into an untyped map/any", "extractPrompt decodes the body into a typed struct: one message with non-string content (a multimodal part list, a tool result) anywhere in the history makes the decode fail, the prompt comes back empty, and ServeHTTP forwards the request under its empty-prompt exemption — a latest user message that matches a deny pattern reaches the model")
		}
		if k == 0 {
			r.Und("GRD-fw", "extractPrompt:decode", w.Pos(ep.Decl.Pos()), "extractPrompt no longer decodes the body with json.Unmarshal")
		}
	} else {
		r.Und("GRD-fw", "anchor:extractPrompt-func", "", "anchor lost")
	}
	isStatic := func(in ssa.Instruction) bool { return isModCall(in, proxyPkg, "AIProxy.checkStaticFirewall") }
	var statics []ssa.Instruction
	for _, f := range phases {
		statics = append(statics, findInstrs(f, isStatic)...)
	}
	// the pattern loop written out in ServeHTTP itself (the helper inlined): the check is the regexp match, "blocked" is
	// its result, and "no pattern configured" / "firewall switched off" are the scenario in which there is nothing to pass
	inlineStatic := len(statics) == 0
	staticAssume := emptyEdges
	if inlineStatic {
		isStatic = func(in ssa.Instruction) bool {
			c, ok := in.(*ssa.Call)
			if !ok {
				return false
			}
			o := calleeObj(&c.Call)
			return o != nil && o.Pkg() != nil && o.Pkg().Path() == "regexp" && strings.HasPrefix(shortName(o), "Regexp.Match")
		}
		statics = findInstrs(fn, isStatic)
		staticAssume = map[edgeKey]bool{}
		for k := range emptyEdges {
			staticAssume[k] = true
		}
		for k := range zeroIterEdges(fn, isStatic) {
			staticAssume[k] = true
		}
		for _, b := range fn.Blocks {
			for _, in := range b.Instrs {
				if x, ok := in.(*ssa.UnOp); ok {
					if _, isCfg := configFieldLoad(x, "FirewallEnabled"); isCfg {
						_, f := condEdges(x)
						for _, e := range f {
							staticAssume[e] = true
						}
					}
				}
			}
		}
	}
	for i, sc := range statics {
		c := sc.(*ssa.Call)
		okArg := len(c.Call.Args) == 2 && c.Call.Args[1] == ssa.Value(prompt)
		if p, isP := c.Call.Args[1].(*ssa.Parameter); !okArg && len(c.Call.Args) == 2 && isP && c.Parent() != top {
			// the check sits in a phase function: its text parameter is fed with the prompt at every call
			idx := -1
			for i, hp := range c.Parent().Params {
				if hp == p {
					idx = i
				}
			}
			nCalls := 0
			okArg = idx >= 0
			for _, cs := range callSitesOf(top, c.Parent()) {
				nCalls++
				if idx < 0 || idx >= len(cs.Call.Args) || cs.Call.Args[idx] != ssa.Value(prompt) {
					okArg = false
				}
			}
			okArg = okArg && nCalls > 0
		}
		r.Cond(okArg, "GRD-fw", fmt.Sprintf("static-check#%d:sees-whole-prompt", i+1), w.Pos(c.Pos()), "the pattern check is given exactly the text extractPrompt returned", "the pattern check is given something other than the full extracted prompt (a truncated, rewritten or lower-priority text): a deny pattern later in the message is not seen")
	}
	blockedVal := func(in ssa.Instruction) ssa.Value {
		if inlineStatic && isStatic(in) {
			return in.(*ssa.Call)
		}
		return extractOf(in.(*ssa.Call), 0)
	}
	isSem := func(in ssa.Instruction) bool {
		return isModCall(in, proxyPkg, "AIProxy.checkFirewallWithVec") || isModCall(in, proxyPkg, "AIProxy.checkSemanticFirewall") || isModCall(in, proxyPkg, "AIProxy.checkFirewall")
	}
	// scenario for the semantic check: firewall on, embedding succeeded and non-empty
	semAssumeOf := func(fn *ssa.Function) map[edgeKey]bool {
		semAssume := map[edgeKey]bool{}
		if fn == top {
			for k := range emptyEdges {
				semAssume[k] = true
			}
		}
		for _, b := range fn.Blocks {
			for _, in := range b.Instrs {
				switch x := in.(type) {
				case *ssa.UnOp:
					if _, ok := configFieldLoad(x, "FirewallEnabled"); ok {
						_, f := condEdges(x)
						for _, e := range f {
							semAssume[e] = true
						}
					}
				case *ssa.BinOp:
					// no embedder configured: nothing to compare with
					if (x.Op == token.NEQ || x.Op == token.EQL) && (isNilConst(x.X) || isNilConst(x.Y)) {
						other := x.X
						if isNilConst(other) {
							other = x.Y
						}
						if strings.HasSuffix(other.Type().String(), "embeddings.Embedder") {
							t, f := condEdges(x)
							nilEdges := f
							if x.Op == token.EQL {
								nilEdges = t
							}
							for _, e := range nilEdges {
								semAssume[e] = true
							}
						}
						continue
					}
					// len(v) > 0 / len(v) == 0 on a []float32
					var lenSide ssa.Value
					if c, ok := constInt(x.Y); ok && c == 0 {
						lenSide = x.X
					}
					if lenSide == nil {
						continue
					}
					lc, ok := lenSide.(*ssa.Call)
					if !ok {
						continue
					}
					if _, ok := isBuiltinCall(lc, "len"); !ok {
						continue
					}
					if sl, ok := lc.Call.Args[0].Type().Underlying().(*types.Slice); !ok || basicKind(sl.Elem()) != types.Float32 {
						continue
					}
					t, f := condEdges(x)
					switch x.Op {
					case token.GTR, token.NEQ:
						for _, e := range f {
							semAssume[e] = true
						}
					case token.EQL, token.LEQ:
						for _, e := range t {
							semAssume[e] = true
						}
					}
				case *ssa.Call:
					if x.Call.IsInvoke() && x.Call.Method.Name() == "Embed" {
						for e := range failureEdges(fn, x) {
							semAssume[e] = true
						}
					}
				}
			}
		}
		return semAssume
	}
	// a gate: a phase function with one bool result ("handled") that contains the check and answers false only behind
	// the check's not-blocked edge — ServeHTTP going on after `if p.admitByText(…) { return }` has passed the check
	notHandled := func(in ssa.Instruction) bool {
		rt, ok := in.(*ssa.Return)
		return ok && len(rt.Results) == 1 && !isConstBool(retVal(rt, 0), true)
	}
	gates := func(check func(ssa.Instruction) bool, assumeOf func(*ssa.Function) map[edgeKey]bool) map[*ssa.Function]bool {
		out := map[*ssa.Function]bool{}
		for _, g := range phases[1:] {
			res := g.Signature.Results()
			if res.Len() != 1 || !isBoolType(res.At(0).Type()) || len(findInstrs(g, check)) == 0 {
				continue
			}
			if ok, _ := mustPassGuard(g, notHandled, check, blockedVal, false, assumeOf(g)); ok {
				out[g] = true
			}
		}
		return out
	}
	noAssume := func(f *ssa.Function) map[edgeKey]bool {
		if f == top {
			return staticAssume
		}
		return nil
	}
	passes := func(site ssa.Instruction, check func(ssa.Instruction) bool, assumeOf func(*ssa.Function) map[edgeKey]bool) (bool, []ssa.Instruction) {
		gs := gates(check, assumeOf)
		guard := func(in ssa.Instruction) bool {
			if check(in) {
				return true
			}
			c, ok := in.(*ssa.Call)
			return ok && c.Call.StaticCallee() != nil && gs[c.Call.StaticCallee()] && c.Call.StaticCallee() != in.Parent()
		}
		gval := func(in ssa.Instruction) ssa.Value {
			if check(in) {
				return blockedVal(in)
			}
			return in.(*ssa.Call)
		}
		local := func(f *ssa.Function, at ssa.Instruction) (bool, []ssa.Instruction) {
			return mustPassGuard(f, func(in ssa.Instruction) bool { return in == at }, guard, gval, false, assumeOf(f))
		}
		f := site.Parent()
		ok, wit := local(f, site)
		if ok || f == top {
			return ok, wit
		}
		// not decided inside the phase function: every call of it must lie behind the check
		n := 0
		for _, cs := range callSitesOf(top, f) {
			n++
			if ok2, w2 := local(cs.Parent(), cs); !ok2 {
				return false, w2
			}
		}
		return n > 0, wit
	}
	for i, s := range sites {
		kind := "forward"
		if i >= nf {
			kind = "cached-reply"
		}
		key := fmt.Sprintf("%s#%d", kind, i+1)
		ok, wit := passes(s, isStatic, noAssume)
		r.Cond(ok, "GRD-fw", key+":static", w.Pos(s.Pos()), "reached only behind checkStaticFirewall's not-blocked edge (or with an empty prompt)", "ServeHTTP can hand a non-empty prompt to the upstream model (or answer it from the cache) on a path that never consulted the deny patterns, or on their blocked edge: a prompt that matches a deny pattern reaches the model — e.g. by also containing a pass-through marker", w.witness(wit)...)
		ok, wit = passes(s, isSem, semAssumeOf)
		r.Cond(ok, "GRD-fw", key+":semantic", w.Pos(s.Pos()), "with the firewall enabled and an embedding available, reached only behind the semantic check's not-blocked edge", "with the firewall enabled and an embedding available ServeHTTP can still hand the prompt to the upstream model (or answer it from the cache) without the nearest-forbidden-prompt check, or on its blocked edge", w.witness(wit)...)
	}
	r.Count("upstream_handoffs", nf)
	r.Count("cached_replies", len(sites)-nf)
}

// ---------- GRD-pattern ----------

var ciFlagPrefix = regexp.MustCompile(`^\(\?[a-zA-Z]*i[a-zA-Z]*\)`)

func caseInsensitiveOnAllPaths(v ssa.Value, seen map[ssa.Value]bool) bool {
	if seen[v] {
		return true
	}
	seen[v] = true
	switch x := v.(type) {
	case *ssa.BinOp:
		if x.Op == token.ADD {
			if s, ok := constString(x.X); ok {
				return ciFlagPrefix.MatchString(s)
			}
			return caseInsensitiveOnAllPaths(x.X, seen)
		}
	case *ssa.Phi:
		for _, e := range x.Edges {
			if !caseInsensitiveOnAllPaths(e, seen) {
				return false
			}
		}
		return len(x.Edges) > 0
	case *ssa.Const:
		s, ok := constString(x)
		return ok && ciFlagPrefix.MatchString(s)
	}
	return false
}

func ruleGRDpattern(w *World, r *Report) {
	r.Doc("GRD-pattern", "every configured deny pattern is compiled with the case-insensitive flag in front on every path, a pattern that compiles is always appended (none skipped), and checkStaticFirewall matches the whole text it is given and reports blocked on every match", 4)
	fi := w.Func(proxyPkg, "AIProxy.initFirewall")
	if fi == nil {
		r.Und("GRD-pattern", "anchor:AIProxy.initFirewall", "", "anchor lost")
	} else {
		fn := w.SSAFunc(fi.Obj)
		isCompile := func(in ssa.Instruction) bool {
			c, ok := in.(*ssa.Call)
			if !ok {
				return false
			}
			o := calleeObj(&c.Call)
			return o != nil && o.Pkg() != nil && o.Pkg().Path() == "regexp" && (o.Name() == "Compile" || o.Name() == "MustCompile" || o.Name() == "CompilePOSIX")
		}
		cs := findInstrs(fn, isCompile)
		if len(cs) == 0 {
			r.Und("GRD-pattern", "anchor:regexp.Compile", w.Pos(fi.Decl.Pos()), "initFirewall compiles no pattern")
		}
		for i, c := range cs {
			call := c.(*ssa.Call)
			ok := caseInsensitiveOnAllPaths(call.Call.Args[0], map[ssa.Value]bool{})
			r.Cond(ok, "GRD-pattern", fmt.Sprintf("initFirewall:compile#%d:case-insensitive", i+1), w.Pos(c.Pos()), "the expression compiled is \"(?i…)\" + pattern on every path", "a deny pattern can be compiled without the case-insensitive flag in front (on some path the configured text is compiled as written): the same prompt in another letter case is forwarded")
			isKeep := func(in ssa.Instruction) bool {
				st, ok := in.(*ssa.Store)
				if !ok {
					return false
				}
				fa, ok := st.Addr.(*ssa.FieldAddr)
				if !ok {
					return false
				}
				_, f := structFieldName(fa.X.Type(), fa.Field)
				return f == "firewallPatterns"
			}
			next := func(in ssa.Instruction) bool { return isReturn(in) || in == c }
			found, wit := (pathQuery{fn: fn, target: next, avoid: isKeep, blocked: failureEdges(fn, call)}).find(posOf(c))
			r.Cond(!found, "GRD-pattern", fmt.Sprintf("initFirewall:compile#%d:kept", i+1), w.Pos(c.Pos()), "a pattern that compiled is stored before the next one is looked at", "a deny pattern that compiled successfully can be dropped (the loop goes on, or the function returns, without storing it): the firewall silently enforces fewer patterns than configured", w.witness(wit)...)
		}
	}
	fi = w.Func(proxyPkg, "AIProxy.checkStaticFirewall")
	inlined := false
	if fi == nil { // the pattern loop inlined into ServeHTTP
		fi = w.Func(proxyPkg, "AIProxy.ServeHTTP")
		inlined = true
	}
	if fi == nil {
		r.Und("GRD-pattern", "anchor:AIProxy.checkStaticFirewall", "", "anchor lost")
		return
	}
	fn := w.SSAFunc(fi.Obj)
	isMatch := func(in ssa.Instruction) bool {
		c, ok := in.(*ssa.Call)
		if !ok {
			return false
		}
		o := calleeObj(&c.Call)
		return o != nil && o.Pkg() != nil && o.Pkg().Path() == "regexp" && strings.HasPrefix(shortName(o), "Regexp.Match")
	}
	ms := findInstrs(fn, isMatch)
	if len(ms) == 0 {
		r.Und("GRD-pattern", "anchor:MatchString", w.Pos(fi.Decl.Pos()), "checkStaticFirewall matches nothing")
		return
	}
	if inlined {
		// whole text: the extracted prompt itself; blocks: from a match no hand-off to the upstream proxy is reachable
		for i, m := range ms {
			c := m.(*ssa.Call)
			arg := c.Call.Args[len(c.Call.Args)-1]
			pc, isCall := arg.(*ssa.Call)
			r.Cond(isCall && isModCall(pc, proxyPkg, "extractPrompt"), "GRD-pattern", fmt.Sprintf("checkStaticFirewall:match#%d:whole-text", i+1), w.Pos(c.Pos()), "the pattern is matched against the extracted prompt itself", "the pattern is matched against something other than the extracted prompt (a prefix, a trimmed or rewritten copy): a deny pattern elsewhere in the message is not seen")
			t, _ := condEdges(c)
			bad := len(t) == 0
			var wit []ssa.Instruction
			handOff := func(in ssa.Instruction) bool {
				hc, ok := in.(*ssa.Call)
				if !ok {
					return false
				}
				o := calleeObj(&hc.Call)
				return o != nil && o.Pkg() != nil && o.Pkg().Path() == "net/http/httputil" && shortName(o) == "ReverseProxy.ServeHTTP"
			}
			for _, e := range t {
				if found, wt := (pathQuery{fn: fn, target: handOff}).find(ipos{e.from.Succs[e.succ], -1}); found {
					bad, wit = true, wt
				}
			}
			r.Cond(!bad, "GRD-pattern", fmt.Sprintf("checkStaticFirewall:match#%d:blocks", i+1), w.Pos(c.Pos()), "after a match no hand-off to the upstream model is reachable", "after a deny pattern matched ServeHTTP can still hand the request to the upstream model", w.witness(wit)...)
		}
		r.Count("pattern_match_sites", len(ms))
		return
	}
	bi := boolResultIndex(fn)
	for i, m := range ms {
		c := m.(*ssa.Call)
		arg := c.Call.Args[len(c.Call.Args)-1]
		r.Cond(len(fn.Params) == 2 && arg == ssa.Value(fn.Params[1]), "GRD-pattern", fmt.Sprintf("checkStaticFirewall:match#%d:whole-text", i+1), w.Pos(c.Pos()), "the pattern is matched against the text parameter itself", "the pattern is matched against something other than the text handed in (a prefix, a trimmed or rewritten copy): a deny pattern elsewhere in the message is not seen")
		t, _ := condEdges(c)
		bad := len(t) == 0
		var wit []ssa.Instruction
		for _, e := range t {
			notBlocked := func(in ssa.Instruction) bool {
				rt, ok := in.(*ssa.Return)
				return ok && !isConstBool(retVal(rt, bi), true)
			}
			if found, wt := (pathQuery{fn: fn, target: notBlocked}).find(ipos{e.from.Succs[e.succ], -1}); found {
				bad, wit = true, wt
			}
		}
		r.Cond(!bad, "GRD-pattern", fmt.Sprintf("checkStaticFirewall:match#%d:blocks", i+1), w.Pos(c.Pos()), "a match always returns blocked=true", "after a deny pattern matched checkStaticFirewall can still return not-blocked", w.witness(wit)...)
	}
	// every pattern is tried: the not-blocked return after the loop is reached only when the loop ran out
	r.Count("pattern_match_sites", len(ms))
}

// ---------- GRD-cache ----------

func ruleGRDcache(w *World, r *Report) {
	r.Doc("GRD-cache", "a cache hit is returned only on the not-expired edge of the TTL test (when a TTL is set and the entry carries its creation time); ServeHTTP consults the cache only for non-streaming requests, replies from it only on hit==true, and stores only upstream answers with status 200", 4)
	fi := w.Func(proxyPkg, "AIProxy.checkCache")
	if fi == nil {
		r.Und("GRD-cache", "anchor:AIProxy.checkCache", "", "anchor lost")
	} else {
		fn := w.SSAFunc(fi.Obj)
		bi := boolResultIndex(fn)
		hit := func(in ssa.Instruction) bool {
			rt, ok := in.(*ssa.Return)
			return ok && !isConstBool(retVal(rt, bi), false)
		}
		isSince := func(v ssa.Value) bool {
			c, ok := v.(*ssa.Call)
			if !ok {
				return false
			}
			o := calleeObj(&c.Call)
			return o != nil && o.Pkg() != nil && o.Pkg().Path() == "time" && (o.Name() == "Since" || shortName(o) == "Time.Sub")
		}
		var ttlCmp *ssa.BinOp
		expiredWhenTrue := true
		for _, b := range fn.Blocks {
			for _, in := range b.Instrs {
				bo, ok := in.(*ssa.BinOp)
				if !ok {
					continue
				}
				_, yIsTTL := configFieldLoad(bo.Y, "CacheTTL")
				_, xIsTTL := configFieldLoad(bo.X, "CacheTTL")
				switch {
				case isSince(bo.X) && yIsTTL && (bo.Op == token.GTR || bo.Op == token.GEQ):
					ttlCmp, expiredWhenTrue = bo, true
				case isSince(bo.X) && yIsTTL && (bo.Op == token.LSS || bo.Op == token.LEQ):
					ttlCmp, expiredWhenTrue = bo, false
				case isSince(bo.Y) && xIsTTL && (bo.Op == token.LSS || bo.Op == token.LEQ):
					ttlCmp, expiredWhenTrue = bo, true
				case isSince(bo.Y) && xIsTTL && (bo.Op == token.GTR || bo.Op == token.GEQ):
					ttlCmp, expiredWhenTrue = bo, false
				}
			}
		}
		if ttlCmp == nil {
			r.Bad("GRD-cache", "checkCache:ttl", w.Pos(fi.Decl.Pos()), "checkCache returns stored answers without comparing their age (time.Since of the creation time) with cache_ttl: expired answers are served forever")
		} else {
			// scenario: TTL configured, entry carries a float64 created_at
			assume := map[edgeKey]bool{}
			for _, b := range fn.Blocks {
				for _, in := range b.Instrs {
					switch x := in.(type) {
					case *ssa.BinOp:
						if _, ok := configFieldLoad(x.X, "CacheTTL"); ok {
							if c, ok := constInt(x.Y); ok && c == 0 && (x.Op == token.GTR || x.Op == token.NEQ) {
								_, f := condEdges(x)
								for _, e := range f {
									assume[e] = true
								}
							}
						}
					case *ssa.TypeAssert:
						if lk, ok := x.X.(*ssa.Lookup); ok && x.CommaOk {
							if k, ok := constString(lk.Index); ok && k == "created_at" {
								if okv := extractOfValue(x, 1); okv != nil {
									_, f := condEdges(okv)
									for _, e := range f {
										assume[e] = true
									}
								}
							}
						}
					}
				}
			}
			me := ssa.Instruction(ttlCmp)
			ok, wit := mustPassGuard(fn, hit, func(in ssa.Instruction) bool { return in == me }, func(ssa.Instruction) ssa.Value { return ttlCmp }, !expiredWhenTrue, assume)
			r.Cond(ok, "GRD-cache", "checkCache:ttl", w.Pos(ttlCmp.Pos()), "with a TTL set and a creation time present, a hit is returned only on the not-expired edge", "checkCache can return a stored answer as a hit although a TTL is configured and the entry's age was not tested (or on the expired edge): answers older than cache_ttl are served without contacting upstream", w.witness(wit)...)
		}
	}
	fi = w.Func(proxyPkg, "AIProxy.ServeHTTP")
	if fi == nil {
		r.Und("GRD-cache", "anchor:AIProxy.ServeHTTP", "", "anchor lost")
		return
	}
	fn := w.SSAFunc(fi.Obj)
	top := fn
	isCheck := func(in ssa.Instruction) bool { return isModCall(in, proxyPkg, "AIProxy.checkCache") }
	if len(findInstrs(fn, isCheck)) == 0 { // the answer phase (cache or upstream) may be a function of its own
		for _, h := range w.extractedHelpers(top) {
			if len(findInstrs(h, isCheck)) > 0 {
				fn = h
				break
			}
		}
	}
	checks := findInstrs(fn, isCheck)
	if len(checks) == 0 {
		r.Und("GRD-cache", "anchor:ServeHTTP:checkCache", w.Pos(fi.Decl.Pos()), "ServeHTTP no longer consults the cache")
		return
	}
	isStreamCall := func(in ssa.Instruction) bool { return isModCall(in, proxyPkg, "checkStreaming") }
	isStream := isStreamCall
	streamVal := callValue
	if fn != top {
		// the phase function is handed "is this a streaming request" in a field of its parameter record: a read of a bool
		// field that ServeHTTP fills, at every call, with the answer of checkStreaming
		fed := func(v ssa.Value) bool {
			var fa *ssa.FieldAddr
			var base ssa.Value
			fidx := -1
			switch x := v.(type) {
			case *ssa.Field:
				base, fidx = x.X, x.Field
			case *ssa.UnOp:
				if x.Op == token.MUL {
					if fa, _ = x.X.(*ssa.FieldAddr); fa != nil {
						base, fidx = fa.X, fa.Field
					}
				}
			}
			if fidx < 0 || !isBoolType(v.Type()) {
				return false
			}
			p := paramRecordBase(base)
			if p == nil || p.Parent() != fn {
				return false
			}
			pi := -1
			for i, hp := range fn.Params {
				if hp == p {
					pi = i
				}
			}
			n := 0
			for _, cs := range callSitesOf(top, fn) {
				if pi < 0 || pi >= len(cs.Call.Args) {
					return false
				}
				var rec *ssa.Alloc
				switch a := cs.Call.Args[pi].(type) {
				case *ssa.Alloc:
					rec = a
				case *ssa.UnOp:
					rec, _ = a.X.(*ssa.Alloc)
				}
				if rec == nil || rec.Referrers() == nil {
					return false
				}
				okSite := false
				for _, ref := range *rec.Referrers() {
					rfa, isFA := ref.(*ssa.FieldAddr)
					if !isFA || rfa.Field != fidx || rfa.Referrers() == nil {
						continue
					}
					for _, r2 := range *rfa.Referrers() {
						if st, isSt := r2.(*ssa.Store); isSt && st.Addr == ssa.Value(rfa) {
							okSite = false
							for _, rt := range append(valueRoots(st.Val), st.Val) {
								if ci, isI := rt.(ssa.Instruction); isI && isStreamCall(ci) {
									okSite = true
								}
							}
						}
					}
				}
				if !okSite {
					return false
				}
				n++
			}
			return n > 0
		}
		isStream = func(in ssa.Instruction) bool {
			v, ok := in.(ssa.Value)
			return ok && fed(v)
		}
		streamVal = func(in ssa.Instruction) ssa.Value { return in.(ssa.Value) }
	}
	ok, wit := mustPassGuard(fn, isCheck, isStream, streamVal, false, nil)
	r.Cond(ok, "GRD-cache", "ServeHTTP:cache-only-non-streaming", w.Pos(checks[0].Pos()), "the cache is consulted only on the stream==false edge", "ServeHTTP consults the cache for a streaming request: a client that asked for a stream gets a stored non-stream body", w.witness(wit)...)
	isReply := func(in ssa.Instruction) bool {
		c, ok := in.(*ssa.Call)
		return ok && c.Call.IsInvoke() && c.Call.Method.Name() == "Write" && strings.HasSuffix(c.Call.Value.Type().String(), "http.ResponseWriter")
	}
	for i, rp := range findInstrs(fn, isReply) {
		rr := rp
		ok, wit := mustPassGuard(fn, func(in ssa.Instruction) bool { return in == rr }, isCheck, func(in ssa.Instruction) ssa.Value { return extractOf(in.(*ssa.Call), 1) }, true, nil)
		r.Cond(ok, "GRD-cache", fmt.Sprintf("ServeHTTP:reply#%d:only-on-hit", i+1), w.Pos(rp.Pos()), "a body is written by the gateway itself only on checkCache's hit edge", "ServeHTTP writes a response body itself on a path where the cache did not report a hit: a request farther than the cache distance from every stored query is answered without reaching upstream", w.witness(wit)...)
	}
	isSave := func(in ssa.Instruction) bool {
		g, ok := in.(*ssa.Go)
		if ok {
			if o := calleeObj(&g.Call); o != nil && shortName(o) == "AIProxy.saveToCache" {
				return true
			}
		}
		return isModCall(in, proxyPkg, "AIProxy.saveToCache")
	}
	saves := findInstrs(fn, isSave)
	for i, sv := range saves {
		s2 := sv
		is200 := func(in ssa.Instruction) bool {
			bo, ok := in.(*ssa.BinOp)
			if !ok || (bo.Op != token.EQL && bo.Op != token.NEQ) {
				return false
			}
			c, ok := constInt(bo.Y)
			return ok && c == 200
		}
		gs := findInstrs(fn, is200)
		want := true
		if len(gs) > 0 && gs[0].(*ssa.BinOp).Op == token.NEQ {
			want = false
		}
		ok, wit := mustPassGuard(fn, func(in ssa.Instruction) bool { return in == s2 }, is200, func(in ssa.Instruction) ssa.Value { return in.(*ssa.BinOp) }, want, nil)
		r.Cond(ok && len(gs) > 0, "GRD-cache", fmt.Sprintf("ServeHTTP:save#%d:only-200", i+1), w.Pos(sv.Pos()), "an upstream answer is stored only on the status==200 edge", "ServeHTTP stores an upstream answer in the cache without testing that its status was 200: an error body is replayed to every similar request until the TTL", w.witness(wit)...)
	}
	if len(saves) == 0 {
		r.Und("GRD-cache", "anchor:ServeHTTP:saveToCache", w.Pos(fi.Decl.Pos()), "ServeHTTP never stores an answer")
	}
}

func extractOfValue(v ssa.Value, idx int) ssa.Value {
	if v.Referrers() == nil {
		return nil
	}
	for _, ref := range *v.Referrers() {
		if e, ok := ref.(*ssa.Extract); ok && e.Index == idx {
			return e
		}
	}
	return nil
}

// ---------- SIB-cachekeys ----------

func ruleSIBcachekeys(w *World, r *Report) {
	r.Doc("SIB-cachekeys", "every metadata key a cache reader (checkCache, handleCacheInvalidate) looks up is written by saveToCache with exactly the dynamic type the reader asserts, and that type survives the JSON round trip of the journal (string, float64, bool)", 2)
	wfi := w.Func(proxyPkg, "AIProxy.saveToCache")
	if wfi == nil {
		r.Und("SIB-cachekeys", "anchor:AIProxy.saveToCache", "", "anchor lost")
		return
	}
	written := map[string]types.Type{}
	wpos := map[string]token.Pos{}
	for _, b := range w.SSAFunc(wfi.Obj).Blocks {
		for _, in := range b.Instrs {
			mu, ok := in.(*ssa.MapUpdate)
			if !ok {
				continue
			}
			k, ok := constString(mu.Key)
			if !ok {
				continue
			}
			if mi, ok := mu.Value.(*ssa.MakeInterface); ok {
				written[k] = mi.X.Type()
				wpos[k] = mu.Pos()
			}
		}
	}
	n := 0
	for _, name := range []string{"AIProxy.checkCache", "AIProxy.handleCacheInvalidate"} {
		fi := w.Func(proxyPkg, name)
		if fi == nil {
			r.Und("SIB-cachekeys", "anchor:"+name, "", "anchor lost")
			continue
		}
		for _, b := range w.SSAFunc(fi.Obj).Blocks {
			for _, in := range b.Instrs {
				ta, ok := in.(*ssa.TypeAssert)
				if !ok {
					continue
				}
				lk, ok := ta.X.(*ssa.Lookup)
				if !ok {
					continue
				}
				k, ok := constString(lk.Index)
				if !ok {
					continue
				}
				n++
				key := strings.TrimPrefix(name, "AIProxy.") + ":" + k
				wt, has := written[k]
				switch {
				case !has:
					r.Bad("SIB-cachekeys", key, w.Pos(ta.Pos()), name+" reads cache-entry key \""+k+"\" which saveToCache never writes: the branch that depends on it is dead for every entry the gateway stores")
				case !types.Identical(wt, ta.AssertedType):
					r.Bad("SIB-cachekeys", key, w.Pos(ta.Pos()), fmt.Sprintf("%s asserts cache-entry key %q to be %s but saveToCache stores a %s: for entries stored by the running process the assertion fails silently and the logic behind it (for created_at: the TTL test) is skipped — after a restart the value comes back from JSON with yet another type", name, k, ta.AssertedType, wt))
				default:
					stable := false
					switch basicKind(wt) {
					case types.String, types.Float64, types.Bool:
						stable = true
					}
					r.Cond(stable, "SIB-cachekeys", key, w.Pos(ta.Pos()), fmt.Sprintf("written and asserted as %s (JSON-stable)", wt), fmt.Sprintf("cache-entry key %q is written and asserted as %s, which does not survive the journal's JSON round trip (numbers come back as float64): the reader works until the first restart", k, wt))
				}
			}
		}
	}
	r.Count("cache_entry_reads", n)
	if n < 3 {
		r.Und("SIB-cachekeys", "anchor:cache-entry-reads", "", fmt.Sprintf("expected ≥3 typed reads of cache-entry keys, found %d", n))
	}
}

// ---------- GRD-inval ----------

func ruleGRDinval(w *World, r *Report) {
	r.Doc("GRD-inval", "handleCacheInvalidate deletes an entry only on the true edge of the exact citation test (citesDocument) applied to that entry's stored sources and the requested document id; the test compares whole ids", 2)
	fi := w.Func(proxyPkg, "AIProxy.handleCacheInvalidate")
	if fi == nil {
		r.Und("GRD-inval", "anchor:AIProxy.handleCacheInvalidate", "", "anchor lost")
		return
	}
	fn := w.SSAFunc(fi.Obj)
	isDel := func(in ssa.Instruction) bool { return isModCall(in, "pkg/engine", "Engine.VDelete") }
	dels := findInstrs(fn, isDel)
	if len(dels) == 0 {
		r.Und("GRD-inval", "anchor:VDelete", w.Pos(fi.Decl.Pos()), "the invalidation handler deletes nothing")
		return
	}
	isCite := func(in ssa.Instruction) bool { return isModCall(in, proxyPkg, "citesDocument") }
	cites := findInstrs(fn, isCite)
	for i, d := range dels {
		dd := d
		ok, wit := mustPassGuard(fn, func(in ssa.Instruction) bool { return in == dd }, isCite, callValue, true, nil)
		r.Cond(ok && len(cites) > 0, "GRD-inval", fmt.Sprintf("handleCacheInvalidate:delete#%d:behind-citation-test", i+1), w.Pos(d.Pos()), "an entry is deleted only on citesDocument's true edge", "the invalidation handler can delete a cache entry without the exact citation test (or on its false edge): entries that do not cite the document are removed (for example every entry sharing a token or path component with it)", w.witness(wit)...)
	}
	for i, c := range cites {
		call := c.(*ssa.Call)
		// second argument: the request's DocumentID; first: the entry's "sources"
		okDoc := false
		if len(call.Call.Args) == 2 {
			if ld, ok := call.Call.Args[1].(*ssa.UnOp); ok && ld.Op == token.MUL {
				if fa, ok := ld.X.(*ssa.FieldAddr); ok {
					_, f := structFieldName(fa.X.Type(), fa.Field)
					okDoc = f == "DocumentID"
				}
			}
		}
		okSrc := false
		if len(call.Call.Args) == 2 {
			for _, leaf := range phiLeaves(call.Call.Args[0]) {
				v := leaf
				if ex, ok := v.(*ssa.Extract); ok {
					v = ex.Tuple
				}
				if ta, ok := v.(*ssa.TypeAssert); ok {
					if lk, ok := ta.X.(*ssa.Lookup); ok {
						if k, ok := constString(lk.Index); ok && k == "sources" {
							okSrc = true
						}
					}
				}
			}
		}
		r.Cond(okDoc && okSrc, "GRD-inval", fmt.Sprintf("handleCacheInvalidate:citation-test#%d:operands", i+1), w.Pos(c.Pos()), "the test is applied to the entry's \"sources\" value and the request's document_id", "the citation test is not applied to (entry.sources, request.document_id): the handler decides on other data than what saveToCache recorded")
	}
	cfi := w.Func(proxyPkg, "citesDocument")
	if cfi == nil {
		r.Und("GRD-inval", "anchor:citesDocument", "", "anchor lost")
		return
	}
	cfn := w.SSAFunc(cfi.Obj)
	// whole-id comparison: some `x == docID` on strings where docID is the second parameter, and no
	// substring test (strings.Contains) on the parameter
	eq, contains := false, false
	var cpos token.Pos
	for _, b := range cfn.Blocks {
		for _, in := range b.Instrs {
			switch x := in.(type) {
			case *ssa.BinOp:
				if x.Op == token.EQL && len(cfn.Params) == 2 && (x.X == ssa.Value(cfn.Params[1]) || x.Y == ssa.Value(cfn.Params[1])) {
					eq = true
				}
			case *ssa.Call:
				if o := calleeObj(&x.Call); o != nil && o.Pkg() != nil && o.Pkg().Path() == "strings" && (o.Name() == "Contains" || o.Name() == "Index" || o.Name() == "EqualFold") {
					for _, a := range x.Call.Args {
						if len(cfn.Params) == 2 && a == ssa.Value(cfn.Params[1]) {
							contains, cpos = true, x.Pos()
						}
					}
				}
			}
		}
	}
	pos := w.Pos(cfi.Decl.Pos())
	if contains {
		pos = w.Pos(cpos)
	}
	r.Cond(eq && !contains, "GRD-inval", "citesDocument:whole-id", pos, "ids are compared as whole strings", "citesDocument does not compare whole ids (substring / case-folded test on the document id, or no equality at all): invalidating \"doc_1\" also removes answers citing \"doc_10\"")
	_ = sort.Strings
}

// isModCall: a call to function/method `name` of module package rel.
func isModCall(in ssa.Instruction, rel, name string) bool { return isCallTo(in, modPath+"/"+rel, name) }
