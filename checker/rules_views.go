package main

// rules_views.go — SIB-views decided on SSA by truth tables instead of source-text signatures.
//
// An "vatom" is a comparison of a field of an edge record with a parameter or a constant. The selection predicate of
// an effect (stamping DeletedAt, keeping an entry, leaving a look-up loop early) is the set of rows of the atoms'
// truth table under which the effect is reachable; it is computed with one path query per row (the row is the
// query's assumption). Two halves agree when their predicates are the same table over the same canonical atoms, no
// matter how the conditions are written (nested ifs, early continue, De Morgan, operands swapped).

import (
	"fmt"
	"go/constant"
	"go/token"
	"go/types"
	"sort"
	"strings"

	"golang.org/x/tools/go/ssa"
)

type vatom struct {
	key string // canonical: FIELD==rhs, FIELD<rhs, FIELD<=rhs
	neg bool   // the instruction computes the negation of key
}

// recordField: v reads field F of a struct value/element; returns the field name.
func recordField(v ssa.Value) (string, bool) {
	switch x := v.(type) {
	case *ssa.Field:
		_, f := structFieldName(x.X.Type(), x.Field)
		return f, f != ""
	case *ssa.UnOp:
		if x.Op != token.MUL {
			return "", false
		}
		if fa, ok := x.X.(*ssa.FieldAddr); ok {
			_, f := structFieldName(fa.X.Type(), fa.Field)
			return f, f != ""
		}
	}
	return "", false
}

// viewAtom canonicalises a comparison between an edge-record field and a parameter/constant/free variable.
func viewAtom(in ssa.Instruction) (vatom, bool) {
	bo, ok := in.(*ssa.BinOp)
	if !ok {
		return vatom{}, false
	}
	op := bo.Op
	switch op {
	case token.EQL, token.NEQ, token.LSS, token.LEQ, token.GTR, token.GEQ:
	default:
		return vatom{}, false
	}
	l, r := bo.X, bo.Y
	f, isF := recordField(l)
	if !isF {
		if f2, ok2 := recordField(r); ok2 {
			f, isF = f2, true
			l, r = r, l
			switch op { // a op b  ==  b op' a
			case token.LSS:
				op = token.GTR
			case token.LEQ:
				op = token.GEQ
			case token.GTR:
				op = token.LSS
			case token.GEQ:
				op = token.LEQ
			}
		}
	}
	if !isF {
		return vatom{}, false
	}
	switch f {
	case "TargetID", "SourceID":
		f = "PEER"
	}
	var rhs string
	switch y := r.(type) {
	case *ssa.Const:
		if y.Value == nil {
			rhs = "nil"
		} else {
			rhs = y.Value.ExactString()
		}
	case *ssa.Parameter:
		if b, ok := y.Type().Underlying().(*types.Basic); ok && b.Kind() == types.String {
			rhs = "peer"
		} else {
			rhs = "param:" + y.Name()
		}
	case *ssa.FreeVar:
		rhs = "free:" + y.Name()
	case *ssa.UnOp: // a captured variable is a cell: the closure (and, once captured, the declaring function) loads it
		if y.Op != token.MUL {
			return vatom{}, false
		}
		name := ""
		if p := capturedParam(y); p != nil {
			name = "param:" + p.Name()
		} else if fv, isFree := y.X.(*ssa.FreeVar); isFree {
			name = "free:" + fv.Name()
		} else {
			return vatom{}, false
		}
		if b, ok := y.Type().Underlying().(*types.Basic); ok && b.Kind() == types.String {
			rhs = "peer"
		} else {
			rhs = name
		}
	default:
		return vatom{}, false
	}
	switch op {
	case token.EQL:
		return vatom{f + "==" + rhs, false}, true
	case token.NEQ:
		return vatom{f + "==" + rhs, true}, true
	case token.LSS:
		return vatom{f + "<" + rhs, false}, true
	case token.GEQ:
		return vatom{f + "<" + rhs, true}, true
	case token.LEQ:
		return vatom{f + "<=" + rhs, false}, true
	default: // GTR
		return vatom{f + "<=" + rhs, true}, true
	}
}

// loopBlocks: the natural loop of header h.
func loopBlocks(fn *ssa.Function, h *ssa.BasicBlock) map[*ssa.BasicBlock]bool {
	return naturalLoop(h)
}

// enclosingLoop: the header of the innermost loop whose body b belongs to, counting the blocks that leave the loop
// early (`…; break`) as part of the body they come from.
func enclosingLoop(fn *ssa.Function, b *ssa.BasicBlock) *ssa.BasicBlock {
	for h := b; h != nil; h = h.Idom() {
		isHeader := false
		for _, p := range h.Preds {
			if h.Dominates(p) {
				isHeader = true
			}
		}
		if !isHeader {
			continue
		}
		body := loopBlocks(fn, h)
		if body[b] {
			return h
		}
		// backwards from b without passing the header: do we meet a body block?
		seen := map[*ssa.BasicBlock]bool{b: true}
		work := []*ssa.BasicBlock{b}
		for len(work) > 0 {
			x := work[0]
			work = work[1:]
			for _, p := range x.Preds {
				if p == h || seen[p] {
					continue
				}
				if body[p] {
					return h
				}
				seen[p] = true
				work = append(work, p)
			}
		}
	}
	return nil
}

// paramFlagAtoms: `if p` on a boolean parameter (hardDelete).
func paramFlag(v ssa.Value) (string, bool) {
	if p, ok := v.(*ssa.Parameter); ok && isBoolType(p.Type()) {
		return "flag:" + p.Name(), true
	}
	return "", false
}

// truthTable: the rows (over the canonical atoms inside `scope` plus boolean parameters tested anywhere) under which
// `reach(assume)` holds. Returns the table as a canonical string and the vatom keys.
func truthTable(fn *ssa.Function, scope map[*ssa.BasicBlock]bool, reach func(assume map[ssa.Value]bool) bool) (string, []string) {
	byKey := map[string][]struct {
		v   ssa.Value
		neg bool
	}{}
	for _, b := range fn.Blocks {
		for _, in := range b.Instrs {
			if scope[b] {
				if a, ok := viewAtom(in); ok {
					byKey[a.key] = append(byKey[a.key], struct {
						v   ssa.Value
						neg bool
					}{in.(ssa.Value), a.neg})
				}
			}
			if iff, ok := in.(*ssa.If); ok {
				c := iff.Cond
				if u, ok := c.(*ssa.UnOp); ok && u.Op == token.NOT {
					c = u.X
				}
				if k, ok := paramFlag(c); ok {
					dup := false
					for _, e := range byKey[k] {
						if e.v == c {
							dup = true
						}
					}
					if !dup {
						byKey[k] = append(byKey[k], struct {
							v   ssa.Value
							neg bool
						}{c, false})
					}
				}
			}
		}
	}
	var keys []string
	for k := range byKey {
		keys = append(keys, k)
	}
	sort.Strings(keys)
	if len(keys) > 8 {
		return "too-many-atoms", keys
	}
	var rows []string
	for m := 0; m < 1<<len(keys); m++ {
		assume := map[ssa.Value]bool{}
		var row []string
		for i, k := range keys {
			val := m&(1<<i) != 0
			for _, e := range byKey[k] {
				assume[e.v] = val != e.neg
			}
			if val {
				row = append(row, k)
			} else {
				row = append(row, "!"+k)
			}
		}
		if reach(assume) {
			rows = append(rows, strings.Join(row, "&"))
		}
	}
	return simplifyTable(keys, rows), keys
}

// simplifyTable drops atoms the table does not depend on, so that two predicates over different vatom sets compare
// equal when they are the same function.
func simplifyTable(keys []string, rows []string) string {
	set := map[string]bool{}
	for _, r := range rows {
		set[r] = true
	}
	parse := func(r string) map[string]bool {
		m := map[string]bool{}
		for _, lit := range strings.Split(r, "&") {
			if lit == "" {
				continue
			}
			if strings.HasPrefix(lit, "!") {
				m[lit[1:]] = false
			} else {
				m[lit] = true
			}
		}
		return m
	}
	render := func(m map[string]bool, ks []string) string {
		var out []string
		for _, k := range ks {
			if m[k] {
				out = append(out, k)
			} else {
				out = append(out, "!"+k)
			}
		}
		return strings.Join(out, "&")
	}
	var dep []string
	for _, k := range keys {
		depends := false
		for r := range set {
			m := parse(r)
			m[k] = !m[k]
			if !set[render(m, keys)] {
				depends = true
				break
			}
		}
		if depends {
			dep = append(dep, k)
		}
	}
	out := map[string]bool{}
	for r := range set {
		out[render(parse(r), dep)] = true
	}
	var rs []string
	for r := range out {
		rs = append(rs, r)
	}
	sort.Strings(rs)
	if len(rs) == 0 {
		return "never"
	}
	if len(dep) == 0 {
		return "always"
	}
	return strings.Join(rs, " | ")
}

// elemTypeName: the named element type of the slice an instruction's value/type refers to ("GraphEdge"/"ReverseEdge").
func sliceElemName(t types.Type) string {
	if p, ok := t.Underlying().(*types.Pointer); ok {
		t = p.Elem()
	}
	if sl, ok := t.Underlying().(*types.Slice); ok {
		t = sl.Elem()
	}
	if n, ok := t.(*types.Named); ok {
		return n.Obj().Name()
	}
	return ""
}

func ruleSIBviews(w *World, r *Report) {
	r.Doc("SIB-views", "in the edge store the forward (OutEdges) and reverse (InEdges) halves of AddEdge/RemoveEdge select entries by the same predicate (truth tables over the comparisons of record fields, computed on SSA): soft delete stamps exactly the ACTIVE version of the peer with the caller's timestamp in both, hard delete keeps exactly the other peers' entries in both, the look-ups of AddEdge stop on the active version of the peer in both, and the as-of filter is created <= T < deleted", 8)
	rm := w.Func("pkg/core", "DB.RemoveEdge")
	ad := w.Func("pkg/core", "DB.AddEdge")
	if rm == nil || ad == nil {
		r.Und("SIB-views", "anchor:AddEdge/RemoveEdge", "", "anchor lost")
		return
	}
	fn := w.SSAFunc(rm.Obj)
	views := []struct{ name, elem string }{{"forward", "GraphEdge"}, {"reverse", "ReverseEdge"}}
	// --- RemoveEdge: stamp (soft) and keep (hard) predicates per view
	stampSig, keepSig := map[string]string{}, map[string]string{}
	stampTS := map[string]bool{}
	for _, v := range views {
		// soft: stores to the DeletedAt field of an element of this view's list — in RemoveEdge itself or in a helper that
		// was extracted out of it (the conditions under which the helper is called are then part of the predicate)
		var stamps, keeps []ssa.Instruction
		for _, f := range append([]*ssa.Function{fn}, w.extractedHelpers(fn)...) {
			for _, b := range f.Blocks {
				for _, in := range b.Instrs {
					if st, ok := in.(*ssa.Store); ok {
						if fa, ok := st.Addr.(*ssa.FieldAddr); ok {
							owner, fld := structFieldName(fa.X.Type(), fa.Field)
							if fld == "DeletedAt" && strings.HasSuffix(owner, v.elem) {
								stamps = append(stamps, in)
								if p := capturedParam(st.Val); p != nil && isInt64(p.Type()) {
									if f == fn {
										stampTS[v.name] = true
									} else { // the helper's parameter must be fed with RemoveEdge's own at every call
										idx, fed := -1, true
										for i, hp := range f.Params {
											if hp == p {
												idx = i
											}
										}
										for _, cs := range callSitesOf(fn, f) {
											if idx < 0 || idx >= len(cs.Call.Args) {
												fed = false
												continue
											}
											if ap, ok := cs.Call.Args[idx].(*ssa.Parameter); !ok || !isInt64(ap.Type()) {
												fed = false
											}
										}
										if fed && idx >= 0 {
											stampTS[v.name] = true
										}
									}
								}
							}
						}
					}
					if c, ok := isBuiltinCall(in, "append"); ok && sliceElemName(c.Type()) == v.elem && enclosingLoop(f, c.Block()) != nil {
						keeps = append(keeps, in)
					}
				}
			}
		}
		reachTable := func(f *ssa.Function, e ssa.Instruction, inLoop bool) string {
			scope := map[*ssa.BasicBlock]bool{}
			if inLoop {
				if h := enclosingLoop(f, e.Block()); h != nil {
					scope = loopBlocks(f, h)
				}
			}
			tbl, _ := truthTable(f, scope, func(assume map[ssa.Value]bool) bool {
				found, _ := pathQuery{fn: f, target: func(in ssa.Instruction) bool { return in == e }, assume: assume}.find(entryPos(f))
				return found
			})
			return tbl
		}
		sig := func(effects []ssa.Instruction) string {
			if len(effects) == 0 {
				return "absent"
			}
			var parts []string
			for _, e := range effects {
				f := e.Parent()
				if pred := indexFuncPredicate(e); pred != nil && f == fn {
					// the element was selected by slices.IndexFunc: the predicate is the function literal
					parts = append(parts, andTables(reachTable(fn, e, true), closureTable(pred)))
					continue
				}
				if f == fn {
					parts = append(parts, reachTable(fn, e, true))
					continue
				}
				inner := reachTable(f, e, true)
				for _, cs := range callSitesOf(fn, f) {
					parts = append(parts, andTables(reachTable(fn, cs, false), inner))
				}
			}
			sort.Strings(parts)
			return strings.Join(parts, " ; ")
		}
		stampSig[v.name], keepSig[v.name] = sig(stamps), sig(keeps)
	}
	pos := w.Pos(rm.Decl.Pos())
	r.Cond(keepSig["forward"] == keepSig["reverse"], "SIB-views", "RemoveEdge:hard:forward=reverse", pos, "both keep on {"+keepSig["forward"]+"}", fmt.Sprintf("hard delete treats the two views differently: forward keeps entries on {%s}, reverse on {%s}: outgoing and incoming views disagree after a hard unlink", keepSig["forward"], keepSig["reverse"]))
	r.Cond(stampSig["forward"] == stampSig["reverse"], "SIB-views", "RemoveEdge:soft:forward=reverse", pos, "both stamp on {"+stampSig["forward"]+"}", fmt.Sprintf("soft delete selects the version to stamp differently: forward {%s}, reverse {%s}: after link→unlink→re-link a later unlink re-stamps the old tombstone in one view and leaves the active entry standing, so the views disagree", stampSig["forward"], stampSig["reverse"]))
	r.Cond(keepSig["forward"] == "!PEER==peer&flag:hardDelete", "SIB-views", "RemoveEdge:hard:erases-all-versions", pos, "hard delete keeps exactly the entries of other peers", "hard delete keeps entries on {"+keepSig["forward"]+"} instead of {!PEER==peer&flag:hardDelete}: superseded or soft-deleted versions survive a hard unlink and remain visible to as-of queries (or other peers' entries are dropped)")
	r.Cond(stampSig["forward"] == "DeletedAt==0&PEER==peer&!flag:hardDelete", "SIB-views", "RemoveEdge:soft:marks-active-version", pos, "soft delete stamps exactly the active version of the peer", "soft delete stamps on {"+stampSig["forward"]+"} instead of {DeletedAt==0&PEER==peer&!flag:hardDelete}: it can stamp an already deleted version, or another peer's entry")
	for i, v := range views {
		r.Cond(stampTS[v.name], "SIB-views", fmt.Sprintf("RemoveEdge:soft:stamps-timestamp#%d", i+1), pos, "DeletedAt = the caller's timestamp", "soft delete ("+v.name+" view) does not store the caller's timestamp parameter into DeletedAt (history must carry the journaled time)")
	}
	// --- AddEdge: the look-up loops leave early exactly on the active version of the peer
	atop := w.SSAFunc(ad.Obj)
	lookSig := map[string]string{}
	for _, v := range views {
		var sigs []string
		// (each half of AddEdge may be a function of its own, called by AddEdge alone)
		for _, afn := range append([]*ssa.Function{atop}, w.extractedHelpers(atop)...) {
			seenH := map[*ssa.BasicBlock]bool{}
			for _, b := range afn.Blocks {
				h := loopHeader(b)
				if h == nil || seenH[h] {
					continue
				}
				seenH[h] = true
				body := loopBlocks(afn, h)
				// the loop must read this view's records
				reads := false
				for lb := range body {
					for _, in := range lb.Instrs {
						if ia, ok := in.(*ssa.IndexAddr); ok && sliceElemName(ia.X.Type()) == v.elem {
							reads = true
						}
					}
				}
				if !reads {
					continue
				}
				// early exit: a block outside the loop entered from a body block other than the header
				exitEdges := map[edgeKey]bool{}
				for si, s := range h.Succs {
					if !body[s] {
						exitEdges[edgeKey{h, si}] = true
					}
				}
				var entry *ssa.BasicBlock
				for _, s := range h.Succs {
					if body[s] {
						entry = s
					}
				}
				if entry == nil {
					continue
				}
				tbl, _ := truthTable(afn, body, func(assume map[ssa.Value]bool) bool {
					found, _ := pathQuery{fn: afn, target: func(in ssa.Instruction) bool { return !body[in.Block()] }, blocked: exitEdges, assume: assume}.find(ipos{entry, -1})
					return found
				})
				sigs = append(sigs, tbl)
			}
			// the same look-up written as slices.IndexFunc / slices.ContainsFunc over this view's records: the predicate is
			// the closure, "stops on" is "the closure answers true"
			for _, b := range afn.Blocks {
				for _, in := range b.Instrs {
					c, ok := in.(*ssa.Call)
					if !ok || len(c.Call.Args) != 2 || sliceElemName(c.Call.Args[0].Type()) != v.elem {
						continue
					}
					callee := c.Call.StaticCallee()
					if callee == nil || callee.Pkg == nil && callee.Origin() == nil {
						continue
					}
					o := callee
					if callee.Origin() != nil {
						o = callee.Origin()
					}
					if o.Pkg == nil || o.Pkg.Pkg.Path() != "slices" || (o.Name() != "IndexFunc" && o.Name() != "ContainsFunc") {
						continue
					}
					var pred *ssa.Function
					switch f := c.Call.Args[1].(type) {
					case *ssa.MakeClosure:
						pred, _ = f.Fn.(*ssa.Function)
					case *ssa.Function:
						pred = f
					}
					if pred == nil || len(pred.Blocks) == 0 {
						sigs = append(sigs, "predicate-not-a-function-literal")
						continue
					}
					sigs = append(sigs, closureTable(pred))
				}
			}
		}
		sort.Strings(sigs)
		lookSig[v.name] = strings.Join(sigs, " ; ")
	}
	apos := w.Pos(ad.Decl.Pos())
	// (a look-up for a version CREATED at the record's timestamp is the replay-idempotence test — CDC-15 —, not the look-up
	// for the active version: it may be a helper, or a loop of AddEdge itself, and only the forward view needs it)
	for _, vn := range []string{"forward", "reverse"} {
		var keep []string
		for _, sg := range strings.Split(lookSig[vn], " ; ") {
			if !strings.Contains(sg, "CreatedAt==") {
				keep = append(keep, sg)
			}
		}
		lookSig[vn] = strings.Join(keep, " ; ")
	}
	r.Cond(lookSig["forward"] == lookSig["reverse"] && lookSig["forward"] == "DeletedAt==0&PEER==peer", "SIB-views", "AddEdge:active-lookup:forward=reverse", apos, "both look-ups stop on {"+lookSig["forward"]+"}", fmt.Sprintf("AddEdge looks up the existing edge differently in the two views (or not by the active version of the peer): forward {%s}, reverse {%s}: after a soft unlink a re-link is not mirrored in the incoming view", lookSig["forward"], lookSig["reverse"]))
	// --- isActiveAtTime: decided over every ordering of its arguments and 0
	act := w.Func("pkg/core", "isActiveAtTime")
	if act == nil {
		r.Und("SIB-views", "anchor:isActiveAtTime", "", "anchor lost")
		return
	}
	ok, why := decideByOrderings(w.SSAFunc(act.Obj), func(a []int64) bool {
		created, deleted, t := a[0], a[1], a[2]
		if t == 0 {
			return deleted == 0
		}
		return created <= t && (deleted == 0 || deleted > t)
	})
	switch {
	case why == "":
		r.Ok("SIB-views", "isActiveAtTime:created<=T<deleted", w.Pos(act.Decl.Pos()), "on all 343 orderings of (created, deleted, T, 0): T==0 → never deleted; else created <= T and (never deleted or deleted > T)")
	case ok:
		r.Und("SIB-views", "isActiveAtTime:created<=T<deleted", w.Pos(act.Decl.Pos()), "isActiveAtTime is no longer a pure comparison function of its three arguments: "+why)
	default:
		r.Bad("SIB-views", "isActiveAtTime:created<=T<deleted", w.Pos(act.Decl.Pos()), "the as-of filter is not created <= T < deleted: "+why+": as-of queries at a timestamp boundary include or exclude the wrong version")
	}
}

func isInt64(t types.Type) bool {
	b, ok := t.Underlying().(*types.Basic)
	return ok && b.Kind() == types.Int64
}

// decideByOrderings decides a function whose result depends on its integer parameters only through comparisons with
// one another and with constants: every relative ordering of the parameters and 0 is covered by argument values in
// [-3,3], so evaluating the comparison tree on those 7^n tuples is a complete case analysis, not a sample.
// Returns (true,"") when the function equals spec everywhere; (false, counterexample) when it differs;
// (true, reason) when the function is outside this fragment (undecidable here).
func decideByOrderings(fn *ssa.Function, spec func([]int64) bool) (bool, string) {
	if fn == nil || len(fn.Blocks) == 0 {
		return true, "no body"
	}
	n := len(fn.Params)
	for _, p := range fn.Params {
		if !isInt64(p.Type()) {
			return true, "parameter " + p.Name() + " is not int64"
		}
	}
	// fragment check: only If/Jump/Return/Phi/comparisons/NOT; comparison operands are parameters or small constants
	for _, b := range fn.Blocks {
		for _, in := range b.Instrs {
			switch x := in.(type) {
			case *ssa.If, *ssa.Jump, *ssa.Return, *ssa.Phi, *ssa.DebugRef:
			case *ssa.UnOp:
				if x.Op != token.NOT {
					return true, "operation " + x.String()
				}
			case *ssa.BinOp:
				switch x.Op {
				case token.EQL, token.NEQ, token.LSS, token.LEQ, token.GTR, token.GEQ:
				default:
					return true, "arithmetic " + x.String()
				}
				for _, o := range []ssa.Value{x.X, x.Y} {
					switch y := o.(type) {
					case *ssa.Parameter:
					case *ssa.Const:
						if v, ok := constInt(y); !ok || v != 0 {
							return true, "comparison with a constant other than 0"
						}
					default:
						return true, "comparison of a computed value"
					}
				}
			default:
				return true, fmt.Sprintf("instruction %T", in)
			}
		}
	}
	args := make([]int64, n)
	var eval func(i int) string
	run := func() (bool, bool) {
		env := map[ssa.Value]any{}
		for i, p := range fn.Params {
			env[p] = args[i]
		}
		val := func(v ssa.Value) any {
			if c, ok := v.(*ssa.Const); ok {
				if isBoolType(c.Type()) {
					return c.Value != nil && c.Value.String() == "true"
				}
				iv, _ := constInt(c)
				return iv
			}
			return env[v]
		}
		b, prev := fn.Blocks[0], (*ssa.BasicBlock)(nil)
		for steps := 0; steps < 1000; steps++ {
			// phis first (simultaneous)
			upd := map[ssa.Value]any{}
			for _, in := range b.Instrs {
				p, ok := in.(*ssa.Phi)
				if !ok {
					break
				}
				for i, pb := range b.Preds {
					if pb == prev {
						upd[p] = val(p.Edges[i])
					}
				}
			}
			for k, v := range upd {
				env[k] = v
			}
			for _, in := range b.Instrs {
				switch x := in.(type) {
				case *ssa.UnOp:
					env[x] = !val(x.X).(bool)
				case *ssa.BinOp:
					l, r := val(x.X), val(x.Y)
					if lb, ok := l.(bool); ok {
						rb := r.(bool)
						env[x] = (lb == rb) == (x.Op == token.EQL)
						continue
					}
					li, ri := l.(int64), r.(int64)
					var res bool
					switch x.Op {
					case token.EQL:
						res = li == ri
					case token.NEQ:
						res = li != ri
					case token.LSS:
						res = li < ri
					case token.LEQ:
						res = li <= ri
					case token.GTR:
						res = li > ri
					case token.GEQ:
						res = li >= ri
					}
					env[x] = res
				case *ssa.If:
					prev = b
					if val(x.Cond).(bool) {
						b = b.Succs[0]
					} else {
						b = b.Succs[1]
					}
				case *ssa.Jump:
					prev = b
					b = b.Succs[0]
				case *ssa.Return:
					if len(x.Results) != 1 {
						return false, false
					}
					rv, ok := val(x.Results[0]).(bool)
					return rv, ok
				}
			}
		}
		return false, false
	}
	eval = func(i int) string {
		if i == n {
			got, ok := run()
			if !ok {
				return "evaluation left the fragment"
			}
			if want := spec(args); got != want {
				return fmt.Sprintf("for arguments %v it returns %v, the filter must be %v", args, got, want)
			}
			return ""
		}
		for v := int64(-3); v <= 3; v++ {
			args[i] = v
			if s := eval(i + 1); s != "" {
				return s
			}
		}
		return ""
	}
	if s := eval(0); s != "" {
		if s == "evaluation left the fragment" {
			return true, s
		}
		return false, s
	}
	return true, ""
}

// ---------- GRD-time on the call graph: the query time reaches every time-filtered read ----------

// valueRoots: the values v can be, followed through phis, single-store locals, conversions and closure bindings
// (a free variable of a closure is resolved to what the enclosing function bound to it).
func valueRoots(v ssa.Value) []ssa.Value {
	var out []ssa.Value
	seen := map[ssa.Value]bool{}
	var rec func(x ssa.Value, depth int)
	rec = func(x ssa.Value, depth int) {
		if x == nil || seen[x] || depth > 12 {
			return
		}
		seen[x] = true
		switch y := x.(type) {
		case *ssa.Phi:
			for _, e := range y.Edges {
				rec(e, depth+1)
			}
		case *ssa.Convert:
			rec(y.X, depth+1)
		case *ssa.ChangeType:
			rec(y.X, depth+1)
		case *ssa.UnOp:
			if y.Op == token.MUL {
				switch cell := y.X.(type) {
				case *ssa.Alloc:
					n := 0
					for _, ref := range *cell.Referrers() {
						if st, ok := ref.(*ssa.Store); ok && st.Addr == cell {
							n++
							rec(st.Val, depth+1)
						}
					}
					if n > 0 {
						return
					}
				case *ssa.FreeVar:
					// the cell the parent bound: its stores in the parent
					if par := cell.Parent().Parent(); par != nil {
						idx := -1
						for i, fv := range cell.Parent().FreeVars {
							if fv == cell {
								idx = i
							}
						}
						for _, b := range par.Blocks {
							for _, in := range b.Instrs {
								if mc, ok := in.(*ssa.MakeClosure); ok && mc.Fn == cell.Parent() && idx >= 0 && idx < len(mc.Bindings) {
									if al, ok := mc.Bindings[idx].(*ssa.Alloc); ok {
										for _, ref := range *al.Referrers() {
											if st, ok := ref.(*ssa.Store); ok && st.Addr == al {
												rec(st.Val, depth+1)
											}
										}
									} else {
										rec(mc.Bindings[idx], depth+1)
									}
								}
							}
						}
						return
					}
				}
			}
			out = append(out, x)
		case *ssa.FreeVar:
			if par := y.Parent().Parent(); par != nil {
				idx := -1
				for i, fv := range y.Parent().FreeVars {
					if fv == y {
						idx = i
					}
				}
				for _, b := range par.Blocks {
					for _, in := range b.Instrs {
						if mc, ok := in.(*ssa.MakeClosure); ok && mc.Fn == y.Parent() && idx >= 0 && idx < len(mc.Bindings) {
							rec(mc.Bindings[idx], depth+1)
						}
					}
				}
				return
			}
			out = append(out, x)
		default:
			out = append(out, x)
		}
	}
	rec(v, 0)
	return out
}

type tparam struct {
	fn  *ssa.Function
	idx int
}

// timeParams: the (function, parameter) pairs whose value reaches the query-time argument of the as-of filter
// (isActiveAtTime), directly or through other such parameters — computed as a fixpoint over static calls.
func timeParams(w *World) (map[tparam]bool, bool) {
	act := w.FuncObj("pkg/core", "isActiveAtTime")
	if act == nil {
		return nil, false
	}
	afn := w.SSAFunc(act)
	if afn == nil || len(afn.Params) != 3 {
		return nil, false
	}
	tp := map[tparam]bool{{afn, 2}: true}
	var fns []*ssa.Function
	for _, fi := range w.ModuleFuncs() {
		if fn := w.SSAFunc(fi.Obj); fn != nil {
			fns = append(fns, fn)
		}
	}
	for changed := true; changed; {
		changed = false
		for _, root := range fns {
			for _, f := range append([]*ssa.Function{root}, closuresOf(root)...) {
				for _, b := range f.Blocks {
					for _, in := range b.Instrs {
						c, ok := in.(*ssa.Call)
						if !ok {
							continue
						}
						g := c.Call.StaticCallee()
						if g == nil {
							continue
						}
						for q := range g.Params {
							if !tp[tparam{g, q}] || q >= len(c.Call.Args) {
								continue
							}
							for _, leaf := range valueRoots(c.Call.Args[q]) {
								if p, ok := leaf.(*ssa.Parameter); ok {
									for i, pp := range p.Parent().Params {
										if pp == p && !tp[tparam{p.Parent(), i}] {
											tp[tparam{p.Parent(), i}] = true
											changed = true
										}
									}
								}
							}
						}
					}
				}
			}
		}
	}
	return tp, true
}

// ruleGRDtime: a function that is given the query time hands that time to every time-filtered read it makes.
func ruleGRDtime(w *World, r *Report) {
	r.Doc("GRD-time", "a function that receives the query time (a parameter that reaches the as-of filter isActiveAtTime through the call graph) passes that same parameter to every call whose corresponding parameter reaches the filter too: forward and backward frontier, outgoing and incoming view all look at the same moment", 9)
	tp, ok := timeParams(w)
	if !ok {
		r.Und("GRD-time", "anchor:isActiveAtTime", "", "anchor lost")
		return
	}
	hasT := map[*ssa.Function][]int{}
	for k := range tp {
		hasT[k.fn] = append(hasT[k.fn], k.idx)
	}
	n := 0
	for _, fi := range w.ModuleFuncs() {
		root := w.SSAFunc(fi.Obj)
		if root == nil || len(hasT[root]) == 0 {
			continue
		}
		per := 0
		for _, f := range append([]*ssa.Function{root}, closuresOf(root)...) {
			for _, b := range f.Blocks {
				for _, in := range b.Instrs {
					c, ok := in.(*ssa.Call)
					if !ok {
						continue
					}
					g := c.Call.StaticCallee()
					if g == nil {
						continue
					}
					for q := range g.Params {
						if !tp[tparam{g, q}] || q >= len(c.Call.Args) {
							continue
						}
						per++
						n++
						has := false
						for _, leaf := range valueRoots(c.Call.Args[q]) {
							if p, ok := leaf.(*ssa.Parameter); ok && p.Parent() == root {
								for _, i := range hasT[root] {
									if root.Params[i] == p {
										has = true
									}
								}
							}
						}
						r.Cond(has, "GRD-time", fmt.Sprintf("%s:time-filtered-read#%d:%s", shortName(fi.Obj), per, g.Name()), w.Pos(c.Pos()), "the read receives the caller's query time", shortName(fi.Obj)+" is given the query time but calls "+g.Name()+" with a different time value: that side of the traversal sees the graph as of another moment — a time-travel query returns edges that did not exist then, or misses ones that did")
					}
				}
			}
		}
	}
	// (b) no call to a function that fixes the time itself ("as of now") from a function that is given the query time
	fixes := map[*ssa.Function]string{} // function -> the time-filtered read it (transitively) makes with its own time
	var all []*ssa.Function
	for _, fi := range w.ModuleFuncs() {
		if fn := w.SSAFunc(fi.Obj); fn != nil {
			all = append(all, fn)
		}
	}
	calls := func(root *ssa.Function, visit func(c *ssa.Call, g *ssa.Function)) {
		for _, f := range append([]*ssa.Function{root}, closuresOf(root)...) {
			for _, b := range f.Blocks {
				for _, in := range b.Instrs {
					if c, ok := in.(*ssa.Call); ok {
						if g := c.Call.StaticCallee(); g != nil {
							visit(c, g)
						}
					}
				}
			}
		}
	}
	for _, root := range all {
		calls(root, func(c *ssa.Call, g *ssa.Function) {
			for q := range g.Params {
				if !tp[tparam{g, q}] || q >= len(c.Call.Args) {
					continue
				}
				own := false
				for _, leaf := range valueRoots(c.Call.Args[q]) {
					if p, ok := leaf.(*ssa.Parameter); ok && p.Parent() == root {
						own = true
					}
				}
				if !own {
					fixes[root] = g.Name()
				}
			}
		})
	}
	for changed := true; changed; {
		changed = false
		for _, root := range all {
			if fixes[root] != "" {
				continue
			}
			calls(root, func(c *ssa.Call, g *ssa.Function) {
				if fixes[g] != "" && fixes[root] == "" && len(hasT[g]) == 0 {
					fixes[root] = g.Name() + "→" + fixes[g]
					changed = true
				}
			})
		}
	}
	for _, fi := range w.ModuleFuncs() {
		root := w.SSAFunc(fi.Obj)
		if root == nil || len(hasT[root]) == 0 {
			continue
		}
		seenG := map[*ssa.Function]bool{}
		calls(root, func(c *ssa.Call, g *ssa.Function) {
			if fixes[g] == "" || len(hasT[g]) > 0 || seenG[g] {
				return
			}
			seenG[g] = true
			r.Bad("GRD-time", fmt.Sprintf("%s:reads-as-of-now:%s", shortName(fi.Obj), g.Name()), w.Pos(c.Pos()), shortName(fi.Obj)+" is given the query time but calls "+g.Name()+", which reads edges at a time of its own choosing ("+fixes[g]+"): that part of the traversal sees the graph as it is now while the rest sees it as of the queried time — a time-travel query returns edges that did not exist then, or misses ones that did")
		})
		r.Ok("GRD-time", shortName(fi.Obj)+":no-read-as-of-now", w.Pos(fi.Decl.Pos()), "calls no function that fixes the read time itself")
	}
	r.Count("time_parameters", len(tp))
	if n < 4 {
		r.Und("GRD-time", "anchor:time-travel-reads", "", fmt.Sprintf("expected ≥4 time-filtered reads in functions that take the query time, found %d", n))
	}
}

// closureAnswers evaluates a boolean function literal under an assignment of its comparison atoms: the blocks are walked
// from the entry along the branches the assignment selects, phis take the value of the edge they were entered through.
// known=false when a branch or the result depends on something that is not an atom.
func closureAnswers(fn *ssa.Function, assume map[ssa.Value]bool) (result, known bool) {
	var prev, b *ssa.BasicBlock
	var eval func(v ssa.Value, depth int) (bool, bool)
	eval = func(v ssa.Value, depth int) (bool, bool) {
		if depth > 12 {
			return false, false
		}
		if b, ok := assume[v]; ok {
			return b, true
		}
		switch x := v.(type) {
		case *ssa.Const:
			if x.Value != nil && x.Value.Kind() == constant.Bool {
				return constant.BoolVal(x.Value), true
			}
		case *ssa.UnOp:
			if x.Op == token.NOT {
				b, ok := eval(x.X, depth+1)
				return !b, ok
			}
		case *ssa.Phi:
			if x.Block() != b { // a phi of an earlier block: the edge it was entered through is no longer known
				return false, false
			}
			for i, p := range x.Block().Preds {
				if p == prev {
					return eval(x.Edges[i], depth+1)
				}
			}
		}
		return false, false
	}
	b = fn.Blocks[0]
	for steps := 0; steps < 64; steps++ {
		// phis of b were entered from prev; evaluate lazily at use. A phi used by a later block is not supported.
		switch t := b.Instrs[len(b.Instrs)-1].(type) {
		case *ssa.Return:
			if len(t.Results) != 1 {
				return false, false
			}
			return eval(t.Results[0], 0)
		case *ssa.If:
			c, ok := eval(t.Cond, 0)
			if !ok {
				return false, false
			}
			prev = b
			if c {
				b = b.Succs[0]
			} else {
				b = b.Succs[1]
			}
		case *ssa.Jump:
			prev = b
			b = b.Succs[0]
		default:
			return false, false
		}
	}
	return false, false
}

// callSitesOf: the static calls of callee in fn and its function literals.
func callSitesOf(fn, callee *ssa.Function) []*ssa.Call {
	var out []*ssa.Call
	for _, f := range append([]*ssa.Function{fn}, closuresOf(fn)...) {
		for _, b := range f.Blocks {
			for _, in := range b.Instrs {
				if c, ok := in.(*ssa.Call); ok && c.Call.StaticCallee() == callee {
					out = append(out, c)
				}
			}
		}
	}
	return out
}

// andTables: the conjunction of two truth tables over disjoint atoms, in the canonical form truthTable renders.
func andTables(a, b string) string {
	switch {
	case a == "never" || b == "never":
		return "never"
	case a == "always":
		return b
	case b == "always":
		return a
	}
	key := func(l string) string { return strings.TrimPrefix(l, "!") }
	var rows []string
	for _, ra := range strings.Split(a, " | ") {
		for _, rb := range strings.Split(b, " | ") {
			lits := append(strings.Split(ra, "&"), strings.Split(rb, "&")...)
			sort.Slice(lits, func(i, j int) bool { return key(lits[i]) < key(lits[j]) })
			rows = append(rows, strings.Join(lits, "&"))
		}
	}
	sort.Strings(rows)
	return strings.Join(rows, " | ")
}

// indexFuncPredicate: e stores into (a field of) list[i] where i is the result of slices.IndexFunc(list, pred): pred.
func indexFuncPredicate(e ssa.Instruction) *ssa.Function {
	st, ok := e.(*ssa.Store)
	if !ok {
		return nil
	}
	a := st.Addr
	if fa, ok := a.(*ssa.FieldAddr); ok {
		a = fa.X
	}
	ia, ok := a.(*ssa.IndexAddr)
	if !ok {
		return nil
	}
	for _, leaf := range phiLeavesOf(ia.Index) {
		c, ok := leaf.(*ssa.Call)
		if !ok || len(c.Call.Args) != 2 {
			continue
		}
		g := c.Call.StaticCallee()
		if g == nil {
			continue
		}
		o := g
		if g.Origin() != nil {
			o = g.Origin()
		}
		if o.Pkg == nil || o.Pkg.Pkg.Path() != "slices" || o.Name() != "IndexFunc" {
			continue
		}
		switch f := c.Call.Args[1].(type) {
		case *ssa.MakeClosure:
			if pf, ok := f.Fn.(*ssa.Function); ok {
				return pf
			}
		case *ssa.Function:
			return f
		}
	}
	return nil
}

// closureTable: the truth table of "the boolean function literal answers true", over its comparison atoms.
func closureTable(pred *ssa.Function) string {
	all := map[*ssa.BasicBlock]bool{}
	for _, pb := range pred.Blocks {
		all[pb] = true
	}
	undecided := false
	tbl, _ := truthTable(pred, all, func(assume map[ssa.Value]bool) bool {
		res, known := closureAnswers(pred, assume)
		if !known {
			undecided = true
		}
		return res
	})
	if undecided {
		return "predicate-not-evaluated"
	}
	return tbl
}
