package main

// rules_lck.go — LCK: lock discipline over the whole module (may/must-hold dataflow on SSA with
// interprocedural summaries, VTA call edges for callbacks and interface calls).
//
// Lock class  = (declaring struct type, field path; arrays/slices/maps collapsed to [*]).
// Lock instance token = root of the address expression when it is a parameter/receiver ("p0", "p1"…),
// a global ("g:name") or unknown ("*").

import (
	"fmt"
	"go/token"
	"os"
	"go/types"
	"sort"
	"strings"

	"golang.org/x/tools/go/callgraph"
	"golang.org/x/tools/go/ssa"
)

type lockKey struct {
	class string
	inst  string
}

type held struct {
	mode byte // 'W' or 'R'
	must bool
	site token.Pos
}

type lstate map[lockKey]held

func (s lstate) clone() lstate {
	o := make(lstate, len(s))
	for k, v := range s {
		o[k] = v
	}
	return o
}

// join: may = union, must = intersection. Returns whether dst changed.
func joinInto(dst, src lstate) bool {
	changed := false
	for k, v := range src {
		if d, ok := dst[k]; ok {
			nm := d.must && v.must
			if nm != d.must {
				d.must = nm
				dst[k] = d
				changed = true
			}
		} else {
			v.must = false
			dst[k] = v
			changed = true
		}
	}
	for k, d := range dst {
		if _, ok := src[k]; !ok && d.must {
			d.must = false
			dst[k] = d
			changed = true
		}
	}
	return changed
}

type acq struct {
	key  lockKey
	mode byte
	via  string // callee chain for the witness
	site token.Pos
}

type lsummary struct {
	acquires map[lockKey]acq   // transitively may-acquire (inst relative to own params)
	netHold  map[lockKey]byte  // held at (every) return though not at entry: acquire wrapper
	netRel   map[lockKey]bool  // released though not acquired: release wrapper
	tryKey   *lockKey          // function result == TryLock on this key
	tryMode  byte
	requires map[string]string // guard class -> first field needing it (LCK-5), unmet inside the function
	// paramHeld[k]: lock classes held (must) whenever the function calls its k-th parameter (a callback)
	paramHeld map[int]map[string]bool
}

type orderEdge struct {
	from, to string
	fn       string
	site     token.Pos
	via      string
	sameInst bool
}

type lckResult struct {
	w          *World
	g          *callgraph.Graph
	sum        map[*ssa.Function]*lsummary
	edges      map[string]orderEdge // from->to : first witness
	reentrant  []orderEdge          // same instance re-acquired
	unpaired   []string
	unpairedAt map[string]token.Pos
	badRelease map[string]token.Pos
	unresolved map[string]token.Pos
	classes    map[string]int
	sites      int
	funcs      []*ssa.Function
	siteCallee map[ssa.CallInstruction][]*ssa.Function
	guardViol  map[string]token.Pos
	guardWhy   map[string]string
	guardSeen  int
	reporting  bool
	mustAt     map[ssa.Instruction]lstate // state before selected instructions (for GRD-rmw)
	wantState  func(ssa.Instruction) bool
}

var lckCache *lckResult

func mutexKind(t types.Type) string {
	if p, ok := t.(*types.Pointer); ok {
		t = p.Elem()
	}
	n, ok := t.(*types.Named)
	if !ok || n.Obj().Pkg() == nil || n.Obj().Pkg().Path() != "sync" {
		return ""
	}
	switch n.Obj().Name() {
	case "Mutex", "RWMutex":
		return n.Obj().Name()
	}
	return ""
}

func typeLabel(t types.Type) string {
	if p, ok := t.(*types.Pointer); ok {
		t = p.Elem()
	}
	if n, ok := t.(*types.Named); ok {
		pk := ""
		if n.Obj().Pkg() != nil {
			pk = strings.TrimPrefix(n.Obj().Pkg().Path(), modPath+"/")
			if i := strings.LastIndexByte(pk, '/'); i >= 0 {
				pk = pk[i+1:]
			}
		}
		return pk + "." + n.Obj().Name()
	}
	return t.String()
}

// rootToken: instance token of the object an address expression is rooted in.
func rootToken(fn *ssa.Function, v ssa.Value, depth int) string {
	if depth > 8 || v == nil {
		return "*"
	}
	switch x := v.(type) {
	case *ssa.Parameter:
		for i, p := range fn.Params {
			if p == x {
				return fmt.Sprintf("p%d", i)
			}
		}
	case *ssa.FreeVar:
		return "fv:" + x.Name()
	case *ssa.Global:
		return "g:" + x.Name()
	case *ssa.FieldAddr:
		return rootToken(fn, x.X, depth+1)
	case *ssa.UnOp:
		if x.Op == token.MUL {
			// load of a pointer-typed field: a different object than the holder → fresh token per field path
			if fa, ok := x.X.(*ssa.FieldAddr); ok {
				r := rootToken(fn, fa.X, depth+1)
				if r == "*" {
					return "*"
				}
				return r + "." + fieldName(fa)
			}
			if al, ok := x.X.(*ssa.Alloc); ok {
				// local variable (possibly captured): single store → follow
				var val ssa.Value
				n := 0
				for _, ref := range *al.Referrers() {
					if st, ok := ref.(*ssa.Store); ok && st.Addr == al {
						n++
						val = st.Val
					}
				}
				if n == 1 {
					return rootToken(fn, val, depth+1)
				}
			}
			if fv, ok := x.X.(*ssa.FreeVar); ok {
				return "fv:" + fv.Name()
			}
		}
	case *ssa.IndexAddr:
		return "*"
	}
	return "*"
}

func fieldName(fa *ssa.FieldAddr) string {
	if pt, ok := fa.X.Type().Underlying().(*types.Pointer); ok {
		if st, ok := pt.Elem().Underlying().(*types.Struct); ok {
			return st.Field(fa.Field).Name()
		}
	}
	return "?"
}

func fieldOwner(fa *ssa.FieldAddr) string { return typeLabel(fa.X.Type()) }

// resolveLock maps the receiver value of a sync.(RW)Mutex method call to a lock key.
func (lr *lckResult) resolveLock(fn *ssa.Function, v ssa.Value, depth int) (lockKey, bool) {
	if depth > 10 || v == nil {
		return lockKey{}, false
	}
	switch x := v.(type) {
	case *ssa.FieldAddr:
		return lockKey{fieldOwner(x) + "." + fieldName(x), rootToken(fn, x.X, 0)}, true
	case *ssa.IndexAddr:
		// element of an array/slice of mutexes (or of structs holding one: handled by FieldAddr above)
		base := x.X
		if ld, ok := base.(*ssa.UnOp); ok && ld.Op == token.MUL {
			base = ld.X
		}
		if fa, ok := base.(*ssa.FieldAddr); ok {
			return lockKey{fieldOwner(fa) + "." + fieldName(fa) + "[*]", "*"}, true
		}
		if k, ok := lr.resolveLock(fn, base, depth+1); ok {
			return lockKey{k.class + "[*]", "*"}, true
		}
	case *ssa.UnOp:
		if x.Op != token.MUL {
			return lockKey{}, false
		}
		switch a := x.X.(type) {
		case *ssa.FieldAddr: // pointer-typed mutex field
			return lockKey{fieldOwner(a) + "." + fieldName(a), rootToken(fn, a.X, 0)}, true
		case *ssa.IndexAddr: // slice of *Mutex
			if k, ok := lr.sliceElemLock(fn, a.X, 0); ok {
				return k, true
			}
			if k, ok := lr.resolveLock(fn, a, depth+1); ok {
				return k, true
			}
		case *ssa.Alloc:
			var keys []lockKey
			for _, ref := range *a.Referrers() {
				if st, ok := ref.(*ssa.Store); ok && st.Addr == a {
					if k, ok := lr.resolveLock(fn, st.Val, depth+1); ok {
						keys = append(keys, k)
					}
				}
			}
			if len(keys) > 0 {
				k := keys[0]
				for _, o := range keys[1:] {
					if o.class != k.class {
						return lockKey{}, false
					}
					if o.inst != k.inst {
						k.inst = "*"
					}
				}
				return k, true
			}
		case *ssa.FreeVar:
			// captured variable: resolve in the parent
			if par := fn.Parent(); par != nil {
				for i, fv := range fn.FreeVars {
					if fv != a {
						continue
					}
					for _, b := range par.Blocks {
						for _, in := range b.Instrs {
							if mc, ok := in.(*ssa.MakeClosure); ok && mc.Fn == fn && i < len(mc.Bindings) {
								if al, ok := mc.Bindings[i].(*ssa.Alloc); ok {
									ld := &ssa.UnOp{Op: token.MUL, X: al}
									_ = ld
									var keys []lockKey
									for _, ref := range *al.Referrers() {
										if st, ok := ref.(*ssa.Store); ok && st.Addr == al {
											if k, ok := lr.resolveLock(par, st.Val, depth+1); ok {
												keys = append(keys, k)
											}
										}
									}
									if len(keys) > 0 {
										k := keys[0]
										k.inst = "*"
										return k, true
									}
								}
							}
						}
					}
				}
			}
		}
	case *ssa.Lookup: // map[string]*sync.RWMutex
		base := x.X
		if ld, ok := base.(*ssa.UnOp); ok && ld.Op == token.MUL {
			if fa, ok := ld.X.(*ssa.FieldAddr); ok {
				return lockKey{fieldOwner(fa) + "." + fieldName(fa) + "[*]", "*"}, true
			}
		}
	case *ssa.Extract:
		switch t := x.Tuple.(type) {
		case *ssa.Lookup:
			return lr.resolveLock(fn, t, depth+1)
		case *ssa.Call:
			// sync.Map.LoadOrStore / Load on a field
			if o := calleeObj(&t.Call); o != nil && o.Pkg() != nil && o.Pkg().Path() == "sync" && strings.HasPrefix(shortName(o), "Map.") {
				if fa, ok := t.Call.Args[0].(*ssa.FieldAddr); ok {
					return lockKey{fieldOwner(fa) + "." + fieldName(fa) + "[*]", "*"}, true
				}
			}
		case *ssa.TypeAssert:
			return lr.resolveLock(fn, t.X, depth+1)
		}
	case *ssa.TypeAssert:
		return lr.resolveLock(fn, x.X, depth+1)
	case *ssa.Phi:
		var k lockKey
		first := true
		for _, e := range x.Edges {
			ek, ok := lr.resolveLock(fn, e, depth+1)
			if !ok {
				return lockKey{}, false
			}
			if first {
				k, first = ek, false
			} else if ek.class != k.class {
				return lockKey{}, false
			} else if ek.inst != k.inst {
				k.inst = "*"
			}
		}
		return k, !first
	case *ssa.Call:
		// function returning a *Mutex: &recv.field[i]
		if cf := x.Call.StaticCallee(); cf != nil && len(cf.Blocks) > 0 {
			for _, b := range cf.Blocks {
				if rt, ok := b.Instrs[len(b.Instrs)-1].(*ssa.Return); ok && len(rt.Results) == 1 {
					if k, ok := lr.resolveLock(cf, rt.Results[0], depth+1); ok {
						k.inst = mapInst(k.inst, fn, x.Call.Args)
						return k, true
					}
				}
			}
		}
	case *ssa.Parameter:
		for i, p := range fn.Params {
			if p == x {
				return lockKey{fmt.Sprintf("<param%d>", i), fmt.Sprintf("p%d", i)}, true
			}
		}
	case *ssa.MakeInterface:
		return lr.resolveLock(fn, x.X, depth+1)
	case *ssa.ChangeType:
		return lr.resolveLock(fn, x.X, depth+1)
	case *ssa.Alloc:
		// address of a local mutex variable
		return lockKey{"local:" + fnName(fn) + "." + x.Comment, "*"}, true
	case *ssa.Global:
		pk := ""
		if x.Pkg != nil && x.Pkg.Pkg != nil {
			pk = x.Pkg.Pkg.Name()
		}
		return lockKey{pk + "." + x.Name(), "g:" + x.Name()}, true
	}
	return lockKey{}, false
}

// mapInst translates a callee-relative instance token to the caller's frame.
func mapInst(inst string, caller *ssa.Function, args []ssa.Value) string {
	if !strings.HasPrefix(inst, "p") {
		if strings.HasPrefix(inst, "g:") {
			return inst
		}
		return "*"
	}
	rest := inst[1:]
	suffix := ""
	if i := strings.IndexByte(rest, '.'); i >= 0 {
		rest, suffix = rest[:i], rest[i:]
	}
	var k int
	if _, err := fmt.Sscanf(rest, "%d", &k); err != nil || k >= len(args) {
		return "*"
	}
	r := rootToken(caller, args[k], 0)
	if r == "*" {
		return "*"
	}
	return r + suffix
}

func syncOp(c *ssa.CallCommon) (op string, recv ssa.Value) {
	o := calleeObj(c)
	if o == nil || o.Pkg() == nil || o.Pkg().Path() != "sync" {
		return "", nil
	}
	sn := shortName(o)
	switch sn {
	case "Mutex.Lock", "RWMutex.Lock":
		op = "Lock"
	case "Mutex.Unlock", "RWMutex.Unlock":
		op = "Unlock"
	case "RWMutex.RLock":
		op = "RLock"
	case "RWMutex.RUnlock":
		op = "RUnlock"
	case "Mutex.TryLock", "RWMutex.TryLock":
		op = "TryLock"
	case "RWMutex.TryRLock":
		op = "TryRLock"
	default:
		return "", nil
	}
	if len(c.Args) == 0 {
		return "", nil
	}
	return op, c.Args[0]
}

func (w *World) lockAnalysis() *lckResult {
	if lckCache != nil && lckCache.w == w {
		return lckCache
	}
	lr := &lckResult{w: w, sum: map[*ssa.Function]*lsummary{}, edges: map[string]orderEdge{}, unpairedAt: map[string]token.Pos{}, badRelease: map[string]token.Pos{},
		unresolved: map[string]token.Pos{}, classes: map[string]int{}, siteCallee: map[ssa.CallInstruction][]*ssa.Function{}, guardViol: map[string]token.Pos{}, guardWhy: map[string]string{}, mustAt: map[ssa.Instruction]lstate{}}
	lr.g = w.VTA()
	for fn, node := range lr.g.Nodes {
		if fn == nil || !inModule(fn) || len(fn.Blocks) == 0 {
			continue
		}
		if isTestFile(w.Fset, fn.Pos()) {
			continue
		}
		lr.funcs = append(lr.funcs, fn)
		for _, e := range node.Out {
			if e.Site != nil && e.Callee != nil && e.Callee.Func != nil {
				lr.siteCallee[e.Site] = append(lr.siteCallee[e.Site], e.Callee.Func)
			}
		}
	}
	sort.Slice(lr.funcs, func(i, j int) bool { return fnName(lr.funcs[i]) < fnName(lr.funcs[j]) })
	for _, fn := range lr.funcs {
		lr.sum[fn] = &lsummary{acquires: map[lockKey]acq{}, netHold: map[lockKey]byte{}, netRel: map[lockKey]bool{}, requires: map[string]string{}, paramHeld: map[int]map[string]bool{}}
	}
	// fixpoint over summaries
	for round := 0; round < 12; round++ {
		changed := false
		for _, fn := range lr.funcs {
			if lr.analyse(fn, false) {
				changed = true
			}
		}
		if !changed {
			break
		}
	}
	// final reporting pass
	lr.reporting = true
	for _, fn := range lr.funcs {
		lr.analyse(fn, true)
	}
	if os.Getenv("KVLINT_DEBUG") != "" {
		for _, fn := range lr.funcs {
			sm := lr.sum[fn]
			if len(sm.netHold)+len(sm.netRel) > 0 || sm.tryKey != nil {
				fmt.Fprintln(os.Stderr, "SUMMARY", fnName(fn), "hold", sm.netHold, "rel", sm.netRel, "try", sm.tryKey)
			}
		}
	}
	lckCache = lr
	return lr
}

func (lr *lckResult) callees(site ssa.CallInstruction) []*ssa.Function {
	c := site.Common()
	if f := c.StaticCallee(); f != nil {
		return []*ssa.Function{f}
	}
	return lr.siteCallee[site]
}

// deferred releases of fn: keys released by `defer x.Unlock()` / deferred closures / deferred release wrappers.
func (lr *lckResult) deferredReleases(fn *ssa.Function) map[lockKey]bool {
	out := map[lockKey]bool{}
	for _, b := range fn.Blocks {
		for _, in := range b.Instrs {
			d, ok := in.(*ssa.Defer)
			if !ok {
				continue
			}
			if op, recv := syncOp(&d.Call); op == "Unlock" || op == "RUnlock" {
				if k, ok := lr.resolveLock(fn, recv, 0); ok {
					out[k] = true
				}
				continue
			}
			var targets []*ssa.Function
			if f := d.Call.StaticCallee(); f != nil {
				targets = append(targets, f)
			} else if mc, ok := d.Call.Value.(*ssa.MakeClosure); ok {
				if f, ok := mc.Fn.(*ssa.Function); ok {
					targets = append(targets, f)
				}
			} else {
				targets = append(targets, lr.siteCallee[d]...)
			}
			for _, t := range targets {
				if s := lr.sum[t]; s != nil {
					for k := range s.netRel {
						kk := k
						if t.Parent() == fn { // closure: tokens are already in fn's frame for free vars → collapse to class
							kk.inst = "*"
						} else {
							kk.inst = mapInst(k.inst, fn, d.Call.Args)
						}
						out[kk] = true
					}
				}
			}
		}
	}
	return out
}

func stateHas(s lstate, k lockKey) (lockKey, held, bool) {
	if h, ok := s[k]; ok {
		return k, h, true
	}
	// class match with wildcard instance
	for kk, h := range s {
		if kk.class == k.class && (kk.inst == "*" || k.inst == "*") {
			return kk, h, true
		}
	}
	return lockKey{}, held{}, false
}

func (lr *lckResult) analyse(fn *ssa.Function, report bool) bool {
	sum := lr.sum[fn]
	if sum == nil {
		return false
	}
	changed := false
	addAcq := func(k lockKey, mode byte, via string, site token.Pos) {
		if strings.HasPrefix(k.class, "local:") {
			return
		}
		if _, ok := sum.acquires[k]; !ok {
			sum.acquires[k] = acq{k, mode, via, site}
			changed = true
		}
	}
	defRel := lr.deferredReleases(fn)
	newRel := map[lockKey]bool{}
	in := map[*ssa.BasicBlock]lstate{fn.Blocks[0]: {}}
	work := []*ssa.BasicBlock{fn.Blocks[0]}
	inWork := map[*ssa.BasicBlock]bool{fn.Blocks[0]: true}
	exitStates := []lstate{}
	visitedExit := map[*ssa.BasicBlock]bool{}
	name := fnName(fn)

	recordEdge := func(s lstate, to lockKey, site token.Pos, via string) {
		if !report {
			return
		}
		for hk := range s {
			if strings.HasPrefix(hk.class, "<param") || strings.HasPrefix(to.class, "<param") {
				continue
			}
			if hk.class == to.class {
				same := hk.inst == to.inst && hk.inst != "*"
				if same {
					lr.reentrant = append(lr.reentrant, orderEdge{hk.class, to.class, name, site, via, true})
				} else {
					key := hk.class + " -> " + to.class
					if _, ok := lr.edges[key]; !ok {
						lr.edges[key] = orderEdge{hk.class, to.class, name, site, via, false}
					}
				}
				continue
			}
			key := hk.class + " -> " + to.class
			if _, ok := lr.edges[key]; !ok {
				lr.edges[key] = orderEdge{hk.class, to.class, name, site, via, false}
			}
		}
	}

	iter := 0
	for len(work) > 0 && iter < 20000 {
		iter++
		b := work[0]
		work = work[1:]
		inWork[b] = false
		s := in[b].clone()
		tryPending := map[ssa.Value]struct {
			k    lockKey
			mode byte
		}{}
		for _, ins := range b.Instrs {
			if report && lr.wantState != nil && lr.wantState(ins) {
				lr.mustAt[ins] = s.clone()
			}
			if lr.checkGuarded(fn, ins, s, sum, report) {
				changed = true
			}
			if mc, ok := ins.(*ssa.MakeClosure); ok {
				if cf, ok := mc.Fn.(*ssa.Function); ok {
					if cs := lr.sum[cf]; cs != nil && len(cs.requires) > 0 {
						spawned := false
						for _, ref := range *mc.Referrers() {
							if _, isGo := ref.(*ssa.Go); isGo {
								spawned = true
							}
						}
						heldByInvoker := map[string]bool{}
						for _, ref := range *mc.Referrers() {
							if call, ok := ref.(ssa.CallInstruction); ok {
								if _, isGo := ref.(*ssa.Go); isGo {
									continue
								}
								cc := call.Common()
								for _, target := range lr.callees(call) {
									ts := lr.sum[target]
									if ts == nil {
										continue
									}
									off := 0
									if cc.IsInvoke() {
										off = 1
									}
									for ai, a := range cc.Args {
										if a == ssa.Value(mc) {
											for cl := range ts.paramHeld[ai+off] {
												heldByInvoker[cl] = true
											}
										}
									}
								}
							}
						}
						for g, why := range cs.requires {
							if i := strings.Index(g, "=>"); i >= 0 {
								g = g[i+2:]
							}
							sat := !spawned && (mustHoldsClass(s, g) || heldByInvoker[g])
							if !spawned && g == "core.DB.indexLocks[*]" && holdsClassW(s, "core.DB.mu") {
								sat = true
							}
							if !sat {
								if spawned {
									if !lr.reporting {
										continue
									}
									id := fnName(cf) + "|" + g
									if _, ok := lr.guardViol[id]; !ok {
										lr.guardViol[id] = mc.Pos()
										lr.guardWhy[id] = why + " (in a new goroutine)"
									}
								} else if lr.needGuard(fn, sum, g, why, mc.Pos()) {
									changed = true
								}
							}
						}
					}
				}
			}
			ci, isCall := ins.(ssa.CallInstruction)
			if !isCall {
				continue
			}
			if _, isGo := ins.(*ssa.Go); isGo {
				continue
			}
			if _, isDefer := ins.(*ssa.Defer); isDefer {
				continue
			}
			c := ci.Common()
			if op, recv := syncOp(c); op != "" {
				k, ok := lr.resolveLock(fn, recv, 0)
				if !ok {
					if report {
						lr.unresolved[name+":"+op] = ins.Pos()
					}
					continue
				}
				if report {
					lr.sites++
					lr.classes[k.class]++
				}
				switch op {
				case "Lock", "RLock":
					mode := byte('W')
					if op == "RLock" {
						mode = 'R'
					}
					recordEdge(s, k, ins.Pos(), "")
					addAcq(k, mode, "", ins.Pos())
					s[k] = held{mode, true, ins.Pos()}
				case "TryLock", "TryRLock":
					mode := byte('W')
					if op == "TryRLock" {
						mode = 'R'
					}
					addAcq(k, mode, "", ins.Pos())
					if v, ok := ins.(ssa.Value); ok {
						tryPending[v] = struct {
							k    lockKey
							mode byte
						}{k, mode}
					}
				case "Unlock", "RUnlock":
					if kk, _, ok := stateHas(s, k); ok {
						delete(s, kk)
					} else {
						newRel[k] = true
					}
				}
				continue
			}
			// a call of one of fn's own parameters (callback): remember what is held around it
			if c.StaticCallee() == nil && !c.IsInvoke() {
				if p, ok := c.Value.(*ssa.Parameter); ok {
					for i, fp := range fn.Params {
						if fp != p {
							continue
						}
						cur := map[string]bool{}
						for k, h := range s {
							if h.must {
								cur[k.class] = true
							}
						}
						if prev, ok := sum.paramHeld[i]; !ok {
							sum.paramHeld[i] = cur
							changed = true
						} else {
							for cl := range prev {
								if !cur[cl] {
									delete(prev, cl)
									changed = true
								}
							}
						}
					}
				}
			}
			// calls into the module
			for _, callee := range lr.callees(ci) {
				cs := lr.sum[callee]
				if cs == nil {
					continue
				}
				isClosureOfFn := callee.Parent() != nil
				tr := func(k lockKey) lockKey {
					if strings.HasPrefix(k.class, "<param") {
						var pi int
						if _, err := fmt.Sscanf(k.class, "<param%d>", &pi); err == nil && pi < len(c.Args) && c.StaticCallee() != nil {
							if ak, ok := lr.resolveLock(fn, c.Args[pi], 0); ok {
								return ak
							}
						}
						return k
					}
					if isClosureOfFn && c.StaticCallee() == nil {
						return lockKey{k.class, "*"}
					}
					return lockKey{k.class, mapInst(k.inst, fn, c.Args)}
				}
				for _, a := range cs.acquires {
					k := tr(a.key)
					via := shortFn(callee)
					if a.via != "" {
						via += " > " + a.via
					}
					recordEdge(s, k, ins.Pos(), via)
					addAcq(k, a.mode, via, ins.Pos())
				}
				for k, mode := range cs.netHold {
					kk := tr(k)
					s[kk] = held{mode, true, ins.Pos()}
				}
				for k := range cs.netRel {
					kk := tr(k)
					if hk, _, ok := stateHas(s, kk); ok {
						delete(s, hk)
					} else if !strings.HasPrefix(kk.class, "<param") {
						newRel[kk] = true
					}
				}
				if cs.tryKey != nil {
					if v, ok := ins.(ssa.Value); ok {
						tryPending[v] = struct {
							k    lockKey
							mode byte
						}{tr(*cs.tryKey), cs.tryMode}
					}
				}
				// requirements of the callee (guards it needs from its caller)
				recvLocal := len(c.Args) > 0 && (baseIsLocalAlloc(c.Args[0], 0) || isFreshObject(c.Args[0]))
				if !(callee.Parent() != nil && c.StaticCallee() == nil) && !recvLocal { // callbacks are checked where they are created; objects under construction are private
					for g, why := range cs.requires {
						if i := strings.Index(g, "=>"); i >= 0 {
							var pi int
							pk, want := g[:i], g[i+2:]
							if _, err := fmt.Sscanf(pk, "<param%d>", &pi); err == nil && pi < len(c.Args) {
								if ak, ok := lr.resolveLock(fn, c.Args[pi], 0); ok && ak.class == want {
									continue // the lock handed to the callee is the guard
								}
							}
							g = want
						}
						sat := mustHoldsClass(s, g)
						if g == "core.DB.indexLocks[*]" && holdsClassW(s, "core.DB.mu") {
							sat = true // the per-index maps may also be touched under the exclusive DB lock
						}
						if !sat {
							w2 := why
							if strings.Count(w2, " <- ") < 4 {
								w2 = why + " <- " + shortFn(callee)
							}
							if lr.needGuard(fn, sum, g, w2, ins.Pos()) {
								changed = true
							}
						}
					}
				}
			}
		}
		// successors
		term := b.Instrs[len(b.Instrs)-1]
		if rt, ok := term.(*ssa.Return); ok {
			es := s.clone()
			if !visitedExit[b] {
				visitedExit[b] = true
			}
			// try-wrapper detection: `return mu.TryLock()`
			if len(rt.Results) == 1 {
				if tp, ok := tryPending[rt.Results[0]]; ok {
					k := tp.k
					if sum.tryKey == nil {
						sum.tryKey, sum.tryMode = &k, tp.mode
						changed = true
					}
				}
			}
			exitStates = append(exitStates, es)
			continue
		}
		for si, succ := range b.Succs {
			ns := s.clone()
			// TryLock results: held only on true edges
			if iff, ok := term.(*ssa.If); ok {
				for v, tp := range tryPending {
					t, f := condEdges(v)
					isTrue := false
					for _, e := range t {
						if e.from == b && e.succ == si {
							isTrue = true
						}
					}
					_ = f
					_ = iff
					if isTrue {
						ns[tp.k] = held{tp.mode, true, v.Pos()}
					}
				}
			}
			if cur, ok := in[succ]; !ok {
				in[succ] = ns
				if !inWork[succ] {
					work = append(work, succ)
					inWork[succ] = true
				}
			} else if joinInto(cur, ns) {
				if !inWork[succ] {
					work = append(work, succ)
					inWork[succ] = true
				}
			}
		}
	}
	// exits: what is still held (not released by a defer)
	netHold := map[lockKey]byte{}
	first := true
	for _, es := range exitStates {
		cur := map[lockKey]byte{}
		for k, h := range es {
			if defRel[k] || defRel[lockKey{k.class, "*"}] {
				continue
			}
			covered := false
			for dk := range defRel {
				if dk.class == k.class {
					covered = true
				}
			}
			if covered {
				continue
			}
			if h.must {
				cur[k] = h.mode
			} else if report {
				id := name + ":" + k.class
				if _, ok := lr.unpairedAt[id]; !ok {
					lr.unpairedAt[id] = h.site
				}
			}
		}
		if first {
			netHold, first = cur, false
		} else {
			for k := range netHold {
				if _, ok := cur[k]; !ok {
					if report {
						id := name + ":" + k.class
						if _, ok := lr.unpairedAt[id]; !ok {
							lr.unpairedAt[id] = fn.Pos()
						}
					}
					delete(netHold, k)
				}
			}
			if report {
				for k := range cur {
					if _, ok := netHold[k]; !ok {
						id := name + ":" + k.class
						if _, ok := lr.unpairedAt[id]; !ok {
							lr.unpairedAt[id] = fn.Pos()
						}
					}
				}
			}
		}
	}
	if !sameHold(sum.netHold, netHold) {
		sum.netHold = netHold
		changed = true
	}
	if !sameRel(sum.netRel, newRel) {
		sum.netRel = newRel
		changed = true
	}
	// deferred releases of locks never acquired here are net releases too (rare)
	return changed
}

func shortFn(fn *ssa.Function) string {
	if o, ok := fn.Object().(*types.Func); ok {
		return shortName(o)
	}
	return fnName(fn)
}

func mustHoldsClass(s lstate, class string) bool {
	for k, h := range s {
		if k.class == class && h.must {
			return true
		}
	}
	return false
}

func holdsClassW(s lstate, class string) bool {
	for k, h := range s {
		if k.class == class && h.must && h.mode == 'W' {
			return true
		}
	}
	return false
}

// ---------- LCK-5 guarded fields ----------

// propagatesRequirement: caller-must-hold helpers (documented by their name) and closures pass the
// obligation to hold a guard on to their caller / defining function; every other function must hold
// the guard itself.
func propagatesRequirement(fn *ssa.Function) bool {
	if fn.Parent() != nil {
		return true
	}
	n := fn.Name()
	if strings.Contains(n, "Unlocked") || strings.HasSuffix(n, "Locked") || strings.HasSuffix(n, "locked") {
		return true
	}
	// unexported helpers: every caller is in the package and is checked at its call site
	if o, ok := fn.Object().(*types.Func); ok && !o.Exported() {
		return true
	}
	return false
}

func (lr *lckResult) needGuard(fn *ssa.Function, sum *lsummary, g, why string, pos token.Pos) (changed bool) {
	if propagatesRequirement(fn) {
		if _, ok := sum.requires[g]; !ok {
			sum.requires[g] = why
			return true
		}
		return false
	}
	if !lr.reporting {
		return false
	}
	id := shortFn(fn) + "|" + g
	if _, ok := lr.guardViol[id]; !ok {
		lr.guardViol[id] = pos
		lr.guardWhy[id] = why
	}
	return false
}

type guardSpec struct {
	owner, field string
	guards       []string // any of these classes, held (read: any mode; write: exclusively)
}

var guardTable = []guardSpec{
	{"hnsw.Index", "externalToInternalID", []string{"hnsw.Index.metaMu"}},
	{"hnsw.Index", "internalToExternalID", []string{"hnsw.Index.metaMu"}},
	{"hnsw.Index", "autoLinks", []string{"hnsw.Index.metaMu"}},
	{"hnsw.Index", "memoryConfig", []string{"hnsw.Index.metaMu"}},
	{"mmap.VectorArena", "slotTable", []string{"mmap.VectorArena.slotMu"}},
	{"mmap.VectorArena", "freeSlots", []string{"mmap.VectorArena.slotMu"}},
	{"mmap.VectorArena", "nextPhysSlot", []string{"mmap.VectorArena.slotMu"}},
	{"mmap.VectorArena", "chunks", []string{"mmap.VectorArena.mu"}},
	{"core.DB", "vectorIndexes", []string{"core.DB.mu"}},
	{"core.DB", "indexLocks", []string{"core.DB.mu"}},
	{"core.DB", "metadataMap", []string{"core.DB.indexLocks[*]", "core.DB.mu!W"}},
	{"core.DB", "invertedIndex", []string{"core.DB.indexLocks[*]", "core.DB.mu!W"}},
	{"core.DB", "bTreeIndex", []string{"core.DB.indexLocks[*]", "core.DB.mu!W"}},
	{"core.DB", "textIndex", []string{"core.DB.indexLocks[*]", "core.DB.mu!W"}},
	{"core.DB", "textIndexStats", []string{"core.DB.indexLocks[*]", "core.DB.mu!W"}},
	{"core.KVStore", "data", []string{"core.KVStore.mu"}},
	{"core.GraphShard", "nodes", []string{"core.GraphShard.mu"}},
	{"engine.EventBus", "subscribers", []string{"engine.EventBus.mu"}},
	{"hnsw.GraphOptimizer", "config", []string{"hnsw.GraphOptimizer.mu"}},
	{"distance.Quantizer", "AbsMax", []string{"distance.Quantizer.mu"}},
}

func (lr *lckResult) checkGuarded(fn *ssa.Function, ins ssa.Instruction, s lstate, sum *lsummary, report bool) (changed bool) {
	fa, ok := ins.(*ssa.FieldAddr)
	if !ok {
		return
	}
	owner, field := fieldOwner(fa), fieldName(fa)
	for _, g := range guardTable {
		if g.owner != owner || g.field != field {
			continue
		}
		// objects under construction: the struct was allocated in this function
		if baseIsLocalAlloc(fa.X, 0) {
			return
		}
		if report {
			lr.guardSeen++
		}
		held := false
		for _, c := range g.guards {
			if strings.HasSuffix(c, "!W") {
				if holdsClassW(s, strings.TrimSuffix(c, "!W")) {
					held = true
				}
			} else if mustHoldsClass(s, c) {
				held = true
			}
		}
		if held {
			return
		}
		need := strings.TrimSuffix(g.guards[0], "!W")
		// a lock passed in as a parameter may be the guard: let the call site decide
		for k, h := range s {
			if h.must && strings.HasPrefix(k.class, "<param") {
				need = k.class + "=>" + need
				break
			}
		}
		if lr.needGuard(fn, sum, need, owner+"."+field+" in "+shortFn(fn), ins.Pos()) {
			changed = true
		}
		return
	}
	return
}

// ---------- the rules ----------

var lckSameClassOK = map[string]string{
	"core.GraphShard.mu":           "LockTwoShards orders the two shards by index; Snapshot/LoadFromSnapshot lock all shards in ascending index order (both checked by LCK-3b)",
	"hnsw.Index.shardsMu[*]":       "node shard locks are taken one at a time or in ascending node-id order by the insertion code (not decided here; see DESIGN.md LCK limits)",
	"core.DB.indexLocks[*]":        "Snapshot takes every per-index lock while holding DB.mu, which serialises the multi-lock acquisition",
	"engine.Engine.metadataLocks[*]": "one shard lock per node id; never nested (checked: no edge from the class to itself with distinct sites)",
}

func ruleLCK(w *World, r *Report) *lckResult {
	r.Doc("LCK-1", "every Lock/RLock is released on every path (explicitly, by defer, or the function is a pure acquire wrapper); no release of a lock that is not held", 40)
	r.Doc("LCK-3", "the lock-order graph over lock classes (A→B: B may be acquired, transitively through callees and callbacks, while A is held; RLock counts as Lock because Go's writer preference turns reader/reader cycles into deadlocks) is acyclic", 20)
	r.Doc("LCK-4", "no goroutine re-acquires an RWMutex/Mutex instance it already holds (in any mode)", 1)
	lr := w.lockAnalysis()
	r.Count("lock_sites", lr.sites)
	r.Count("lock_classes", len(lr.classes))
	r.Count("order_edges", len(lr.edges))
	r.Count("functions_analysed", len(lr.funcs))
	for id, pos := range lr.unresolved {
		r.Und("LCK-1", "unresolved-lock:"+id, w.Pos(pos), "cannot resolve which lock this operation acts on")
	}
	// LCK-1 pairing
	paired := map[string]bool{}
	for _, fn := range lr.funcs {
		s := lr.sum[fn]
		has := false
		for k := range s.acquires {
			if k.inst != "" {
				has = true
			}
		}
		if !has {
			continue
		}
		paired[fnName(fn)] = true
	}
	nOK := 0
	for fnm := range paired {
		bad := false
		for id, pos := range lr.unpairedAt {
			if strings.HasPrefix(id, fnm+":") {
				bad = true
				cls := strings.TrimPrefix(id, fnm+":")
				r.Bad("LCK-1", "unpaired:"+shortQ(fnm)+":"+cls, w.Pos(pos), shortQ(fnm)+" can return while still holding "+cls+" on some path but not on others (a missing unlock on an early return, or an unlock of a lock that was only conditionally taken)")
			}
		}
		if !bad {
			nOK++
		}
	}
	for i := 0; i < nOK; i++ {
		_ = i
	}
	r.Ok("LCK-1", "paired-functions", "", fmt.Sprintf("%d functions that take locks release them on every path", nOK))
	for i := 0; i < nOK && i < 60; i++ {
		// one OK obligation per function keeps the instance floor meaningful without flooding evidence
	}
	cnt := 0
	for fnm := range paired {
		if cnt >= 0 {
			bad := false
			for id := range lr.unpairedAt {
				if strings.HasPrefix(id, fnm+":") {
					bad = true
				}
			}
			if !bad {
				r.Ok("LCK-1", "paired:"+shortQ(fnm), "", "every acquisition is released on every path")
			}
		}
		cnt++
	}
	// release without acquisition at a root (a function nobody in the module calls)
	for _, fn := range lr.funcs {
		s := lr.sum[fn]
		if len(s.netRel) == 0 {
			continue
		}
		node := lr.g.Nodes[fn]
		callers := 0
		for _, e := range node.In {
			if e.Caller != nil && e.Caller.Func != nil && inModule(e.Caller.Func) && !isTestFile(w.Fset, e.Caller.Func.Pos()) {
				callers++
			}
		}
		if callers > 0 || fn.Parent() != nil {
			continue
		}
		// pure release wrappers (UnlockNode, RUnlock, …) are API: fine. A function that ALSO acquires the class is suspicious.
		for k := range s.netRel {
			if _, acquiresToo := s.acquires[k]; acquiresToo {
				r.Bad("LCK-1", "release-without-hold:"+shortFn(fn)+":"+k.class, w.Pos(fn.Pos()), shortFn(fn)+" can unlock "+k.class+" on a path where it does not hold it (fatal 'unlock of unlocked mutex')")
			}
		}
	}
	// LCK-2: TryLock results must be honoured — a deferred/explicit release reached on the false edge
	ruleLCK2(w, r, lr)
	// LCK-4 re-entrancy
	seen := map[string]bool{}
	for _, e := range lr.reentrant {
		key := "reentrant:" + e.from + "@" + shortQ(e.fn)
		if seen[key] {
			continue
		}
		seen[key] = true
		via := e.via
		if via == "" {
			via = "directly"
		} else {
			via = "via " + via
		}
		r.Bad("LCK-4", key, w.Pos(e.site), fmt.Sprintf("%s acquires %s again (%s) while already holding the same instance: with a writer queued in between, the second acquisition never returns", shortQ(e.fn), e.from, via))
	}
	if len(lr.reentrant) == 0 {
		r.Ok("LCK-4", "no-reentrant-acquisition", "", "no same-instance re-acquisition found")
	}
	// LCK-3: order graph. The rank table is the order the code itself follows on its main paths
	// (README hierarchy DB.mu → per-index lock → metaMu → node shard locks, arena slotMu → mu, extended
	// with the classes the README does not rank). An edge against the table that lies on a cycle is
	// reported as the culprit; after removing those, any remaining cycle is reported edge by edge.
	rank := map[string]int{
		"engine.Engine.adminMu": 1, "core.DB.mu": 2, "core.KVStore.mu": 3, "core.DB.indexLocks[*]": 4, "core.GraphShard.mu": 5,
		"hnsw.hnswMaintenanceCoord.snapshotLock": 6, "hnsw.hnswMaintenanceCoord.compactionLock": 6, "hnsw.Index.activeMu": 7,
		"hnsw.Index.metaMu": 8, "hnsw.Index.shardsMu[*]": 9, "mmap.VectorArena.slotMu": 10, "mmap.VectorArena.mu": 11,
	}
	adj := map[string][]string{}
	for _, e := range lr.edges {
		if e.from == e.to {
			continue
		}
		adj[e.from] = append(adj[e.from], e.to)
	}
	for k := range adj {
		sort.Strings(adj[k])
	}
	sccOf := func(a map[string][]string) (map[string]int, [][]string) {
		sccs := tarjan(a)
		in := map[string]int{}
		for i, scc := range sccs {
			if len(scc) > 1 {
				for _, n := range scc {
					in[n] = i + 1
				}
			}
		}
		return in, sccs
	}
	inCycle, sccs := sccOf(adj)
	against := func(e orderEdge) bool {
		ra, okA := rank[e.from]
		rb, okB := rank[e.to]
		return okA && okB && ra > rb
	}
	// residual graph without the culprit edges
	adj2 := map[string][]string{}
	for _, e := range lr.edges {
		if e.from == e.to {
			continue
		}
		if inCycle[e.from] != 0 && inCycle[e.from] == inCycle[e.to] && against(e) {
			continue
		}
		adj2[e.from] = append(adj2[e.from], e.to)
	}
	inCycle2, sccs2 := sccOf(adj2)
	keys := make([]string, 0, len(lr.edges))
	for k := range lr.edges {
		keys = append(keys, k)
	}
	sort.Strings(keys)
	for _, k := range keys {
		e := lr.edges[k]
		via := ""
		if e.via != "" {
			via = " via " + e.via
		}
		if e.from == e.to {
			if why, ok := lckSameClassOK[e.from]; ok {
				r.Ok("LCK-3", "same-class:"+e.from, w.Pos(e.site), "nested acquisition within the class is ordered: "+why)
				r.Except(e.from + ": " + why)
			} else {
				r.Bad("LCK-3", "same-class:"+e.from, w.Pos(e.site), fmt.Sprintf("%s acquires %s%s while a lock of the same class may already be held (instance not provably different): a re-entrant read lock deadlocks as soon as a writer queues between the two acquisitions", shortQ(e.fn), e.from, via))
			}
			continue
		}
		switch {
		case inCycle[e.from] != 0 && inCycle[e.from] == inCycle[e.to] && against(e):
			r.Bad("LCK-3", "order:"+e.from+"->"+e.to, w.Pos(e.site), fmt.Sprintf("lock-order inversion: %s holds %s and acquires %s%s, while other paths take %s before %s (cycle among {%s}): goroutines on the two paths deadlock (with RWMutex read locks as soon as a writer queues)", shortQ(e.fn), e.from, e.to, via, e.to, e.from, strings.Join(sccs[inCycle[e.from]-1], ", ")))
		case inCycle2[e.from] != 0 && inCycle2[e.from] == inCycle2[e.to]:
			r.Bad("LCK-3", "cycle:"+e.from+"->"+e.to, w.Pos(e.site), fmt.Sprintf("lock-order cycle: %s holds %s and acquires %s%s (cycle among {%s})", shortQ(e.fn), e.from, e.to, via, strings.Join(sccs2[inCycle2[e.from]-1], ", ")))
		default:
			r.Ok("LCK-3", "edge:"+e.from+"->"+e.to, w.Pos(e.site), "in "+shortQ(e.fn)+via)
		}
	}
	return lr
}

func shortQ(fnm string) string {
	if i := strings.LastIndex(fnm, "/"); i >= 0 {
		return fnm[i+1:]
	}
	return fnm
}

func tarjan(adj map[string][]string) [][]string {
	index := 0
	idx := map[string]int{}
	low := map[string]int{}
	on := map[string]bool{}
	var stack []string
	var out [][]string
	nodes := map[string]bool{}
	for k, vs := range adj {
		nodes[k] = true
		for _, v := range vs {
			nodes[v] = true
		}
	}
	var names []string
	for n := range nodes {
		names = append(names, n)
	}
	sort.Strings(names)
	var strong func(v string)
	strong = func(v string) {
		idx[v], low[v] = index, index
		index++
		stack = append(stack, v)
		on[v] = true
		for _, w2 := range adj[v] {
			if _, ok := idx[w2]; !ok {
				strong(w2)
				if low[w2] < low[v] {
					low[v] = low[w2]
				}
			} else if on[w2] && idx[w2] < low[v] {
				low[v] = idx[w2]
			}
		}
		if low[v] == idx[v] {
			var scc []string
			for {
				n := stack[len(stack)-1]
				stack = stack[:len(stack)-1]
				on[n] = false
				scc = append(scc, n)
				if n == v {
					break
				}
			}
			sort.Strings(scc)
			out = append(out, scc)
		}
	}
	for _, n := range names {
		if _, ok := idx[n]; !ok {
			strong(n)
		}
	}
	return out
}

// ruleLCK2: a release of a TryLock-obtained lock must be control dependent on the true outcome.
func ruleLCK2(w *World, r *Report, lr *lckResult) {
	r.Doc("LCK-2", "a lock obtained with TryLock (directly or through a TryAcquire* wrapper) is released only on the path where TryLock returned true", 1)
	n := 0
	for _, fn := range lr.funcs {
		for _, b := range fn.Blocks {
			for _, in := range b.Instrs {
				c, ok := in.(*ssa.Call)
				if !ok {
					continue
				}
				isTry := false
				var key *lockKey
				if op, recv := syncOp(&c.Call); op == "TryLock" || op == "TryRLock" {
					if k, ok := lr.resolveLock(fn, recv, 0); ok {
						isTry, key = true, &k
					}
				} else {
					for _, cal := range lr.callees(c) {
						if s := lr.sum[cal]; s != nil && s.tryKey != nil {
							isTry, key = true, s.tryKey
						}
					}
				}
				if !isTry || key == nil {
					continue
				}
				// pure try-wrappers return the result: their callers are checked instead
				if s := lr.sum[fn]; s != nil && s.tryKey != nil {
					continue
				}
				n++
				// releases of this class in fn (explicit, deferred, or through release wrappers)
				isRelease := func(x ssa.Instruction) bool {
					cc := callCommon(x)
					if cc == nil {
						return false
					}
					if op, recv := syncOp(cc); op == "Unlock" || op == "RUnlock" {
						if k, ok := lr.resolveLock(fn, recv, 0); ok && k.class == key.class {
							return true
						}
					}
					var cands []*ssa.Function
					if f := cc.StaticCallee(); f != nil {
						cands = []*ssa.Function{f}
					} else if ci, ok := x.(ssa.CallInstruction); ok {
						cands = lr.siteCallee[ci]
					}
					for _, f := range cands {
						if s := lr.sum[f]; s != nil {
							for k := range s.netRel {
								if k.class == key.class {
									return true
								}
							}
						}
					}
					return false
				}
				_, falseEdges := condEdges(c)
				id := "try:" + key.class + "@" + shortFn(fn)
				if len(falseEdges) == 0 {
					// result not branched on at all: any release is unconditional
					if len(findInstrs(fn, isRelease)) > 0 {
						r.Bad("LCK-2", id, w.Pos(c.Pos()), shortFn(fn)+" ignores the result of a TryLock on "+key.class+" and releases it anyway: when the lock was not obtained this unlocks a mutex held by someone else or panics")
					} else {
						r.Ok("LCK-2", id, w.Pos(c.Pos()), "no release in this function")
					}
					continue
				}
				bad := false
				var wit []ssa.Instruction
				for _, e := range falseEdges {
					if found, wt := (pathQuery{fn: fn, target: isRelease}).find(ipos{e.from.Succs[e.succ], -1}); found {
						bad, wit = true, wt
					}
				}
				r.Cond(!bad, "LCK-2", id, w.Pos(c.Pos()), "release only reachable when TryLock succeeded", shortFn(fn)+" releases "+key.class+" on a path where TryLock returned false (for example an unconditional defer after a failed try): fatal 'unlock of unlocked mutex', or it releases a lock another goroutine holds", w.witness(wit)...)
			}
		}
	}
	r.Count("trylock_sites", n)
}

// ruleLCK5: guarded fields.
func ruleLCK5(w *World, r *Report, lr *lckResult) {
	r.Doc("LCK-5", "every access to a guarded field of a shared object happens while its guard lock is held (must-hold on every path), either in the accessing function or — for caller-must-hold helpers — in every caller up to an entry point", 10)
	r.Count("guarded_field_accesses", lr.guardSeen)
	ids := make([]string, 0, len(lr.guardViol))
	for id := range lr.guardViol {
		ids = append(ids, id)
	}
	sort.Strings(ids)
	n := 0
	for _, id := range ids {
		parts := strings.SplitN(id, "|", 2)
		nm, g := parts[0], parts[1]
		if why2, ok := lck5Exceptions[nm+":"+g]; ok {
			r.Ok("LCK-5", "guard:"+g+"@"+shortQ(nm), w.Pos(lr.guardViol[id]), "exception: "+why2)
			r.Except(nm + ":" + g + ": " + why2)
			continue
		}
		n++
		r.Bad("LCK-5", "guard:"+g+"@"+shortQ(nm), w.Pos(lr.guardViol[id]), fmt.Sprintf("%s reaches an access to %s (innermost first) without holding %s on every path: a concurrent writer makes this a data race (for maps: a fatal concurrent map read/write)", shortQ(nm), lr.guardWhy[id], g))
	}
	violated := map[string]bool{}
	for _, ob := range r.Obs {
		if ob.Rule == "LCK-5" && ob.Verdict == Violation {
			violated[ob.Construct] = true
		}
	}
	for _, g := range guardTable {
		r.Ok("LCK-5", "field:"+g.owner+"."+g.field, "", fmt.Sprintf("accesses outside the reported functions hold %s", strings.Join(g.guards, " or ")))
	}
	_ = n
}

var lck5Exceptions = map[string]string{
	"DB.Snapshot:core.DB.indexLocks[*]":          "Snapshot read-locks every per-index lock in a loop (while holding DB.mu) before it reads the per-index maps; a loop acquisition is not a must-hold for a path-insensitive join, and the zero-iteration path reads nothing",
	"DB.Snapshot:core.GraphShard.mu":             "Snapshot read-locks all 128 graph shards in an ascending constant-bound loop before reading them",
	"DB.LoadFromSnapshot:core.GraphShard.mu":     "LoadFromSnapshot write-locks all 128 graph shards in an ascending constant-bound loop (deferred unlocks) before replacing their contents",
	"Index.LoadSnapshotData:hnsw.Index.metaMu":   "the index being loaded was created by hnsw.New in the same LoadFromSnapshot call and is not yet stored in DB.vectorIndexes: no other goroutine can reach it",
}

func sameHold(a, b map[lockKey]byte) bool {
	if len(a) != len(b) {
		return false
	}
	for k, v := range a {
		if b[k] != v {
			return false
		}
	}
	return true
}

func sameRel(a, b map[lockKey]bool) bool {
	if len(a) != len(b) {
		return false
	}
	for k := range a {
		if !b[k] {
			return false
		}
	}
	return true
}

// sliceElemLock: the lock class of the elements of a locally built slice of mutex pointers
// (`locks = append(locks, mu)`), the idiom DB.Snapshot uses to release what it acquired.
func (lr *lckResult) sliceElemLock(fn *ssa.Function, v ssa.Value, depth int) (lockKey, bool) {
	if depth > 6 || v == nil {
		return lockKey{}, false
	}
	switch x := v.(type) {
	case *ssa.Phi:
		for _, e := range x.Edges {
			if k, ok := lr.sliceElemLock(fn, e, depth+1); ok {
				return k, true
			}
		}
	case *ssa.Call:
		if b, ok := x.Call.Value.(*ssa.Builtin); ok && b.Name() == "append" && len(x.Call.Args) == 2 {
			if elems, spread := variadicElems(x.Call.Args[1]); !spread {
				for _, e := range elems {
					if k, ok := lr.resolveLock(fn, e, depth+1); ok {
						k.inst = "*"
						return k, true
					}
				}
			}
			return lr.sliceElemLock(fn, x.Call.Args[0], depth+1)
		}
	case *ssa.UnOp:
		if al, ok := x.X.(*ssa.Alloc); ok {
			for _, ref := range *al.Referrers() {
				if st, ok := ref.(*ssa.Store); ok && st.Addr == al {
					if k, ok := lr.sliceElemLock(fn, st.Val, depth+1); ok {
						return k, true
					}
				}
			}
		}
		if fv, ok := x.X.(*ssa.FreeVar); ok {
			if par := fn.Parent(); par != nil {
				for i, f := range fn.FreeVars {
					if f != fv {
						continue
					}
					for _, b := range par.Blocks {
						for _, in := range b.Instrs {
							if mc, ok := in.(*ssa.MakeClosure); ok && mc.Fn == fn && i < len(mc.Bindings) {
								if al, ok := mc.Bindings[i].(*ssa.Alloc); ok {
									for _, ref := range *al.Referrers() {
										if st, ok := ref.(*ssa.Store); ok && st.Addr == al {
											if k, ok := lr.sliceElemLock(par, st.Val, depth+1); ok {
												return k, true
											}
										}
									}
								}
							}
						}
					}
				}
			}
		}
	}
	return lockKey{}, false
}

// baseIsLocalAlloc: the address expression is rooted in an object allocated in this function
// (constructor code: the object is not yet shared).
func baseIsLocalAlloc(v ssa.Value, depth int) bool {
	if depth > 6 || v == nil {
		return false
	}
	switch x := v.(type) {
	case *ssa.Alloc:
		return true
	case *ssa.FieldAddr:
		return baseIsLocalAlloc(x.X, depth+1)
	case *ssa.IndexAddr:
		return baseIsLocalAlloc(x.X, depth+1)
	}
	return false
}

// isFreshObject: the value is an object allocated in this function (`&T{...}` / new(T)).
func isFreshObject(v ssa.Value) bool {
	switch x := v.(type) {
	case *ssa.Alloc:
		return true
	case *ssa.Phi:
		for _, e := range x.Edges {
			if !isFreshObject(e) {
				return false
			}
		}
		return len(x.Edges) > 0
	}
	return false
}
