package main

// rules_lck.go — LCK: lock discipline over the whole module (may/must-hold dataflow on SSA with
// interprocedural summaries, VTA call edges for callbacks and interface calls).
//
// Lock class  = (declaring struct type, field path; arrays/slices/maps collapsed to [*]).
// Lock instance token = root of the address expression when it is a parameter/receiver ("p0", "p1"…),
// a global ("g:name") or unknown ("*").

import (
	"fmt"
	"go/constant"
	"go/token"
	"go/types"
	"os"
	"sort"
	"strings"

	"golang.org/x/tools/go/callgraph"
	"golang.org/x/tools/go/ssa"
)

type lockKey struct {
	class string
	inst  string
}

type held struct {
	mode byte // 'W' or 'R'
	must bool
	site token.Pos
	acq  ssa.Instruction // acquiring instruction (Lock/TryLock call or wrapper call)
}

type lstate map[lockKey]held

func (s lstate) clone() lstate {
	o := make(lstate, len(s))
	for k, v := range s {
		o[k] = v
	}
	return o
}

// join: may = union, must = intersection. Returns whether dst changed.
func joinInto(dst, src lstate) bool {
	changed := false
	for k, v := range src {
		if d, ok := dst[k]; ok {
			nm := d.must && v.must
			if nm != d.must {
				d.must = nm
				dst[k] = d
				changed = true
			}
		} else {
			v.must = false
			dst[k] = v
			changed = true
		}
	}
	for k, d := range dst {
		if _, ok := src[k]; !ok && d.must {
			d.must = false
			dst[k] = d
			changed = true
		}
	}
	return changed
}

type acq struct {
	key  lockKey
	mode byte
	via  string // callee chain for the witness
	site token.Pos
}

type lsummary struct {
	acquires map[lockKey]acq  // transitively may-acquire (inst relative to own params)
	netHold  map[lockKey]byte // held at (every) return though not at entry: acquire wrapper
	netRel   map[lockKey]bool // released though not acquired: release wrapper
	tryKey   *lockKey         // function result == TryLock on this key
	tryMode  byte
	// conditional acquire wrapper: the function returns (…, ok bool) and holds condKey at exactly the returns whose ok is
	// the constant true (lockNode(id) (lock *sync.Mutex, ok bool)): for its callers the call is a TryLock whose outcome is
	// result number condIdx
	condKey  *lockKey
	condMode byte
	condIdx  int
	requires map[string]string // guard class -> first field needing it (LCK-5), unmet inside the function
	// paramHeld[k]: lock classes held (must) whenever the function calls its k-th parameter (a callback)
	paramHeld map[int]map[string]bool
}

type orderEdge struct {
	from, to string
	fn       string
	site     token.Pos
	via      string
	sameInst bool
	gates    map[string]bool // exclusive locks (other than from/to) held at EVERY site that creates this edge
}

type lckResult struct {
	w          *World
	g          *callgraph.Graph
	sum        map[*ssa.Function]*lsummary
	edges      map[string]orderEdge // from->to : first witness
	reentrant  []orderEdge          // same instance re-acquired
	unpaired   []string
	unpairedAt map[string]token.Pos
	badRelease map[string]token.Pos
	unresolved map[string]token.Pos
	classes    map[string]int
	sites      int
	funcs      []*ssa.Function
	siteCallee map[ssa.CallInstruction][]*ssa.Function
	guardViol  map[string]token.Pos
	guardWhy   map[string]string
	guardSeen  int
	reporting  bool
	gatePass   bool
	entryGate  map[*ssa.Function]map[string]bool // exclusive locks held by EVERY caller at the call (nil = not yet known)
	nextGate   map[*ssa.Function]map[string]bool
	mustAt     map[ssa.Instruction]lstate // state before selected instructions (for GRD-rmw)
	wantState  func(ssa.Instruction) bool
}

var lckCache *lckResult

func mutexKind(t types.Type) string {
	if p, ok := t.(*types.Pointer); ok {
		t = p.Elem()
	}
	n, ok := t.(*types.Named)
	if !ok || n.Obj().Pkg() == nil || n.Obj().Pkg().Path() != "sync" {
		return ""
	}
	switch n.Obj().Name() {
	case "Mutex", "RWMutex":
		return n.Obj().Name()
	}
	return ""
}

func typeLabel(t types.Type) string {
	if p, ok := t.(*types.Pointer); ok {
		t = p.Elem()
	}
	if n, ok := t.(*types.Named); ok {
		pk := ""
		if n.Obj().Pkg() != nil {
			pk = strings.TrimPrefix(n.Obj().Pkg().Path(), modPath+"/")
			if i := strings.LastIndexByte(pk, '/'); i >= 0 {
				pk = pk[i+1:]
			}
		}
		return pk + "." + n.Obj().Name()
	}
	return t.String()
}

// rootToken: instance token of the object an address expression is rooted in.
func rootToken(fn *ssa.Function, v ssa.Value, depth int) string {
	if depth > 8 || v == nil {
		return "*"
	}
	switch x := v.(type) {
	case *ssa.Parameter:
		for i, p := range fn.Params {
			if p == x {
				return fmt.Sprintf("p%d", i)
			}
		}
	case *ssa.FreeVar:
		return "fv:" + x.Name()
	case *ssa.Global:
		return "g:" + x.Name()
	case *ssa.FieldAddr:
		return rootToken(fn, x.X, depth+1)
	case *ssa.UnOp:
		if x.Op == token.MUL {
			// load of a pointer-typed field: a different object than the holder → fresh token per field path
			if fa, ok := x.X.(*ssa.FieldAddr); ok {
				r := rootToken(fn, fa.X, depth+1)
				if r == "*" {
					return "*"
				}
				return r + "." + fieldName(fa)
			}
			if al, ok := x.X.(*ssa.Alloc); ok {
				// local variable (possibly captured): single store → follow
				var val ssa.Value
				n := 0
				for _, ref := range *al.Referrers() {
					if st, ok := ref.(*ssa.Store); ok && st.Addr == al {
						n++
						val = st.Val
					}
				}
				if n == 1 {
					return rootToken(fn, val, depth+1)
				}
			}
			if fv, ok := x.X.(*ssa.FreeVar); ok {
				return "fv:" + fv.Name()
			}
		}
	case *ssa.IndexAddr:
		return "*"
	}
	return "*"
}

func fieldName(fa *ssa.FieldAddr) string {
	if pt, ok := fa.X.Type().Underlying().(*types.Pointer); ok {
		if _, ok := pt.Elem().Underlying().(*types.Struct); ok {
			return fieldNameAt(pt.Elem(), fa.Field)
		}
	}
	return "?"
}

func fieldOwner(fa *ssa.FieldAddr) string { return typeLabel(fa.X.Type()) }

// resolveLock maps the receiver value of a sync.(RW)Mutex method call to a lock key.
func (lr *lckResult) resolveLock(fn *ssa.Function, v ssa.Value, depth int) (lockKey, bool) {
	if depth > 10 || v == nil {
		return lockKey{}, false
	}
	switch x := v.(type) {
	case *ssa.FieldAddr:
		return lockKey{fieldOwner(x) + "." + fieldName(x), rootToken(fn, x.X, 0)}, true
	case *ssa.IndexAddr:
		// element of an array/slice of mutexes (or of structs holding one: handled by FieldAddr above)
		base := x.X
		if ld, ok := base.(*ssa.UnOp); ok && ld.Op == token.MUL {
			base = ld.X
		}
		if fa, ok := base.(*ssa.FieldAddr); ok {
			return lockKey{fieldOwner(fa) + "." + fieldName(fa) + "[*]", "*"}, true
		}
		if k, ok := lr.resolveLock(fn, base, depth+1); ok {
			return lockKey{k.class + "[*]", "*"}, true
		}
	case *ssa.UnOp:
		if x.Op != token.MUL {
			return lockKey{}, false
		}
		switch a := x.X.(type) {
		case *ssa.FieldAddr: // pointer-typed mutex field
			return lockKey{fieldOwner(a) + "." + fieldName(a), rootToken(fn, a.X, 0)}, true
		case *ssa.IndexAddr: // slice of *Mutex
			if k, ok := lr.sliceElemLock(fn, a.X, 0); ok {
				return k, true
			}
			if k, ok := lr.resolveLock(fn, a, depth+1); ok {
				return k, true
			}
		case *ssa.Alloc:
			var keys []lockKey
			for _, ref := range *a.Referrers() {
				if st, ok := ref.(*ssa.Store); ok && st.Addr == a {
					if k, ok := lr.resolveLock(fn, st.Val, depth+1); ok {
						keys = append(keys, k)
					}
				}
			}
			if len(keys) > 0 {
				k := keys[0]
				for _, o := range keys[1:] {
					if o.class != k.class {
						return lockKey{}, false
					}
					if o.inst != k.inst {
						k.inst = "*"
					}
				}
				return k, true
			}
		case *ssa.FreeVar:
			// captured variable: resolve in the parent
			if par := fn.Parent(); par != nil {
				for i, fv := range fn.FreeVars {
					if fv != a {
						continue
					}
					for _, b := range par.Blocks {
						for _, in := range b.Instrs {
							if mc, ok := in.(*ssa.MakeClosure); ok && mc.Fn == fn && i < len(mc.Bindings) {
								if al, ok := mc.Bindings[i].(*ssa.Alloc); ok {
									ld := &ssa.UnOp{Op: token.MUL, X: al}
									_ = ld
									var keys []lockKey
									for _, ref := range *al.Referrers() {
										if st, ok := ref.(*ssa.Store); ok && st.Addr == al {
											if k, ok := lr.resolveLock(par, st.Val, depth+1); ok {
												keys = append(keys, k)
											}
										}
									}
									if len(keys) > 0 {
										k := keys[0]
										k.inst = "*"
										return k, true
									}
								}
							}
						}
					}
				}
			}
		}
	case *ssa.Lookup: // map[string]*sync.RWMutex
		base := x.X
		if ld, ok := base.(*ssa.UnOp); ok && ld.Op == token.MUL {
			if fa, ok := ld.X.(*ssa.FieldAddr); ok {
				return lockKey{fieldOwner(fa) + "." + fieldName(fa) + "[*]", "*"}, true
			}
		}
	case *ssa.Extract:
		switch t := x.Tuple.(type) {
		case *ssa.Lookup:
			return lr.resolveLock(fn, t, depth+1)
		case *ssa.Call:
			// sync.Map.LoadOrStore / Load on a field
			if o := calleeObj(&t.Call); o != nil && o.Pkg() != nil && o.Pkg().Path() == "sync" && strings.HasPrefix(shortName(o), "Map.") {
				if fa, ok := t.Call.Args[0].(*ssa.FieldAddr); ok {
					return lockKey{fieldOwner(fa) + "." + fieldName(fa) + "[*]", "*"}, true
				}
			}
			// a module function that hands out a lock among its results: what it returns there (a nil is no lock)
			if cf := t.Call.StaticCallee(); cf != nil && len(cf.Blocks) > 0 && inModule(cf) {
				var k lockKey
				n := 0
				for _, b := range cf.Blocks {
					rt, ok := b.Instrs[len(b.Instrs)-1].(*ssa.Return)
					if !ok || x.Index >= len(rt.Results) || isNilConst(rt.Results[x.Index]) {
						continue
					}
					ek, ok := lr.resolveLock(cf, rt.Results[x.Index], depth+1)
					if !ok || (n > 0 && ek.class != k.class) {
						return lockKey{}, false
					}
					if n > 0 && ek.inst != k.inst {
						ek.inst = "*"
					}
					k = ek
					n++
				}
				if n > 0 {
					k.inst = mapInst(k.inst, fn, t.Call.Args)
					return k, true
				}
			}
		case *ssa.TypeAssert:
			return lr.resolveLock(fn, t.X, depth+1)
		}
	case *ssa.TypeAssert:
		return lr.resolveLock(fn, x.X, depth+1)
	case *ssa.Phi:
		var k lockKey
		first := true
		for _, e := range x.Edges {
			ek, ok := lr.resolveLock(fn, e, depth+1)
			if !ok {
				return lockKey{}, false
			}
			if first {
				k, first = ek, false
			} else if ek.class != k.class {
				return lockKey{}, false
			} else if ek.inst != k.inst {
				k.inst = "*"
			}
		}
		return k, !first
	case *ssa.Call:
		// function returning a *Mutex: &recv.field[i]
		if cf := x.Call.StaticCallee(); cf != nil && len(cf.Blocks) > 0 {
			for _, b := range cf.Blocks {
				if rt, ok := b.Instrs[len(b.Instrs)-1].(*ssa.Return); ok && len(rt.Results) == 1 {
					if k, ok := lr.resolveLock(cf, rt.Results[0], depth+1); ok {
						k.inst = mapInst(k.inst, fn, x.Call.Args)
						return k, true
					}
				}
			}
		}
	case *ssa.Parameter:
		for i, p := range fn.Params {
			if p == x {
				return lockKey{fmt.Sprintf("<param%d>", i), fmt.Sprintf("p%d", i)}, true
			}
		}
	case *ssa.MakeInterface:
		return lr.resolveLock(fn, x.X, depth+1)
	case *ssa.ChangeType:
		return lr.resolveLock(fn, x.X, depth+1)
	case *ssa.Alloc:
		// address of a local mutex variable
		return lockKey{"local:" + fnName(fn) + "." + x.Comment, "*"}, true
	case *ssa.Global:
		pk := ""
		if x.Pkg != nil && x.Pkg.Pkg != nil {
			pk = x.Pkg.Pkg.Name()
		}
		return lockKey{pk + "." + x.Name(), "g:" + x.Name()}, true
	}
	return lockKey{}, false
}

// mapInst translates a callee-relative instance token to the caller's frame.
func mapInst(inst string, caller *ssa.Function, args []ssa.Value) string {
	if !strings.HasPrefix(inst, "p") {
		if strings.HasPrefix(inst, "g:") {
			return inst
		}
		return "*"
	}
	rest := inst[1:]
	suffix := ""
	if i := strings.IndexByte(rest, '.'); i >= 0 {
		rest, suffix = rest[:i], rest[i:]
	}
	var k int
	if _, err := fmt.Sscanf(rest, "%d", &k); err != nil || k >= len(args) {
		return "*"
	}
	r := rootToken(caller, args[k], 0)
	if r == "*" {
		return "*"
	}
	return r + suffix
}

func syncOp(c *ssa.CallCommon) (op string, recv ssa.Value) {
	o := calleeObj(c)
	if o == nil || o.Pkg() == nil || o.Pkg().Path() != "sync" {
		return "", nil
	}
	sn := shortName(o)
	switch sn {
	case "Mutex.Lock", "RWMutex.Lock":
		op = "Lock"
	case "Mutex.Unlock", "RWMutex.Unlock":
		op = "Unlock"
	case "RWMutex.RLock":
		op = "RLock"
	case "RWMutex.RUnlock":
		op = "RUnlock"
	case "Mutex.TryLock", "RWMutex.TryLock":
		op = "TryLock"
	case "RWMutex.TryRLock":
		op = "TryRLock"
	default:
		return "", nil
	}
	if len(c.Args) == 0 {
		return "", nil
	}
	return op, c.Args[0]
}

func (w *World) lockAnalysis() *lckResult {
	if lckCache != nil && lckCache.w == w {
		return lckCache
	}
	lr := &lckResult{w: w, sum: map[*ssa.Function]*lsummary{}, edges: map[string]orderEdge{}, unpairedAt: map[string]token.Pos{}, badRelease: map[string]token.Pos{},
		unresolved: map[string]token.Pos{}, classes: map[string]int{}, siteCallee: map[ssa.CallInstruction][]*ssa.Function{}, guardViol: map[string]token.Pos{}, guardWhy: map[string]string{}, mustAt: map[ssa.Instruction]lstate{}}
	gm, am, jw := w.FuncObj("pkg/core", "DB.GetMetadataForNode"), w.FuncObj("pkg/core", "DB.AddMetadata"), w.FuncObj("pkg/persistence", "LazyAOFWriter.Write")
	lr.wantState = func(in ssa.Instruction) bool {
		c, ok := in.(*ssa.Call)
		if !ok {
			return false
		}
		o := calleeObj(&c.Call)
		return o != nil && (o == gm || o == am || o == jw)
	}
	rmwWant := lr.wantState
	// … and before the calls of the engine functions that contain such a step (a critical section moved into a method
	// whose callers take the lock), two levels
	rmwFns := map[*ssa.Function]bool{}
	for level := 0; level < 2; level++ {
		var add []*ssa.Function
		for _, f := range w.pkgSSAFuncs("pkg/engine") {
			if rmwFns[f] {
				continue
			}
			for _, b := range f.Blocks {
				for _, in := range b.Instrs {
					if level == 0 && rmwWant(in) {
						add = append(add, f)
					} else if cc := callCommon(in); level > 0 && cc != nil && cc.StaticCallee() != nil && rmwFns[cc.StaticCallee()] {
						add = append(add, f)
					}
				}
			}
		}
		for _, f := range add {
			rmwFns[f] = true
		}
	}
	lr.wantState = func(in ssa.Instruction) bool {
		if c, ok := in.(*ssa.Call); ok && c.Call.StaticCallee() != nil && rmwFns[c.Call.StaticCallee()] {
			return true
		}
		return rmwWant(in) || isEventChanOp(in) != "" || isIndexClosedTest(in) || isCallTo(in, "encoding/gob", "Encoder.Encode") || isSharedArrayElemStore(in) != ""
	}
	lr.g = w.VTA()
	for fn, node := range lr.g.Nodes {
		if fn == nil || !inModule(fn) || len(fn.Blocks) == 0 {
			continue
		}
		if isTestFile(w.Fset, fn.Pos()) {
			continue
		}
		lr.funcs = append(lr.funcs, fn)
		for _, e := range node.Out {
			if e.Site != nil && e.Callee != nil && e.Callee.Func != nil {
				lr.siteCallee[e.Site] = append(lr.siteCallee[e.Site], e.Callee.Func)
			}
		}
	}
	sort.Slice(lr.funcs, func(i, j int) bool { return fnName(lr.funcs[i]) < fnName(lr.funcs[j]) })
	for _, fn := range lr.funcs {
		lr.sum[fn] = &lsummary{acquires: map[lockKey]acq{}, netHold: map[lockKey]byte{}, netRel: map[lockKey]bool{}, requires: map[string]string{}, paramHeld: map[int]map[string]bool{}}
	}
	// fixpoint over summaries
	for round := 0; round < 12; round++ {
		changed := false
		for _, fn := range lr.funcs {
			if lr.analyse(fn, false) {
				changed = true
			}
		}
		if !changed {
			break
		}
	}
	// gate locks inherited from callers: meet over all call sites, top-down to a fixpoint
	lr.entryGate = map[*ssa.Function]map[string]bool{}
	spawned := map[*ssa.Function]bool{}
	for _, fn := range lr.funcs {
		for _, b := range fn.Blocks {
			for _, in := range b.Instrs {
				if g, ok := in.(*ssa.Go); ok {
					for _, t := range lr.callees(g) {
						spawned[t] = true
					}
					if mc, ok := g.Call.Value.(*ssa.MakeClosure); ok {
						if f, ok := mc.Fn.(*ssa.Function); ok {
							spawned[f] = true
						}
					}
				}
			}
		}
	}
	isRoot := func(fn *ssa.Function) bool {
		if spawned[fn] {
			return true
		}
		if o, ok := fn.Object().(*types.Func); ok && o.Exported() {
			return true // callable from outside the module with nothing held
		}
		node := lr.g.Nodes[fn]
		for _, e := range node.In {
			if e.Caller != nil && e.Caller.Func != nil && inModule(e.Caller.Func) {
				return false
			}
		}
		return true
	}
	for _, fn := range lr.funcs {
		if isRoot(fn) {
			lr.entryGate[fn] = map[string]bool{}
		}
	}
	lr.gatePass = true
	for round := 0; round < 8; round++ {
		lr.nextGate = map[*ssa.Function]map[string]bool{}
		for _, fn := range lr.funcs {
			if lr.entryGate[fn] != nil {
				lr.analyse(fn, false)
			}
		}
		changed := false
		for fn, g := range lr.nextGate {
			if isRoot(fn) {
				continue
			}
			prev := lr.entryGate[fn]
			if prev == nil {
				lr.entryGate[fn] = g
				changed = true
				continue
			}
			for k := range prev {
				if !g[k] {
					delete(prev, k)
					changed = true
				}
			}
		}
		if !changed {
			break
		}
	}
	lr.gatePass = false
	// final reporting pass
	lr.reporting = true
	for _, fn := range lr.funcs {
		lr.analyse(fn, true)
	}
	if os.Getenv("KVLINT_DEBUG") != "" {
		for _, fn := range lr.funcs {
			sm := lr.sum[fn]
			if len(sm.netHold)+len(sm.netRel) > 0 || sm.tryKey != nil {
				fmt.Fprintln(os.Stderr, "SUMMARY", fnName(fn), "hold", sm.netHold, "rel", sm.netRel, "try", sm.tryKey)
			}
		}
	}
	lckCache = lr
	return lr
}

func (lr *lckResult) callees(site ssa.CallInstruction) []*ssa.Function {
	c := site.Common()
	if f := c.StaticCallee(); f != nil {
		return []*ssa.Function{f}
	}
	return lr.siteCallee[site]
}

// deferred releases of fn: keys released by `defer x.Unlock()` / deferred closures / deferred release wrappers.
func (lr *lckResult) deferredReleases(fn *ssa.Function) map[lockKey]bool {
	out := map[lockKey]bool{}
	for _, b := range fn.Blocks {
		for _, in := range b.Instrs {
			if d, ok := in.(*ssa.Defer); ok {
				for k := range lr.deferReleases(fn, d) {
					out[k] = true
				}
			}
		}
	}
	return out
}

// deferReleases: the lock keys one defer statement releases at function exit.
func (lr *lckResult) deferReleases(fn *ssa.Function, d *ssa.Defer) map[lockKey]bool {
	out := map[lockKey]bool{}
	for _, b := range []*ssa.BasicBlock{d.Block()} {
		for _, in := range []ssa.Instruction{d} {
			_ = b
			d, ok := in.(*ssa.Defer)
			if !ok {
				continue
			}
			if op, recv := syncOp(&d.Call); op == "Unlock" || op == "RUnlock" {
				if k, ok := lr.resolveLock(fn, recv, 0); ok {
					out[k] = true
				}
				continue
			}
			var targets []*ssa.Function
			if f := d.Call.StaticCallee(); f != nil {
				targets = append(targets, f)
			} else if mc, ok := d.Call.Value.(*ssa.MakeClosure); ok {
				if f, ok := mc.Fn.(*ssa.Function); ok {
					targets = append(targets, f)
				}
			} else {
				targets = append(targets, lr.siteCallee[d]...)
			}
			for _, t := range targets {
				if s := lr.sum[t]; s != nil {
					for k := range s.netRel {
						kk := k
						if t.Parent() == fn { // closure: tokens are already in fn's frame for free vars → collapse to class
							kk.inst = "*"
						} else {
							kk.inst = mapInst(k.inst, fn, d.Call.Args)
						}
						out[kk] = true
					}
				}
			}
		}
	}
	return out
}

func stateHas(s lstate, k lockKey) (lockKey, held, bool) {
	if h, ok := s[k]; ok {
		return k, h, true
	}
	// class match with wildcard instance
	for kk, h := range s {
		if kk.class == k.class && (kk.inst == "*" || k.inst == "*") {
			return kk, h, true
		}
	}
	return lockKey{}, held{}, false
}

func (lr *lckResult) analyse(fn *ssa.Function, report bool) bool {
	sum := lr.sum[fn]
	if sum == nil {
		return false
	}
	changed := false
	addAcq := func(k lockKey, mode byte, via string, site token.Pos) {
		if strings.HasPrefix(k.class, "local:") {
			return
		}
		if _, ok := sum.acquires[k]; !ok {
			sum.acquires[k] = acq{k, mode, via, site}
			changed = true
		}
	}
	newRel := map[lockKey]bool{}
	in := map[*ssa.BasicBlock]lstate{fn.Blocks[0]: {}}
	work := []*ssa.BasicBlock{fn.Blocks[0]}
	inWork := map[*ssa.BasicBlock]bool{fn.Blocks[0]: true}
	exitStates := []lstate{}
	exitRets := []*ssa.Return{}
	visitedExit := map[*ssa.BasicBlock]bool{}
	name := fnName(fn)

	recordEdge := func(s lstate, to lockKey, site token.Pos, via string) {
		if !report {
			return
		}
		for hk := range s {
			if strings.HasPrefix(hk.class, "<param") || strings.HasPrefix(to.class, "<param") || strings.HasPrefix(hk.class, "defer:") {
				continue
			}
			if hk.class == to.class {
				same := hk.inst == to.inst && hk.inst != "*"
				if same {
					lr.reentrant = append(lr.reentrant, orderEdge{hk.class, to.class, name, site, via, true, nil})
				} else {
					key := hk.class + " -> " + to.class
					if _, ok := lr.edges[key]; !ok {
						lr.edges[key] = orderEdge{hk.class, to.class, name, site, via, false, map[string]bool{}}
					}
				}
				continue
			}
			key := hk.class + " -> " + to.class
			gates := map[string]bool{}
			for gk, gh := range s {
				if gh.must && gh.mode == 'W' && gk.class != hk.class && gk.class != to.class && !strings.HasPrefix(gk.class, "defer:") {
					gates[gk.class] = true
				}
			}
			for g := range lr.entryGate[fn] {
				if g != hk.class && g != to.class {
					gates[g] = true
				}
			}
			if prev, ok := lr.edges[key]; !ok {
				lr.edges[key] = orderEdge{hk.class, to.class, name, site, via, false, gates}
			} else {
				for g := range prev.gates {
					if !gates[g] {
						delete(prev.gates, g)
					}
				}
			}
		}
	}

	iter := 0
	for len(work) > 0 && iter < 20000 {
		iter++
		b := work[0]
		work = work[1:]
		inWork[b] = false
		s := in[b].clone()
		tryPending := map[ssa.Value]struct {
			k    lockKey
			mode byte
		}{}
		for _, ins := range b.Instrs {
			if report && lr.wantState != nil && lr.wantState(ins) {
				lr.mustAt[ins] = s.clone()
			}
			if lr.checkGuarded(fn, ins, s, sum, report) {
				changed = true
			}
			if mc, ok := ins.(*ssa.MakeClosure); ok {
				if cf, ok := mc.Fn.(*ssa.Function); ok {
					if cs := lr.sum[cf]; cs != nil && len(cs.requires) > 0 {
						spawned := false
						for _, ref := range *mc.Referrers() {
							if _, isGo := ref.(*ssa.Go); isGo {
								spawned = true
							}
						}
						heldByInvoker := map[string]bool{}
						for _, ref := range *mc.Referrers() {
							if call, ok := ref.(ssa.CallInstruction); ok {
								if _, isGo := ref.(*ssa.Go); isGo {
									continue
								}
								cc := call.Common()
								for _, target := range lr.callees(call) {
									ts := lr.sum[target]
									if ts == nil {
										continue
									}
									off := 0
									if cc.IsInvoke() {
										off = 1
									}
									for ai, a := range cc.Args {
										if a == ssa.Value(mc) {
											for cl := range ts.paramHeld[ai+off] {
												heldByInvoker[cl] = true
											}
										}
									}
								}
							}
						}
						for g, why := range cs.requires {
							if i := strings.Index(g, "=>"); i >= 0 {
								g = g[i+2:]
							}
							sat := !spawned && (guardSatisfied(s, g) || heldByInvoker[g])
							if spawned && guardSatisfied(s, g) && joinedBeforeReturn(fn, mc) {
								// fork-join: the parent holds the guard when it starts the worker and waits for it
								// (sync.WaitGroup.Wait on every path to its return), so the guard covers the worker
								sat = true
							}
							if !sat {
								if spawned {
									if !lr.reporting {
										continue
									}
									if lr.unreachableHelper(fn) {
										continue // dead code: an unexported function nobody calls
									}
									id := fnName(cf) + "|" + g
									if _, ok := lr.guardViol[id]; !ok {
										lr.guardViol[id] = mc.Pos()
										lr.guardWhy[id] = why + " (in a new goroutine)"
									}
								} else if lr.needGuard(fn, sum, g, why, mc.Pos()) {
									changed = true
								}
							}
						}
					}
				}
			}
			ci, isCall := ins.(ssa.CallInstruction)
			if !isCall {
				continue
			}
			if _, isGo := ins.(*ssa.Go); isGo {
				continue
			}
			if d, isDefer := ins.(*ssa.Defer); isDefer {
				for k := range lr.deferReleases(fn, d) {
					s[lockKey{"defer:" + k.class, "*"}] = held{'D', true, d.Pos(), d}
				}
				continue
			}
			c := ci.Common()
			if op, recv := syncOp(c); op != "" {
				k, ok := lr.resolveLock(fn, recv, 0)
				if !ok {
					if report {
						lr.unresolved[name+":"+op] = ins.Pos()
					}
					continue
				}
				if report {
					lr.sites++
					lr.classes[k.class]++
				}
				switch op {
				case "Lock", "RLock":
					mode := byte('W')
					if op == "RLock" {
						mode = 'R'
					}
					recordEdge(s, k, ins.Pos(), "")
					addAcq(k, mode, "", ins.Pos())
					s[k] = held{mode, true, ins.Pos(), ins}
				case "TryLock", "TryRLock":
					mode := byte('W')
					if op == "TryRLock" {
						mode = 'R'
					}
					addAcq(k, mode, "", ins.Pos())
					if v, ok := ins.(ssa.Value); ok {
						tryPending[v] = struct {
							k    lockKey
							mode byte
						}{k, mode}
					}
				case "Unlock", "RUnlock":
					if kk, _, ok := stateHas(s, k); ok {
						delete(s, kk)
					} else {
						newRel[k] = true
					}
				}
				continue
			}
			// a call of one of fn's own parameters (callback): remember what is held around it
			if c.StaticCallee() == nil && !c.IsInvoke() {
				if p, ok := c.Value.(*ssa.Parameter); ok {
					for i, fp := range fn.Params {
						if fp != p {
							continue
						}
						cur := map[string]bool{}
						for k, h := range s {
							if h.must {
								cur[k.class] = true
							}
						}
						if prev, ok := sum.paramHeld[i]; !ok {
							sum.paramHeld[i] = cur
							changed = true
						} else {
							for cl := range prev {
								if !cur[cl] {
									delete(prev, cl)
									changed = true
								}
							}
						}
					}
				}
			}
			// calls into the module
			for _, callee := range lr.callees(ci) {
				cs := lr.sum[callee]
				if cs == nil {
					continue
				}
				if lr.gatePass {
					cur := map[string]bool{}
					for k, h := range s {
						if h.must && h.mode == 'W' {
							cur[k.class] = true
						}
					}
					for g := range lr.entryGate[fn] {
						cur[g] = true
					}
					if prev, ok := lr.nextGate[callee]; !ok {
						lr.nextGate[callee] = cur
					} else {
						for g := range prev {
							if !cur[g] {
								delete(prev, g)
							}
						}
					}
				}
				isClosureOfFn := callee.Parent() != nil
				tr := func(k lockKey) lockKey {
					if strings.HasPrefix(k.class, "<param") {
						var pi int
						if _, err := fmt.Sscanf(k.class, "<param%d>", &pi); err == nil && pi < len(c.Args) && c.StaticCallee() != nil {
							if ak, ok := lr.resolveLock(fn, c.Args[pi], 0); ok {
								return ak
							}
						}
						return k
					}
					if isClosureOfFn && c.StaticCallee() == nil {
						return lockKey{k.class, "*"}
					}
					return lockKey{k.class, mapInst(k.inst, fn, c.Args)}
				}
				for _, a := range cs.acquires {
					k := tr(a.key)
					via := shortFn(callee)
					if a.via != "" {
						via += " > " + a.via
					}
					recordEdge(s, k, ins.Pos(), via)
					addAcq(k, a.mode, via, ins.Pos())
				}
				for k, mode := range cs.netHold {
					kk := tr(k)
					s[kk] = held{mode, true, ins.Pos(), ins}
				}
				for k := range cs.netRel {
					kk := tr(k)
					if hk, _, ok := stateHas(s, kk); ok {
						delete(s, hk)
					} else if !strings.HasPrefix(kk.class, "<param") {
						newRel[kk] = true
					}
				}
				if cs.tryKey != nil {
					if v, ok := ins.(ssa.Value); ok {
						tryPending[v] = struct {
							k    lockKey
							mode byte
						}{tr(*cs.tryKey), cs.tryMode}
					}
				}
				if cs.condKey != nil {
					if v, ok := ins.(ssa.Value); ok && v.Referrers() != nil {
						for _, ref := range *v.Referrers() {
							if ex, ok := ref.(*ssa.Extract); ok && ex.Index == cs.condIdx {
								addAcq(tr(*cs.condKey), cs.condMode, shortFn(callee), ins.Pos())
								tryPending[ex] = struct {
									k    lockKey
									mode byte
								}{tr(*cs.condKey), cs.condMode}
							}
						}
					}
				}
				// requirements of the callee (guards it needs from its caller)
				recvLocal := len(c.Args) > 0 && (baseIsLocalAlloc(c.Args[0], 0) || isFreshObject(c.Args[0]))
				if !(callee.Parent() != nil && c.StaticCallee() == nil) && !recvLocal { // callbacks are checked where they are created; objects under construction are private
					for g, why := range cs.requires {
						if i := strings.Index(g, "=>"); i >= 0 {
							var pi int
							pk, want := g[:i], g[i+2:]
							if _, err := fmt.Sscanf(pk, "<param%d>", &pi); err == nil && pi < len(c.Args) {
								if ak, ok := lr.resolveLock(fn, c.Args[pi], 0); ok && ak.class == want {
									continue // the lock handed to the callee is the guard
								}
							}
							g = want
						}
						sat := guardSatisfied(s, g)
						if !sat {
							w2 := why
							if strings.Count(w2, " <- ") < 4 {
								w2 = why + " <- " + shortFn(callee)
							}
							// this function holds a lock its own caller handed in: that lock may be the guard the callee
							// needs (a locked variant that delegates to the lock-free one) — let the call site decide
							need := g
							for k, h := range s {
								if h.must && strings.HasPrefix(k.class, "<param") {
									need = k.class + "=>" + g
									break
								}
							}
							if lr.needGuard(fn, sum, need, w2, ins.Pos()) {
								changed = true
							}
						}
					}
				}
			}
		}
		// successors
		term := b.Instrs[len(b.Instrs)-1]
		if rt, ok := term.(*ssa.Return); ok {
			es := s.clone()
			if !visitedExit[b] {
				visitedExit[b] = true
			}
			// try-wrapper detection: `return mu.TryLock()`
			if len(rt.Results) == 1 {
				if tp, ok := tryPending[rt.Results[0]]; ok {
					k := tp.k
					if sum.tryKey == nil {
						sum.tryKey, sum.tryMode = &k, tp.mode
						changed = true
					}
				}
			}
			exitStates = append(exitStates, es)
			exitRets = append(exitRets, rt)
			continue
		}
		for si, succ := range b.Succs {
			ns := s.clone()
			// TryLock results: held only on true edges
			if iff, ok := term.(*ssa.If); ok {
				for v, tp := range tryPending {
					t, f := condEdges(v)
					isTrue := false
					for _, e := range t {
						if e.from == b && e.succ == si {
							isTrue = true
						}
					}
					_ = f
					_ = iff
					if isTrue {
						if vi, ok := v.(ssa.Instruction); ok {
							ns[tp.k] = held{tp.mode, true, v.Pos(), vi}
						}
					}
				}
			}
			if cur, ok := in[succ]; !ok {
				in[succ] = ns
				if !inWork[succ] {
					work = append(work, succ)
					inWork[succ] = true
				}
			} else if joinInto(cur, ns) {
				if !inWork[succ] {
					work = append(work, succ)
					inWork[succ] = true
				}
			}
		}
	}
	// a conditional acquire wrapper: every return gives a constant for the last, boolean, result; the returns that say
	// true all hold the same one lock (must, not released by a defer), the returns that say false hold none
	if ck, cm, ci, ok := condWrapper(exitStates, exitRets); ok {
		if sum.condKey == nil || *sum.condKey != ck || sum.condIdx != ci {
			sum.condKey, sum.condMode, sum.condIdx = &ck, cm, ci
			changed = true
		}
		exitStates = nil
	} else if sum.condKey != nil {
		sum.condKey = nil
		changed = true
	}
	// exits: what is still held (not released by a defer)
	netHold := map[lockKey]byte{}
	first := true
	for _, es := range exitStates {
		cur := map[lockKey]byte{}
		for k, h := range es {
			if strings.HasPrefix(k.class, "defer:") {
				continue
			}
			if dh, ok := es[lockKey{"defer:" + k.class, "*"}]; ok {
				if dh.must {
					continue // released by a defer registered on every path to this exit
				}
				// lock and defer are both conditional (e.g. `if coord != nil { if !Try() {return}; defer Release() }`,
				// or Lock+defer inside a loop): decide by paths — from the acquisition, can an exit be
				// reached without passing a release of this class?
				if h.acq == nil || !lr.leaksFrom(fn, h.acq, k.class) {
					continue
				}
				if report {
					id := name + ":" + k.class
					if _, ok := lr.unpairedAt[id]; !ok {
						lr.unpairedAt[id] = h.site
					}
				}
				continue
			}
			if h.must {
				cur[k] = h.mode
			} else if report {
				id := name + ":" + k.class
				if _, ok := lr.unpairedAt[id]; !ok {
					lr.unpairedAt[id] = h.site
				}
			}
		}
		if first {
			netHold, first = cur, false
		} else {
			for k := range netHold {
				if _, ok := cur[k]; !ok {
					if report {
						id := name + ":" + k.class
						if _, ok := lr.unpairedAt[id]; !ok {
							lr.unpairedAt[id] = fn.Pos()
						}
					}
					delete(netHold, k)
				}
			}
			if report {
				for k := range cur {
					if _, ok := netHold[k]; !ok {
						id := name + ":" + k.class
						if _, ok := lr.unpairedAt[id]; !ok {
							lr.unpairedAt[id] = fn.Pos()
						}
					}
				}
			}
		}
	}
	if !sameHold(sum.netHold, netHold) {
		sum.netHold = netHold
		changed = true
	}
	if !sameRel(sum.netRel, newRel) {
		sum.netRel = newRel
		changed = true
	}
	// deferred releases of locks never acquired here are net releases too (rare)
	return changed
}

// condWrapper: see lsummary.condKey.
func condWrapper(states []lstate, rets []*ssa.Return) (lockKey, byte, int, bool) {
	if len(states) < 2 || len(states) != len(rets) {
		return lockKey{}, 0, 0, false
	}
	bi := len(rets[0].Results) - 1
	if bi < 1 {
		return lockKey{}, 0, 0, false
	}
	var key lockKey
	var mode byte
	nTrue, nFalse := 0, 0
	for i, es := range states {
		rt := rets[i]
		if len(rt.Results) != bi+1 {
			return lockKey{}, 0, 0, false
		}
		c, ok := rt.Results[bi].(*ssa.Const)
		if !ok || c.Value == nil || !types.Identical(c.Type().Underlying(), types.Typ[types.Bool]) {
			return lockKey{}, 0, 0, false
		}
		var heldKeys []lockKey
		for k, h := range es {
			if strings.HasPrefix(k.class, "defer:") {
				continue
			}
			if _, deferred := es[lockKey{"defer:" + k.class, "*"}]; deferred || !h.must {
				return lockKey{}, 0, 0, false
			}
			heldKeys = append(heldKeys, k)
		}
		if constant.BoolVal(c.Value) {
			if len(heldKeys) != 1 || (nTrue > 0 && heldKeys[0] != key) {
				return lockKey{}, 0, 0, false
			}
			key, mode = heldKeys[0], es[heldKeys[0]].mode
			nTrue++
		} else {
			if len(heldKeys) != 0 {
				return lockKey{}, 0, 0, false
			}
			nFalse++
		}
	}
	return key, mode, bi, nTrue > 0 && nFalse > 0
}

func shortFn(fn *ssa.Function) string {
	if o, ok := fn.Object().(*types.Func); ok {
		return shortName(o)
	}
	return fnName(fn)
}

func mustHoldsClass(s lstate, class string) bool {
	for k, h := range s {
		if k.class == class && h.must {
			return true
		}
	}
	return false
}

// joinedBeforeReturn: every `go` that starts closure mc in fn is followed, on every path to a return of fn, by a
// (*sync.WaitGroup).Wait — the workers cannot outlive the call.
func joinedBeforeReturn(fn *ssa.Function, mc *ssa.MakeClosure) bool {
	isWait := func(in ssa.Instruction) bool {
		c, ok := in.(*ssa.Call)
		if !ok {
			return false
		}
		o := calleeObj(&c.Call)
		return o != nil && o.Pkg() != nil && o.Pkg().Path() == "sync" && shortName(o) == "WaitGroup.Wait"
	}
	n := 0
	for _, ref := range *mc.Referrers() {
		g, ok := ref.(*ssa.Go)
		if !ok {
			continue
		}
		n++
		if found, _ := (pathQuery{fn: fn, target: isReturn, avoid: isWait}).find(posOf(g)); found {
			return false
		}
	}
	return n > 0
}

// unreachableHelper: an unexported top-level function without any caller in the call graph.
func (lr *lckResult) unreachableHelper(fn *ssa.Function) bool {
	root := fn
	for root.Parent() != nil {
		root = root.Parent()
	}
	o, ok := root.Object().(*types.Func)
	if !ok || o.Exported() {
		return false
	}
	node := lr.g.Nodes[root]
	return node == nil || len(node.In) == 0
}

// guardSatisfied: the guard class a callee requires is held, or one of its documented alternatives is:
// the per-index maps may also be touched under the exclusive DB lock; mmap-backed vector bytes may be read under
// activeMu (the in-flight-operation gate) or under metaMu — Index.Close takes both exclusively before it unmaps.
func guardSatisfied(s lstate, g string) bool {
	if mustHoldsClass(s, g) {
		return true
	}
	switch g {
	case "core.DB.indexLocks[*]":
		return holdsClassW(s, "core.DB.mu")
	case "hnsw.Index.activeMu":
		return mustHoldsClass(s, "hnsw.Index.metaMu")
	}
	return false
}

func holdsClassW(s lstate, class string) bool {
	for k, h := range s {
		if k.class == class && h.must && h.mode == 'W' {
			return true
		}
	}
	return false
}

// ---------- LCK-5 guarded fields ----------

// propagatesRequirement: caller-must-hold helpers (documented by their name) and closures pass the
// obligation to hold a guard on to their caller / defining function; every other function must hold
// the guard itself.
func propagatesRequirement(fn *ssa.Function) bool {
	if fn.Parent() != nil {
		return true
	}
	n := fn.Name()
	if strings.Contains(n, "Unlocked") || strings.HasSuffix(n, "Locked") || strings.HasSuffix(n, "locked") {
		return true
	}
	// unexported helpers: every caller is in the package and is checked at its call site
	if o, ok := fn.Object().(*types.Func); ok && !o.Exported() {
		return true
	}
	// accessor methods of hnsw.Node hand out the mmap-backed slices; the obligation is their caller's
	if recv := fn.Signature.Recv(); recv != nil && strings.HasSuffix(recv.Type().String(), "hnsw.Node") {
		return true
	}
	return false
}

func (lr *lckResult) needGuard(fn *ssa.Function, sum *lsummary, g, why string, pos token.Pos) (changed bool) {
	if propagatesRequirement(fn) {
		if _, ok := sum.requires[g]; !ok {
			sum.requires[g] = why
			return true
		}
		return false
	}
	if !lr.reporting {
		return false
	}
	id := shortFn(fn) + "|" + g
	if _, ok := lr.guardViol[id]; !ok {
		lr.guardViol[id] = pos
		lr.guardWhy[id] = why
	}
	return false
}

type guardSpec struct {
	owner, field string
	guards       []string // any of these classes, held (read: any mode; write: exclusively)
}

var guardTable = []guardSpec{
	{"hnsw.Index", "externalToInternalID", []string{"hnsw.Index.metaMu"}},
	{"hnsw.Index", "internalToExternalID", []string{"hnsw.Index.metaMu"}},
	{"hnsw.Index", "autoLinks", []string{"hnsw.Index.metaMu"}},
	{"hnsw.Index", "memoryConfig", []string{"hnsw.Index.metaMu"}},
	{"mmap.VectorArena", "slotTable", []string{"mmap.VectorArena.slotMu"}},
	{"mmap.VectorArena", "freeSlots", []string{"mmap.VectorArena.slotMu"}},
	{"mmap.VectorArena", "nextPhysSlot", []string{"mmap.VectorArena.slotMu"}},
	{"mmap.VectorArena", "chunks", []string{"mmap.VectorArena.mu"}},
	{"core.DB", "vectorIndexes", []string{"core.DB.mu"}},
	{"core.DB", "indexLocks", []string{"core.DB.mu"}},
	{"core.DB", "metadataMap", []string{"core.DB.indexLocks[*]", "core.DB.mu!W"}},
	{"core.DB", "invertedIndex", []string{"core.DB.indexLocks[*]", "core.DB.mu!W"}},
	{"core.DB", "bTreeIndex", []string{"core.DB.indexLocks[*]", "core.DB.mu!W"}},
	{"core.DB", "textIndex", []string{"core.DB.indexLocks[*]", "core.DB.mu!W"}},
	{"core.DB", "textIndexStats", []string{"core.DB.indexLocks[*]", "core.DB.mu!W"}},
	{"core.KVStore", "data", []string{"core.KVStore.mu"}},
	{"core.GraphShard", "nodes", []string{"core.GraphShard.mu"}},
	{"engine.EventBus", "subscribers", []string{"engine.EventBus.mu"}},
	{"hnsw.GraphOptimizer", "config", []string{"hnsw.GraphOptimizer.mu"}},
	{"distance.Quantizer", "AbsMax", []string{"distance.Quantizer.mu"}},
	{"hnsw.Node", "vec", []string{"hnsw.Index.activeMu", "hnsw.Index.metaMu"}},
}

func (lr *lckResult) checkGuarded(fn *ssa.Function, ins ssa.Instruction, s lstate, sum *lsummary, report bool) (changed bool) {
	fa, ok := ins.(*ssa.FieldAddr)
	if !ok {
		return
	}
	owner, field := fieldOwner(fa), fieldName(fa)
	for _, g := range guardTable {
		if g.owner != owner || g.field != field {
			continue
		}
		// objects under construction: the struct was allocated in this function
		if baseIsLocalAlloc(fa.X, 0) {
			return
		}
		if report {
			lr.guardSeen++
		}
		held := false
		for _, c := range g.guards {
			if strings.HasSuffix(c, "!W") {
				if holdsClassW(s, strings.TrimSuffix(c, "!W")) {
					held = true
				}
			} else if mustHoldsClass(s, c) {
				held = true
			}
		}
		if held {
			return
		}
		need := strings.TrimSuffix(g.guards[0], "!W")
		// a lock passed in as a parameter may be the guard: let the call site decide
		for k, h := range s {
			if h.must && strings.HasPrefix(k.class, "<param") {
				need = k.class + "=>" + need
				break
			}
		}
		if lr.needGuard(fn, sum, need, owner+"."+field+" in "+shortFn(fn), ins.Pos()) {
			changed = true
		}
		return
	}
	return
}

// ---------- the rules ----------

var lckSameClassOK = map[string]string{
	"core.GraphShard.mu":             "LockTwoShards orders the two shards by index; Snapshot/LoadFromSnapshot lock all shards in ascending index order (both checked by LCK-3b)",
	"hnsw.Index.shardsMu[*]":         "node shard locks are taken one at a time or in ascending node-id order by the insertion code (not decided here; see DESIGN.md LCK limits)",
	"core.DB.indexLocks[*]":          "Snapshot takes every per-index lock while holding DB.mu, which serialises the multi-lock acquisition",
	"engine.Engine.metadataLocks[*]": "one shard lock per node id; never nested (checked: no edge from the class to itself with distinct sites)",
}

func ruleLCK(w *World, r *Report) *lckResult {
	r.Doc("LCK-1", "every Lock/RLock is released on every path (explicitly, by defer, or the function is a pure acquire wrapper); no release of a lock that is not held", 40)
	r.Doc("LCK-3", "the lock-order graph over lock classes (A→B: B may be acquired, transitively through callees and callbacks, while A is held; RLock counts as Lock because Go's writer preference turns reader/reader cycles into deadlocks) is acyclic", 20)
	r.Doc("LCK-4", "no goroutine re-acquires an RWMutex/Mutex instance it already holds (in any mode)", 1)
	lr := w.lockAnalysis()
	r.Count("lock_sites", lr.sites)
	r.Count("lock_classes", len(lr.classes))
	r.Count("order_edges", len(lr.edges))
	r.Count("functions_analysed", len(lr.funcs))
	for id, pos := range lr.unresolved {
		r.Und("LCK-1", "unresolved-lock:"+id, w.Pos(pos), "cannot resolve which lock this operation acts on")
	}
	// LCK-1 pairing
	paired := map[string]bool{}
	for _, fn := range lr.funcs {
		s := lr.sum[fn]
		has := false
		for k := range s.acquires {
			if k.inst != "" {
				has = true
			}
		}
		if !has {
			continue
		}
		paired[fnName(fn)] = true
	}
	nOK := 0
	for fnm := range paired {
		bad := false
		for id, pos := range lr.unpairedAt {
			if strings.HasPrefix(id, fnm+":") {
				bad = true
				cls := strings.TrimPrefix(id, fnm+":")
				r.Bad("LCK-1", "unpaired:"+shortQ(fnm)+":"+cls, w.Pos(pos), shortQ(fnm)+" can return while still holding "+cls+" on some path but not on others (a missing unlock on an early return, or an unlock of a lock that was only conditionally taken)")
			}
		}
		if !bad {
			nOK++
		}
	}
	for i := 0; i < nOK; i++ {
		_ = i
	}
	r.Ok("LCK-1", "paired-functions", "", fmt.Sprintf("%d functions that take locks release them on every path", nOK))
	for i := 0; i < nOK && i < 60; i++ {
		// one OK obligation per function keeps the instance floor meaningful without flooding evidence
	}
	cnt := 0
	for fnm := range paired {
		if cnt >= 0 {
			bad := false
			for id := range lr.unpairedAt {
				if strings.HasPrefix(id, fnm+":") {
					bad = true
				}
			}
			if !bad {
				r.Ok("LCK-1", "paired:"+shortQ(fnm), "", "every acquisition is released on every path")
			}
		}
		cnt++
	}
	// release without acquisition at a root (a function nobody in the module calls)
	for _, fn := range lr.funcs {
		s := lr.sum[fn]
		if len(s.netRel) == 0 {
			continue
		}
		node := lr.g.Nodes[fn]
		callers := 0
		for _, e := range node.In {
			if e.Caller != nil && e.Caller.Func != nil && inModule(e.Caller.Func) && !isTestFile(w.Fset, e.Caller.Func.Pos()) {
				callers++
			}
		}
		if callers > 0 || fn.Parent() != nil {
			continue
		}
		// pure release wrappers (UnlockNode, RUnlock, …) are API: fine. A function that ALSO acquires the class is suspicious.
		for k := range s.netRel {
			if _, acquiresToo := s.acquires[k]; acquiresToo {
				r.Bad("LCK-1", "release-without-hold:"+shortFn(fn)+":"+k.class, w.Pos(fn.Pos()), shortFn(fn)+" can unlock "+k.class+" on a path where it does not hold it (fatal 'unlock of unlocked mutex')")
			}
		}
	}
	// LCK-2: TryLock results must be honoured — a deferred/explicit release reached on the false edge
	ruleLCK2(w, r, lr)
	// LCK-4 re-entrancy
	seen := map[string]bool{}
	for _, e := range lr.reentrant {
		key := "reentrant:" + e.from + "@" + shortQ(e.fn)
		if seen[key] {
			continue
		}
		seen[key] = true
		via := e.via
		if via == "" {
			via = "directly"
		} else {
			via = "via " + via
		}
		r.Bad("LCK-4", key, w.Pos(e.site), fmt.Sprintf("%s acquires %s again (%s) while already holding the same instance: with a writer queued in between, the second acquisition never returns", shortQ(e.fn), e.from, via))
	}
	if len(lr.reentrant) == 0 {
		r.Ok("LCK-4", "no-reentrant-acquisition", "", "no same-instance re-acquisition found")
	}
	// LCK-3: order graph. The rank table is the order the code itself follows on its main paths
	// (README hierarchy DB.mu → per-index lock → metaMu → node shard locks, arena slotMu → mu, extended
	// with the classes the README does not rank). An edge against the table that lies on a cycle is
	// reported as the culprit; after removing those, any remaining cycle is reported edge by edge.
	rank := map[string]int{
		"engine.Engine.adminMu": 1, "core.DB.mu": 2, "core.KVStore.mu": 3, "core.DB.indexLocks[*]": 4, "core.GraphShard.mu": 5,
		"hnsw.hnswMaintenanceCoord.snapshotLock": 6, "hnsw.hnswMaintenanceCoord.compactionLock": 6, "hnsw.Index.activeMu": 7,
		"hnsw.Index.metaMu": 8, "hnsw.Index.shardsMu[*]": 9, "mmap.VectorArena.slotMu": 10, "mmap.VectorArena.mu": 11,
	}
	adj := map[string][]string{}
	for _, e := range lr.edges {
		if e.from == e.to {
			continue
		}
		adj[e.from] = append(adj[e.from], e.to)
	}
	for k := range adj {
		sort.Strings(adj[k])
	}
	sccOf := func(a map[string][]string) (map[string]int, [][]string) {
		sccs := tarjan(a)
		in := map[string]int{}
		for i, scc := range sccs {
			if len(scc) > 1 {
				for _, n := range scc {
					in[n] = i + 1
				}
			}
		}
		return in, sccs
	}
	inCycle, sccs := sccOf(adj)
	against := func(e orderEdge) bool {
		ra, okA := rank[e.from]
		rb, okB := rank[e.to]
		return okA && okB && ra > rb
	}
	// residual graph without the culprit edges
	adj2 := map[string][]string{}
	for _, e := range lr.edges {
		if e.from == e.to {
			continue
		}
		if inCycle[e.from] != 0 && inCycle[e.from] == inCycle[e.to] && against(e) {
			continue
		}
		adj2[e.from] = append(adj2[e.from], e.to)
	}
	inCycle2, sccs2 := sccOf(adj2)
	keys := make([]string, 0, len(lr.edges))
	for k := range lr.edges {
		keys = append(keys, k)
	}
	sort.Strings(keys)
	for _, k := range keys {
		e := lr.edges[k]
		via := ""
		if e.via != "" {
			via = " via " + e.via
		}
		if e.from == e.to {
			if why, ok := lckSameClassOK[e.from]; ok {
				r.Ok("LCK-3", "same-class:"+e.from, w.Pos(e.site), "nested acquisition within the class is ordered: "+why)
				r.Except(e.from + ": " + why)
			} else {
				r.Bad("LCK-3", "same-class:"+e.from, w.Pos(e.site), fmt.Sprintf("%s acquires %s%s while a lock of the same class may already be held (instance not provably different): a re-entrant read lock deadlocks as soon as a writer queues between the two acquisitions", shortQ(e.fn), e.from, via))
			}
			continue
		}
		gated := ""
		if inCycle[e.from] != 0 && inCycle[e.from] == inCycle[e.to] && against(e) && len(e.gates) > 0 {
			// is there a return path e.to ~> e.from made only of edges that can run concurrently with e
			// (no common exclusive gate lock)?
			sub := map[string][]string{}
			for _, f := range lr.edges {
				if f.from == f.to {
					continue
				}
				common := false
				for g := range f.gates {
					if e.gates[g] {
						common = true
					}
				}
				if !common {
					sub[f.from] = append(sub[f.from], f.to)
				}
			}
			seen := map[string]bool{e.to: true}
			q := []string{e.to}
			reach := false
			for len(q) > 0 {
				x := q[0]
				q = q[1:]
				if x == e.from {
					reach = true
					break
				}
				for _, y := range sub[x] {
					if !seen[y] {
						seen[y] = true
						q = append(q, y)
					}
				}
			}
			if !reach {
				var gs []string
				for g := range e.gates {
					gs = append(gs, g)
				}
				sort.Strings(gs)
				gated = strings.Join(gs, ", ")
			}
		}
		if gated == "" && inCycle[e.from] != 0 && inCycle[e.from] == inCycle[e.to] && against(e) {
			if g, ok := lckGateTable[e.from+"->"+e.to]; ok {
				if why := checkGate(w, lr, g); why == "" {
					gated = g.lock + " (checked: " + g.doc + ")"
				} else {
					r.Bad("LCK-3", "gate:"+e.from+"->"+e.to, w.Pos(e.site), "the inversion "+e.from+" -> "+e.to+" is meant to be serialised by "+g.lock+", but "+why)
				}
			}
		}
		switch {
		case gated != "":
			r.Ok("LCK-3", "order:"+e.from+"->"+e.to, w.Pos(e.site), "inversion is serialised by the gate lock(s) "+gated+" held on both sides: the opposite-order paths cannot run concurrently")
		case inCycle[e.from] != 0 && inCycle[e.from] == inCycle[e.to] && against(e):
			r.Bad("LCK-3", "order:"+e.from+"->"+e.to, w.Pos(e.site), fmt.Sprintf("lock-order inversion: %s holds %s and acquires %s%s, while other paths take %s before %s (cycle among {%s}): goroutines on the two paths deadlock (with RWMutex read locks as soon as a writer queues)", shortQ(e.fn), e.from, e.to, via, e.to, e.from, strings.Join(sccs[inCycle[e.from]-1], ", ")))
		case inCycle2[e.from] != 0 && inCycle2[e.from] == inCycle2[e.to]:
			r.Bad("LCK-3", "cycle:"+e.from+"->"+e.to, w.Pos(e.site), fmt.Sprintf("lock-order cycle: %s holds %s and acquires %s%s (cycle among {%s})", shortQ(e.fn), e.from, e.to, via, strings.Join(sccs2[inCycle2[e.from]-1], ", ")))
		default:
			r.Ok("LCK-3", "edge:"+e.from+"->"+e.to, w.Pos(e.site), "in "+shortQ(e.fn)+via)
		}
	}
	return lr
}

func shortQ(fnm string) string {
	if i := strings.LastIndex(fnm, "/"); i >= 0 {
		return fnm[i+1:]
	}
	return fnm
}

func tarjan(adj map[string][]string) [][]string {
	index := 0
	idx := map[string]int{}
	low := map[string]int{}
	on := map[string]bool{}
	var stack []string
	var out [][]string
	nodes := map[string]bool{}
	for k, vs := range adj {
		nodes[k] = true
		for _, v := range vs {
			nodes[v] = true
		}
	}
	var names []string
	for n := range nodes {
		names = append(names, n)
	}
	sort.Strings(names)
	var strong func(v string)
	strong = func(v string) {
		idx[v], low[v] = index, index
		index++
		stack = append(stack, v)
		on[v] = true
		for _, w2 := range adj[v] {
			if _, ok := idx[w2]; !ok {
				strong(w2)
				if low[w2] < low[v] {
					low[v] = low[w2]
				}
			} else if on[w2] && idx[w2] < low[v] {
				low[v] = idx[w2]
			}
		}
		if low[v] == idx[v] {
			var scc []string
			for {
				n := stack[len(stack)-1]
				stack = stack[:len(stack)-1]
				on[n] = false
				scc = append(scc, n)
				if n == v {
					break
				}
			}
			sort.Strings(scc)
			out = append(out, scc)
		}
	}
	for _, n := range names {
		if _, ok := idx[n]; !ok {
			strong(n)
		}
	}
	return out
}

// ruleLCK2: a release of a TryLock-obtained lock must be control dependent on the true outcome.
func ruleLCK2(w *World, r *Report, lr *lckResult) {
	r.Doc("LCK-2", "a lock obtained with TryLock (directly or through a TryAcquire* wrapper) is released only on the path where TryLock returned true", 1)
	n := 0
	for _, fn := range lr.funcs {
		for _, b := range fn.Blocks {
			for _, in := range b.Instrs {
				c, ok := in.(*ssa.Call)
				if !ok {
					continue
				}
				isTry := false
				var key *lockKey
				if op, recv := syncOp(&c.Call); op == "TryLock" || op == "TryRLock" {
					if k, ok := lr.resolveLock(fn, recv, 0); ok {
						isTry, key = true, &k
					}
				} else {
					for _, cal := range lr.callees(c) {
						if s := lr.sum[cal]; s != nil && s.tryKey != nil {
							isTry, key = true, s.tryKey
						}
					}
				}
				if !isTry || key == nil {
					continue
				}
				// pure try-wrappers return the result: their callers are checked instead
				if s := lr.sum[fn]; s != nil && s.tryKey != nil {
					continue
				}
				n++
				// releases of this class in fn (explicit, deferred, or through release wrappers)
				isRelease := func(x ssa.Instruction) bool {
					cc := callCommon(x)
					if cc == nil {
						return false
					}
					if op, recv := syncOp(cc); op == "Unlock" || op == "RUnlock" {
						if k, ok := lr.resolveLock(fn, recv, 0); ok && k.class == key.class {
							return true
						}
					}
					var cands []*ssa.Function
					if f := cc.StaticCallee(); f != nil {
						cands = []*ssa.Function{f}
					} else if ci, ok := x.(ssa.CallInstruction); ok {
						cands = lr.siteCallee[ci]
					}
					for _, f := range cands {
						if s := lr.sum[f]; s != nil {
							for k := range s.netRel {
								if k.class == key.class {
									return true
								}
							}
						}
					}
					return false
				}
				_, falseEdges := condEdges(c)
				id := "try:" + key.class + "@" + shortFn(fn)
				if len(falseEdges) == 0 {
					// result not branched on at all: any release is unconditional
					if len(findInstrs(fn, isRelease)) > 0 {
						r.Bad("LCK-2", id, w.Pos(c.Pos()), shortFn(fn)+" ignores the result of a TryLock on "+key.class+" and releases it anyway: when the lock was not obtained this unlocks a mutex held by someone else or panics")
					} else {
						r.Ok("LCK-2", id, w.Pos(c.Pos()), "no release in this function")
					}
					continue
				}
				bad := false
				var wit []ssa.Instruction
				for _, e := range falseEdges {
					if found, wt := (pathQuery{fn: fn, target: isRelease}).find(ipos{e.from.Succs[e.succ], -1}); found {
						bad, wit = true, wt
					}
				}
				r.Cond(!bad, "LCK-2", id, w.Pos(c.Pos()), "release only reachable when TryLock succeeded", shortFn(fn)+" releases "+key.class+" on a path where TryLock returned false (for example an unconditional defer after a failed try): fatal 'unlock of unlocked mutex', or it releases a lock another goroutine holds", w.witness(wit)...)
			}
		}
	}
	r.Count("trylock_sites", n)
}

// ruleLCK5: guarded fields.
func ruleLCK5(w *World, r *Report, lr *lckResult) { ruleLCK5f(w, r, lr, nil) }

func lck5Floor(keep func(string) bool) int {
	if keep != nil {
		return 4
	}
	return 10
}

// ruleLCK5f restricts LCK-5 to the guard classes accepted by keep (nil = all).
func ruleLCK5f(w *World, r *Report, lr *lckResult, keep func(guardClass string) bool) {
	r.Doc("LCK-5", "every access to a guarded field of a shared object happens while its guard lock is held (must-hold on every path), either in the accessing function or — for caller-must-hold helpers — in every caller up to an entry point", lck5Floor(keep))
	r.Count("guarded_field_accesses", lr.guardSeen)
	ids := make([]string, 0, len(lr.guardViol))
	for id := range lr.guardViol {
		ids = append(ids, id)
	}
	sort.Strings(ids)
	n := 0
	for _, id := range ids {
		parts := strings.SplitN(id, "|", 2)
		nm, g := parts[0], parts[1]
		if keep != nil && !keep(g) {
			continue
		}
		if why2, ok := lck5Exceptions[nm+":"+g]; ok {
			r.Ok("LCK-5", "guard:"+g+"@"+shortQ(nm), w.Pos(lr.guardViol[id]), "exception: "+why2)
			r.Except(nm + ":" + g + ": " + why2)
			continue
		}
		n++
		r.Bad("LCK-5", "guard:"+g+"@"+shortQ(nm), w.Pos(lr.guardViol[id]), fmt.Sprintf("%s reaches an access to %s (innermost first) without holding %s on every path: a concurrent writer makes this a data race (for maps: a fatal concurrent map read/write)", shortQ(nm), lr.guardWhy[id], g))
	}
	violated := map[string]bool{}
	for _, ob := range r.Obs {
		if ob.Rule == "LCK-5" && ob.Verdict == Violation {
			violated[ob.Construct] = true
		}
	}
	for _, g := range guardTable {
		if keep != nil && !keep(strings.TrimSuffix(g.guards[0], "!W")) {
			continue
		}
		r.Ok("LCK-5", "field:"+g.owner+"."+g.field, "", fmt.Sprintf("accesses outside the reported functions hold %s", strings.Join(g.guards, " or ")))
	}
	_ = n
}

var lck5Exceptions = map[string]string{
	"DB.Snapshot:core.DB.indexLocks[*]":           "Snapshot read-locks every per-index lock in a loop (while holding DB.mu) before it reads the per-index maps; a loop acquisition is not a must-hold for a path-insensitive join, and the zero-iteration path reads nothing",
	"DB.Snapshot:core.GraphShard.mu":              "Snapshot read-locks all 128 graph shards in an ascending constant-bound loop before reading them",
	"DB.LoadFromSnapshot:core.GraphShard.mu":      "LoadFromSnapshot write-locks all 128 graph shards in an ascending constant-bound loop (deferred unlocks) before replacing their contents",
	"Index.LoadSnapshotData:hnsw.Index.metaMu":    "the index being loaded was created by hnsw.New in the same LoadFromSnapshot call and is not yet stored in DB.vectorIndexes: no other goroutine can reach it",
	"Index.LoadSnapshotData:hnsw.Index.activeMu":  "same reason: the index is not published yet, nothing can close it while it is being loaded",
	"Index.UpdateNodePointer:hnsw.Index.activeMu": "called only by the arena compactor's goroutine; Index.Close stops the compactor and waits for it (StopCompactor, WaitForStopped) before it closes the arena — the order is checked by ORD-8b",
}

func sameHold(a, b map[lockKey]byte) bool {
	if len(a) != len(b) {
		return false
	}
	for k, v := range a {
		if b[k] != v {
			return false
		}
	}
	return true
}

func sameRel(a, b map[lockKey]bool) bool {
	if len(a) != len(b) {
		return false
	}
	for k := range a {
		if !b[k] {
			return false
		}
	}
	return true
}

// sliceElemLock: the lock class of the elements of a locally built slice of mutex pointers
// (`locks = append(locks, mu)`), the idiom DB.Snapshot uses to release what it acquired.
func (lr *lckResult) sliceElemLock(fn *ssa.Function, v ssa.Value, depth int) (lockKey, bool) {
	if depth > 6 || v == nil {
		return lockKey{}, false
	}
	switch x := v.(type) {
	case *ssa.Phi:
		for _, e := range x.Edges {
			if k, ok := lr.sliceElemLock(fn, e, depth+1); ok {
				return k, true
			}
		}
	case *ssa.Call:
		if b, ok := x.Call.Value.(*ssa.Builtin); ok && b.Name() == "append" && len(x.Call.Args) == 2 {
			if elems, spread := variadicElems(x.Call.Args[1]); !spread {
				for _, e := range elems {
					if k, ok := lr.resolveLock(fn, e, depth+1); ok {
						k.inst = "*"
						return k, true
					}
				}
			}
			return lr.sliceElemLock(fn, x.Call.Args[0], depth+1)
		}
	case *ssa.UnOp:
		if al, ok := x.X.(*ssa.Alloc); ok {
			for _, ref := range *al.Referrers() {
				if st, ok := ref.(*ssa.Store); ok && st.Addr == al {
					if k, ok := lr.sliceElemLock(fn, st.Val, depth+1); ok {
						return k, true
					}
				}
			}
		}
		if fv, ok := x.X.(*ssa.FreeVar); ok {
			if par := fn.Parent(); par != nil {
				for i, f := range fn.FreeVars {
					if f != fv {
						continue
					}
					for _, b := range par.Blocks {
						for _, in := range b.Instrs {
							if mc, ok := in.(*ssa.MakeClosure); ok && mc.Fn == fn && i < len(mc.Bindings) {
								if al, ok := mc.Bindings[i].(*ssa.Alloc); ok {
									for _, ref := range *al.Referrers() {
										if st, ok := ref.(*ssa.Store); ok && st.Addr == al {
											if k, ok := lr.sliceElemLock(par, st.Val, depth+1); ok {
												return k, true
											}
										}
									}
								}
							}
						}
					}
				}
			}
		}
	}
	return lockKey{}, false
}

// baseIsLocalAlloc: the address expression is rooted in an object allocated in this function
// (constructor code: the object is not yet shared).
func baseIsLocalAlloc(v ssa.Value, depth int) bool {
	if depth > 6 || v == nil {
		return false
	}
	switch x := v.(type) {
	case *ssa.Alloc:
		return true
	case *ssa.FieldAddr:
		return baseIsLocalAlloc(x.X, depth+1)
	case *ssa.IndexAddr:
		return baseIsLocalAlloc(x.X, depth+1)
	}
	return false
}

// isFreshObject: the value is an object allocated in this function (`&T{...}` / new(T)).
func isFreshObject(v ssa.Value) bool {
	switch x := v.(type) {
	case *ssa.Alloc:
		return true
	case *ssa.Phi:
		for _, e := range x.Edges {
			if !isFreshObject(e) {
				return false
			}
		}
		return len(x.Edges) > 0
	}
	return false
}

// ruleGRDrmw: metadata read-modify-write operations keep read, journal write and write-back inside one
// hold of the per-node metadata lock.
func ruleGRDrmw(w *World, r *Report, lr *lckResult) {
	r.Doc("GRD-rmw", "in every engine operation that reads a node's metadata and writes it back (VReinforce, VSetMetadata, …) the read, the journal write and the write-back all happen while the per-node metadata lock is held (else concurrent updates are lost)", 4)
	gm, am, jw := w.FuncObj("pkg/core", "DB.GetMetadataForNode"), w.FuncObj("pkg/core", "DB.AddMetadata"), w.FuncObj("pkg/persistence", "LazyAOFWriter.Write")
	const cls = "engine.Engine.metadataLocks[*]"
	n := 0
	for _, fn := range lr.funcs {
		// (a function literal counts like a function: the critical section of one node may be written as
		// `func() { lock; defer unlock; read; journal; write back }()`)
		top := fn
		for top.Parent() != nil {
			top = top.Parent()
		}
		if top.Pkg == nil || top.Pkg.Pkg == nil || !strings.HasSuffix(top.Pkg.Pkg.Path(), "/pkg/engine") {
			continue
		}
		reads, writes := findInstrs(fn, callsTo(gm)), findInstrs(fn, callsTo(am))
		if len(reads) == 0 || len(writes) == 0 {
			continue
		}
		// the written-back map must derive from the read one (a true read-modify-write)
		isRMW := false
		for _, wr := range writes {
			arg := wr.(*ssa.Call).Call.Args[3]
			for _, rd := range reads {
				if valueDerivesFrom(arg, rd.(*ssa.Call), 0) {
					isRMW = true
				}
			}
		}
		if !isRMW {
			continue
		}
		n++
		nm := shortFn(top)
		steps := []struct {
			what string
			ins  []ssa.Instruction
		}{{"read", reads}, {"journal", findInstrs(fn, callsTo(jw))}, {"write-back", writes}}
		for _, st := range steps {
			for i, in := range st.ins {
				state, ok := lr.mustAt[in]
				held := ok && mustHoldsClass(state, cls)
				if !held && fn.Parent() == nil {
					// the critical section was moved into a method whose callers take the lock ("…Locked")
					held = heldAtAllCallSites(w, lr, fn, cls, 0)
				}
				r.Cond(held, "GRD-rmw", fmt.Sprintf("%s:%s#%d-under-node-lock", nm, st.what, i+1), w.Pos(in.Pos()), "per-node metadata lock held",
					fmt.Sprintf("%s performs the %s of its metadata read-modify-write without holding the per-node metadata lock: two concurrent updates of the same node both read the old map and the later write-back (and its journal record) overwrites the other — increments and merged keys are lost, also after restart", nm, st.what))
			}
		}
	}
	if n == 0 {
		r.Und("GRD-rmw", "anchor:metadata-rmw-operations", "", "no engine operation with a metadata read-modify-write found")
	}
}

// heldAtAllCallSites: fn is called (statically, from the module) and every call is made with a lock of class cls held —
// at the call itself, or, for a caller that is itself only called under the lock, one level up.
func heldAtAllCallSites(w *World, lr *lckResult, fn *ssa.Function, cls string, depth int) bool {
	if depth > 2 {
		return false
	}
	callers := w.staticCallersOf(fn)
	if len(callers) == 0 {
		return false
	}
	n := 0
	for g := range callers {
		for _, b := range g.Blocks {
			for _, in := range b.Instrs {
				cc := callCommon(in)
				if cc == nil || cc.StaticCallee() != fn {
					continue
				}
				if _, isCall := in.(*ssa.Call); !isCall {
					return false // go / defer: the caller's lock state at the statement says nothing about the run
				}
				n++
				if st, ok := lr.mustAt[in]; ok && mustHoldsClass(st, cls) {
					continue
				}
				if g.Parent() == nil && heldAtAllCallSites(w, lr, g, cls, depth+1) {
					continue
				}
				return false
			}
		}
	}
	return n > 0
}

func valueDerivesFrom(v ssa.Value, src ssa.Value, depth int) bool {
	if depth > 6 || v == nil {
		return false
	}
	if v == src {
		return true
	}
	switch x := v.(type) {
	case *ssa.Phi:
		for _, e := range x.Edges {
			if valueDerivesFrom(e, src, depth+1) {
				return true
			}
		}
	case *ssa.UnOp:
		if al, ok := x.X.(*ssa.Alloc); ok {
			for _, ref := range *al.Referrers() {
				if st, ok := ref.(*ssa.Store); ok && st.Addr == al && valueDerivesFrom(st.Val, src, depth+1) {
					return true
				}
			}
		}
	case *ssa.ChangeType:
		return valueDerivesFrom(x.X, src, depth+1)
	}
	return false
}

// ruleLCK6: event fan-out never blocks a writer.
func ruleLCK6(w *World, r *Report) {
	r.Doc("LCK-6", "every channel send in the event bus fan-out is a select with a default arm (a slow subscriber never delays writers)", 1)
	fi := w.Func("pkg/engine", "EventBus.Emit")
	if fi == nil {
		r.Und("LCK-6", "anchor:EventBus.Emit", "", "anchor lost")
		return
	}
	fn := w.SSAFunc(fi.Obj)
	n := 0
	for _, b := range fn.Blocks {
		for _, in := range b.Instrs {
			switch x := in.(type) {
			case *ssa.Send:
				n++
				r.Bad("LCK-6", "Emit:send", w.Pos(x.Pos()), "EventBus.Emit sends to a subscriber channel with a blocking send (held under the bus lock): one slow subscriber stalls every writer")
			case *ssa.Select:
				for _, st := range x.States {
					if st.Dir == types.SendOnly {
						n++
						r.Cond(!x.Blocking, "LCK-6", "Emit:select-send", w.Pos(x.Pos()), "non-blocking send (select with default)", "EventBus.Emit's select has no default arm: a full subscriber buffer blocks the writer while the bus lock is held")
					}
				}
			}
		}
	}
	if n == 0 {
		r.Und("LCK-6", "Emit:send", w.Pos(fi.Decl.Pos()), "no send found in EventBus.Emit")
	}
}

// isIndexClosedTest: a read of hnsw.Index's closed flag (isClosed(), IsClosed(), closed.Load()).
func isIndexClosedTest(in ssa.Instruction) bool {
	c, ok := in.(*ssa.Call)
	if !ok {
		return false
	}
	if g := c.Call.StaticCallee(); g != nil && (fnName(g) == "pkg/core/hnsw.(*Index).isClosed" || fnName(g) == "pkg/core/hnsw.(*Index).IsClosed") {
		return true
	}
	o := calleeObj(&c.Call)
	return o != nil && o.Pkg() != nil && o.Pkg().Path() == "sync/atomic" && shortName(o) == "Bool.Load" && recvIsField(c, "closed")
}

// isEventChanOp: a send on / close of a subscriber channel (chan engine.Event). Returns "send", "close" or "".
func isEventChanOp(in ssa.Instruction) string {
	isEvChan := func(v ssa.Value) bool {
		ch, ok := v.Type().Underlying().(*types.Chan)
		return ok && strings.HasSuffix(ch.Elem().String(), "engine.Event")
	}
	switch x := in.(type) {
	case *ssa.Send:
		if isEvChan(x.Chan) {
			return "send"
		}
	case *ssa.Select:
		for _, st := range x.States {
			if st.Dir == types.SendOnly && isEvChan(st.Chan) {
				return "send"
			}
		}
	case *ssa.Call:
		if b, ok := x.Call.Value.(*ssa.Builtin); ok && b.Name() == "close" && len(x.Call.Args) == 1 && isEvChan(x.Call.Args[0]) {
			return "close"
		}
	}
	return ""
}

// ruleLCK7: subscriber channels are closed by Unsubscribe/Close and written by Emit; both sides must be serialised
// by the bus lock, or a send can hit a channel that was closed a moment earlier (panic: send on closed channel).
func ruleLCK7(w *World, r *Report, lr *lckResult) {
	r.Doc("LCK-7", "every send on a subscriber channel happens while EventBus.mu is held (any mode) and every close of one while it is held exclusively: a channel can never be closed between the moment a sender picked it and the send", 2)
	const cls = "engine.EventBus.mu"
	n := 0
	per := map[string]int{}
	var ins []ssa.Instruction
	for in := range lr.mustAt {
		if isEventChanOp(in) != "" {
			ins = append(ins, in)
		}
	}
	sort.Slice(ins, func(i, j int) bool { return ins[i].Pos() < ins[j].Pos() })
	for _, in := range ins {
		kind := isEventChanOp(in)
		fn := in.Parent()
		n++
		per[shortFn(fn)+":"+kind]++
		key := fmt.Sprintf("%s:%s#%d", shortFn(fn), kind, per[shortFn(fn)+":"+kind])
		st := lr.mustAt[in]
		ok := mustHoldsClass(st, cls)
		if kind == "close" {
			ok = holdsClassW(st, cls)
		}
		want := "held"
		if kind == "close" {
			want = "held exclusively"
		}
		r.Cond(ok, "LCK-7", key, w.Pos(in.Pos()), "EventBus.mu is "+want+" at the "+kind, shortFn(fn)+" does a "+kind+" on a subscriber channel without EventBus.mu "+want+": Unsubscribe/Close can close the channel between the moment Emit copied or picked it and the send — the writer that emits (VAdd, VSetMetadata, VLink …) panics with 'send on closed channel'")
	}
	r.Count("subscriber_channel_ops", n)
	if n < 3 {
		r.Und("LCK-7", "anchor:subscriber-channel-ops", "", fmt.Sprintf("expected the send in Emit and the closes in Unsubscribe and Close, found %d operations", n))
	}
}

// ruleLCK3b: multi-instance acquisitions of the graph shard locks are ordered by ascending shard index.
func ruleLCK3b(w *World, r *Report, lr *lckResult) {
	r.Doc("LCK-3b", "whoever holds more than one graph-shard lock takes them in ascending shard-index order: LockTwoShards locks the lower index first in both branches, and the sweeps over all shards (Snapshot, LoadFromSnapshot) iterate upwards", 3)
	const cls = "core.GraphShard.mu"
	shardIndex := func(fn *ssa.Function, recv ssa.Value) ssa.Value {
		fa, ok := recv.(*ssa.FieldAddr)
		if !ok {
			return nil
		}
		ia, ok := fa.X.(*ssa.IndexAddr)
		if !ok {
			return nil
		}
		return ia.Index
	}
	n := 0
	for _, fn := range lr.funcs {
		type lk struct {
			in  ssa.Instruction
			idx ssa.Value
		}
		perBlock := map[*ssa.BasicBlock][]lk{}
		var all []lk
		for _, b := range fn.Blocks {
			for _, in := range b.Instrs {
				c, ok := in.(*ssa.Call)
				if !ok {
					continue
				}
				op, recv := syncOp(&c.Call)
				if op != "Lock" && op != "RLock" {
					continue
				}
				k, ok := lr.resolveLock(fn, recv, 0)
				if !ok || k.class != cls {
					continue
				}
				if idx := shardIndex(fn, recv); idx != nil {
					perBlock[b] = append(perBlock[b], lk{in, idx})
					all = append(all, lk{in, idx})
				}
			}
		}
		if len(all) == 0 {
			continue
		}
		nm := shortFn(fn)
		// (1) two nested locks with different index values: the first index must be provably <= the second
		for i := 0; i < len(all); i++ {
			for j := 0; j < len(all); j++ {
				a, b := all[i], all[j]
				if i == j || a.idx == b.idx {
					continue
				}
				if loopHeader(a.in.Block()) != nil && loopHeader(b.in.Block()) != nil {
					continue // sweeps are handled below
				}
				// b executes after a (a is still held: LockTwoShards-style functions do not unlock in between)
				if found, _ := (pathQuery{fn: fn, target: func(x ssa.Instruction) bool { return x == b.in }}).find(posOf(a.in)); !found {
					continue
				}
				n++
				verdict := ascendingProof(a.in.Block(), b.in.Block(), a.idx, b.idx)
				key := fmt.Sprintf("%s:lower-shard-first#%d", nm, n)
				switch verdict {
				case OK:
					r.Ok("LCK-3b", key, w.Pos(a.in.Pos()), "the first lock provably has the lower (or equal) shard index")
				case Violation:
					r.Bad("LCK-3b", key, w.Pos(a.in.Pos()), nm+" takes two graph-shard locks with the HIGHER index first: an edge write spanning two shards deadlocks against the ascending sweep of Snapshot/LoadFromSnapshot (and against any path using lower-first)")
				default:
					r.Und("LCK-3b", key, w.Pos(a.in.Pos()), nm+" takes two graph-shard locks but the checker cannot prove which index is lower (ordering logic restructured)")
				}
			}
		}
		// (2) a lock inside a loop: the index must be an upward counting induction variable
		for _, l := range all {
			if loopHeader(l.in.Block()) == nil {
				continue
			}
			phi, isPhi := l.idx.(*ssa.Phi)
			if !isPhi {
				continue
			}
			n++
			up := false
			for _, e := range phi.Edges {
				if bo, ok := e.(*ssa.BinOp); ok && bo.Op == token.ADD && bo.X == ssa.Value(phi) {
					if c, ok := constInt(bo.Y); ok && c > 0 {
						up = true
					}
				}
			}
			r.Cond(up, "LCK-3b", nm+":ascending-sweep", w.Pos(l.in.Pos()), "shard locks are taken in ascending index order", nm+" sweeps the graph-shard locks in a non-ascending order: it deadlocks against LockTwoShards (lower index first)")
		}
	}
	if n == 0 {
		r.Und("LCK-3b", "anchor:graph-shard-multi-lock", "", "no multi-shard acquisition found (LockTwoShards/Snapshot restructured)")
	}
}

// ascendingProof decides whether idxA <= idxB holds where lock A (in block ba) is followed by lock B.
// Recognised shapes: (a) a dominating `if x < y` / `if y > x` true edge for direct values;
// (b) min/max normalisation by a pair of phis fed from a compare-and-swap diamond.
func ascendingProof(ba, bb *ssa.BasicBlock, idxA, idxB ssa.Value) Verdict {
	rel := func(cond ssa.Value, truth bool, u, v ssa.Value) string {
		// relation between u and v implied by cond having the given truth value: "<", "<=", ">", ">=", ""
		bo, ok := cond.(*ssa.BinOp)
		if !ok {
			return ""
		}
		op := bo.Op
		x, y := bo.X, bo.Y
		if !truth {
			switch op {
			case token.LSS:
				op = token.GEQ
			case token.LEQ:
				op = token.GTR
			case token.GTR:
				op = token.LEQ
			case token.GEQ:
				op = token.LSS
			default:
				return ""
			}
		}
		s := map[token.Token]string{token.LSS: "<", token.LEQ: "<=", token.GTR: ">", token.GEQ: ">="}[op]
		if s == "" {
			return ""
		}
		if x == u && y == v {
			return s
		}
		if x == v && y == u {
			return map[string]string{"<": ">", "<=": ">=", ">": "<", ">=": "<="}[s]
		}
		return ""
	}
	judge := func(r string) Verdict {
		switch r {
		case "<", "<=":
			return OK
		case ">", ">=":
			return Violation
		}
		return Undecided
	}
	// (a) direct values: walk the dominator chain of A's block looking for the controlling comparison
	pa, isPhiA := idxA.(*ssa.Phi)
	pb, isPhiB := idxB.(*ssa.Phi)
	if !isPhiA && !isPhiB {
		for b := ba; b != nil; b = b.Idom() {
			d := b.Idom()
			if d == nil {
				break
			}
			iff, ok := d.Instrs[len(d.Instrs)-1].(*ssa.If)
			if !ok {
				continue
			}
			truth := d.Succs[0] == b || d.Succs[0].Dominates(b) && !d.Succs[1].Dominates(b)
			if d.Succs[0] != b && d.Succs[1] != b && !d.Succs[0].Dominates(b) && !d.Succs[1].Dominates(b) {
				continue
			}
			if d.Succs[1] == b || (d.Succs[1].Dominates(b) && !d.Succs[0].Dominates(b)) {
				truth = false
			}
			if v := judge(rel(iff.Cond, truth, idxA, idxB)); v != Undecided {
				return v
			}
		}
		return Undecided
	}
	// (b) phi normalisation
	if isPhiA && isPhiB && pa.Block() == pb.Block() {
		m := pa.Block()
		res := OK
		for i, p := range m.Preds {
			ai, bi := pa.Edges[i], pb.Edges[i]
			// the comparison that decides whether we arrive through p
			var cond ssa.Value
			truth := true
			if iff, ok := p.Instrs[len(p.Instrs)-1].(*ssa.If); ok {
				cond = iff.Cond
				truth = p.Succs[0] == m
			} else if len(p.Preds) == 1 {
				if iff, ok := p.Preds[0].Instrs[len(p.Preds[0].Instrs)-1].(*ssa.If); ok {
					cond = iff.Cond
					truth = p.Preds[0].Succs[0] == p
				}
			}
			if cond == nil {
				return Undecided
			}
			switch judge(rel(cond, truth, ai, bi)) {
			case Violation:
				res = Violation
			case Undecided:
				if res != Violation {
					return Undecided
				}
			}
		}
		return res
	}
	return Undecided
}

// lckGateTable: lock-order inversions that are legitimate because both opposite-order paths run under one
// exclusive gate lock. The gate is taken inside `if coordinator != nil`, which a path-insensitive
// must-analysis cannot see as held, so each side is checked explicitly: under the assumption that the
// coordinator is configured, every path to the inverted acquisition passes a successful TryAcquire.
type gateSide struct {
	pkg, fn string
	target  func(w *World) func(ssa.Instruction) bool
}
type gateSpec struct {
	lock  string
	try   string // method name of the TryAcquire wrapper
	doc   string
	sides []gateSide
}

var lckGateTable = map[string]gateSpec{
	"mmap.VectorArena.slotMu->hnsw.Index.shardsMu[*]": arenaShardGate,
	"mmap.VectorArena.mu->hnsw.Index.shardsMu[*]":     arenaShardGate,
}

var arenaShardGate = gateSpec{
	lock: "hnswMaintenanceCoord.compactionLock",
	try:  "TryAcquireCompactionLock",
	doc:  "AsyncCompactor.RunCycle reaches compactChunk/moveBatch, and GraphOptimizer.Vacuum reaches arena.GetBytes, only after TryAcquireCompactionLock succeeded (when a coordinator is configured)",
	sides: []gateSide{
		{"pkg/storage/mmap", "AsyncCompactor.RunCycle", func(w *World) func(ssa.Instruction) bool {
			return callsTo(w.FuncObj("pkg/storage/mmap", "AsyncCompactor.compactChunk"), w.FuncObj("pkg/storage/mmap", "AsyncCompactor.moveBatch"), w.FuncObj("pkg/storage/mmap", "AsyncCompactor.tryDropEmptyChunks"))
		}},
		{"pkg/core/hnsw", "GraphOptimizer.Vacuum", func(w *World) func(ssa.Instruction) bool {
			return callsTo(w.FuncObj("pkg/storage/mmap", "VectorArena.GetBytes"))
		}},
	},
}

func checkGate(w *World, lr *lckResult, g gateSpec) string {
	for _, sd := range g.sides {
		fi := w.Func(sd.pkg, sd.fn)
		if fi == nil {
			return sd.fn + " was not found (anchor lost)"
		}
		fn := w.SSAFunc(fi.Obj)
		direct := sd.target(w)
		// the guarded operation may sit in a helper that was extracted out of this function (and that nobody else
		// calls): the call of the helper is then this function's side of the inversion
		helpers := map[*ssa.Function]bool{}
		for _, h := range w.extractedHelpers(fn) {
			for _, hf := range append([]*ssa.Function{h}, closuresOf(h)...) {
				if len(findInstrs(hf, direct)) > 0 {
					helpers[h] = true
				}
			}
		}
		target := func(in ssa.Instruction) bool {
			if direct(in) {
				return true
			}
			c, ok := in.(*ssa.Call)
			return ok && helpers[c.Call.StaticCallee()]
		}
		if len(findInstrs(fn, target)) == 0 {
			return sd.fn + " no longer contains the guarded operation (anchor lost)"
		}
		isTry := func(in ssa.Instruction) bool {
			c, ok := in.(*ssa.Call)
			if !ok {
				return false
			}
			if c.Call.IsInvoke() {
				return c.Call.Method.Name() == g.try
			}
			o := calleeObj(&c.Call)
			return o != nil && o.Name() == g.try
		}
		// assumption: the coordinator is configured — block the nil edge of nil-tests on interface values
		assume := map[edgeKey]bool{}
		for _, b := range fn.Blocks {
			for _, in := range b.Instrs {
				bo, ok := in.(*ssa.BinOp)
				if !ok || (bo.Op != token.NEQ && bo.Op != token.EQL) || !(isNilConst(bo.X) || isNilConst(bo.Y)) {
					continue
				}
				other := bo.X
				if isNilConst(other) {
					other = bo.Y
				}
				if _, isIface := other.Type().Underlying().(*types.Interface); !isIface {
					continue
				}
				t, f := condEdges(bo)
				ne := f
				if bo.Op == token.EQL {
					ne = t
				}
				for _, e := range ne {
					assume[e] = true
				}
			}
		}
		ok, _ := mustPassGuard(fn, target, isTry, callValue, true, assume)
		if !ok {
			return sd.fn + " can reach its side of the inversion without having obtained " + g.lock + " (" + g.try + " missing or its result ignored)"
		}
	}
	return ""
}

// leaksFrom: starting after the acquisition (for TryLock-style acquisitions: from its true edges),
// is there a path to a return that passes neither a release of the class nor a defer that releases it?
func (lr *lckResult) leaksFrom(fn *ssa.Function, acq ssa.Instruction, class string) bool {
	releases := func(in ssa.Instruction) bool {
		switch x := in.(type) {
		case *ssa.Defer:
			for k := range lr.deferReleases(fn, x) {
				if k.class == class {
					return true
				}
			}
		case *ssa.Call:
			if op, recv := syncOp(&x.Call); op == "Unlock" || op == "RUnlock" {
				if k, ok := lr.resolveLock(fn, recv, 0); ok && k.class == class {
					return true
				}
			}
			for _, cal := range lr.callees(x) {
				if cs := lr.sum[cal]; cs != nil {
					for k := range cs.netRel {
						if k.class == class {
							return true
						}
					}
				}
			}
		}
		return false
	}
	q := pathQuery{fn: fn, target: isExit, avoid: releases}
	if v, ok := acq.(ssa.Value); ok {
		isTry := false
		if c, ok := acq.(*ssa.Call); ok {
			if op, _ := syncOp(&c.Call); op == "TryLock" || op == "TryRLock" {
				isTry = true
			}
			for _, cal := range lr.callees(c) {
				if cs := lr.sum[cal]; cs != nil && cs.tryKey != nil {
					isTry = true
				}
			}
		}
		if isTry {
			t, _ := condEdges(v)
			for _, e := range t {
				if found, _ := q.find(ipos{e.from.Succs[e.succ], -1}); found {
					return true
				}
			}
			return false
		}
	}
	found, _ := q.find(posOf(acq))
	return found
}

// ruleLCK8: copy-on-write growth of the per-index arrays.
// Element writers (nodes[id] = n, norms[id] = x) hold only their per-node shard lock; the function that replaces the
// array by a larger copy must therefore hold EVERY shard lock from before it copies until after it publishes.
func ruleLCK8(w *World, r *Report) {
	r.Doc("LCK-8", "a function that publishes a freshly allocated copy of the node (or norm) array — setNodes/setNorms of a slice made in the same function — copies the old array only after a loop that write-locks every element of shardsMu, and releases them only afterwards: a concurrent writer that fills its slot under its shard lock cannot land in the array that is being thrown away", 1)
	n := 0
	for _, fn := range w.pkgSSAFuncs("pkg/core/hnsw") {
		if fn.Parent() != nil {
			continue
		}
		per := 0
		for _, b := range fn.Blocks {
			for _, in := range b.Instrs {
				c, ok := in.(*ssa.Call)
				if !ok {
					continue
				}
				g := c.Call.StaticCallee()
				if g == nil || !(fnName(g) == "pkg/core/hnsw.(*Index).setNodes" || fnName(g) == "pkg/core/hnsw.(*Index).setNorms") {
					continue
				}
				// published value derives from a make in this function?
				var mk *ssa.MakeSlice
				v := c.Call.Args[len(c.Call.Args)-1]
				for {
					if sl, ok := v.(*ssa.Slice); ok {
						v = sl.X
						continue
					}
					break
				}
				mk, _ = v.(*ssa.MakeSlice)
				if mk == nil {
					continue // re-slicing the same array: nothing is thrown away
				}
				// the copy that fills it
				var cp *ssa.Call
				for _, ref := range *mk.Referrers() {
					if cc, ok := ref.(*ssa.Call); ok {
						if _, isCopy := isBuiltinCall(cc, "copy"); isCopy && cc.Call.Args[0] == ssa.Value(mk) {
							cp = cc
						}
					}
				}
				n++
				per++
				key := fmt.Sprintf("%s:publish#%d", shortFn(fn), per)
				if cp == nil {
					r.Ok("LCK-8", key, w.Pos(c.Pos()), "the new array is not filled from the old one")
					continue
				}
				// a lock-all loop whose exit dominates the copy
				lockAll := false
				for _, lb := range fn.Blocks {
					for _, li := range lb.Instrs {
						lc, ok := li.(*ssa.Call)
						if !ok {
							continue
						}
						o := calleeObj(&lc.Call)
						if o == nil || o.Pkg() == nil || o.Pkg().Path() != "sync" || shortName(o) != "RWMutex.Lock" {
							continue
						}
						ia, ok := lc.Call.Args[0].(*ssa.IndexAddr)
						if !ok {
							continue
						}
						ld, ok := ia.X.(*ssa.UnOp)
						if !ok {
							continue
						}
						fa, ok := ld.X.(*ssa.FieldAddr)
						if !ok || fieldName(fa) != "shardsMu" {
							continue
						}
						// index = loop variable of a range over shardsMu: phi+1 compared with len(shardsMu)
						add, ok := ia.Index.(*ssa.BinOp)
						if !ok || add.Op != token.ADD {
							continue
						}
						phi, ok := add.X.(*ssa.Phi)
						if !ok {
							continue
						}
						full := false
						for _, ref := range *add.Referrers() {
							if cmp, ok := ref.(*ssa.BinOp); ok && cmp.Op == token.LSS {
								if lenC, ok := cmp.Y.(*ssa.Call); ok {
									if _, isLen := isBuiltinCall(lenC, "len"); isLen {
										if l2, ok := lenC.Call.Args[0].(*ssa.UnOp); ok {
											if f2, ok := l2.X.(*ssa.FieldAddr); ok && fieldName(f2) == "shardsMu" {
												// starts at -1+1 = 0
												for _, e := range phi.Edges {
													if k, ok := constInt(e); ok && k == -1 {
														full = true
													}
												}
											}
										}
									}
								}
							}
						}
						if !full {
							continue
						}
						// unconditional in the loop body, and the loop header dominates the copy
						if lb.Dominates(cp.Block()) || (len(lb.Preds) == 1 && lb.Preds[0].Dominates(cp.Block()) && lb.Preds[0] != cp.Block()) {
							lockAll = true
						}
					}
				}
				// not released before the publication: no RWMutex.Unlock on shardsMu on any path copy → publish
				released := false
				isShardUnlock := func(x ssa.Instruction) bool {
					uc, ok := x.(*ssa.Call)
					if !ok {
						return false
					}
					o := calleeObj(&uc.Call)
					if o == nil || o.Pkg() == nil || o.Pkg().Path() != "sync" || shortName(o) != "RWMutex.Unlock" {
						return false
					}
					ia, ok := uc.Call.Args[0].(*ssa.IndexAddr)
					if !ok {
						return false
					}
					ld, ok := ia.X.(*ssa.UnOp)
					if !ok {
						return false
					}
					fa, ok := ld.X.(*ssa.FieldAddr)
					return ok && fieldName(fa) == "shardsMu"
				}
				pub := ssa.Instruction(c)
				if found, _ := (pathQuery{fn: fn, target: isShardUnlock, avoid: func(x ssa.Instruction) bool { return x == pub }}).find(posOf(cp)); found {
					released = true
				}
				r.Cond(lockAll && !released, "LCK-8", key, w.Pos(cp.Pos()), "every shard lock is taken before the old array is copied and held until the copy is published", shortFn(fn)+" copies the array into a larger one and publishes the copy without holding the per-node shard locks that element writers use (the caller's metaMu does not stop the parallel phase of a batch insert): a node written into the old array after the copy is lost — its id stays registered, VGet says not found, re-adding says already exists", w.Pos(c.Pos()))
			}
		}
	}
	r.Count("array_publications", n)
	if n == 0 {
		r.Und("LCK-8", "anchor:array-publication", "", "no function publishes a freshly allocated node/norm array: growth moved")
	}
}

// ruleLCK9: DB.Snapshot serialises shared objects by reflection (gob), which no field-level guard can see: the graph
// nodes it encodes are the live ones (the per-shard copy is shallow), the KV map and the per-index maps are the live
// maps. The encode must therefore run while the snapshot still holds every lock class under which those objects are
// mutated.
func ruleLCK9(w *World, r *Report, lr *lckResult) {
	r.Doc("LCK-9", "DB.Snapshot calls the gob encoder while it holds the graph-shard locks, the KV store lock and the per-index locks: the objects it serialises by reflection are the live ones", 3)
	fi := w.Func("pkg/core", "DB.Snapshot")
	if fi == nil {
		r.Und("LCK-9", "anchor:DB.Snapshot", "", "anchor lost")
		return
	}
	fn := w.SSAFunc(fi.Obj)
	encs := findInstrs(fn, func(in ssa.Instruction) bool { return isCallTo(in, "encoding/gob", "Encoder.Encode") })
	if len(encs) == 0 {
		r.Und("LCK-9", "DB.Snapshot:encode", w.Pos(fi.Decl.Pos()), "DB.Snapshot no longer encodes with encoding/gob (shape not recognised)")
		return
	}
	mutexOp := func(in ssa.Instruction, names ...string) (string, bool) {
		c, ok := in.(*ssa.Call)
		if !ok {
			return "", false
		}
		o := calleeObj(&c.Call)
		if o == nil || o.Pkg() == nil || o.Pkg().Path() != "sync" || len(c.Call.Args) == 0 {
			return "", false
		}
		hit := false
		for _, n := range names {
			if o.Name() == n {
				hit = true
			}
		}
		if !hit {
			return "", false
		}
		k, ok := lr.resolveLock(fn, c.Call.Args[0], 0)
		if !ok {
			return "", false
		}
		return k.class, true
	}
	for _, cls := range []string{"core.GraphShard.mu", "core.KVStore.mu", "core.DB.indexLocks[*]"} {
		cls := cls
		isAcq := func(in ssa.Instruction) bool { c, ok := mutexOp(in, "RLock", "Lock"); return ok && c == cls }
		isRel := func(in ssa.Instruction) bool { c, ok := mutexOp(in, "RUnlock", "Unlock"); return ok && c == cls }
		for i, e := range encs {
			key := fmt.Sprintf("DB.Snapshot:encode#%d:holds:%s", i+1, cls)
			if st, ok := lr.mustAt[e]; ok && mustHoldsClass(st, cls) {
				r.Ok("LCK-9", key, w.Pos(e.Pos()), "held across the encode (lockset)")
				continue
			}
			// locks taken in a loop (all shards, all indexes): acquired before the encode and not released — outside a
			// deferred function — on any path from an acquisition to the encode
			acqs := findInstrs(fn, isAcq)
			ee := e
			isEnc := func(in ssa.Instruction) bool { return in == ee }
			reaches := false
			for _, a := range acqs {
				if f, _ := (pathQuery{fn: fn, target: isEnc}).find(posOf(a)); f {
					reaches = true
				}
			}
			if !reaches {
				r.Bad("LCK-9", key, w.Pos(e.Pos()), "DB.Snapshot encodes without having taken "+cls+": gob walks the live objects by reflection while their writers mutate them — a fatal 'concurrent map iteration and map write', or a snapshot file that is not a state the database was ever in")
				continue
			}
			bad := false
			var wit []ssa.Instruction
			for _, a := range acqs {
				if f, wv := (pathQuery{fn: fn, target: isEnc}).findVia(posOf(a), isRel); f {
					bad, wit = true, wv
				}
			}
			r.Cond(!bad, "LCK-9", key, w.Pos(e.Pos()), "taken before the encode and released only afterwards (deferred)", "DB.Snapshot releases "+cls+" before it encodes: gob walks the live objects by reflection (the per-shard copy is shallow) while their writers mutate them — a fatal 'concurrent map iteration and map write', or a snapshot file that is not a state the database was ever in (half-recorded links)", w.witness(wit)...)
		}
	}
}

// isSharedArrayElemStore: a store into an element of the array handed out by (*Index).getNodes / getNorms
// (`h.getNorms()[id] = …`). Returns "nodes"/"norms", or "".
func isSharedArrayElemStore(in ssa.Instruction) string {
	st, ok := in.(*ssa.Store)
	if !ok {
		return ""
	}
	ia, ok := st.Addr.(*ssa.IndexAddr)
	if !ok {
		return ""
	}
	for _, leaf := range valueRoots(ia.X) {
		if c, ok := leaf.(*ssa.Call); ok {
			if g := c.Call.StaticCallee(); g != nil {
				switch fnName(g) {
				case "pkg/core/hnsw.(*Index).getNodes":
					return "nodes"
				case "pkg/core/hnsw.(*Index).getNorms":
					return "norms"
				}
			}
		}
	}
	return ""
}

// ruleLCK8b: the other half of LCK-8. growNodes throws the old node/norm array away under all shard locks and
// metaMu; a writer of one element is safe only if it holds that node's shard lock, or metaMu exclusively (growth
// happens under metaMu), while it stores.
func ruleLCK8b(w *World, r *Report, lr *lckResult) {
	r.Doc("LCK-8b", "every store into an element of the shared node/norm array (h.getNodes()[i] = …, h.getNorms()[i] = …) is made while holding a node shard lock or metaMu exclusively — the locks under which growNodes replaces the array", 4)
	type site struct {
		in   ssa.Instruction
		kind string
	}
	var sites []site
	for in := range lr.mustAt {
		if k := isSharedArrayElemStore(in); k != "" {
			sites = append(sites, site{in, k})
		}
	}
	sort.Slice(sites, func(i, j int) bool { return sites[i].in.Pos() < sites[j].in.Pos() })
	per := map[string]int{}
	for _, s := range sites {
		fn := s.in.Parent()
		root := fn
		for root.Parent() != nil {
			root = root.Parent()
		}
		if lr.unreachableHelper(root) {
			continue
		}
		if o, ok := root.Object().(*types.Func); ok && (canonName(o) == "LoadSnapshotData" || canonName(o) == "growNodes") {
			continue // the index under construction is not shared yet; growNodes is the publisher itself (LCK-8)
		}
		name := shortFn(root)
		per[name+s.kind]++
		st := lr.mustAt[s.in]
		ok := mustHoldsClass(st, "hnsw.Index.shardsMu[*]") || holdsClassW(st, "hnsw.Index.metaMu")
		r.Cond(ok, "LCK-8b", fmt.Sprintf("%s:%s-element-store#%d", name, s.kind, per[name+s.kind]), w.Pos(s.in.Pos()), "stored under the node's shard lock or exclusive metaMu", name+" stores into an element of the shared "+s.kind+" array holding neither a node shard lock nor metaMu exclusively: a growth that copies the array and publishes the copy in between loses the write (a node that cannot be read back, a norm of 0)")
	}
}
