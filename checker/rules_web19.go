package main

// rules_web19.go — C19: request discipline of the HTTP handlers (decode, limits, effect-then-4xx,
// path confinement, middleware order).

import (
	"fmt"
	"go/constant"
	"go/token"
	"go/types"
	"sort"
	"strings"

	"golang.org/x/tools/go/ssa"
)

func serverHandlers(w *World, r *Report, rule string) []*FuncInfo {
	seen := map[*types.Func]bool{}
	var out []*FuncInfo
	for _, rt := range w.routes(r, rule) {
		if rt.Handler == nil || seen[rt.Handler] || relPkg(rt.Handler) != "internal/server" {
			continue
		}
		seen[rt.Handler] = true
		if fi := w.Decl(rt.Handler); fi != nil {
			out = append(out, fi)
		}
	}
	sort.Slice(out, func(i, j int) bool { return out[i].Obj.Name() < out[j].Obj.Name() })
	return out
}

// statusOf: the constant HTTP status written by a call to writeHTTPError / writeHTTPResponse / http.Error / WriteHeader.
func statusOf(in ssa.Instruction) (int64, bool) {
	c, ok := in.(*ssa.Call)
	if !ok {
		return 0, false
	}
	o := calleeObj(&c.Call)
	name := ""
	if o != nil {
		name = o.Name()
	} else if c.Call.IsInvoke() {
		name = c.Call.Method.Name()
	}
	var arg ssa.Value
	switch name {
	case "writeHTTPError", "writeHTTPResponse":
		if len(c.Call.Args) >= 3 {
			arg = c.Call.Args[2]
		}
	case "Error":
		if o != nil && o.Pkg() != nil && o.Pkg().Path() == "net/http" && len(c.Call.Args) == 3 {
			arg = c.Call.Args[2]
		}
	case "WriteHeader":
		if len(c.Call.Args) >= 1 {
			arg = c.Call.Args[len(c.Call.Args)-1]
		}
	}
	if arg == nil {
		return 0, false
	}
	return constInt(arg)
}

func is4xx(in ssa.Instruction) bool {
	s, ok := statusOf(in)
	return ok && s >= 400 && s < 500
}

func isEngineCall(in ssa.Instruction) bool {
	c, ok := in.(*ssa.Call)
	if !ok {
		return false
	}
	o := calleeObj(&c.Call)
	if o == nil {
		return false
	}
	rp := relPkg(o)
	if rp != "pkg/engine" && rp != "pkg/core" {
		return false
	}
	sig, _ := o.Type().(*types.Signature)
	return sig != nil && sig.Recv() != nil
}

// ---------- WEB-5 decode discipline ----------

func ruleWEB5(w *World, r *Report) {
	r.Doc("WEB-5", "every handler that decodes a JSON body tests the decode error and, when it is non-nil, writes a 4xx status and returns before any engine call; the shared decoder never turns a decode error into success", 25)
	dj := w.Func("internal/server", "Server.decodeJSON")
	var djObj *types.Func
	if dj != nil {
		djObj = dj.Obj
		fn := w.SSAFunc(dj.Obj)
		// from Decode's failure edges no `return nil`
		dec := findInstrs(fn, func(in ssa.Instruction) bool { return isCallTo(in, "encoding/json", "Decoder.Decode") })
		if len(dec) == 0 {
			r.Und("WEB-5", "decodeJSON:decode", w.Pos(dj.Decl.Pos()), "decodeJSON no longer calls (*json.Decoder).Decode")
		}
		strict := len(findInstrs(fn, func(in ssa.Instruction) bool { return isCallTo(in, "encoding/json", "Decoder.DisallowUnknownFields") })) > 0
		r.Cond(strict, "WEB-5", "decodeJSON:strict", w.Pos(dj.Decl.Pos()), "unknown fields are rejected", "decodeJSON no longer calls DisallowUnknownFields: misspelt or smuggled fields are silently accepted")
		for _, d := range dec {
			bad := false
			var wit []ssa.Instruction
			for e := range failureEdges(fn, d.(*ssa.Call)) {
				found, wt := (pathQuery{fn: fn, target: func(in ssa.Instruction) bool {
					rt, ok := in.(*ssa.Return)
					return ok && len(rt.Results) == 1 && !definitelyError(retVal(rt, 0))
				}}).find(ipos{e.from.Succs[e.succ], -1})
				if found {
					bad, wit = true, wt
				}
			}
			r.Cond(!bad, "WEB-5", "decodeJSON:error-is-returned", w.Pos(d.Pos()), "a decode error is always returned as an error",
				"decodeJSON can return nil although Decode failed (an error class such as io.EOF is swallowed): an empty or non-JSON body reaches the handlers as a zero-valued request and is acted upon", w.witness(wit)...)
		}
	} else {
		r.Und("WEB-5", "anchor:decodeJSON", "", "anchor lost")
	}
	n := 0
	for _, fi := range serverHandlers(w, r, "WEB-5") {
		fn := w.SSAFunc(fi.Obj)
		if fn == nil {
			continue
		}
		decodes := findInstrs(fn, func(in ssa.Instruction) bool {
			if isCallTo(in, "encoding/json", "Decoder.Decode") {
				return true
			}
			return djObj != nil && callsTo(djObj)(in)
		})
		for i, d := range decodes {
			n++
			key := fmt.Sprintf("%s:decode#%d", canonName(fi.Obj), i+1)
			fail := failureEdges(fn, d.(*ssa.Call))
			if len(fail) == 0 {
				r.Bad("WEB-5", key, w.Pos(d.Pos()), canonName(fi.Obj)+" ignores the decode error: a body that is not JSON is processed as a zero-valued request")
				continue
			}
			if why, exempt := web5Exceptions[canonName(fi.Obj)]; exempt {
				r.Ok("WEB-5", key, w.Pos(d.Pos()), "exception: "+why)
				r.Except(canonName(fi.Obj) + ": " + why)
				continue
			}
			ok := true
			why := ""
			var wit []ssa.Instruction
			for e := range fail {
				start := ipos{e.from.Succs[e.succ], -1}
				if f1, w1 := (pathQuery{fn: fn, target: isEngineCall, avoid: is4xx}).find(start); f1 {
					// an engine call that is only a read used for the error message is still "work before refusing"
					ok, why, wit = false, "an engine call is reachable after the decode failed, before any 4xx is written", w1
				}
				if f2, w2 := (pathQuery{fn: fn, target: isExit, avoid: is4xx}).find(start); f2 {
					ok, why, wit = false, "the handler can return after a decode failure without writing a 4xx status", w2
				}
				if f3, w3 := (pathQuery{fn: fn, target: isEngineCall}).find(start); f3 {
					ok, why, wit = false, "after a decode failure the handler continues to an engine call", w3
				}
			}
			r.Cond(ok, "WEB-5", key, w.Pos(d.Pos()), "decode failure → 4xx → return", canonName(fi.Obj)+": "+why, w.witness(wit)...)
		}
	}
	r.Count("decode_sites", n)
}

// ---------- WEB-6 limits ----------

func ruleWEB6(w *World, r *Report) {
	r.Doc("WEB-6", "every request field that flows into k / batch / vector parameters of the engine's search and insert operations is compared with the published limit (maxK, maxBatchSize, maxVectorDim) on every path before the call, the over-limit branch writing a 4xx and returning; the body-size limit wraps the auth middleware (which reads the body)", 8)
	p := w.Pkg("internal/server")
	if p == nil {
		return
	}
	limit := func(name string) (int64, bool) {
		c, _ := p.Types.Scope().Lookup(name).(*types.Const)
		if c == nil {
			return 0, false
		}
		v, ok := constant.Int64Val(c.Val())
		return v, ok
	}
	maxK, ok1 := limit("maxK")
	maxB, ok2 := limit("maxBatchSize")
	maxD, ok3 := limit("maxVectorDim")
	if !ok1 || !ok2 || !ok3 {
		r.Und("WEB-6", "anchor:limits", "", "limit constants maxK/maxBatchSize/maxVectorDim not found")
		return
	}
	type spec struct {
		callee  string
		argIdx  int // index in Call.Args (receiver = 0)
		limit   int64
		lenOf   bool
		perItem bool // the limit applies to a field of every element (vector dimension of batch items)
		what    string
	}
	specs := []spec{
		{"Engine.VSearch", 3, maxK, false, false, "k"},
		{"Engine.VSearchGraph", 3, maxK, false, false, "k"},
		{"Engine.VSearchWithScores", 3, maxK, false, false, "k"},
		{"Engine.VAdd", 3, maxD, true, false, "vector dimension"},
		{"Engine.VAddBatch", 2, maxB, true, false, "batch size"},
		{"Engine.VImport", 2, maxB, true, false, "batch size"},
		{"Engine.VAddBatch", 2, maxD, true, true, "vector dimension of batch items"},
		{"Engine.VImport", 2, maxD, true, true, "vector dimension of batch items"},
	}
	for _, fi := range serverHandlers(w, r, "WEB-6") {
		fn := w.SSAFunc(fi.Obj)
		if fn == nil {
			continue
		}
		for _, sp := range specs {
			callee := w.FuncObj("pkg/engine", sp.callee)
			for i, c := range findInstrs(fn, callsTo(callee)) {
				call := c.(*ssa.Call)
				key := fmt.Sprintf("%s:%s#%d:%s", canonName(fi.Obj), sp.callee, i+1, strings.ReplaceAll(sp.what, " ", "-"))
				if !fromDecodedRequest(call.Call.Args[sp.argIdx], 0) {
					r.Ok("WEB-6", key, w.Pos(call.Pos()), "the argument is produced by the server, not taken from the request")
					continue
				}
				// the comparison: BinOp GTR( x , const limit ) whose true edge writes 4xx and cannot reach the call
				isCmp := func(in ssa.Instruction) bool {
					bo, ok := in.(*ssa.BinOp)
					if !ok || bo.Op != token.GTR {
						return false
					}
					k, ok := constInt(bo.Y)
					if !ok || k != sp.limit {
						return false
					}
					if sp.lenOf {
						lc, ok := bo.X.(*ssa.Call)
						if !ok {
							return false
						}
						if b, ok := lc.Call.Value.(*ssa.Builtin); !ok || b.Name() != "len" {
							return false
						}
					}
					_, isIf := firstIf(bo)
					return isIf
				}
				// the same test made by a validator of the package: a function that returns an error, reaches `return nil`
				// only past the comparison, and never from its over-limit edge. Its failure edge is the over-limit edge.
				direct := isCmp
				validators := map[*ssa.Function]bool{}
				isValidator := func(g *ssa.Function) bool {
					if known, seen := validators[g]; seen {
						return known
					}
					ok := false
					if g != nil && g.Pkg == fn.Pkg && len(g.Blocks) > 0 && g.Signature.Results().Len() == 1 && isErrorType(g.Signature.Results().At(0).Type()) {
						inner := findInstrs(g, direct)
						nilRet := func(in ssa.Instruction) bool {
							rt, isRet := in.(*ssa.Return)
							return isRet && isNilConst(retVal(rt, 0))
						}
						if len(inner) > 0 {
							ok = true
							if skip, _ := (pathQuery{fn: g, target: nilRet, avoid: direct, blocked: zeroIterEdges(g, direct)}).find(entryPos(g)); skip {
								ok = false
							}
							for _, cm := range inner {
								t, _ := condEdges(cm.(ssa.Value))
								for _, e := range t {
									if over, _ := (pathQuery{fn: g, target: nilRet}).find(ipos{e.from.Succs[e.succ], -1}); over {
										ok = false
									}
								}
							}
						}
					}
					validators[g] = ok
					return ok
				}
				viaValidator := func(in ssa.Instruction) bool {
					vc, ok := in.(*ssa.Call)
					return ok && isValidator(vc.Call.StaticCallee()) && len(failureEdges(fn, vc)) > 0
				}
				isCmp = func(in ssa.Instruction) bool { return direct(in) || viaValidator(in) }
				cmps := findInstrs(fn, isCmp)
				if len(cmps) == 0 {
					r.Bad("WEB-6", key, w.Pos(call.Pos()), fmt.Sprintf("%s passes a request-controlled %s to %s without comparing it with the published limit %d: an over-limit request is processed instead of being refused with 4xx", canonName(fi.Obj), sp.what, sp.callee, sp.limit))
					continue
				}
				found, wit := (pathQuery{fn: fn, target: func(in ssa.Instruction) bool { return in == c }, avoid: isCmp, blocked: zeroIterEdges(fn, isCmp)}).find(entryPos(fn))
				okc := !found
				// from the over-limit edge the engine call must be unreachable
				for _, cm := range cmps {
					var t []edgeKey
					if viaValidator(cm) {
						for e := range failureEdges(fn, cm.(*ssa.Call)) {
							t = append(t, e)
						}
					} else {
						t, _ = condEdges(cm.(ssa.Value))
					}
					for _, e := range t {
						if f2, w2 := (pathQuery{fn: fn, target: func(in ssa.Instruction) bool { return in == c }, avoid: isCmp}).find(ipos{e.from.Succs[e.succ], -1}); f2 {
							okc, wit = false, w2
						}
					}
				}
				r.Cond(okc, "WEB-6", key, w.Pos(call.Pos()), fmt.Sprintf("%s is compared with %d before the call on every path", sp.what, sp.limit), fmt.Sprintf("%s can reach %s on a path that skips (or survives) the %s limit test", canonName(fi.Obj), sp.callee, sp.what), w.witness(wit)...)
			}
		}
	}
	// middleware order: Recovery(Logging(BodyLimit(Auth(mux))))
	ns := w.Func("internal/server", "NewServer")
	if ns == nil {
		r.Und("WEB-6", "anchor:NewServer", "", "anchor lost")
		return
	}
	fn := w.SSAFunc(ns.Obj)
	var order []string
	for _, b := range fn.Blocks {
		for _, in := range b.Instrs {
			if c, ok := in.(*ssa.Call); ok {
				if o := calleeObj(&c.Call); o != nil && relPkg(o) == "internal/server" && strings.HasSuffix(strings.ToLower(canonName(o)), "middleware") {
					order = append(order, canonName(o))
				}
			}
		}
	}
	idx := func(n string) int {
		for i, o := range order {
			if o == n {
				return i
			}
		}
		return -1
	}
	a, bl, rec := idx("authMiddleware"), idx("bodySizeLimitMiddleware"), idx("RecoveryMiddleware")
	r.Cond(a >= 0 && bl > a, "WEB-6", "chain:body-limit-outside-auth", w.Pos(ns.Decl.Pos()), "the body-size limit wraps the auth middleware", "the body-size limit is applied inside (after) the auth middleware, which reads the whole body to find the namespace: an oversized body is read into memory before it is limited")
	r.Cond(rec >= 0 && rec == len(order)-1, "WEB-6", "chain:recovery-outermost", w.Pos(ns.Decl.Pos()), "panic recovery is the outermost middleware", "panic recovery is not the outermost middleware: a panic in an outer layer kills the connection/server")
}

// ---------- WEB-7 effect-then-4xx ----------

func ruleWEB7(w *World, r *Report) {
	r.Doc("WEB-7", "no handler writes a 4xx status after a mutating engine call succeeded (a 4xx answer must leave the database unchanged)", 10)
	eff := map[string]bool{}
	for _, n := range []string{"KVSet", "KVDelete", "VCreate", "VDeleteIndex", "VAdd", "VAddBatch", "VImport", "VImportCommit", "VDelete", "VSetMetadata", "VReinforce", "VEvolve", "VLink", "VUnlink", "VCompress", "VUpdateIndexConfig", "VUpdateAutoLinks", "SaveSnapshot", "RewriteAOF"} {
		eff[n] = true
	}
	n := 0
	for _, fi := range serverHandlers(w, r, "WEB-7") {
		fn := w.SSAFunc(fi.Obj)
		if fn == nil {
			continue
		}
		for _, f := range append([]*ssa.Function{fn}, closuresOf(fn)...) {
			k := 0
			for _, in := range findInstrs(f, func(in ssa.Instruction) bool {
				c, ok := in.(*ssa.Call)
				if !ok {
					return false
				}
				o := calleeObj(&c.Call)
				return o != nil && relPkg(o) == "pkg/engine" && eff[o.Name()]
			}) {
				n++
				k++
				c := in.(*ssa.Call)
				found, wit := (pathQuery{fn: f, target: is4xx, blocked: failureEdges(f, c)}).find(posOf(in))
				key := fmt.Sprintf("%s:%s#%d", canonName(fi.Obj), calleeObj(&c.Call).Name(), k)
				r.Cond(!found, "WEB-7", key, w.Pos(c.Pos()), "no 4xx after the mutation succeeded", canonName(fi.Obj)+" can answer 4xx although "+calleeObj(&c.Call).Name()+" already succeeded: the client is told the request was refused while the database changed", w.witness(wit)...)
			}
		}
	}
	r.Count("mutating_engine_calls_in_handlers", n)
	// WEB-7b: a handler that strings several mutating engine calls together answers with an error status (4xx or 5xx)
	// only while nothing has been changed yet: once one mutating call succeeded, the failure of a LATER engine call
	// must not become the response (steps whose failure is tolerated are logged, the rejecting step comes first)
	r.Doc("WEB-7b", "in a handler with several mutating engine calls, no error status is written for the failure of a later call after an earlier mutating call succeeded: the step that can reject the request runs before the steps that change the database", 1)
	isErrStatus := func(in ssa.Instruction) bool { s, ok := statusOf(in); return ok && s >= 400 }
	m := 0
	for _, fi := range serverHandlers(w, r, "WEB-7b") {
		fn := w.SSAFunc(fi.Obj)
		if fn == nil {
			continue
		}
		for _, f := range append([]*ssa.Function{fn}, closuresOf(fn)...) {
			isMut := func(in ssa.Instruction) bool {
				c, ok := in.(*ssa.Call)
				if !ok {
					return false
				}
				o := calleeObj(&c.Call)
				return o != nil && relPkg(o) == "pkg/engine" && eff[o.Name()]
			}
			muts := findInstrs(f, isMut)
			if len(muts) < 2 {
				continue
			}
			for i, in := range muts {
				c := in.(*ssa.Call)
				// error responses reachable after this call succeeded, through the FAILURE edge of a later mutating call
				bad := false
				var wit []ssa.Instruction
				for _, later := range muts {
					if later == in {
						continue
					}
					lc := later.(*ssa.Call)
					if reach, _ := (pathQuery{fn: f, target: func(x ssa.Instruction) bool { return x == later }, blocked: failureEdges(f, c)}).find(posOf(in)); !reach {
						continue
					}
					for e := range failureEdges(f, lc) {
						if fnd, wv := (pathQuery{fn: f, target: isErrStatus}).find(ipos{e.from.Succs[e.succ], -1}); fnd {
							bad, wit = true, wv
						}
					}
				}
				m++
				r.Cond(!bad, "WEB-7b", fmt.Sprintf("%s:%s#%d:later-failure-not-answered-as-error", canonName(fi.Obj), calleeObj(&c.Call).Name(), i+1), w.Pos(c.Pos()), "no later engine failure becomes an error response once this call has changed the database", canonName(fi.Obj)+" answers with an error status when a later engine call fails although "+calleeObj(&c.Call).Name()+" has already changed the database: the client is told the request failed, but part of it has taken effect (and is journaled)", w.witness(wit)...)
			}
		}
	}
	if m == 0 {
		r.Ok("WEB-7b", "no-composite-handler", "", "no handler strings several mutating engine calls together")
	}
}

// ---------- WEB-8 path confinement ----------

// ruleWEB8: every value that flows from an index name into a filesystem path (filepath.Join with
// caller-controlled components) in pkg/engine passes the name validator first.
func ruleWEB8(w *World, r *Report) {
	r.Doc("WEB-8", "an index name reaches a filesystem path (filepath.Join under the data directory → MkdirAll / RemoveAll / Rename) only after the name validator rejected separators and dot segments: in every engine function that builds an arena path from a name, the validator is called on that name on every path before the join; the validator itself rejects '/', '\\' and '..'", 4)
	val := w.Func("pkg/engine", "validateIndexName")
	if val == nil {
		r.Bad("WEB-8", "anchor:validateIndexName", "", "pkg/engine has no index-name validator: index names from requests are joined into <DataDir>/arenas/<name> unchecked, so a name like ../../x creates or removes directories outside the data directory")
		return
	}
	// validator shape
	vfn := w.SSAFunc(val.Obj)
	rejects := map[string]bool{}
	for _, b := range vfn.Blocks {
		for _, in := range b.Instrs {
			switch x := in.(type) {
			case *ssa.Call:
				if o := calleeObj(&x.Call); o != nil && o.Pkg() != nil && o.Pkg().Path() == "strings" {
					for _, a := range x.Call.Args {
						if s, ok := stringOf(a); ok {
							for _, ch := range []string{"/", "\\", ".."} {
								if strings.Contains(s, ch) {
									rejects[ch] = true
								}
							}
						}
					}
				}
			case *ssa.BinOp:
				if s, ok := stringOf(x.Y); ok && x.Op == token.EQL && s == ".." {
					rejects[".."] = true
				}
			}
		}
	}
	for _, ch := range []string{"/", "\\", ".."} {
		r.Cond(rejects[ch], "WEB-8", "validator:rejects:"+strings.ReplaceAll(ch, "\\", "backslash"), w.Pos(val.Decl.Pos()), "rejected", "validateIndexName no longer rejects "+ch)
	}
	// every filepath.Join in pkg/engine whose components include a non-constant string derived from a name
	n := 0
	for _, fi := range w.ModuleFuncs() {
		if relPkg(fi.Obj) != "pkg/engine" {
			continue
		}
		fn := w.SSAFunc(fi.Obj)
		if fn == nil {
			continue
		}
		for _, in := range findInstrs(fn, func(in ssa.Instruction) bool { return isCallTo(in, "path/filepath", "Join") }) {
			c := in.(*ssa.Call)
			elems, spread := variadicElems(c.Call.Args[0])
			if spread {
				continue
			}
			isArena := false
			var nameVals []ssa.Value
			for _, e := range elems {
				if s, ok := stringOf(e); ok {
					if s == "arenas" {
						isArena = true
					}
					continue
				}
				if isFieldLoad(e, "DataDir") || isFieldLoad(e, "aofPath") || isFieldLoad(e, "snapPath") {
					continue
				}
				nameVals = append(nameVals, e)
			}
			if !isArena || len(nameVals) == 0 {
				continue
			}
			n++
			key := fmt.Sprintf("%s:arena-path#%d", shortName(fi.Obj), n)
			// the validator must be called (with success) on the same value before the join — or the function is
			// the apply phase of replay, which only sees names admitted by the (validated) VCREATE arm
			okAll := true
			var wit []ssa.Instruction
			for _, nv := range nameVals {
				validated := func(x ssa.Instruction) bool {
					vc, ok := x.(*ssa.Call)
					if !ok {
						return false
					}
					if calleeObj(&vc.Call) != val.Obj {
						// the checks of the request are a function of their own, handed the request as a record: it cannot
						// report success without the validator having accepted the field that holds the name
						for _, rc := range recordFieldCalls(vc, stripConv(nv)) {
							if calleeObj(&rc.vc.Call) == val.Obj && rc.j == 0 {
								return true
							}
						}
						return false
					}
					return sameOrigin(vc.Call.Args[0], nv)
				}
				found, wt := (pathQuery{fn: fn, target: func(x ssa.Instruction) bool { return x == in }, avoid: validated}).find(entryPos(fn))
				if found {
					// names taken from the replay aggregation map were admitted by the VCREATE arm: accept when the
					// value comes from ranging over that map and the VCREATE arm validates
					nval := len(findInstrs(fn, callsTo(val.Obj)))
					if o, _ := fn.Object().(*types.Func); o != nil && !o.Exported() { // the apply phase as a function of its own: the arms are in its caller
						for g := range w.staticCallersOf(fn) {
							nval += len(findInstrs(g, callsTo(val.Obj)))
						}
					}
					if comesFromMapRange(nv) && nval >= 2 {
						continue
					}
					okAll, wit = false, wt
				}
			}
			r.Cond(okAll, "WEB-8", key, w.Pos(c.Pos()), "the name is validated before it becomes a path", shortName(fi.Obj)+" joins an index name into an arena path on a path that skips validateIndexName: a name with '/' or '..' escapes the data directory (directory created on insert, RemoveAll on drop or on VDROP replay)", w.witness(wit)...)
		}
	}
	if n < 3 {
		r.Und("WEB-8", "anchor:arena-path-sites", "", fmt.Sprintf("only %d arena path constructions found in pkg/engine (expected VCreate, VDeleteIndex, replayAOF x2)", n))
	}
}

// sameOrigin: both values are (conversions of) the same parameter / the same cmd.Args element / the same SSA value.
func sameOrigin(a, b ssa.Value) bool {
	a, b = stripConv(a), stripConv(b)
	if a == b || sameValue(a, b) {
		return true
	}
	if pa, pb := cmdPos(a, 0), cmdPos(b, 0); pa >= 0 && pa == pb {
		return true
	}
	return false
}

func comesFromMapRange(v ssa.Value) bool {
	ex, ok := stripConv(v).(*ssa.Extract)
	if !ok {
		return false
	}
	_, isNext := ex.Tuple.(*ssa.Next)
	return isNext
}

var web5Exceptions = map[string]string{
	"handleEndSession": "the body is optional: on a decode error the handler clears index_name and the very next test answers 400 'index_name is required' before any engine call (a value correlation the path query cannot see)",
}

// fromDecodedRequest: the value is (derived from) a field of a struct that is decoded from the request body,
// i.e. it is loaded through a FieldAddr chain rooted in a local struct variable.
func fromDecodedRequest(v ssa.Value, depth int) bool {
	if depth > 8 || v == nil {
		return false
	}
	switch x := v.(type) {
	case *ssa.UnOp:
		if x.Op == token.MUL {
			return addrInLocalStruct(x.X, 0)
		}
	case *ssa.Phi:
		for _, e := range x.Edges {
			if fromDecodedRequest(e, depth+1) {
				return true
			}
		}
	case *ssa.Slice:
		return fromDecodedRequest(x.X, depth+1)
	case *ssa.Convert:
		return fromDecodedRequest(x.X, depth+1)
	case *ssa.ChangeType:
		return fromDecodedRequest(x.X, depth+1)
	}
	return false
}

func addrInLocalStruct(v ssa.Value, depth int) bool {
	if depth > 6 {
		return false
	}
	switch x := v.(type) {
	case *ssa.FieldAddr:
		if _, ok := x.X.(*ssa.Alloc); ok {
			return true
		}
		return addrInLocalStruct(x.X, depth+1)
	case *ssa.IndexAddr:
		if ld, ok := x.X.(*ssa.UnOp); ok {
			return addrInLocalStruct(ld.X, depth+1)
		}
		return addrInLocalStruct(x.X, depth+1)
	}
	return false
}

// ruleWEBverbatim: the fusion weight a client sends reaches the engine as sent. alpha = 0 is a meaningful request
// (pure text ranking) and cannot be told apart from an omitted field once a handler has "defaulted" it.
func ruleWEBverbatim(w *World, r *Report) {
	r.Doc("WEB-verbatim", "no HTTP handler stores into the Alpha field of a decoded request: the fusion weight reaches the engine as the client sent it (0 and 1 included)", 1)
	n := 0
	for _, fi := range w.ModuleFuncs() {
		if relPkg(fi.Obj) != "internal/server" {
			continue
		}
		fn := w.SSAFunc(fi.Obj)
		if fn == nil {
			continue
		}
		for _, f := range append([]*ssa.Function{fn}, closuresOf(fn)...) {
			for _, b := range f.Blocks {
				for _, in := range b.Instrs {
					st, ok := in.(*ssa.Store)
					if !ok {
						continue
					}
					fa, ok := st.Addr.(*ssa.FieldAddr)
					if !ok {
						continue
					}
					if _, fld := structFieldName(fa.X.Type(), fa.Field); fld == "Alpha" {
						n++
						r.Bad("WEB-verbatim", shortName(fi.Obj)+":rewrites-alpha", w.Pos(st.Pos()), shortName(fi.Obj)+" overwrites the alpha of the decoded request: a client that asks for alpha = 0 (pure text ranking) — or whose client library omits a zero field — gets a different fusion than it asked for, while the same request through the engine API is ranked as specified")
					}
				}
			}
		}
	}
	if n == 0 {
		r.Ok("WEB-verbatim", "alpha-reaches-the-engine-as-sent", "", "no handler stores into a request's Alpha field")
	}
}
