package main

// rules_c18.go — C18: the structural parts of "stored vectors and distances stay faithful".
//
//   GRD-kernel  every function registered in a kernel dispatch table rejects operands of different
//               length with an error before it touches an element (also used by C19)
//   GRD-widen   integer kernels widen before they multiply/add; Euclidean kernels use the difference form
//   GRD-clamp   every float→int8 conversion is fed by a value clamped into the int8 range
//   TBL-prec    per precision: bytes per element, arena precision code, byte-cast helper, vecData arm,
//               kernel field agree in every `switch precision` of the index
//   GRD-own     the arena never hands out a window into its slot table / free list
//   GRD-slot    free-list push / pop / bump discipline and the relocation protocol of the compactor
//
// None of these decides a numeric bound; DESIGN.md says which clauses of C18 stay undecided.

import (
	"fmt"
	"go/ast"
	"go/constant"
	"go/token"
	"go/types"
	"sort"
	"strings"

	"golang.org/x/tools/go/ssa"
	"golang.org/x/tools/go/ssa/ssautil"
)

const (
	distPkg = "pkg/core/distance"
	mmapPkg = "pkg/storage/mmap"
	hnswPkg = "pkg/core/hnsw"
)

// pkgSSAFuncs: every SSA function (declared, init#N, closures) of module package rel, sorted.
func (w *World) pkgSSAFuncs(rel string) []*ssa.Function {
	if w.pkgFns == nil {
		w.pkgFns = map[string][]*ssa.Function{}
		for fn := range ssautil.AllFunctions(w.SSA()) {
			root := fn
			for root.Parent() != nil {
				root = root.Parent()
			}
			if root.Pkg == nil || root.Pkg.Pkg == nil || !strings.HasPrefix(root.Pkg.Pkg.Path(), modPath+"/") {
				continue
			}
			if fn.Pos().IsValid() && isTestFile(w.Fset, fn.Pos()) {
				continue
			}
			if len(fn.Blocks) == 0 {
				continue
			}
			k := strings.TrimPrefix(root.Pkg.Pkg.Path(), modPath+"/")
			w.pkgFns[k] = append(w.pkgFns[k], fn)
		}
		for _, fs := range w.pkgFns {
			sort.Slice(fs, func(i, j int) bool { return fnName(fs[i]) < fnName(fs[j]) })
		}
	}
	return w.pkgFns[rel]
}

// ---------- kernel tables ----------

type kernelReg struct {
	table, metric string
	fn            *ssa.Function
	pos           token.Pos
}

func stripFuncValue(v ssa.Value) *ssa.Function {
	for {
		switch x := v.(type) {
		case *ssa.Function:
			return x
		case *ssa.ChangeType:
			v = x.X
		case *ssa.MakeClosure:
			f, _ := x.Fn.(*ssa.Function)
			return f
		default:
			return nil
		}
	}
}

// kernelRegs finds every store into a map whose element type is one of the package's DistanceFunc* types.
func kernelRegs(w *World) (regs []kernelReg, unresolved []token.Pos) {
	for _, fn := range w.pkgSSAFuncs(distPkg) {
		for _, b := range fn.Blocks {
			for _, in := range b.Instrs {
				mu, ok := in.(*ssa.MapUpdate)
				if !ok {
					continue
				}
				mt, ok := mu.Map.Type().Underlying().(*types.Map)
				if !ok {
					continue
				}
				nt, ok := mt.Elem().(*types.Named)
				if !ok || !strings.HasPrefix(nt.Obj().Name(), "DistanceFunc") {
					continue
				}
				k := stripFuncValue(mu.Value)
				if k == nil {
					unresolved = append(unresolved, mu.Pos())
					continue
				}
				metric, _ := constString(mu.Key)
				regs = append(regs, kernelReg{table: nt.Obj().Name(), metric: metric, fn: k, pos: mu.Pos()})
			}
		}
	}
	sort.Slice(regs, func(i, j int) bool {
		if regs[i].table != regs[j].table {
			return regs[i].table < regs[j].table
		}
		if regs[i].metric != regs[j].metric {
			return regs[i].metric < regs[j].metric
		}
		return fnName(regs[i].fn) < fnName(regs[j].fn)
	})
	return
}

func isBuiltinCall(in ssa.Instruction, name string) (*ssa.Call, bool) {
	c, ok := in.(*ssa.Call)
	if !ok {
		return nil, false
	}
	b, ok := c.Call.Value.(*ssa.Builtin)
	if !ok || b.Name() != name {
		return nil, false
	}
	return c, true
}

func isLenOf(v ssa.Value, p ssa.Value) bool {
	in, ok := v.(ssa.Instruction)
	if !ok {
		return false
	}
	c, ok := isBuiltinCall(in, "len")
	return ok && len(c.Call.Args) == 1 && c.Call.Args[0] == p
}

// kernelVerdict decides GRD-kernel for one kernel function. seen breaks delegation cycles.
func kernelVerdict(w *World, fn *ssa.Function, seen map[*ssa.Function]bool) (ok bool, detail string, wit []ssa.Instruction) {
	if seen[fn] {
		return false, "delegation cycle", nil
	}
	seen[fn] = true
	if len(fn.Params) != 2 {
		return false, "kernel does not take two operands", nil
	}
	p0, p1 := fn.Params[0], fn.Params[1]
	res := fn.Signature.Results()
	errIdx := -1
	for i := 0; i < res.Len(); i++ {
		if isErrorType(res.At(i).Type()) {
			errIdx = i
		}
	}
	if errIdx < 0 {
		return false, "kernel has no error result to report a length mismatch with", nil
	}
	isCmp := func(in ssa.Instruction) bool {
		bo, ok := in.(*ssa.BinOp)
		if !ok || (bo.Op != token.NEQ && bo.Op != token.EQL) {
			return false
		}
		return isLenOf(bo.X, p0) && isLenOf(bo.Y, p1) || isLenOf(bo.X, p1) && isLenOf(bo.Y, p0)
	}
	cmps := findInstrs(fn, isCmp)
	// classify the uses of the two operands
	var raw []ssa.Instruction
	var delegs []*ssa.Call
	for _, p := range []*ssa.Parameter{p0, p1} {
		for _, ref := range *p.Referrers() {
			if _, ok := ref.(*ssa.DebugRef); ok {
				continue
			}
			if _, ok := isBuiltinCall(ref, "len"); ok {
				continue
			}
			if c, ok := ref.(*ssa.Call); ok {
				if g := c.Call.StaticCallee(); g != nil && inModule(g) && len(g.Blocks) > 0 && len(c.Call.Args) == 2 &&
					(c.Call.Args[0] == p0 && c.Call.Args[1] == p1 || c.Call.Args[0] == p1 && c.Call.Args[1] == p0) {
					dup := false
					for _, d := range delegs {
						if d == c {
							dup = true
						}
					}
					if !dup {
						delegs = append(delegs, c)
					}
					continue
				}
			}
			raw = append(raw, ref)
		}
	}
	isRaw := func(in ssa.Instruction) bool {
		for _, u := range raw {
			if u == in {
				return true
			}
		}
		return false
	}
	if len(raw) > 0 {
		if len(cmps) == 0 {
			return false, "operands are used without any len(v1)/len(v2) comparison in the kernel", []ssa.Instruction{raw[0]}
		}
		if found, wt := (pathQuery{fn: fn, target: isRaw, avoid: isCmp}).find(entryPos(fn)); found {
			return false, "an operand element is reached on a path that never compares the two lengths", wt
		}
		for _, c := range cmps {
			bo := c.(*ssa.BinOp)
			t, f := condEdges(bo)
			unequal := t
			if bo.Op == token.EQL {
				unequal = f
			}
			if len(t)+len(f) == 0 {
				return false, "the result of the length comparison is not branched on", []ssa.Instruction{c}
			}
			for _, e := range unequal {
				start := ipos{e.from.Succs[e.succ], -1}
				if found, wt := (pathQuery{fn: fn, target: isRaw}).find(start); found {
					return false, "an operand element is reached on the lengths-differ edge", append([]ssa.Instruction{c}, wt...)
				}
				badRet := func(in ssa.Instruction) bool {
					rt, ok := in.(*ssa.Return)
					return ok && !definitelyError(retVal(rt, errIdx))
				}
				if found, wt := (pathQuery{fn: fn, target: badRet}).find(start); found {
					return false, "the lengths-differ edge reaches a return that does not report an error", append([]ssa.Instruction{c}, wt...)
				}
			}
		}
	}
	for _, c := range delegs {
		g := c.Call.StaticCallee()
		if ok, d, wt := kernelVerdict(w, g, seen); !ok {
			return false, "delegates to " + fnName(g) + ": " + d, wt
		}
		evs := errValues(c)
		if len(evs) == 0 {
			return false, "the error of delegate " + fnName(g) + " is discarded", []ssa.Instruction{c}
		}
		fe := failureEdges(fn, c)
		isEv := func(v ssa.Value) bool {
			for _, e := range evs {
				if e == v {
					return true
				}
			}
			return false
		}
		for _, rt := range findInstrs(fn, isReturn) {
			rv := retVal(rt.(*ssa.Return), errIdx)
			if isEv(rv) || definitelyError(rv) {
				continue
			}
			// a return that reports no error must be unreachable once the delegate failed
			if len(fe) == 0 {
				return false, "the error of delegate " + fnName(g) + " is not checked before a nil-error return", []ssa.Instruction{c, rt}
			}
			for e := range fe {
				rr := rt
				if found, wt := (pathQuery{fn: fn, target: func(in ssa.Instruction) bool { return in == rr }}).find(ipos{e.from.Succs[e.succ], -1}); found {
					return false, "after delegate " + fnName(g) + " failed a return without error is reachable", append([]ssa.Instruction{c}, wt...)
				}
			}
		}
	}
	if len(raw) == 0 && len(delegs) == 0 {
		return false, "kernel never reads its operands", nil
	}
	return true, fmt.Sprintf("%d element uses behind the equal-length edge, %d checked delegate(s); the lengths-differ edge returns a fresh error", len(raw), len(delegs)), nil
}

func ruleGRDkernel(w *World, r *Report) {
	r.Doc("GRD-kernel", "every function stored in a kernel dispatch table (float32Funcs/float16Funcs/int8Funcs, including init() overrides) compares len(v1) with len(v2) before any element of either operand is read or passed on, and the lengths-differ edge returns a non-nil error", 4)
	regs, unres := kernelRegs(w)
	for _, p := range unres {
		r.Und("GRD-kernel", "unresolved-registration", w.Pos(p), "a kernel table entry is not a static function value")
	}
	if len(regs) == 0 {
		r.Und("GRD-kernel", "anchor:kernel-tables", "", "no store into a DistanceFunc* table found in "+distPkg)
		return
	}
	done := map[string]bool{}
	for _, k := range regs {
		key := k.table + "[" + k.metric + "]=" + fnName(k.fn)
		if done[key] {
			continue
		}
		done[key] = true
		ok, d, wit := kernelVerdict(w, k.fn, map[*ssa.Function]bool{})
		r.Cond(ok, "GRD-kernel", key, w.Pos(k.fn.Pos()), d, fnName(k.fn)+" (registered for "+k.metric+" in "+k.table+"): "+d+" — a query or stored vector of the wrong dimension panics (index out of range / BLAS length panic) or yields a truncated distance instead of an error", w.witness(wit)...)
	}
	r.Count("kernel_registrations", len(regs))
}

// reachableModuleFuncs: fn plus every module function it calls statically (transitively).
func reachableStatic(fn *ssa.Function, seen map[*ssa.Function]bool) {
	if fn == nil || seen[fn] || len(fn.Blocks) == 0 {
		return
	}
	seen[fn] = true
	for _, b := range fn.Blocks {
		for _, in := range b.Instrs {
			if cc := callCommon(in); cc != nil {
				if g := cc.StaticCallee(); g != nil && inModule(g) {
					reachableStatic(g, seen)
				}
			}
		}
	}
}

func basicKind(t types.Type) types.BasicKind {
	if b, ok := t.Underlying().(*types.Basic); ok {
		return b.Kind()
	}
	return types.Invalid
}

func ruleGRDwiden(w *World, r *Report) {
	r.Doc("GRD-widen", "a kernel never does arithmetic in an 8/16-bit integer type (products and sums of int8 components are formed after widening, so they cannot wrap), and a kernel registered for the Euclidean metric never passes one operand twice to an external reduction (the |a|²+|b|²−2ab form loses the distance to cancellation)", 4)
	regs, _ := kernelRegs(w)
	done := map[*ssa.Function]bool{}
	for _, k := range regs {
		fns := map[*ssa.Function]bool{}
		reachableStatic(k.fn, fns)
		var list []*ssa.Function
		for f := range fns {
			list = append(list, f)
		}
		sort.Slice(list, func(i, j int) bool { return fnName(list[i]) < fnName(list[j]) })
		for _, f := range list {
			if !done[f] {
				done[f] = true
				var bad ssa.Instruction
				n := 0
				for _, b := range f.Blocks {
					for _, in := range b.Instrs {
						bo, ok := in.(*ssa.BinOp)
						if !ok {
							continue
						}
						switch bo.Op {
						case token.ADD, token.SUB, token.MUL, token.SHL:
							n++
							switch basicKind(bo.Type()) {
							case types.Int8, types.Uint8, types.Int16, types.Uint16:
								bad = in
							}
						}
					}
				}
				pos := w.Pos(f.Pos())
				if bad != nil {
					pos = w.Pos(bad.Pos())
				}
				r.Cond(bad == nil, "GRD-widen", "narrow-arith:"+fnName(f), pos, fmt.Sprintf("%d arithmetic operations, none in an 8/16-bit integer type", n), fnName(f)+" multiplies/adds vector components in an 8/16-bit integer type: the result wraps (for int8: 127*127 does not fit) and the distance is silently wrong")
			}
			if k.metric != "euclidean" {
				continue
			}
			var bad ssa.Instruction
			for _, b := range f.Blocks {
				for _, in := range b.Instrs {
					cc := callCommon(in)
					if cc == nil {
						continue
					}
					if g := cc.StaticCallee(); g != nil && inModule(g) {
						continue
					}
					if _, ok := cc.Value.(*ssa.Builtin); ok {
						continue
					}
					cnt := map[ssa.Value]int{}
					for _, a := range cc.Args {
						if _, ok := a.Type().Underlying().(*types.Slice); ok {
							cnt[a]++
							if cnt[a] > 1 {
								bad = in
							}
						}
					}
				}
			}
			pos := w.Pos(f.Pos())
			if bad != nil {
				pos = w.Pos(bad.Pos())
			}
			r.Cond(bad == nil, "GRD-widen", "difference-form:"+k.table+"[euclidean]:"+fnName(f), pos, "no external reduction over a single operand", fnName(f)+" (Euclidean kernel) computes a self-product of one operand through an external reduction: the squared distance is then assembled as |a|²+|b|²−2ab, whose absolute error is one ulp of the squared norm — vectors that are close relative to their norm get distance 0 or a coarse multiple of that ulp, far outside floating-point tolerance of the reference loop")
		}
	}
}

// ---------- GRD-clamp ----------

// clampInfo: v (after stripping rounding/conversions) is a phi whose incoming non-constant value x arrives
// only through the false edges of `x > hi` and `x < lo` with hi ≤ max and lo ≥ min, and whose constant
// edges are within [min,max].
func stripRounding(v ssa.Value) ssa.Value {
	for {
		switch x := v.(type) {
		case *ssa.Convert:
			if b := basicKind(x.X.Type()); b == types.Float32 || b == types.Float64 {
				v = x.X
				continue
			}
			return v
		case *ssa.Call:
			if o := calleeObj(&x.Call); o != nil && o.Pkg() != nil && o.Pkg().Path() == "math" {
				switch o.Name() {
				case "Round", "RoundToEven", "Trunc", "Floor", "Ceil":
					v = x.Call.Args[0]
					continue
				}
			}
			return v
		default:
			return v
		}
	}
}

func constFloat(v ssa.Value) (float64, bool) {
	c, ok := v.(*ssa.Const)
	if !ok || c.Value == nil {
		return 0, false
	}
	switch c.Value.Kind() {
	case constant.Int, constant.Float:
		f, _ := constant.Float64Val(constant.ToFloat(c.Value))
		return f, true
	}
	return 0, false
}

func clamped(v ssa.Value, lo, hi float64) (bool, string) {
	v = stripRounding(v)
	phi, ok := v.(*ssa.Phi)
	if !ok {
		if f, ok := constFloat(v); ok && f >= lo && f <= hi {
			return true, "constant"
		}
		return false, "the converted value is not the join of a clamp (no upper/lower bound test selects it)"
	}
	blk := phi.Block()
	for i, e := range phi.Edges {
		if f, ok := constFloat(e); ok {
			if f < lo || f > hi {
				return false, fmt.Sprintf("clamp constant %v is outside [%v, %v]", f, lo, hi)
			}
			continue
		}
		pred := blk.Preds[i]
		upper, lower := false, false
		for _, ref := range *e.Referrers() {
			bo, ok := ref.(*ssa.BinOp)
			if !ok {
				continue
			}
			// normalise to  e OP c
			var c float64
			var op token.Token
			if f, ok := constFloat(bo.Y); ok && bo.X == e {
				c, op = f, bo.Op
			} else if f, ok := constFloat(bo.X); ok && bo.Y == e {
				c = f
				switch bo.Op {
				case token.LSS:
					op = token.GTR
				case token.LEQ:
					op = token.GEQ
				case token.GTR:
					op = token.LSS
				case token.GEQ:
					op = token.LEQ
				default:
					continue
				}
			} else {
				continue
			}
			_, fEdges := condEdges(bo)
			through := false
			for _, fe := range fEdges {
				tgt := fe.from.Succs[fe.succ]
				if fe.from == pred && tgt == blk {
					through = true
				} else if len(tgt.Preds) == 1 && tgt.Dominates(pred) {
					through = true
				}
			}
			if !through {
				continue
			}
			switch op {
			case token.GTR, token.GEQ: // false edge ⇒ e ≤ c (or < c)
				if c <= hi {
					upper = true
				}
			case token.LSS, token.LEQ: // false edge ⇒ e ≥ c
				if c >= lo {
					lower = true
				}
			}
		}
		if !upper || !lower {
			miss := "upper"
			if upper {
				miss = "lower"
			}
			return false, "the unclamped value reaches the conversion without passing the " + miss + "-bound test (or the bound lies outside the target range)"
		}
	}
	return true, fmt.Sprintf("%d-way join: constants within range, pass-through edge behind both bound tests", len(phi.Edges))
}

func ruleGRDclamp(w *World, r *Report) {
	r.Doc("GRD-clamp", "every conversion that produces an int8 from a wider number converts a value that was clamped into [-128,127] on every path, and when the clamp is applied to an integer that itself came from a floating-point value, that float→integer conversion was clamped first (values beyond the trained range are clipped, never wrapped; Go leaves an out-of-range float→integer conversion implementation-defined)", 1)
	n := 0
	limits := func(k types.BasicKind) (float64, float64, bool) {
		switch k {
		case types.Int8:
			return -128, 127, true
		case types.Int16:
			return -32768, 32767, true
		case types.Int32:
			return -2147483648, 2147483647, true
		case types.Int, types.Int64:
			return -9.2e18, 9.2e18, true
		case types.Uint8:
			return 0, 255, true
		case types.Uint16:
			return 0, 65535, true
		case types.Uint32:
			return 0, 4294967295, true
		case types.Uint, types.Uint64:
			return 0, 1.8e19, true
		}
		return 0, 0, false
	}
	var fns []*ssa.Function
	for fn := range ssautil.AllFunctions(w.SSA()) {
		if !inModule(fn) || len(fn.Blocks) == 0 || (fn.Pos().IsValid() && isTestFile(w.Fset, fn.Pos())) {
			continue
		}
		fns = append(fns, fn)
	}
	sort.Slice(fns, func(i, j int) bool { return fnName(fns[i]) < fnName(fns[j]) })
	for _, fn := range fns {
		root := fn
		for root.Parent() != nil {
			root = root.Parent()
		}
		inQuantiser := root.Pkg != nil && root.Pkg.Pkg != nil && root.Pkg.Pkg.Path() == modPath+"/"+distPkg
		idx := 0
		for _, b := range fn.Blocks {
			for _, in := range b.Instrs {
				cv, ok := in.(*ssa.Convert)
				if !ok {
					continue
				}
				tk, sk := basicKind(cv.Type()), basicKind(cv.X.Type())
				lo, hi, isInt := limits(tk)
				if !isInt {
					continue
				}
				fromFloat := sk == types.Float32 || sk == types.Float64
				_, _, fromInt := limits(sk)
				toInt8 := tk == types.Int8 && (fromFloat || fromInt && sk != types.Int8)
				_ = inQuantiser
				if !toInt8 {
					continue
				}
				if _, isConst := cv.X.(*ssa.Const); isConst {
					continue
				}
				idx++
				n++
				ok2, d := clamped(cv.X, lo, hi)
				kind := "int8-conversion"
				// an integer that is clamped AFTER it was converted from a float: the float→integer step itself
				// must already be in range (out-of-range conversions are implementation-defined)
				if ok2 && fromInt {
					for _, leaf := range phiLeaves(stripRounding(cv.X)) {
						lc, isCv := leaf.(*ssa.Convert)
						if !isCv {
							continue
						}
						if k := basicKind(lc.X.Type()); k != types.Float32 && k != types.Float64 {
							continue
						}
						l2, h2, _ := limits(basicKind(lc.Type()))
						if okF, dF := clamped(lc.X, l2, h2); !okF {
							ok2, d = false, "the value is clamped only after a float→"+lc.Type().String()+" conversion whose operand is unbounded ("+dF+")"
						}
					}
				}
				r.Cond(ok2, "GRD-clamp", fmt.Sprintf("%s:%s#%d", fnName(fn), kind, idx), w.Pos(cv.Pos()), d, fnName(fn)+": "+d+" — a component beyond the trained range wraps around instead of saturating (for float→integer: an out-of-range value such as +Inf or 1e19·AbsMax converts to the minimum integer on amd64 and is then clamped to the WRONG side), flipping its sign in every later dot product")
			}
		}
	}
	r.Count("narrowing_conversions_checked", n)
	if n == 0 {
		r.Und("GRD-clamp", "anchor:int8-conversion", "", "no conversion to int8 found: the quantiser moved")
	}
}

// ---------- TBL-prec ----------

// precFamilies: the markers that identify which element representation a switch arm works on.
var precFamilies = map[string]struct {
	helper, field, getter, distField, arenaCode string
	elem                                        types.BasicKind
	size                                        int64
}{
	"Float32": {"BytesToFloat32Slice", "F32", "GetVectorF32", "distFuncF32", "PrecFloat32", types.Float32, 4},
	"Float16": {"BytesToUint16Slice", "F16", "GetVectorF16", "distFuncF16", "PrecFloat16", types.Uint16, 2},
	"Int8":    {"BytesToInt8Slice", "I8", "GetVectorI8", "distFuncI8", "PrecInt8", types.Int8, 1},
}

func ruleTBLprec(w *World, r *Report) {
	r.Doc("TBL-prec", "in every switch over the index precision, the arm for a precision uses only that precision's byte-cast helper, vecData field, vector getter, kernel field and arena code, and the arena slot size is dim × the element size of that representation (float32:4, float16 as uint16:2, int8:1)", 30)
	pkg := w.Pkg(hnswPkg)
	if pkg == nil {
		r.Und("TBL-prec", "anchor:"+hnswPkg, "", "package not loaded")
		return
	}
	// which family a marker belongs to
	owner := map[string]string{}
	for fam, m := range precFamilies {
		for _, s := range []string{m.helper, m.field, m.getter, m.distField, m.arenaCode} {
			owner[s] = fam
		}
	}
	arms, sizes := 0, 0
	perFn := map[string]int{}
	for _, f := range pkg.Syntax {
		if isTestFile(w.Fset, f.Pos()) {
			continue
		}
		for _, d := range f.Decls {
			fd, ok := d.(*ast.FuncDecl)
			if !ok || fd.Body == nil {
				continue
			}
			name := fd.Name.Name
			if fd.Recv != nil && len(fd.Recv.List) == 1 {
				name = strings.TrimPrefix(types.ExprString(fd.Recv.List[0].Type), "*") + "." + name
			}
			ast.Inspect(fd.Body, func(n ast.Node) bool {
				sw, ok := n.(*ast.SwitchStmt)
				if !ok || sw.Tag == nil {
					return true
				}
				tv := pkg.TypesInfo.TypeOf(sw.Tag)
				if tv == nil || !strings.HasSuffix(tv.String(), "distance.PrecisionType") {
					return true
				}
				perFn[name]++
				for _, cs := range sw.Body.List {
					cc := cs.(*ast.CaseClause)
					if len(cc.List) != 1 {
						continue
					}
					fam := ""
					if se, ok := cc.List[0].(*ast.SelectorExpr); ok {
						fam = se.Sel.Name
					} else if id, ok := cc.List[0].(*ast.Ident); ok {
						fam = id.Name
					}
					if _, ok := precFamilies[fam]; !ok {
						continue
					}
					arms++
					key := fmt.Sprintf("%s:switch#%d:%s", name, perFn[name], fam)
					var foreign []string
					var fpos token.Pos
					for _, st := range cc.Body {
						ast.Inspect(st, func(m ast.Node) bool {
							// nested precision switches are visited on their own
							if inner, ok := m.(*ast.SwitchStmt); ok && inner != sw && inner.Tag != nil {
								if t := pkg.TypesInfo.TypeOf(inner.Tag); t != nil && strings.HasSuffix(t.String(), "distance.PrecisionType") {
									return false
								}
							}
							var nm string
							var p token.Pos
							switch x := m.(type) {
							case *ast.SelectorExpr:
								nm, p = x.Sel.Name, x.Sel.Pos()
							case *ast.KeyValueExpr:
								if id, ok := x.Key.(*ast.Ident); ok {
									nm, p = id.Name, id.Pos()
								}
							}
							if o, ok := owner[nm]; ok && o != fam {
								foreign = append(foreign, nm)
								if !fpos.IsValid() {
									fpos = p
								}
							}
							return true
						})
					}
					pos := cc.Pos()
					if fpos.IsValid() {
						pos = fpos
					}
					r.Cond(len(foreign) == 0, "TBL-prec", key, w.Pos(pos), "arm uses only "+fam+" markers", fmt.Sprintf("%s: the %s arm uses %s, which belongs to another precision: the arena bytes of a vector are reinterpreted with the wrong element type (a stored vector reads back as different numbers, or the cast runs past the slot into the next vector)", name, fam, strings.Join(foreign, ", ")))
					// slot size: vecSize = dim * K
					for _, st := range cc.Body {
						as, ok := st.(*ast.AssignStmt)
						if !ok || len(as.Lhs) != 1 || len(as.Rhs) != 1 {
							continue
						}
						be, ok := as.Rhs[0].(*ast.BinaryExpr)
						if !ok || be.Op != token.MUL {
							continue
						}
						var k int64 = -1
						for _, side := range []ast.Expr{be.X, be.Y} {
							if tv, ok := pkg.TypesInfo.Types[side]; ok && tv.Value != nil {
								if v, ok := constant.Int64Val(constant.ToInt(tv.Value)); ok {
									k = v
								}
							}
						}
						if k < 0 {
							continue
						}
						sizes++
						want := precFamilies[fam].size
						r.Cond(k == want, "TBL-prec", fmt.Sprintf("%s:slot-size:%s", name, fam), w.Pos(as.Pos()), fmt.Sprintf("slot size is dim × %d", k), fmt.Sprintf("%s: the %s arena slot is dim × %d bytes but the byte-cast helper of that precision reads dim × %d: neighbouring slots overlap (a write to one vector changes the next) or the cast runs past the slot", name, fam, k, want))
					}
				}
				return true
			})
		}
	}
	r.Count("precision_switch_arms", arms)
	if sizes < 3 {
		r.Und("TBL-prec", "anchor:slot-size", "", fmt.Sprintf("expected the three dim×K slot-size assignments of initArenaIfNeeded, found %d", sizes))
	}
	// the helpers themselves: result element type per family
	mp := w.Pkg(mmapPkg)
	for fam, m := range precFamilies {
		fi := w.Func(mmapPkg, m.helper)
		if fi == nil || mp == nil {
			r.Und("TBL-prec", "anchor:"+m.helper, "", "byte-cast helper lost")
			continue
		}
		sig := fi.Obj.Type().(*types.Signature)
		okT := false
		if sig.Results().Len() == 1 {
			if sl, ok := sig.Results().At(0).Type().Underlying().(*types.Slice); ok && basicKind(sl.Elem()) == m.elem {
				okT = true
			}
		}
		r.Cond(okT, "TBL-prec", "helper:"+fam, w.Pos(fi.Decl.Pos()), m.helper+" yields the "+fam+" element type", m.helper+" no longer yields the element type of "+fam)
	}
}

// ---------- arena: ownership, free list, relocation ----------

func arenaField(v ssa.Value) (string, bool) {
	fa, ok := v.(*ssa.FieldAddr)
	if !ok {
		return "", false
	}
	if fieldOwner(fa) != "mmap.VectorArena" {
		return "", false
	}
	return fieldName(fa), true
}

// loadOfArenaField: v is `*(&arena.field)`.
func loadOfArenaField(v ssa.Value, fields ...string) (string, bool) {
	u, ok := v.(*ssa.UnOp)
	if !ok || u.Op != token.MUL {
		return "", false
	}
	f, ok := arenaField(u.X)
	if !ok {
		return "", false
	}
	for _, want := range fields {
		if f == want {
			return f, true
		}
	}
	return "", false
}

// derivedLoads: the loads of arena.slotTable / arena.freeSlots whose backing array v may share.
func derivedLoads(v ssa.Value, seen map[ssa.Value]bool, out map[*ssa.UnOp]string) {
	if v == nil || seen[v] {
		return
	}
	seen[v] = true
	if f, ok := loadOfArenaField(v, "slotTable", "freeSlots"); ok {
		out[v.(*ssa.UnOp)] = f
		return
	}
	switch x := v.(type) {
	case *ssa.Slice:
		derivedLoads(x.X, seen, out)
	case *ssa.Phi:
		for _, e := range x.Edges {
			derivedLoads(e, seen, out)
		}
	case *ssa.ChangeType:
		derivedLoads(x.X, seen, out)
	case *ssa.Call:
		if c, ok := isBuiltinCall(x, "append"); ok && len(c.Call.Args) > 0 {
			derivedLoads(c.Call.Args[0], seen, out) // append may return the same backing array as its first operand
		}
	case *ssa.UnOp:
		if x.Op == token.MUL {
			if al, ok := x.X.(*ssa.Alloc); ok {
				if _, isSlice := al.Type().(*types.Pointer).Elem().Underlying().(*types.Slice); isSlice {
					for _, ref := range *al.Referrers() {
						if st, ok := ref.(*ssa.Store); ok && st.Addr == al {
							derivedLoads(st.Val, seen, out)
						}
					}
				}
			}
		}
	}
}

func isDerived(v ssa.Value) map[*ssa.UnOp]string {
	out := map[*ssa.UnOp]string{}
	derivedLoads(v, map[ssa.Value]bool{}, out)
	return out
}

func ruleGRDown(w *World, r *Report) {
	r.Doc("GRD-own", "no function of the arena package lets a slice that shares its backing array with VectorArena.slotTable or .freeSlots escape (returned, stored outside the arena, passed to a call) unless the arena field is re-pointed at a fresh array on every path before the escape (ownership transfer)", 2)
	fns := w.pkgSSAFuncs(mmapPkg)
	escapes, checked := 0, 0
	for _, fn := range fns {
		touches := false
		for _, b := range fn.Blocks {
			for _, in := range b.Instrs {
				if v, ok := in.(ssa.Value); ok {
					if _, ok := loadOfArenaField(v, "slotTable", "freeSlots"); ok {
						touches = true
					}
				}
			}
		}
		if !touches {
			continue
		}
		checked++
		type esc struct {
			at   ssa.Instruction
			how  string
			from map[*ssa.UnOp]string
		}
		var found []esc
		add := func(at ssa.Instruction, how string, v ssa.Value) {
			if _, ok := v.Type().Underlying().(*types.Slice); !ok {
				return
			}
			if d := isDerived(v); len(d) > 0 {
				found = append(found, esc{at, how, d})
			}
		}
		for _, b := range fn.Blocks {
			for _, in := range b.Instrs {
				switch x := in.(type) {
				case *ssa.Return:
					for i := range x.Results {
						add(in, "returned", retVal(x, i))
					}
				case *ssa.Store:
					if f, ok := arenaField(x.Addr); ok && (f == "slotTable" || f == "freeSlots") {
						continue // the arena's own field
					}
					if al, ok := x.Addr.(*ssa.Alloc); ok {
						if _, isSlice := al.Type().(*types.Pointer).Elem().Underlying().(*types.Slice); isSlice {
							continue // a spilled local: followed through its loads
						}
					}
					add(in, "stored outside the arena", x.Val)
				case *ssa.MapUpdate:
					add(in, "stored in a map", x.Value)
				case *ssa.Send:
					add(in, "sent on a channel", x.X)
				case *ssa.MakeInterface:
					add(in, "boxed into an interface", x.X)
				case *ssa.MakeClosure:
					for _, bnd := range x.Bindings {
						add(in, "captured by a closure", bnd)
					}
				case *ssa.Call, *ssa.Go, *ssa.Defer:
					cc := callCommon(in)
					if cc == nil {
						continue
					}
					if _, ok := cc.Value.(*ssa.Builtin); ok {
						continue // len, cap, copy, append: followed as values
					}
					for _, a := range cc.Args {
						add(in, "passed to "+calleeLabel(cc), a)
					}
				}
			}
		}
		for i, e := range found {
			escapes++
			// ownership transfer: on every path from the load to the escape the field is re-pointed at a fresh array
			bad := false
			var wit []ssa.Instruction
			var fld string
			for ld, f := range e.from {
				fld = f
				fresh := func(in ssa.Instruction) bool {
					st, ok := in.(*ssa.Store)
					if !ok {
						return false
					}
					g, ok := arenaField(st.Addr)
					return ok && g == f && len(isDerived(st.Val)) == 0
				}
				at := e.at
				if found2, wt := (pathQuery{fn: fn, target: func(in ssa.Instruction) bool { return in == at }, avoid: fresh}).find(posOf(ld)); found2 {
					bad, wit = true, append([]ssa.Instruction{ld}, wt...)
				}
			}
			key := fmt.Sprintf("%s:%s:%s#%d", fnName(fn), fld, strings.ReplaceAll(strings.SplitN(e.how, " ", 2)[0], " ", "_"), i+1)
			r.Cond(!bad, "GRD-own", key, w.Pos(e.at.Pos()), "the arena field is re-pointed at a fresh array before the old one is "+e.how, fnName(fn)+": a slice sharing the backing array of VectorArena."+fld+" is "+e.how+" while the arena keeps using that array: a later AllocSlot/FreeSlot/relocation shows through (or is overwritten by) the holder — a saved allocator state stops being a point-in-time image, or a relocation target is simultaneously on the free list, and two live vectors end up in one slot", w.witness(wit)...)
		}
		if len(found) == 0 {
			r.Ok("GRD-own", "no-escape:"+fnName(fn), w.Pos(fn.Pos()), "reads the slot table / free list without letting a window into them escape")
		}
	}
	r.Count("arena_functions_touching_slot_state", checked)
	r.Count("slot_state_escapes_examined", escapes)
	if checked < 5 {
		r.Und("GRD-own", "anchor:arena-slot-state", "", fmt.Sprintf("only %d functions touch slotTable/freeSlots: the allocator moved", checked))
	}
}

func calleeLabel(cc *ssa.CallCommon) string {
	if o := calleeObj(cc); o != nil {
		return shortName(o)
	}
	return "a function value"
}

// sameAddr: structurally the same memory location (same local/field/element chain). Intervening stores
// to the chain's slice headers are excluded by the caller.
func sameAddr(a, b ssa.Value, depth int) bool {
	if a == b {
		return true
	}
	if depth > 6 {
		return false
	}
	switch x := a.(type) {
	case *ssa.FieldAddr:
		y, ok := b.(*ssa.FieldAddr)
		return ok && x.Field == y.Field && sameAddr(x.X, y.X, depth+1)
	case *ssa.IndexAddr:
		y, ok := b.(*ssa.IndexAddr)
		return ok && sameAddr(x.X, y.X, depth+1) && sameAddr(x.Index, y.Index, depth+1)
	case *ssa.UnOp:
		y, ok := b.(*ssa.UnOp)
		return ok && x.Op == token.MUL && y.Op == token.MUL && sameAddr(x.X, y.X, depth+1)
	case *ssa.Convert:
		y, ok := b.(*ssa.Convert)
		return ok && types.Identical(x.Type(), y.Type()) && sameAddr(x.X, y.X, depth+1)
	}
	return false
}

// slotTableElemStore: *(&arena.slotTable[idx]) = val
func slotTableElemStore(in ssa.Instruction) (*ssa.Store, ssa.Value, bool) {
	st, ok := in.(*ssa.Store)
	if !ok {
		return nil, nil, false
	}
	ia, ok := st.Addr.(*ssa.IndexAddr)
	if !ok {
		return nil, nil, false
	}
	if _, ok := loadOfArenaField(ia.X, "slotTable"); !ok {
		return nil, nil, false
	}
	return st, ia.Index, true
}

// reservedElem: v is element i of a slice parameter (newSlots[i]); the key names parameter and index value.
func reservedElem(v ssa.Value) (string, bool) {
	ld, ok := v.(*ssa.UnOp)
	if !ok || ld.Op != token.MUL {
		return "", false
	}
	ia, ok := ld.X.(*ssa.IndexAddr)
	if !ok {
		return "", false
	}
	p, ok := ia.X.(*ssa.Parameter)
	if !ok {
		return "", false
	}
	return p.Name() + "[" + ia.Index.Name() + "]", true
}

// pushedElems: the values stored into the [n]T array behind a `slice t[:]` variadic argument.
func pushedElems(v ssa.Value) ([]ssa.Value, bool) {
	sl, ok := v.(*ssa.Slice)
	if !ok {
		return nil, false
	}
	al, ok := sl.X.(*ssa.Alloc)
	if !ok {
		return nil, false
	}
	var out []ssa.Value
	for _, ref := range *al.Referrers() {
		ia, ok := ref.(*ssa.IndexAddr)
		if !ok {
			continue
		}
		for _, r2 := range *ia.Referrers() {
			if st, ok := r2.(*ssa.Store); ok && st.Addr == ia {
				out = append(out, st.Val)
			}
		}
	}
	return out, len(out) > 0
}

// elemOfFreeList: v is an element read out of (a slice derived from) arena.freeSlots.
func elemOfFreeList(v ssa.Value) (*ssa.UnOp, bool) {
	switch x := v.(type) {
	case *ssa.UnOp:
		if x.Op != token.MUL {
			return nil, false
		}
		if ia, ok := x.X.(*ssa.IndexAddr); ok {
			for ld, f := range isDerived(ia.X) {
				if f == "freeSlots" {
					return ld, true
				}
			}
		}
	case *ssa.Extract: // range over the slice: extract #1 of next(range)
		if nx, ok := x.Tuple.(*ssa.Next); ok {
			if rg, ok := nx.Iter.(*ssa.Range); ok {
				for ld, f := range isDerived(rg.X) {
					if f == "freeSlots" {
						return ld, true
					}
				}
			}
		}
	}
	return nil, false
}

func ruleGRDslot(w *World, r *Report) {
	r.Doc("GRD-slot", "free-list discipline of the arena: (push) a slot is appended to freeSlots only together with a slot-table store that takes it away from its id, and the pushed value is that id's current slot; (pop) a slot read out of freeSlots and given to an id or a caller is removed from freeSlots before the function returns; (bump) a fresh slot taken from nextPhysSlot is followed by the increment; (reloc) the compactor switches slotTable[id] to the target only behind the re-validation slotTable[id]==fromSlot, after the bytes were copied, and then updates the node pointer", 8)
	fns := w.pkgSSAFuncs(mmapPkg)
	pushes, pops, bumps := 0, 0, 0
	for _, fn := range fns {
		nPush, nPop, nBump := 0, 0, 0
		// does this function re-point the slot table header? (then sameAddr over loads of it would be unsound)
		headerStores := 0
		for _, b := range fn.Blocks {
			for _, in := range b.Instrs {
				if st, ok := in.(*ssa.Store); ok {
					if f, ok := arenaField(st.Addr); ok && f == "slotTable" {
						headerStores++
					}
				}
			}
		}
		isTblStore := func(in ssa.Instruction) bool { _, _, ok := slotTableElemStore(in); return ok }
		for _, b := range fn.Blocks {
			for _, in := range b.Instrs {
				st, ok := in.(*ssa.Store)
				if !ok {
					continue
				}
				f, ok := arenaField(st.Addr)
				if !ok {
					continue
				}
				switch f {
				case "freeSlots":
					ap, ok := st.Val.(*ssa.Call)
					if !ok {
						continue
					}
					if _, ok := isBuiltinCall(ap, "append"); !ok || len(ap.Call.Args) != 2 {
						continue
					}
					elems, ok := pushedElems(ap.Call.Args[1])
					if !ok {
						r.Und("GRD-slot", "push:"+fnName(fn)+":bulk", w.Pos(st.Pos()), "a whole slice is appended to the free list: cannot pair it with slot-table stores")
						continue
					}
					for _, x := range elems {
						pushes++
						nPush++
						key := fmt.Sprintf("push:%s#%d", fnName(fn), nPush)
						if _, ok := elemOfFreeList(x); ok {
							r.Ok("GRD-slot", key, w.Pos(st.Pos()), "re-files an entry that was read out of the free list itself (filter idiom)")
							continue
						}
						// an unused reservation goes back: the pushed value is an element of a slice the caller handed in
						// (target slots reserved for this batch), and within the same iteration that element is neither given
						// to an id (stored into the slot table) nor pushed a second time
						if pk, isRes := reservedElem(x); isRes {
							h := innermostLoop(fn, st.Block())
							blk := map[edgeKey]bool{}
							if h != nil {
								for _, p := range h.Preds {
									for si, sc := range p.Succs {
										if sc == h && h.Dominates(p) {
											blk[edgeKey{p, si}] = true // one iteration: back edges closed
										}
									}
								}
							}
							usesSame := func(in ssa.Instruction) bool {
								if ts, _, isTbl := slotTableElemStore(in); isTbl {
									k, ok := reservedElem(ts.Val)
									return ok && k == pk
								}
								if o, isSt := in.(*ssa.Store); isSt && o != st {
									if f2, ok := arenaField(o.Addr); ok && f2 == "freeSlots" {
										if ap2, ok := o.Val.(*ssa.Call); ok && len(ap2.Call.Args) == 2 {
											if el2, ok := pushedElems(ap2.Call.Args[1]); ok {
												for _, y := range el2 {
													if k, ok := reservedElem(y); ok && k == pk {
														return true
													}
												}
											} else {
												return true // a bulk push: may contain it
											}
										}
									}
								}
								return false
							}
							after, wa := (pathQuery{fn: fn, target: usesSame, blocked: blk}).find(posOf(st))
							before := false
							var wb []ssa.Instruction
							for _, u := range findInstrs(fn, usesSame) {
								self := ssa.Instruction(st)
								if fd, wt := (pathQuery{fn: fn, target: func(in ssa.Instruction) bool { return in == self }, blocked: blk}).find(posOf(u)); fd {
									before, wb = true, wt
								}
							}
							if h != nil && !after && !before {
								r.Ok("GRD-slot", key, w.Pos(st.Pos()), "returns a target slot reserved for this batch that the iteration gives to no id and pushes only once")
								continue
							}
							wit := wa
							if before {
								wit = wb
							}
							r.Bad("GRD-slot", key, w.Pos(st.Pos()), fnName(fn)+" pushes a reserved target slot back onto the free list in an iteration that also gives that slot to an id (or pushes it twice): the slot is free and owned at once — the next AllocSlot hands it to a second id", w.witness(wit)...)
							continue
						}
						// (1) paired with a slot-table store on every path, once per push
						pp := ssa.Instruction(st)
						isP := func(in ssa.Instruction) bool { return in == pp }
						paired := false
						var pairedIdx ssa.Value
						var wit []ssa.Instruction
						for _, ts := range findInstrs(fn, isTblStore) {
							if ts.Block() == st.Block() {
								paired = true
								_, pairedIdx, _ = slotTableElemStore(ts)
							}
						}
						if !paired {
							found, wt := (pathQuery{fn: fn, target: isP, avoid: isTblStore}).find(entryPos(fn))
							again, wt2 := (pathQuery{fn: fn, target: isP, avoid: isTblStore}).find(posOf(st))
							if !found && !again {
								paired = true
								for _, ts := range findInstrs(fn, isTblStore) {
									if ts.Block().Dominates(st.Block()) {
										_, pairedIdx, _ = slotTableElemStore(ts)
									}
								}
							} else if found {
								wit = wt
							} else {
								wit = wt2
							}
						}
						if !paired {
							r.Bad("GRD-slot", key, w.Pos(st.Pos()), fnName(fn)+" pushes a slot onto the free list on a path that does not take the slot away from any id (no slotTable[…] store accompanies the push): the slot is free and still owned — the next AllocSlot hands it to a second id and two live vectors share storage", w.witness(wit)...)
							continue
						}
						// (2) the pushed value is the current slot of the id whose entry is rewritten
						okVal, why := false, ""
						if pairedIdx != nil && headerStores == 0 {
							if ld, ok := x.(*ssa.UnOp); ok && ld.Op == token.MUL {
								if ia, ok := ld.X.(*ssa.IndexAddr); ok {
									if _, ok := loadOfArenaField(ia.X, "slotTable"); ok && sameAddr(ia.Index, pairedIdx, 0) {
										okVal, why = true, "pushes slotTable[id] as read before the entry is rewritten"
									}
								}
							}
							if !okVal {
								// a guard slotTable[idx] == x passed on the equal edge
								isGuard := func(in ssa.Instruction) bool {
									bo, ok := in.(*ssa.BinOp)
									if !ok || (bo.Op != token.NEQ && bo.Op != token.EQL) {
										return false
									}
									for _, pr := range [][2]ssa.Value{{bo.X, bo.Y}, {bo.Y, bo.X}} {
										ld, ok := pr[0].(*ssa.UnOp)
										if !ok || ld.Op != token.MUL {
											continue
										}
										ia, ok := ld.X.(*ssa.IndexAddr)
										if !ok {
											continue
										}
										if _, ok := loadOfArenaField(ia.X, "slotTable"); !ok {
											continue
										}
										if sameAddr(ia.Index, pairedIdx, 0) && sameAddr(pr[1], x, 0) {
											return true
										}
									}
									return false
								}
								gs := findInstrs(fn, isGuard)
								if len(gs) > 0 {
									want := gs[0].(*ssa.BinOp).Op == token.EQL
									if ok, wt := mustPassGuard(fn, isP, isGuard, func(in ssa.Instruction) ssa.Value { return in.(*ssa.BinOp) }, want, nil); ok {
										okVal, why = true, "push is reached only through the slotTable[id]==slot edge"
									} else {
										wit = wt
									}
								}
							}
						}
						r.Cond(okVal, "GRD-slot", key, w.Pos(st.Pos()), "paired with a slot-table store; "+why, fnName(fn)+" pushes a slot that is not shown to be the current slot of the id whose slot-table entry it rewrites (no read of slotTable[id], no slotTable[id]==slot re-validation on the path): a stale slot — already freed or re-used by another id — enters the free list and is handed out twice", w.witness(wit)...)
					}
				case "nextPhysSlot":
					// increment store: value = load(nextPhysSlot) + c
					bo, ok := st.Val.(*ssa.BinOp)
					if !ok || bo.Op != token.ADD {
						continue
					}
					if _, ok := loadOfArenaField(bo.X, "nextPhysSlot"); !ok {
						continue
					}
					_ = bo
				}
			}
		}
		// pop: an element of the free list handed to an id (slot-table store) or out of the function
		isShrink := func(in ssa.Instruction) bool {
			st, ok := in.(*ssa.Store)
			if !ok {
				return false
			}
			f, ok := arenaField(st.Addr)
			if !ok || f != "freeSlots" {
				return false
			}
			if c, ok := st.Val.(*ssa.Call); ok {
				if _, isApp := isBuiltinCall(c, "append"); isApp {
					return false // growing is not removing
				}
			}
			return true
		}
		handed := map[*ssa.UnOp]ssa.Instruction{}
		for _, b := range fn.Blocks {
			for _, in := range b.Instrs {
				if st, _, ok := slotTableElemStore(in); ok {
					for _, src := range phiLeaves(st.Val) {
						if ld, ok := elemOfFreeList(src); ok {
							handed[ld] = in
						}
					}
				}
				if rt, ok := in.(*ssa.Return); ok {
					for i := range rt.Results {
						for _, ld := range freeListContent(retVal(rt, i), map[ssa.Value]bool{}) {
							handed[ld] = in
						}
					}
				}
			}
		}
		var hl []*ssa.UnOp
		for ld := range handed {
			hl = append(hl, ld)
		}
		sort.Slice(hl, func(i, j int) bool { return hl[i].Pos() < hl[j].Pos() })
		for _, ld := range hl {
			pops++
			nPop++
			found, wit := (pathQuery{fn: fn, target: isReturn, avoid: isShrink}).find(posOf(ld))
			r.Cond(!found, "GRD-slot", fmt.Sprintf("pop:%s#%d", fnName(fn), nPop), w.Pos(handed[ld].Pos()), "the free list is shortened / replaced before the function returns", fnName(fn)+" hands out a slot read from the free list but can return without removing it from the list: the next allocation hands the same slot to another id and two live vectors share storage", w.witness(wit)...)
		}
		// bump: a fresh slot taken from nextPhysSlot
		isInc := func(in ssa.Instruction) bool {
			st, ok := in.(*ssa.Store)
			if !ok {
				return false
			}
			f, ok := arenaField(st.Addr)
			if !ok || f != "nextPhysSlot" {
				return false
			}
			bo, ok := st.Val.(*ssa.BinOp)
			if !ok || bo.Op != token.ADD {
				return false
			}
			if _, ok := loadOfArenaField(bo.X, "nextPhysSlot"); !ok {
				return false
			}
			c, ok := constInt(bo.Y)
			return ok && c >= 1
		}
		for _, b := range fn.Blocks {
			for _, in := range b.Instrs {
				v, ok := in.(*ssa.UnOp)
				if !ok {
					continue
				}
				if _, ok := loadOfArenaField(v, "nextPhysSlot"); !ok {
					continue
				}
				// handed out = the value (through phis) is written into a slice/array element: a slot-table
				// entry, an element of the slice being returned, or the operand array of an append
				handedOut := false
				seen := map[ssa.Value]bool{}
				var walk func(x ssa.Value)
				walk = func(x ssa.Value) {
					if seen[x] || x.Referrers() == nil {
						return
					}
					seen[x] = true
					for _, ref := range *x.Referrers() {
						switch y := ref.(type) {
						case *ssa.Phi:
							walk(y)
						case *ssa.Store:
							if _, ok := y.Addr.(*ssa.IndexAddr); ok && y.Val == x {
								handedOut = true
							}
						}
					}
				}
				walk(v)
				if !handedOut {
					continue
				}
				bumps++
				nBump++
				again := func(x ssa.Instruction) bool { return isReturn(x) || x == in }
				found, wit := (pathQuery{fn: fn, target: again, avoid: isInc}).find(posOf(in))
				r.Cond(!found, "GRD-slot", fmt.Sprintf("bump:%s#%d", fnName(fn), nBump), w.Pos(in.Pos()), "every use of nextPhysSlot as a fresh slot is followed by its increment", fnName(fn)+" takes nextPhysSlot as a fresh physical slot but can return (or take the next one) without incrementing it: the same fresh slot is handed out twice", w.witness(wit)...)
			}
		}
	}
	r.Count("free_list_pushes", pushes)
	r.Count("free_list_handouts", pops)
	r.Count("fresh_slot_handouts", bumps)
	if pushes < 2 || pops < 2 || bumps < 2 {
		r.Und("GRD-slot", "anchor:allocator-sites", "", fmt.Sprintf("expected ≥2 push, ≥2 pop and ≥2 bump sites (AllocSlot, FreeSlot, findFreeSlotsLocked, moveBatch); found %d/%d/%d", pushes, pops, bumps))
	}
	ruleGRDreloc(w, r)
}

func phiLeaves(v ssa.Value) []ssa.Value {
	var out []ssa.Value
	seen := map[ssa.Value]bool{}
	var rec func(ssa.Value)
	rec = func(x ssa.Value) {
		if seen[x] {
			return
		}
		seen[x] = true
		if p, ok := x.(*ssa.Phi); ok {
			for _, e := range p.Edges {
				rec(e)
			}
			return
		}
		out = append(out, x)
	}
	rec(v)
	return out
}

// freeListContent: loads of arena.freeSlots whose *content* (shared or copied) is in v.
func freeListContent(v ssa.Value, seen map[ssa.Value]bool) []*ssa.UnOp {
	if v == nil || seen[v] {
		return nil
	}
	seen[v] = true
	var out []*ssa.UnOp
	for ld, f := range isDerived(v) {
		if f == "freeSlots" {
			out = append(out, ld)
		}
	}
	switch x := v.(type) {
	case *ssa.Phi:
		for _, e := range x.Edges {
			out = append(out, freeListContent(e, seen)...)
		}
	case *ssa.Call:
		if c, ok := isBuiltinCall(x, "append"); ok {
			for _, a := range c.Call.Args {
				out = append(out, freeListContent(a, seen)...)
			}
		}
	case *ssa.Slice:
		out = append(out, freeListContent(x.X, seen)...)
	}
	return out
}

func ruleGRDreloc(w *World, r *Report) {
	fi := w.Func(mmapPkg, "AsyncCompactor.moveBatch")
	if fi == nil {
		r.Und("GRD-slot", "anchor:AsyncCompactor.moveBatch", "", "anchor lost")
		return
	}
	fn := w.SSAFunc(fi.Obj)
	var stores []*ssa.Store
	for _, in := range findInstrs(fn, func(in ssa.Instruction) bool { _, _, ok := slotTableElemStore(in); return ok }) {
		stores = append(stores, in.(*ssa.Store))
	}
	if len(stores) == 0 {
		r.Und("GRD-slot", "anchor:moveBatch:slot-table-store", w.Pos(fi.Decl.Pos()), "moveBatch no longer rewrites a slot-table entry")
		return
	}
	for i, st := range stores {
		_, idx, _ := slotTableElemStore(st)
		ss := ssa.Instruction(st)
		isS := func(in ssa.Instruction) bool { return in == ss }
		// (a) behind the re-validation slotTable[idx] == <something read from the batch entry>
		isGuard := func(in ssa.Instruction) bool {
			bo, ok := in.(*ssa.BinOp)
			if !ok || (bo.Op != token.NEQ && bo.Op != token.EQL) {
				return false
			}
			for _, side := range []ssa.Value{bo.X, bo.Y} {
				ld, ok := side.(*ssa.UnOp)
				if !ok || ld.Op != token.MUL {
					continue
				}
				ia, ok := ld.X.(*ssa.IndexAddr)
				if !ok {
					continue
				}
				if _, ok := loadOfArenaField(ia.X, "slotTable"); ok && sameAddr(ia.Index, idx, 0) {
					return true
				}
			}
			return false
		}
		gs := findInstrs(fn, isGuard)
		okG := false
		var wit []ssa.Instruction
		if len(gs) > 0 {
			want := gs[0].(*ssa.BinOp).Op == token.EQL
			okG, wit = mustPassGuard(fn, isS, isGuard, func(in ssa.Instruction) ssa.Value { return in.(*ssa.BinOp) }, want, nil)
		}
		r.Cond(okG, "GRD-slot", fmt.Sprintf("reloc:moveBatch#%d:revalidate", i+1), w.Pos(st.Pos()), "slotTable[id] is switched only on the slotTable[id]==fromSlot edge", "moveBatch switches slotTable[id] to the relocation target without re-validating that the id still lives in the slot its bytes were read from: an id deleted or re-inserted since the batch was read is resurrected with stale bytes, or its fresh vector is overwritten", w.witness(wit)...)
		// (b) bytes copied first (in this iteration)
		isCopy := func(in ssa.Instruction) bool { _, ok := isBuiltinCall(in, "copy"); return ok }
		okC := false
		for _, c := range findInstrs(fn, isCopy) {
			if c.Block() == st.Block() && after(st, c) {
				okC = true
			}
		}
		if !okC {
			f1, w1 := (pathQuery{fn: fn, target: isS, avoid: isCopy}).find(entryPos(fn))
			f2, w2 := (pathQuery{fn: fn, target: isS, avoid: isCopy}).find(posOf(st))
			okC = !f1 && !f2
			wit = w1
			if !f1 {
				wit = w2
			}
		}
		r.Cond(okC, "GRD-slot", fmt.Sprintf("reloc:moveBatch#%d:copy-first", i+1), w.Pos(st.Pos()), "the vector bytes are copied to the target before the slot table points at it", "moveBatch points slotTable[id] at the target slot on a path where the vector bytes were not copied there: the id reads back whatever the target slot held (another vector's old bytes or zeros)", w.witness(wit)...)
		// (c) node pointer updated afterwards unless no updater is installed
		isUpd := func(in ssa.Instruction) bool {
			c, ok := in.(*ssa.Call)
			return ok && c.Call.IsInvoke() && c.Call.Method.Name() == "UpdateNodePointer"
		}
		blocked := map[edgeKey]bool{}
		for _, b := range fn.Blocks {
			for _, in := range b.Instrs {
				bo, ok := in.(*ssa.BinOp)
				if !ok || (bo.Op != token.NEQ && bo.Op != token.EQL) || !(isNilConst(bo.X) || isNilConst(bo.Y)) {
					continue
				}
				other := bo.X
				if isNilConst(other) {
					other = bo.Y
				}
				if !strings.HasSuffix(other.Type().String(), "NodePointerUpdater") {
					continue
				}
				t, f := condEdges(bo)
				nilEdges := f
				if bo.Op == token.EQL {
					nilEdges = t
				}
				for _, e := range nilEdges {
					blocked[e] = true
				}
			}
		}
		next := func(in ssa.Instruction) bool { return isReturn(in) || in == ss }
		found, wt := (pathQuery{fn: fn, target: next, avoid: isUpd, blocked: blocked}).find(posOf(st))
		r.Cond(!found, "GRD-slot", fmt.Sprintf("reloc:moveBatch#%d:update-pointer", i+1), w.Pos(st.Pos()), "with an updater installed, UpdateNodePointer follows every slot-table switch", "moveBatch switches slotTable[id] but can go on without calling UpdateNodePointer: the index node keeps pointing at the old slot, which is then pushed onto the free list and re-used — the node reads another vector's bytes", w.witness(wt)...)
	}
}

// ---------- GRD-own-vec: mmap-backed vector bytes do not outlive the lock they were read under ----------

func isVecAccessor(c *ssa.Call) bool {
	g := c.Call.StaticCallee()
	if g == nil {
		return false
	}
	switch fnName(g) {
	case "pkg/core/hnsw.(*Node).GetVectorF32", "pkg/core/hnsw.(*Node).GetVectorF16", "pkg/core/hnsw.(*Node).GetVectorI8":
		return true
	}
	return false
}

// aliasesArena: v shares memory with a node's stored vector (the accessor's result, re-sliced or merged by phis).
func aliasesArena(v ssa.Value, seen map[ssa.Value]bool) bool {
	if v == nil || seen[v] {
		return false
	}
	seen[v] = true
	switch x := v.(type) {
	case *ssa.Call:
		if isVecAccessor(x) {
			return true
		}
		if c, ok := isBuiltinCall(x, "append"); ok && len(c.Call.Args) > 0 {
			return aliasesArena(c.Call.Args[0], seen)
		}
	case *ssa.Slice:
		return aliasesArena(x.X, seen)
	case *ssa.Phi:
		for _, e := range x.Edges {
			if aliasesArena(e, seen) {
				return true
			}
		}
	case *ssa.ChangeType:
		return aliasesArena(x.X, seen)
	case *ssa.MakeInterface:
		return aliasesArena(x.X, seen)
	case *ssa.UnOp:
		if al, ok := x.X.(*ssa.Alloc); ok && x.Op == token.MUL {
			for _, ref := range *al.Referrers() {
				if st, ok := ref.(*ssa.Store); ok && st.Addr == al && aliasesArena(st.Val, seen) {
					return true
				}
			}
		}
	}
	return false
}

func ruleGRDownvec(w *World, r *Report) {
	r.Doc("GRD-own-vec", "no function of the index hands a slice that aliases a node's mmap-backed vector to its caller (returned, or stored in a returned struct): what leaves the lock is a copy. A zero-copy slice read after the lock was released shows another vector's bytes once the slot is reused or relocated, and faults once the arena is unmapped", 3)
	n := 0
	for _, fn := range w.pkgSSAFuncs(hnswPkg) {
		if fn.Parent() != nil {
			continue
		}
		uses := false
		for _, b := range fn.Blocks {
			for _, in := range b.Instrs {
				if c, ok := in.(*ssa.Call); ok && isVecAccessor(c) {
					uses = true
				}
			}
		}
		if !uses {
			continue
		}
		if recv := fn.Signature.Recv(); recv != nil && strings.HasSuffix(recv.Type().String(), "hnsw.Node") {
			continue // the accessors themselves
		}
		n++
		var bad ssa.Instruction
		how := ""
		for _, b := range fn.Blocks {
			for _, in := range b.Instrs {
				switch x := in.(type) {
				case *ssa.Return:
					for i := range x.Results {
						if aliasesArena(retVal(x, i), map[ssa.Value]bool{}) {
							bad, how = in, "returned"
						}
					}
				case *ssa.Store:
					fa, ok := x.Addr.(*ssa.FieldAddr)
					if !ok || !aliasesArena(x.Val, map[ssa.Value]bool{}) {
						continue
					}
					owner, f := structFieldName(fa.X.Type(), fa.Field)
					if owner == "hnsw.vecData" || owner == "hnsw.Node" {
						continue // re-wiring a node to its own bytes
					}
					bad, how = in, "stored in "+owner+"."+f
				}
			}
		}
		pos := w.Pos(fn.Pos())
		if bad != nil {
			pos = w.Pos(bad.Pos())
		}
		r.Cond(bad == nil, "GRD-own-vec", "no-escape:"+fnName(fn), pos, "reads stored vectors without handing the mapped bytes out", fnName(fn)+": a slice that aliases a node's mmap-backed vector is "+how+" and leaves the function (and its lock): the caller reads it unprotected — after a delete+vacuum+insert the slot holds another vector's bytes, after a relocation stale bytes, and after Close/Compress/VDeleteIndex the read faults (SIGSEGV)")
	}
	r.Count("functions_reading_stored_vectors", n)
	if n < 3 {
		r.Und("GRD-own-vec", "anchor:vector-readers", "", fmt.Sprintf("only %d functions read stored vectors through the Node accessors", n))
	}
}

// ---------- GRD-closed: no read of stored vectors after Close ----------

func ruleGRDclosed(w *World, r *Report, lr *lckResult) {
	r.Doc("GRD-closed", "every exported method of the index (and of its optimizer) that reads stored vectors tests the closed flag — while holding activeMu or metaMu, the locks Close needs before it unmaps — on every path before its first read (here or in the callee that reads): after Close the arena is unmapped, the nodes still point into it, and the index object stays reachable through the DB map", 5)
	fns := w.pkgSSAFuncs(hnswPkg)
	// functions that (transitively, static calls and closures) reach a vector accessor
	reads := map[*ssa.Function]bool{}
	direct := func(fn *ssa.Function) bool {
		for _, b := range fn.Blocks {
			for _, in := range b.Instrs {
				if c, ok := in.(*ssa.Call); ok && isVecAccessor(c) {
					return true
				}
			}
		}
		return false
	}
	for _, fn := range fns {
		if direct(fn) {
			reads[fn] = true
		}
	}
	for changed := true; changed; {
		changed = false
		for _, fn := range fns {
			if reads[fn] {
				continue
			}
			for _, b := range fn.Blocks {
				for _, in := range b.Instrs {
					if cc := callCommon(in); cc != nil {
						if g := cc.StaticCallee(); g != nil && reads[g] {
							reads[fn] = true
							changed = true
						}
					}
					if mc, ok := in.(*ssa.MakeClosure); ok {
						if g, ok := mc.Fn.(*ssa.Function); ok && reads[g] {
							reads[fn] = true
							changed = true
						}
					}
				}
			}
		}
	}
	// a closed test counts only when it is made under a lock that Close needs before it unmaps (activeMu or metaMu):
	// a test made before the lock is taken can be overtaken by a complete Close
	isClosedTest := func(in ssa.Instruction) bool {
		if !isIndexClosedTest(in) {
			return false
		}
		st, ok := lr.mustAt[in]
		return ok && guardSatisfied(st, "hnsw.Index.activeMu")
	}
	// unsafe[fn]: some path from fn's entry reaches a read of stored vectors (direct, or through a callee/closure that
	// is itself unsafe) without a closed test. Least fixpoint, growing from the direct readers.
	unsafe := map[*ssa.Function]bool{}
	unprotected := func(fn *ssa.Function) (bool, []ssa.Instruction) {
		isRead := func(in ssa.Instruction) bool {
			if c, ok := in.(*ssa.Call); ok && isVecAccessor(c) {
				return true
			}
			if cc := callCommon(in); cc != nil {
				if g := cc.StaticCallee(); g != nil && unsafe[g] {
					return true
				}
			}
			if mc, ok := in.(*ssa.MakeClosure); ok {
				if g, ok := mc.Fn.(*ssa.Function); ok && unsafe[g] {
					return true
				}
			}
			return false
		}
		return (pathQuery{fn: fn, target: isRead, avoid: isClosedTest}).find(entryPos(fn))
	}
	for changed := true; changed; {
		changed = false
		for _, fn := range fns {
			if unsafe[fn] || !reads[fn] {
				continue
			}
			if recv := fn.Signature.Recv(); recv != nil && strings.HasSuffix(recv.Type().String(), "hnsw.Node") {
				continue
			}
			if bad, _ := unprotected(fn); bad {
				unsafe[fn] = true
				changed = true
			}
		}
	}
	n := 0
	for _, fn := range fns {
		if fn.Parent() != nil || !reads[fn] {
			continue
		}
		o, ok := fn.Object().(*types.Func)
		if !ok || !o.Exported() {
			continue
		}
		recv := fn.Signature.Recv()
		if recv == nil || !(strings.HasSuffix(recv.Type().String(), "hnsw.Index") || strings.HasSuffix(recv.Type().String(), "hnsw.GraphOptimizer")) {
			continue
		}
		n++
		if why, ok := grdClosedExceptions[shortFn(fn)]; ok {
			r.Ok("GRD-closed", "closed-test:"+shortFn(fn), w.Pos(fn.Pos()), "exception: "+why)
			r.Except(shortFn(fn) + ": " + why)
			continue
		}
		_, wit := unprotected(fn)
		r.Cond(!unsafe[fn], "GRD-closed", "closed-test:"+shortFn(fn), w.Pos(fn.Pos()), "the closed flag is tested (here or in the callee that reads) before the first read of stored vectors", shortFn(fn)+" reads stored vectors on a path that never tests the closed flag: called after Close (the index stays in the DB map; background work such as an async compile or a late request still holds the engine) it dereferences the unmapped arena and the process dies with SIGSEGV", w.witness(wit)...)
	}
	r.Count("exported_vector_readers", n)
	if n < 5 {
		r.Und("GRD-closed", "anchor:exported-vector-readers", "", fmt.Sprintf("only %d exported methods read stored vectors", n))
	}
}

var grdClosedExceptions = map[string]string{
	"Index.LoadSnapshotData": "runs on an index that is being constructed by LoadFromSnapshot and is not published yet: nothing can have closed it",
	"Index.Close":            "Close is the operation that sets the flag",
	"Index.AddOld":           "legacy insertion path kept for reference; no caller in the module (its replacement Add/addActive holds activeMu and tests the flag)",
}

// ---------- GRD-trained: nothing is quantized for storage by an untrained quantizer ----------

// ruleGRDtrained: an untrained quantizer maps every vector to zeros. In every function that trains the quantizer at
// all (the insertion paths), each Quantize is reached only after a training attempt (ensureQuantizerTrained / Train)
// or over the "already trained" edge of an IsTrained test — never over a shortcut that skips the attempt for some
// other reason (a counter, a flag, "only the first insert can find it untrained": a first all-zero vector leaves it
// untrained).
func ruleGRDtrained(w *World, r *Report) {
	r.Doc("GRD-trained", "in every insertion path that can train the int8 quantizer, each Quantize call is reached only after a training attempt or over the is-trained edge of an IsTrained test", 2)
	ensure := w.FuncObj(hnswPkg, "Index.ensureQuantizerTrained")
	train := w.FuncObj("pkg/core/distance", "Quantizer.Train")
	isTr := w.FuncObj("pkg/core/distance", "Quantizer.IsTrained")
	quant := w.FuncObj("pkg/core/distance", "Quantizer.Quantize")
	if ensure == nil || train == nil || isTr == nil || quant == nil {
		r.Und("GRD-trained", "anchor:quantizer-api", "", "anchor lost: ensureQuantizerTrained / Quantizer.Train / IsTrained / Quantize")
		return
	}
	attempts := callsTo(ensure, train)
	n := 0
	for _, fn := range w.pkgSSAFuncs(hnswPkg) {
		if fn.Parent() != nil {
			continue
		}
		if o, ok := fn.Object().(*types.Func); ok && o == ensure {
			continue
		}
		if len(findInstrs(fn, attempts)) == 0 {
			continue
		}
		// edges on which the quantizer is known to be trained, or known to be absent (nothing to quantize with)
		blocked := map[edgeKey]bool{}
		for _, in := range findInstrs(fn, callsTo(isTr)) {
			t, _ := condEdges(in.(*ssa.Call))
			for _, e := range t {
				blocked[e] = true
			}
		}
		// ... or the index is not an int8 index at all (the closure that quantizes does so under the same test)
		for e := range notInt8Edges(w, fn) {
			blocked[e] = true
		}
		for _, b := range fn.Blocks {
			for _, in := range b.Instrs {
				bo, ok := in.(*ssa.BinOp)
				if !ok || (bo.Op != token.EQL && bo.Op != token.NEQ) || !(isNilConst(bo.X) || isNilConst(bo.Y)) {
					continue
				}
				other := bo.X
				if isNilConst(other) {
					other = bo.Y
				}
				if !strings.HasSuffix(other.Type().String(), "distance.Quantizer") {
					continue
				}
				t, f := condEdges(bo)
				nilEdges := t
				if bo.Op == token.NEQ {
					nilEdges = f
				}
				for _, e := range nilEdges {
					blocked[e] = true
				}
			}
		}
		k := 0
		for _, f := range append([]*ssa.Function{fn}, closuresOf(fn)...) {
			for _, q := range findInstrs(f, callsTo(quant)) {
				n++
				k++
				// where the quantization happens in terms of fn: the call itself, or the creation of the closure that holds it
				var site ssa.Instruction = q
				if f != fn {
					outer := f
					for outer.Parent() != nil && outer.Parent() != fn {
						outer = outer.Parent()
					}
					site = nil
					for _, in := range findInstrs(fn, func(in ssa.Instruction) bool { mc, ok := in.(*ssa.MakeClosure); return ok && mc.Fn == outer }) {
						site = in
					}
					if site == nil {
						r.Und("GRD-trained", fmt.Sprintf("%s:quantize#%d:after-training-attempt", shortFn(fn), k), w.Pos(q.Pos()), "a nested function quantizes; its creation site was not found")
						continue
					}
				}
				ss := site
				found, wit := pathQuery{fn: fn, target: func(in ssa.Instruction) bool { return in == ss }, avoid: attempts, blocked: blocked}.find(entryPos(fn))
				r.Cond(!found, "GRD-trained", fmt.Sprintf("%s:quantize#%d:after-training-attempt", shortFn(fn), k), w.Pos(q.Pos()), "reached only after a training attempt or over the is-trained edge", shortFn(fn)+" can quantize a vector for storage on a path that skipped the training attempt for a reason other than 'already trained': while the quantizer is untrained (for example after a first all-zero vector) every vector stored over that path becomes all zeros", w.witness(wit)...)
			}
		}
	}
	if n == 0 {
		r.Und("GRD-trained", "anchor:quantize-sites", "", "no Quantize call found in a function that trains the quantizer")
	}
}

// notInt8Edges: the edges of fn taken when a precision value was compared with distance.Int8 and differed.
func notInt8Edges(w *World, fn *ssa.Function) map[edgeKey]bool {
	out := map[edgeKey]bool{}
	p := w.Pkg("pkg/core/distance")
	if p == nil {
		return out
	}
	cv, ok := p.Types.Scope().Lookup("Int8").(*types.Const)
	if !ok {
		return out
	}
	for _, b := range fn.Blocks {
		for _, in := range b.Instrs {
			bo, ok := in.(*ssa.BinOp)
			if !ok || (bo.Op != token.EQL && bo.Op != token.NEQ) {
				continue
			}
			var c *ssa.Const
			if x, ok := bo.X.(*ssa.Const); ok {
				c = x
			} else if y, ok := bo.Y.(*ssa.Const); ok {
				c = y
			}
			if c == nil || c.Value == nil || !types.Identical(c.Type(), cv.Type()) || c.Value.ExactString() != cv.Val().ExactString() {
				continue
			}
			t, f := condEdges(bo)
			other := f
			if bo.Op == token.NEQ {
				other = t
			}
			for _, e := range other {
				out[e] = true
			}
		}
	}
	return out
}

// ruleGRDtrainfull: a precision change to int8 trains the quantizer on the whole data set before the first vector is
// re-inserted. (The batch path auto-trains an untrained quantizer on what it is given, and the rebuilt index is empty,
// so its small-graph path inserts one vector at a time: without the explicit pass the scale is learnt from the first
// vector alone and every larger component of every other vector is clipped.)
func ruleGRDtrainfull(w *World, r *Report) {
	r.Doc("GRD-trainfull", "DB.Compress, on the int8 path, calls Index.TrainQuantizer before the first AddBatch into the rebuilt index", 1)
	fi := w.Func("pkg/core", "DB.Compress")
	tq := w.FuncObj(hnswPkg, "Index.TrainQuantizer")
	ab := w.FuncObj(hnswPkg, "Index.AddBatch")
	if fi == nil || tq == nil || ab == nil {
		r.Und("GRD-trainfull", "anchor:DB.Compress/TrainQuantizer/AddBatch", "", "anchor lost")
		return
	}
	fn := w.SSAFunc(fi.Obj)
	adds := findInstrs(fn, callsTo(ab))
	if len(adds) == 0 {
		r.Und("GRD-trainfull", "DB.Compress:re-insertion", w.Pos(fi.Decl.Pos()), "DB.Compress no longer re-inserts through Index.AddBatch (shape not recognised)")
		return
	}
	found, wit := pathQuery{fn: fn, target: callsTo(ab), avoid: callsTo(tq), blocked: notInt8Edges(w, fn)}.find(entryPos(fn))
	r.Cond(!found, "GRD-trainfull", "DB.Compress:int8:trained-on-all-vectors-before-re-insertion", w.Pos(adds[0].Pos()), "on the int8 path TrainQuantizer precedes the first AddBatch", "DB.Compress can re-insert vectors into the int8 index without having trained the quantizer on the whole data set first: the batch path then trains on the first vector alone, and every component larger than that vector's maximum is clipped in every other vector", w.witness(wit)...)
}

// ---------- GRD-own-arg: insertion never rewrites the caller's vector ----------

// ruleGRDownarg: normalisation works in place. Every call of normalize in an insertion or search path must be given
// a slice that was allocated in the same function (make, or append to a nil slice) — never a parameter, or an element
// or field of one: the caller may hand the same data to another index (a euclidean one would then store unit vectors).
func ruleGRDownarg(w *World, r *Report) {
	r.Doc("GRD-own-arg", "every call of the in-place normalize in pkg/core/hnsw (functions that are reachable from non-test code) is given a slice allocated in the same function, never the caller's own slice", 3)
	norm := w.FuncObj(hnswPkg, "normalize")
	if norm == nil {
		r.Und("GRD-own-arg", "anchor:normalize", "", "anchor lost")
		return
	}
	g := w.CallGraph()
	live := func(fn *ssa.Function) bool {
		root := fn
		for root.Parent() != nil {
			root = root.Parent()
		}
		n := g.Nodes[root]
		if n == nil {
			return true
		}
		for _, e := range n.In {
			if e.Caller != nil && e.Caller.Func != nil && inModule(e.Caller.Func) && !isTestFile(w.Fset, e.Caller.Func.Pos()) && e.Caller.Func != root {
				return true
			}
		}
		return false
	}
	n := 0
	for _, fn := range w.pkgSSAFuncs(hnswPkg) {
		if !live(fn) {
			continue
		}
		k := 0
		for _, in := range findInstrs(fn, callsTo(norm)) {
			n++
			k++
			arg := in.(*ssa.Call).Call.Args[0]
			fresh, why := true, ""
			for _, leaf := range valueRoots(arg) {
				switch x := leaf.(type) {
				case *ssa.MakeSlice:
				case *ssa.Call:
					if c, ok := isBuiltinCall(x, "append"); ok && len(c.Call.Args) > 0 && isNilConst(c.Call.Args[0]) {
						continue
					}
					fresh, why = false, "the result of a call"
				case *ssa.Slice:
					// a re-slice of something fresh is fresh
					ok := true
					for _, l2 := range valueRoots(x.X) {
						if _, isMk := l2.(*ssa.MakeSlice); !isMk {
							if _, isAl := l2.(*ssa.Alloc); !isAl {
								ok = false
							}
						}
					}
					if !ok {
						fresh, why = false, "a re-slice of shared data"
					}
				case *ssa.Parameter:
					fresh, why = false, "the parameter "+x.Name()
				default:
					fresh, why = false, fmt.Sprintf("shared data (%T)", leaf)
				}
			}
			r.Cond(fresh, "GRD-own-arg", fmt.Sprintf("%s:normalize#%d:on-own-copy", shortFn(fn), k), w.Pos(in.Pos()), "normalises a slice allocated in this function", shortFn(fn)+" normalises "+why+" in place: the slice belongs to the caller, whose data is silently rewritten to unit length — the same records added to another index afterwards are stored as unit vectors")
		}
	}
	if n == 0 {
		r.Und("GRD-own-arg", "anchor:normalize-calls", "", "no call of normalize found in reachable functions of pkg/core/hnsw")
	}
}
