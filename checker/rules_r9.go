package main

import (
	"fmt"
	"go/constant"
	"go/token"
	"go/types"
	"sort"
	"strings"

	"golang.org/x/tools/go/ssa"
)

// ---------------------------------------------------------------------------------------------------------------
// SIB-peerparam: which of the two ids an edge-list scan compares with.
// AddEdge and RemoveEdge take the two ends of an edge as two string parameters. The forward list hangs off the source
// node and its entries name the TARGET; the reverse list hangs off the target node and its entries name the SOURCE. A
// scan copied from one half to the other with the wrong one of the two ids still type-checks (both are strings), never
// matches except on a self-loop, and silently turns "apply once" into "apply again" for one view only.
// ---------------------------------------------------------------------------------------------------------------
func peerParamOf(top, f *ssa.Function, v ssa.Value, w *World) (string, bool) {
	p := capturedParam(v)
	if p == nil {
		return "", false
	}
	if b, ok := p.Type().Underlying().(*types.Basic); !ok || b.Info()&types.IsString == 0 {
		return "", false
	}
	owner := p.Parent()
	root := owner
	for root.Parent() != nil {
		root = root.Parent()
	}
	if root == top {
		if owner == top {
			return p.Name(), true
		}
		return "", false // a parameter of a function literal: fed per call, not one of the two ends
	}
	// a helper extracted from top: the parameter stands for whatever top passes at every call site
	idx := -1
	for i, hp := range owner.Params {
		if hp == p {
			idx = i
		}
	}
	if idx < 0 || owner != root {
		return "", false
	}
	names := map[string]bool{}
	for _, cs := range callSitesOf(top, owner) {
		if idx >= len(cs.Call.Args) {
			return "", false
		}
		ap := capturedParam(cs.Call.Args[idx])
		if ap == nil || ap.Parent() != top {
			return "", false
		}
		names[ap.Name()] = true
	}
	if len(names) != 1 {
		return "", false // the helper serves both halves (or is fed something else): no single end to name
	}
	for n := range names {
		return n, true
	}
	return "", false
}

func ruleSIBpeerparam(w *World, r *Report) {
	r.Doc("SIB-peerparam", "in DB.AddEdge and DB.RemoveEdge (their closures and the helpers extracted from them) every comparison of an entry's TargetID with one of the function's string parameters names the same parameter, every comparison of an entry's SourceID names the same parameter, and the two are different parameters: the forward list is searched for the target and the reverse list for the source — a scan of one view that looks for the other view's id never matches (except on a self-loop), so the 'already applied' test of a replayed unlink fails for that view only and the active reverse edge is ended while the forward one stands", 4)
	for _, name := range []string{"DB.AddEdge", "DB.RemoveEdge"} {
		fi := w.Func("pkg/core", name)
		if fi == nil {
			r.Und("SIB-peerparam", "anchor:"+name, "", "anchor lost")
			continue
		}
		top := w.SSAFunc(fi.Obj)
		seen := map[string]map[string]token.Pos{"TargetID": {}, "SourceID": {}}
		for _, f := range append(append([]*ssa.Function{top}, closuresOf(top)...), w.extractedHelpers(top)...) {
			for _, b := range f.Blocks {
				for _, in := range b.Instrs {
					bo, ok := in.(*ssa.BinOp)
					if !ok || (bo.Op != token.EQL && bo.Op != token.NEQ) {
						continue
					}
					l, rr := bo.X, bo.Y
					fld, isF := recordField(l)
					if !isF {
						fld, isF = recordField(rr)
						l, rr = rr, l
					}
					if !isF || seen[fld] == nil {
						continue
					}
					if pn, ok := peerParamOf(top, f, rr, w); ok {
						if _, dup := seen[fld][pn]; !dup {
							seen[fld][pn] = bo.Pos()
						}
					}
				}
			}
		}
		list := func(m map[string]token.Pos) (string, token.Pos) {
			var ks []string
			var pos token.Pos
			for k, p := range m {
				ks = append(ks, k)
				if pos == token.NoPos || p > pos {
					pos = p
				}
			}
			sort.Strings(ks)
			return strings.Join(ks, ","), pos
		}
		for _, fld := range []string{"TargetID", "SourceID"} {
			ks, pos := list(seen[fld])
			if len(seen[fld]) == 0 {
				r.Und("SIB-peerparam", name+":"+fld+":compared-with-one-parameter", w.Pos(fi.Decl.Pos()), name+" no longer compares an entry's "+fld+" with one of its parameters (shape not recognised)")
				continue
			}
			r.Cond(len(seen[fld]) == 1, "SIB-peerparam", name+":"+fld+":compared-with-one-parameter", w.Pos(pos), "every scan compares "+fld+" with parameter "+ks, fmt.Sprintf("%s compares an entry's %s with more than one of its parameters (%s): one of the scans looks for the wrong end of the edge — it never matches except on a self-loop, so that view alone treats an already-applied operation as new (a replayed unlink ends the re-linked edge in one view only; VGetIncoming and VGetConnections disagree from then on)", name, fld, ks))
		}
		if len(seen["TargetID"]) == 1 && len(seen["SourceID"]) == 1 {
			a, _ := list(seen["TargetID"])
			b, pos := list(seen["SourceID"])
			r.Cond(a != b, "SIB-peerparam", name+":the-two-views-look-for-different-ends", w.Pos(pos), "TargetID is compared with "+a+", SourceID with "+b, name+" compares both TargetID and SourceID with the same parameter "+a+": one view is searched for its own node, not for its peer")
		}
	}
}

// ---------------------------------------------------------------------------------------------------------------
// GRD-quotetrim: the quotes of a filter literal are stripped AFTER the blanks around it, not together with them.
// `name = ' x '` asks for the value " x ": the blanks inside the quotes belong to the value. One strings.Trim whose
// cutset holds blanks and quotes strips through the quotes and goes on stripping inside them.
// ---------------------------------------------------------------------------------------------------------------
func ruleGRDquotetrim(w *World, r *Report) {
	r.Doc("GRD-quotetrim", "no strings.Trim/TrimLeft/TrimRight in pkg/core has a constant cutset that mixes quote characters with white space: the filter evaluator trims the blanks around a literal and then the quotes, in two steps — one call with both in its cutset keeps stripping inside the quotes, so `name=' x '` selects the ids of \"x\"", 1)
	n := 0
	per := map[string]int{}
	for _, f := range w.pkgSSAFuncs("pkg/core") {
		for _, b := range f.Blocks {
			for _, in := range b.Instrs {
				c, ok := in.(*ssa.Call)
				if !ok {
					continue
				}
				o := calleeObj(&c.Call)
				if o == nil || o.Pkg() == nil || o.Pkg().Path() != "strings" || len(c.Call.Args) != 2 {
					continue
				}
				switch o.Name() {
				case "Trim", "TrimLeft", "TrimRight":
				default:
					continue
				}
				k, ok := c.Call.Args[1].(*ssa.Const)
				if !ok || k.Value == nil || k.Value.Kind() != constant.String {
					continue
				}
				cut := constant.StringVal(k.Value)
				if !strings.ContainsAny(cut, "'\"`") {
					continue
				}
				n++
				per[fnName(f)]++
				mixed := strings.ContainsAny(cut, " \t\n\r\v\f")
				r.Cond(!mixed, "GRD-quotetrim", fmt.Sprintf("%s:trim#%d:quotes-only", fnName(f), per[fnName(f)]), w.Pos(c.Pos()), "the cutset holds quote characters only", fmt.Sprintf("%s strips quotes and white space with one cutset (%q): the call does not stop at the quote, it goes on removing the blanks INSIDE the quoted literal, so a filter for the value ' x ' selects the ids holding \"x\" and misses those holding \" x \"", fnName(f), cut))
			}
		}
	}
	if n == 0 {
		r.Und("GRD-quotetrim", "sites", "", "no call in pkg/core strips the quotes of a literal with strings.Trim any more (shape not recognised)")
	}
}

// ---------------------------------------------------------------------------------------------------------------
// GRD-efboost: the widened beam is the one that searches.
// While a fast import awaits its refinement (needsRefine) the graph is sparse, and searchInternal widens the beam to
// make up for it. The width it computed must be the one the base-layer search receives; the caller's raw ef_search is
// only an input of that computation.
// ---------------------------------------------------------------------------------------------------------------
func ruleGRDefboost(w *World, r *Report) {
	r.Doc("GRD-efboost", "searchInternal (with the phase functions extracted from it) consults needsRefine to widen the beam, and the beam width handed to the base-layer search (searchLayerUnlocked at level 0) — traced through the parameters of those phase functions — is a value computed by the search, never the caller's raw efSearch parameter: between a fast import and its refinement the graph is only sparsely linked, and a search with the caller's small ef misses most of it", 1)
	fi := w.Func(hnswPkg, "Index.searchInternal")
	sl := w.FuncObj(hnswPkg, "Index.searchLayerUnlocked")
	if fi == nil || sl == nil {
		r.Und("GRD-efboost", "anchor:searchInternal/searchLayerUnlocked", "", "anchor lost")
		return
	}
	top := w.SSAFunc(fi.Obj)
	fns := append([]*ssa.Function{top}, w.extractedHelpers(top)...)
	consults := false
	for _, f := range fns {
		for _, in := range findInstrs(f, func(in ssa.Instruction) bool {
			c, ok := in.(*ssa.Call)
			if !ok {
				return false
			}
			o := calleeObj(&c.Call)
			return o != nil && o.Pkg() != nil && o.Pkg().Path() == "sync/atomic" && shortName(o) == "Bool.Load" && recvIsField(c, "needsRefine")
		}) {
			_ = in
			consults = true
		}
	}
	if !consults {
		r.Und("GRD-efboost", "searchInternal:consults-needsRefine", w.Pos(fi.Decl.Pos()), "searchInternal no longer reads needsRefine (shape not recognised)")
		return
	}
	// the values an argument may be, through phis and through the parameters of the phase functions
	var origins func(f *ssa.Function, v ssa.Value, depth int) []ssa.Value
	origins = func(f *ssa.Function, v ssa.Value, depth int) []ssa.Value {
		var out []ssa.Value
		for _, l := range phiLeaves(v) {
			p := capturedParam(l)
			if p == nil || p.Parent() == top || depth > 3 {
				out = append(out, l)
				continue
			}
			idx := -1
			for i, hp := range p.Parent().Params {
				if hp == p {
					idx = i
				}
			}
			var sites []*ssa.Call
			for _, g := range fns {
				if g != p.Parent() {
					sites = append(sites, callSitesOf(g, p.Parent())...)
				}
			}
			if idx < 0 || len(sites) == 0 {
				out = append(out, l)
				continue
			}
			for _, cs := range sites {
				if idx < len(cs.Call.Args) {
					out = append(out, origins(cs.Parent(), cs.Call.Args[idx], depth+1)...)
				}
			}
		}
		return out
	}
	n := 0
	for _, f := range fns {
		for _, in := range findInstrs(f, callsTo(sl)) {
			c := in.(*ssa.Call)
			if len(c.Call.Args) < 7 {
				continue
			}
			if lv, ok := constInt(c.Call.Args[4]); !ok || lv != 0 {
				continue
			}
			n++
			raw := true // nothing but the caller's parameter (the widened beam is a merge of the parameter and a computed value)
			for _, o := range origins(f, c.Call.Args[6], 0) {
				if p := capturedParam(o); p == nil || p.Parent() != top {
					raw = false
				}
			}
			r.Cond(!raw, "GRD-efboost", fmt.Sprintf("searchInternal:base-layer-search#%d:searches-with-the-computed-width", n), w.Pos(c.Pos()), "the ef of the base-layer search is computed by searchInternal", "the base-layer search is handed the caller's raw efSearch although searchInternal has computed a wider beam for an index that awaits refinement (needsRefine): right after a fast import most vectors are only sparsely linked, and a query with the default ef no longer finds even the vector it was built from")
		}
	}
	if n == 0 {
		r.Und("GRD-efboost", "searchInternal:base-layer-search", w.Pos(fi.Decl.Pos()), "cannot find the base-layer search (searchLayerUnlocked with level 0)")
	}
}

// ---------------------------------------------------------------------------------------------------------------
// GRD-viewdelete: pruning one view's map never deletes from the sibling view's map.
// A node carries two maps of the same shape, one per view (relation → outgoing edges, relation → incoming edges). The
// vacuum ranges over each and drops the relations that became empty. A delete that takes its key from the range over one
// of them and removes it from the OTHER (a copied block with one name left unchanged) destroys live edges of one view
// and leaves the other view pointing at them.
// ---------------------------------------------------------------------------------------------------------------
func ruleGRDviewdelete(w *World, r *Report) {
	r.Doc("GRD-viewdelete", "in pkg/core a delete(m, k) whose key k is the range key of a loop over a map-typed field M of some record, and whose map m is a map-typed field of that same record, deletes from M itself: emptying a relation of the incoming view never removes the relation from the outgoing view (or the reverse) — that would drop live edges from one view only, and the two views would disagree from then on", 2)
	fieldOf := func(v ssa.Value) (ssa.Value, int, bool) { // load of base.f
		ld, ok := v.(*ssa.UnOp)
		if !ok || ld.Op != token.MUL {
			return nil, 0, false
		}
		fa, ok := ld.X.(*ssa.FieldAddr)
		if !ok {
			return nil, 0, false
		}
		return fa.X, fa.Field, true
	}
	n := 0
	per := map[string]int{}
	for _, f := range w.pkgSSAFuncs("pkg/core") {
		for _, b := range f.Blocks {
			for _, in := range b.Instrs {
				c, ok := isBuiltinCall(in, "delete")
				if !ok || len(c.Call.Args) != 2 {
					continue
				}
				mb, mf, ok := fieldOf(c.Call.Args[0])
				if !ok {
					continue
				}
				// the key: the range key of a loop over a map field
				var ranged ssa.Value
				for _, l := range phiLeaves(c.Call.Args[1]) {
					if ex, ok := l.(*ssa.Extract); ok && ex.Index == 1 {
						if nx, ok := ex.Tuple.(*ssa.Next); ok {
							if rg, ok := nx.Iter.(*ssa.Range); ok {
								if _, isMap := rg.X.Type().Underlying().(*types.Map); isMap {
									ranged = rg.X
								}
							}
						}
					}
				}
				if ranged == nil {
					continue
				}
				rb, rf, ok := fieldOf(ranged)
				if !ok || !(rb == mb || sameVal(rb, mb)) {
					continue
				}
				n++
				per[fnName(f)]++
				_, fm := structFieldName(mb.Type(), mf)
				_, fr := structFieldName(rb.Type(), rf)
				r.Cond(mf == rf, "GRD-viewdelete", fmt.Sprintf("%s:delete#%d:from-the-map-it-ranges-over", shortFn(f), per[fnName(f)]), w.Pos(c.Pos()), "the key of the range over "+fr+" is deleted from "+fr, fmt.Sprintf("%s ranges over %s and deletes the key from %s of the same record: the relation that became empty in one view is removed from the other view, with all its live edges — the forward and reverse views of the edge store disagree (an edge still listed as incoming at its target is gone from its source), and the emptied relation itself stays behind", shortFn(f), fr, fm))
			}
		}
	}
	if n == 0 {
		r.Und("GRD-viewdelete", "sites", "", "no loop in pkg/core prunes a map field of a record by its range key any more (shape not recognised)")
	}
}

// ---------------------------------------------------------------------------------------------------------------
// GRD-shortread: a decoder never trusts a single Read to fill its buffer.
// Read may return fewer bytes than asked for without an error (bufio.Reader.Read returns what is left of its 4096-byte
// window). A decoder that allocates a buffer of the announced length, calls Read once and ignores the count goes on with
// a buffer whose tail is zero and a stream position in the middle of the argument.
// ---------------------------------------------------------------------------------------------------------------
func ruleGRDshortread(w *World, r *Report) {
	r.Doc("GRD-shortread", "in the log and snapshot decoders (pkg/persistence, pkg/engine, pkg/core) a buffer of an announced length is filled with io.ReadFull; a direct call of a Read([]byte) (int, error) method is accepted only where the byte count it returns is used: a short read (bufio hands out what is left of its window) is otherwise taken for a full one, and every logged command whose argument crosses the buffer boundary is rejected or comes back with a zeroed tail on replay", 3)
	n := 0
	per := map[string]int{}
	for _, rel := range []string{"pkg/persistence", "pkg/engine", "pkg/core"} {
		for _, f := range w.pkgSSAFuncs(rel) {
			for _, b := range f.Blocks {
				for _, in := range b.Instrs {
					c, ok := in.(*ssa.Call)
					if !ok {
						continue
					}
					if isCallTo(c, "io", "ReadFull") || isCallTo(c, "io", "ReadAtLeast") {
						n++
						per[fnName(f)]++
						r.Ok("GRD-shortread", fmt.Sprintf("%s:read#%d:fills-the-buffer", shortFn(f), per[fnName(f)]), w.Pos(c.Pos()), "io.ReadFull")
						continue
					}
					var sig *types.Signature
					name := ""
					if c.Call.IsInvoke() {
						name, sig = c.Call.Method.Name(), c.Call.Method.Type().(*types.Signature)
					} else if o := calleeObj(&c.Call); o != nil {
						name, sig = o.Name(), o.Type().(*types.Signature)
						if sig.Recv() == nil {
							continue
						}
					}
					if name != "Read" || sig == nil || sig.Params().Len() != 1 || sig.Results().Len() != 2 || !isIntType(sig.Results().At(0).Type()) || !isErrorType(sig.Results().At(1).Type()) {
						continue
					}
					if sl, ok := sig.Params().At(0).Type().Underlying().(*types.Slice); !ok || basicKind(sl.Elem()) != types.Uint8 {
						continue
					}
					n++
					per[fnName(f)]++
					used := false
					for _, ref := range *c.Referrers() {
						if ex, ok := ref.(*ssa.Extract); ok && ex.Index == 0 && ex.Referrers() != nil && len(*ex.Referrers()) > 0 {
							used = true
						}
					}
					r.Cond(used, "GRD-shortread", fmt.Sprintf("%s:read#%d:fills-the-buffer", shortFn(f), per[fnName(f)]), w.Pos(c.Pos()), "the count returned by Read is used", shortFn(f)+" fills a buffer with a single Read and ignores the byte count: a short read — bufio.Reader.Read returns what is left of its 4096-byte window — leaves the tail of the buffer zero and the stream in the middle of the argument; any logged command with an argument above ~4 KiB (a vector of 1024 dimensions, a large value or metadata) is dropped or garbled when the log is replayed")
				}
			}
		}
	}
	if n == 0 {
		r.Und("GRD-shortread", "sites", "", "no decoder read found (shape not recognised)")
	}
}

// ---------------------------------------------------------------------------------------------------------------
// GRD-dropgraph: an index takes its relations with it.
// Graph nodes live beside the indexes, keyed "<index>::<id>". Dropping an index removes vectors, id maps and metadata;
// unless the nodes of its namespace go too, an index created again under the same name inherits its predecessor's edges.
// ---------------------------------------------------------------------------------------------------------------
func ruleGRDdropgraph(w *World, r *Report) {
	r.Doc("GRD-dropgraph", "every function of pkg/engine that drops an index (calls DB.DeleteVectorIndex) also removes the graph nodes of that index (DB.RemoveGraphNodesWithPrefix, fed with buildGraphID of the same name): the live operation on every path from a successful drop to a success return, the replay of a VDROP record also when the index is not in the DB at that moment (it was created earlier in the same log, and its GLINK records were replayed in front of the drop)", 2)
	drop := w.FuncObj("pkg/core", "DB.DeleteVectorIndex")
	purge := w.FuncObj("pkg/core", "DB.RemoveGraphNodesWithPrefix")
	getIdx := w.FuncObj("pkg/core", "DB.GetVectorIndex")
	if drop == nil {
		r.Und("GRD-dropgraph", "anchor:DB.DeleteVectorIndex", "", "anchor lost")
		return
	}
	n := 0
	for _, fi := range w.ModuleFuncs() {
		if relPkg(fi.Obj) != "pkg/engine" {
			continue
		}
		fn := w.SSAFunc(fi.Obj)
		if fn == nil {
			continue
		}
		name := shortName(fi.Obj)
		for _, f := range append([]*ssa.Function{fn}, closuresOf(fn)...) {
			for i, d := range findInstrs(f, callsTo(drop)) {
				n++
				dc := d.(*ssa.Call)
				key := fmt.Sprintf("%s:drop#%d:removes-the-graph-nodes-of-the-index", name, i+1)
				if purge == nil {
					r.Bad("GRD-dropgraph", key, w.Pos(dc.Pos()), name+" drops an index but pkg/core has no way to remove the graph nodes of an index any more: the relations of a dropped index stay behind and an index created again under the same name inherits them")
					continue
				}
				isPurge := func(in ssa.Instruction) bool {
					c, ok := in.(*ssa.Call)
					if !ok || calleeObj(&c.Call) != purge {
						return false
					}
					// the prefix is built from the name that is dropped
					for _, rt := range append(valueRoots(c.Call.Args[1]), c.Call.Args[1]) {
						if bc, ok := rt.(*ssa.Call); ok && isModCall(bc, "pkg/engine", "buildGraphID") && len(bc.Call.Args) > 0 && sameOrigin(bc.Call.Args[0], dc.Call.Args[1]) {
							return true
						}
					}
					return false
				}
				if w.isReplayOrRestore(fi.Obj) {
					// reachable also when the DB does not hold the index: with the "found" edges of the look-ups blocked
					blocked := map[edgeKey]bool{}
					for _, g := range findInstrs(f, callsTo(getIdx)) {
						if okv := extractOfValue(g.(*ssa.Call), 1); okv != nil {
							t, _ := condEdges(okv)
							for _, e := range t {
								blocked[e] = true
							}
						}
					}
					found, _ := (pathQuery{fn: f, target: isPurge, blocked: blocked}).find(entryPos(f))
					r.Cond(found, "GRD-dropgraph", key, w.Pos(dc.Pos()), "the namespace is purged for every replayed drop, whether or not the snapshot restored the index", name+" drops a restored index but does not remove the graph nodes of the dropped name on the path where the DB does not hold the index: the GLINK records replayed in front of the VDROP have already put the edges back, and an index created again under that name inherits them after the restart")
					continue
				}
				nres := f.Signature.Results().Len()
				okRet := func(in ssa.Instruction) bool {
					rt, ok := in.(*ssa.Return)
					return ok && (nres == 0 || !isErrorType(f.Signature.Results().At(nres-1).Type()) || !definitelyError(retVal(rt, nres-1)))
				}
				before, _ := precedesWithSuccess(f, isPurge, func(in ssa.Instruction) bool { return in == d })
				found, wit := (pathQuery{fn: f, target: okRet, avoid: isPurge, blocked: failureEdges(f, dc)}).find(posOf(d))
				r.Cond(before || !found, "GRD-dropgraph", key, w.Pos(dc.Pos()), "every success return after the drop has removed the graph nodes of the index", name+" can report a successful drop without having removed the graph nodes of the index (keyed <index>::<id>): an index created again under the same name inherits the relations of its predecessor — an id added to it has edges to ids that do not exist, graph-scoped search and the delete cascade act on them", w.witness(wit)...)
			}
		}
	}
	if n == 0 {
		r.Und("GRD-dropgraph", "sites", "", "no function of pkg/engine drops an index any more (shape not recognised)")
	}
}

// ---------------------------------------------------------------------------------------------------------------
// GRD-electtop: the node elected as the new entry point is one of the highest level.
// The index's top level is stored next to the entry point. Electing the first live node and storing ITS level (almost
// always 0) makes the index forget its upper layers: they are still linked, but never entered again.
// ---------------------------------------------------------------------------------------------------------------
func ruleGRDelecttop(w *World, r *Report) {
	r.Doc("GRD-electtop", "in GraphOptimizer.Vacuum (its function literals and the helpers extracted from it) a store of a node's level into the index's maxLevel that sits in a scan over the nodes does not end the scan (the loop head is reachable from it), and the scan compares a level taken from len(node.Connections) with a value it carries from round to round: the new entry point is a live node of the highest level, so the upper layers stay in use after the old entry point is vacuumed away", 1)
	fi := w.Func(hnswPkg, "GraphOptimizer.Vacuum")
	if fi == nil {
		r.Und("GRD-electtop", "anchor:GraphOptimizer.Vacuum", "", "anchor lost")
		return
	}
	top := w.SSAFunc(fi.Obj)
	n := 0
	for _, f := range append(append([]*ssa.Function{top}, closuresOf(top)...), w.extractedHelpers(top)...) {
		for _, in := range findInstrs(f, func(in ssa.Instruction) bool {
			c, ok := in.(*ssa.Call)
			if !ok {
				return false
			}
			o := calleeObj(&c.Call)
			if o == nil || o.Pkg() == nil || o.Pkg().Path() != "sync/atomic" || shortName(o) != "Int32.Store" || !recvIsField(c, "maxLevel") {
				return false
			}
			_, isConst := c.Call.Args[len(c.Call.Args)-1].(*ssa.Const)
			return !isConst
		}) {
			h := innermostLoop(f, in.Block())
			leaves := false
			if h == nil {
				// a store on the way OUT of a scan (`…Store(level); found = true; break`): its block is entered from the
				// body of a loop whose head dominates it
				for _, hb := range f.Blocks {
					isHead := false
					for _, p := range hb.Preds {
						if hb.Dominates(p) {
							isHead = true
						}
					}
					if !isHead || !hb.Dominates(in.Block()) {
						continue
					}
					body := naturalLoop(hb)
					for _, p := range in.Block().Preds {
						if body[p] && !body[in.Block()] {
							h, leaves = hb, true
						}
					}
				}
			}
			if h == nil {
				continue // a level stored outside any scan (an election that collected its winner first) — nothing to end
			}
			n++
			body := naturalLoop(h)
			goesOn := false
			if !leaves {
				goesOn, _ = (pathQuery{fn: f, target: func(x ssa.Instruction) bool { return x == h.Instrs[0] }, avoid: func(x ssa.Instruction) bool { return !body[x.Block()] }}).find(posOf(in))
			}
			compares := false
			for b := range body {
				for _, x := range b.Instrs {
					bo, ok := x.(*ssa.BinOp)
					if !ok {
						continue
					}
					switch bo.Op {
					case token.GTR, token.GEQ, token.LSS, token.LEQ:
					default:
						continue
					}
					isLevel := func(v ssa.Value) bool {
						for _, l := range arithLeaves(v, 0) {
							if lc, ok := l.(*ssa.Call); ok {
								if _, isLen := isBuiltinCall(lc, "len"); isLen && len(lc.Call.Args) == 1 {
									if fl, ok := recordField(lc.Call.Args[0]); ok && fl == "Connections" {
										return true
									}
								}
							}
						}
						return false
					}
					carried := func(v ssa.Value) bool {
						for _, l := range append(valueRoots(v), v) {
							if ph, ok := l.(*ssa.Phi); ok && body[ph.Block()] {
								return true
							}
							if ld, ok := l.(*ssa.UnOp); ok && ld.Op == token.MUL {
								if _, isCell := cellRoot(ld.X).(*ssa.Alloc); isCell {
									return true
								}
							}
						}
						return false
					}
					if (isLevel(bo.X) && carried(bo.Y)) || (isLevel(bo.Y) && carried(bo.X)) {
						compares = true
					}
				}
			}
			r.Cond(goesOn && compares, "GRD-electtop", fmt.Sprintf("%s:level-store#%d:keeps-scanning-for-a-higher-level", fnKey(f), n), w.Pos(in.Pos()), "the scan goes on after a candidate and compares levels", "Vacuum elects the first live node it meets as the new entry point and stores that node's own level as the top level of the index (the scan ends there, or never compares levels): the first live node is almost always a level-0 node, so after a vacuum that removed the entry point the upper layers are never entered again — on clustered data recall@10 falls from ~0.95 to ~0.5 although only one vector was removed")
		}
	}
	if n == 0 {
		r.Ok("GRD-electtop", "Vacuum:level-store:keeps-scanning-for-a-higher-level", w.Pos(fi.Decl.Pos()), "no level is stored from inside a scan")
	}
}

// ---------------------------------------------------------------------------------------------------------------
// WEB-encode: the status line is committed only for a payload that has been encoded.
// encoding/json refuses NaN and ±Inf. An encoder that writes to the ResponseWriter AFTER WriteHeader cannot report that:
// the client gets the promised status and content type with an empty body.
// ---------------------------------------------------------------------------------------------------------------
func ruleWEBencode(w *World, r *Report) {
	r.Doc("WEB-encode", "Server.writeHTTPResponse — the one function through which the handlers answer — calls WriteHeader only after json.Marshal of the payload has returned, tests Marshal's error, and never streams an encoder into the ResponseWriter: a payload that cannot be encoded (a NaN or ±Inf score) becomes an error answer instead of '200 OK' with an empty body", 2)
	fi := w.Func("internal/server", "Server.writeHTTPResponse")
	if fi == nil {
		r.Und("WEB-encode", "anchor:Server.writeHTTPResponse", "", "anchor lost")
		return
	}
	fn := w.SSAFunc(fi.Obj)
	isMarshal := func(in ssa.Instruction) bool {
		return isCallTo(in, "encoding/json", "Marshal") || isCallTo(in, "encoding/json", "MarshalIndent")
	}
	isHeader := func(in ssa.Instruction) bool {
		c, ok := in.(*ssa.Call)
		return ok && c.Call.IsInvoke() && c.Call.Method.Name() == "WriteHeader"
	}
	hs := findInstrs(fn, isHeader)
	if len(hs) == 0 {
		r.Und("WEB-encode", "writeHTTPResponse:status", w.Pos(fi.Decl.Pos()), "writeHTTPResponse no longer writes a status line (shape not recognised)")
		return
	}
	for i, h := range hs {
		hh := h
		found, wit := (pathQuery{fn: fn, target: func(in ssa.Instruction) bool { return in == hh }, avoid: isMarshal}).find(entryPos(fn))
		tested := false
		for _, m := range findInstrs(fn, isMarshal) {
			if len(failureEdges(fn, m.(*ssa.Call))) > 0 {
				tested = true
			}
		}
		r.Cond(!found && tested, "WEB-encode", fmt.Sprintf("writeHTTPResponse:status#%d:after-the-payload-is-encoded", i+1), w.Pos(h.Pos()), "the payload is encoded, and the encoder's error tested, before the status is committed", "writeHTTPResponse commits the status line before the payload has been encoded (or never looks at the encoder's error): encoding/json refuses NaN and ±Inf and then writes nothing, so a well-formed request whose answer holds such a number — a float16 component above 65504, a '_created_at' in the future, a centroid that overflows float32 — is answered '200 OK, application/json' with an empty body", w.witness(wit)...)
	}
	streams := 0
	for _, in := range findInstrs(fn, func(in ssa.Instruction) bool { return isCallTo(in, "encoding/json", "NewEncoder") }) {
		c := in.(*ssa.Call)
		for _, rt := range append(valueRoots(c.Call.Args[0]), c.Call.Args[0]) {
			if mi, ok := rt.(*ssa.MakeInterface); ok {
				rt = mi.X
			}
			if ci, ok := rt.(*ssa.ChangeInterface); ok {
				rt = ci.X
			}
			if p, ok := rt.(*ssa.Parameter); ok && strings.HasSuffix(p.Type().String(), "http.ResponseWriter") {
				streams++
			}
		}
	}
	r.Cond(streams == 0, "WEB-encode", "writeHTTPResponse:no-encoder-on-the-response-writer", w.Pos(fi.Decl.Pos()), "the payload is not streamed into the ResponseWriter", "writeHTTPResponse encodes straight into the ResponseWriter: an encoding error surfaces after the status line is out")
}

// ---------------------------------------------------------------------------------------------------------------
// GRD-eagerframe: the frame reader does not allocate what a length field promises before the bytes are there.
// Recovery tries every 0xA5 byte of a damaged region as a frame header. A quarter of all garbage length fields is below
// the 1 GiB cap; allocating (and zeroing) each before the read fails makes the cost of one flipped bit proportional to
// the damaged frame's size times half a gigabyte.
// ---------------------------------------------------------------------------------------------------------------
func ruleGRDeagerframe(w *World, r *Report) {
	r.Doc("GRD-eagerframe", "in persistence.ReadFrame and the helpers extracted from it every make([]byte, n) whose size comes from the frame header lies behind a comparison of that size with a constant of at most 1 MiB (larger payloads are read into a buffer that grows with the bytes that arrive): a candidate header inside a damaged region costs at most that constant, so the allocations of a recovery are bounded by the size of the file, not by what garbage length fields promise", 1)
	fi := w.Func("pkg/persistence", "ReadFrame")
	if fi == nil {
		r.Und("GRD-eagerframe", "anchor:ReadFrame", "", "anchor lost")
		return
	}
	top := w.SSAFunc(fi.Obj)
	n := 0
	for _, f := range append(append([]*ssa.Function{top}, closuresOf(top)...), w.extractedHelpers(top)...) {
		for _, b := range f.Blocks {
			for _, in := range b.Instrs {
				ms, ok := in.(*ssa.MakeSlice)
				if !ok {
					continue
				}
				if _, isConst := stripConv(ms.Len).(*ssa.Const); isConst {
					continue // the header buffer
				}
				n++
				// a dominating comparison of the size (or of what it was converted from) with a small constant
				small := false
				cands := []ssa.Value{ms.Len, stripConv(ms.Len)}
				for _, cv := range cands {
					if cv.Referrers() == nil {
						continue
					}
					for _, ref := range *cv.Referrers() {
						bo, ok := ref.(*ssa.BinOp)
						if !ok {
							continue
						}
						var k int64
						var okK, onTrue bool
						if c, isC := constInt(bo.Y); isC && bo.X == cv {
							k, okK = c, true
							onTrue = bo.Op == token.LEQ || bo.Op == token.LSS
							if bo.Op != token.LEQ && bo.Op != token.LSS && bo.Op != token.GTR && bo.Op != token.GEQ {
								okK = false
							}
						}
						if !okK || k > 1<<20 {
							continue
						}
						iff, isIf := firstIf(bo)
						if !isIf {
							continue
						}
						succ := iff.Block().Succs[1]
						if onTrue {
							succ = iff.Block().Succs[0]
						}
						if len(succ.Preds) == 1 && (succ == ms.Block() || succ.Dominates(ms.Block())) {
							small = true
						}
					}
				}
				r.Cond(small, "GRD-eagerframe", fmt.Sprintf("%s:make#%d:small-or-grown", shortFn(f), n), w.Pos(ms.Pos()), "the eager allocation is bounded by a constant of at most 1 MiB", shortFn(f)+" allocates the payload buffer from the frame's length field before the bytes have been read, bounded only by the payload maximum: the forward scan of a damaged region tries every 0xA5 byte as a header, so one flipped bit in a 256 KiB record costs about a thousand allocations of half a gigabyte each — tens of seconds and gigabytes of heap at the next start, an OOM kill on a small machine")
			}
		}
	}
	if n == 0 {
		r.Ok("GRD-eagerframe", "ReadFrame:make:small-or-grown", w.Pos(fi.Decl.Pos()), "no buffer is sized by the length field ahead of the read")
	}
}
