package main

// rules_idmap2.go — GRD-idmap on SSA (replaces the typed-AST version, which compared expression text and needed one
// particular nesting of if statements).

import (
	"fmt"
	"go/token"
	"go/types"
	"strings"

	"golang.org/x/tools/go/ssa"
)

// mapFieldOf: v is (a load of) the map stored in field `field` of some struct; returns the field name.
func mapFieldOf(v ssa.Value) string {
	for _, leaf := range valueRoots(v) {
		ld, ok := leaf.(*ssa.UnOp)
		if !ok || ld.Op != token.MUL {
			continue
		}
		if fa, ok := ld.X.(*ssa.FieldAddr); ok {
			if _, isMap := ld.Type().Underlying().(*types.Map); isMap {
				_, f := structFieldName(fa.X.Type(), fa.Field)
				return f
			}
		}
	}
	return ""
}

// nodeOfField: v reads a field of a *hnsw.Node; returns the node value.
func nodeOfField(v ssa.Value) ssa.Value {
	for _, leaf := range valueRoots(v) {
		switch x := leaf.(type) {
		case *ssa.UnOp:
			if x.Op == token.MUL {
				if fa, ok := x.X.(*ssa.FieldAddr); ok && strings.HasSuffix(fa.X.Type().String(), "hnsw.Node") {
					return fa.X
				}
			}
		case *ssa.Field:
			if strings.HasSuffix(x.X.Type().String(), "hnsw.Node") {
				return x.X
			}
		}
	}
	return nil
}

// iterated: v comes out of a range loop (map iteration or indexed element), i.e. it is one of many.
func iterated(v ssa.Value) bool {
	for _, leaf := range valueRoots(v) {
		switch x := leaf.(type) {
		case *ssa.Extract:
			if _, ok := x.Tuple.(*ssa.Next); ok {
				return true
			}
		case *ssa.UnOp:
			if x.Op == token.MUL {
				if ia, ok := x.X.(*ssa.IndexAddr); ok && isIncrementing(ia.Index) {
					return true
				}
			}
		}
	}
	return false
}

func sameVal(a, b ssa.Value) bool {
	if a == b || sameValue(a, b) {
		return true
	}
	if structEq(a, b, 0) {
		return true
	}
	for _, x := range valueRoots(a) {
		for _, y := range valueRoots(b) {
			if x == y || sameValue(x, y) {
				return true
			}
		}
	}
	return false
}

func ruleGRDidmap(w *World, r *Report) {
	r.Doc("GRD-idmap", "the external↔internal id maps stay inverse on live nodes: a forward store externalToInternalID[k]=v is paired with the reverse store internalToExternalID[v]=k; a forward entry found through the reverse map is deleted only on the edge where it still points at that internal id; a node taken from an iteration is registered only on its not-Deleted edge (SSA value identity and guard paths, no expression text)", 4)
	n := 0
	for _, fn := range w.pkgSSAFuncs("pkg/core/hnsw") {
		if fn.Parent() != nil {
			continue
		}
		name := shortFn(fn)
		var fwd, rev []*ssa.MapUpdate
		for _, f := range append([]*ssa.Function{fn}, closuresOf(fn)...) {
			for _, b := range f.Blocks {
				for _, in := range b.Instrs {
					if mu, ok := in.(*ssa.MapUpdate); ok {
						switch mapFieldOf(mu.Map) {
						case "externalToInternalID":
							fwd = append(fwd, mu)
						case "internalToExternalID":
							rev = append(rev, mu)
						}
					}
				}
			}
		}
		isDeletedLoadOf := func(node ssa.Value) func(ssa.Instruction) bool {
			return func(in ssa.Instruction) bool {
				c, ok := in.(*ssa.Call)
				if !ok {
					return false
				}
				o := calleeObj(&c.Call)
				if o == nil || o.Pkg() == nil || o.Pkg().Path() != "sync/atomic" || shortName(o) != "Bool.Load" || !recvIsField(c, "Deleted") {
					return false
				}
				if node == nil {
					return true
				}
				if fa, ok := c.Call.Args[0].(*ssa.FieldAddr); ok {
					return sameVal(fa.X, node)
				}
				return false
			}
		}
		for i, fs := range fwd {
			n++
			paired := false
			for _, rs := range rev {
				if sameVal(rs.Key, fs.Value) && sameVal(rs.Value, fs.Key) {
					paired = true
				}
			}
			r.Cond(paired, "GRD-idmap", fmt.Sprintf("%s:forward-store#%d:paired", name, i+1), w.Pos(fs.Pos()), "externalToInternalID[k]=v is paired with internalToExternalID[v]=k",
				name+" registers an external id without the matching reverse entry: GetExternalID/search translation and vacuum lose track of the node")
			// a node that is one of many (taken from an iteration) is registered only on its not-Deleted edge
			node := nodeOfField(fs.Key)
			if node == nil {
				node = nodeOfField(fs.Value)
			}
			if node != nil && iterated(node) {
				f := fs.Parent()
				ff := ssa.Instruction(fs)
				ok, wit := mustPassGuard(f, func(in ssa.Instruction) bool { return in == ff }, isDeletedLoadOf(node), callValue, false, nil)
				if len(findInstrs(f, isDeletedLoadOf(node))) == 0 {
					ok = false
				}
				r.Cond(ok, "GRD-idmap", fmt.Sprintf("%s:forward-store#%d:not-deleted", name, i+1), w.Pos(fs.Pos()), "the store is reached only on the not-Deleted edge of that node",
					name+" registers every node it iterates over in the external id map, soft-deleted ones included: a deleted id 'already exists' again (cannot be re-added), and for a deleted-then-re-added id the tombstone competes with the live node (with map iteration order deciding which wins)", w.witness(wit)...)
			}
		}
		// delete(externalToInternalID, ext) where ext was found through the reverse map
		k := 0
		for _, f := range append([]*ssa.Function{fn}, closuresOf(fn)...) {
			for _, b := range f.Blocks {
				for _, in := range b.Instrs {
					c, ok := isBuiltinCall(in, "delete")
					if !ok || len(c.Call.Args) != 2 || mapFieldOf(c.Call.Args[0]) != "externalToInternalID" {
						continue
					}
					// key from a look-up in the reverse map?
					var revLk *ssa.Lookup
					for _, leaf := range valueRoots(c.Call.Args[1]) {
						v := leaf
						if ex, ok := v.(*ssa.Extract); ok {
							v = ex.Tuple
						}
						if lk, ok := v.(*ssa.Lookup); ok && mapFieldOf(lk.X) == "internalToExternalID" {
							revLk = lk
						}
					}
					if revLk == nil {
						continue
					}
					n++
					k++
					// guard: cur == id where cur is externalToInternalID[ext]
					isStill := func(x ssa.Instruction) bool {
						bo, ok := x.(*ssa.BinOp)
						if !ok || (bo.Op != token.EQL && bo.Op != token.NEQ) {
							return false
						}
						fromFwd := func(v ssa.Value) bool {
							for _, leaf := range valueRoots(v) {
								t := leaf
								if ex, ok := t.(*ssa.Extract); ok {
									t = ex.Tuple
								}
								if lk, ok := t.(*ssa.Lookup); ok && mapFieldOf(lk.X) == "externalToInternalID" && sameVal(lk.Index, c.Call.Args[1]) {
									return true
								}
							}
							return false
						}
						return (fromFwd(bo.X) && sameVal(bo.Y, revLk.Index)) || (fromFwd(bo.Y) && sameVal(bo.X, revLk.Index))
					}
					cc := ssa.Instruction(c)
					tgt := func(x ssa.Instruction) bool { return x == cc }
					eqOnly := func(x ssa.Instruction) bool { return isStill(x) && x.(*ssa.BinOp).Op == token.EQL }
					neOnly := func(x ssa.Instruction) bool { return isStill(x) && x.(*ssa.BinOp).Op == token.NEQ }
					gv := func(x ssa.Instruction) ssa.Value { return x.(*ssa.BinOp) }
					ok1, wit := mustPassGuard(f, tgt, eqOnly, gv, true, nil)
					if len(findInstrs(f, eqOnly)) == 0 {
						ok1 = false
					}
					if !ok1 && len(findInstrs(f, neOnly)) > 0 {
						ok1, wit = mustPassGuard(f, tgt, neOnly, gv, false, nil)
					}
					r.Cond(ok1, "GRD-idmap", fmt.Sprintf("%s:reverse-keyed-delete#%d:still-points-here", name, k), w.Pos(c.Pos()), "the forward entry is deleted only on the edge where it still maps to this internal id",
						name+" deletes externalToInternalID[ext] for a dead internal id without checking that the entry still points at it: after delete → re-add of the same id the mapping of the LIVE node is removed and it can no longer be read, updated or deleted by id", w.witness(wit)...)
				}
			}
		}
	}
	if n == 0 {
		r.Und("GRD-idmap", "anchor:id-map-writes", "", "no writes to the id maps found in pkg/core/hnsw")
	}
}

// structEq: a and b are separate instructions that compute the same thing (go/ssa does no common-subexpression
// elimination: `node.Id` written twice is two loads): the same field of the same base, the same conversion of the
// same operand.
func structEq(a, b ssa.Value, depth int) bool {
	if a == b {
		return true
	}
	if depth > 4 {
		return false
	}
	switch x := a.(type) {
	case *ssa.UnOp:
		y, ok := b.(*ssa.UnOp)
		if !ok || x.Op != y.Op {
			return false
		}
		if x.Op == token.MUL {
			fx, ok1 := x.X.(*ssa.FieldAddr)
			fy, ok2 := y.X.(*ssa.FieldAddr)
			if ok1 && ok2 {
				return fx.Field == fy.Field && structEq(fx.X, fy.X, depth+1)
			}
			ix, ok1 := x.X.(*ssa.IndexAddr)
			iy, ok2 := y.X.(*ssa.IndexAddr)
			if ok1 && ok2 {
				return structEq(ix.X, iy.X, depth+1) && structEq(ix.Index, iy.Index, depth+1)
			}
		}
		return structEq(x.X, y.X, depth+1) && x.Op != token.MUL
	case *ssa.Field:
		y, ok := b.(*ssa.Field)
		return ok && x.Field == y.Field && structEq(x.X, y.X, depth+1)
	case *ssa.Convert:
		y, ok := b.(*ssa.Convert)
		return ok && types.Identical(x.Type(), y.Type()) && structEq(x.X, y.X, depth+1)
	case *ssa.Extract:
		y, ok := b.(*ssa.Extract)
		return ok && x.Index == y.Index && x.Tuple == y.Tuple
	}
	return false
}
