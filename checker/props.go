package main

// props.go — which rules decide which property.

func init() {
	register("C03", "log codec lossless; corruption never fabricates", func(w *World, r *Report) {
		ruleCDC123(w, r, nil)
		ruleCDC4(w, r, nil)
		ruleCDC5(w, r)
		ruleCDC6(w, r)
		ruleCDC7(w, r)
		ruleGRDcrc(w, r)
	})
}
