package main

// props.go — which rules decide which property.

import "strings"

func init() {
	register("C03", "log codec lossless; corruption never fabricates", func(w *World, r *Report) {
		ruleCDC123(w, r, nil)
		ruleCDC4(w, r, nil)
		ruleCDC5(w, r)
		ruleCDC6(w, r)
		ruleCDC7(w, r)
		ruleGRDcrc(w, r)
		ruleCDC6b(w, r)
		ruleGRDscan(w, r)
		ruleORD11(w, r)         // the offset a resync starts from never lags behind the frames already applied
		ruleCDC16(w, r)         // writer and reader agree on the frame size limit
		ruleGRDownParse(w, r)   // arguments read back byte for byte: none is a window into the reader's buffer
		ruleORD15(w, r)         // still applies every intact command after a damaged region
		ruleGRDshortread(w, r)  // a decoder fills its buffers with io.ReadFull, never with one Read
		ruleGRDeagerframe(w, r) // a garbage length field does not cost an allocation of its size
	})
}

func init() {
	register("C02", "crash at any point recovers an explained state", func(w *World, r *Report) {
		ruleORD1(w, r)
		ruleORD2(w, r)
		ruleORD3(w, r)
		ruleORD7(w, r)
		ruleORD7b(w, r)
		ruleORD1b(w, r)
		ruleCDC5(w, r)
		ruleCDC6(w, r)         // a torn first frame is repaired, not a reason to refuse start-up
		ruleORD2c(w, r)        // the older snapshot is retired only once the compacted log is in place
		ruleORD10(w, r)        // a crash inside a precision change must leave an openable directory
		ruleORD4(w, r)         // a refused compaction must not end a running snapshot's shadow mode
		ruleORD9(w, r)         // a crash right after a snapshot must not lose writes that were being applied while it was taken
		ruleORD11(w, r)        // the offset a torn tail is truncated to never lags behind the frames already applied
		ruleORD13(w, r)        // index drop: the VDROP record is in the file before the arena is destroyed
		ruleGRDasyncrm(w, r)   // no deferred deletion by path name
		ruleSIBpeerparam(w, r) // a replayed unlink is recognised as applied in BOTH views
	})
	register("C14", "no acknowledged write lost to snapshot/compaction/shutdown", func(w *World, r *Report) {
		ruleORD1(w, r)
		ruleORD2(w, r)
		ruleORD2c(w, r)
		ruleORD1b(w, r)
		ruleORD4(w, r)
		ruleORD4b(w, r)
		ruleORD9(w, r)
		ruleORD5(w, r)
		ruleORD6(w, r)
		ruleORD8(w, r)
		ruleCDC13(w, r)   // a vector acknowledged while a snapshot ran keeps its metadata across the restart
		ruleORD12(w, r)   // a write acknowledged right after a snapshot never precedes older shadow writes in the log
		ruleCDC14(w, r)   // a vector added while a snapshot runs is in the saved map and the saved nodes, or in neither
		ruleORD14(w, r)   // a write acknowledged after Close would be in no log
		ruleCDC15(w, r)   // a link acknowledged during a snapshot is applied once, not twice
		ruleTBLwire(w, r) // what a snapshot or the log holds is read back under the names it was written with
		ruleGRDwriteback(w, r)
	})
}

func init() {
	register("C05", "a rejected operation changes nothing, now or after restart", func(w *World, r *Report) {
		ruleJRN3(w, r)
		ruleSIB5(w, r) // a rejected batch must not leave part of itself behind
		ruleCDC8(w, r) // a record the live engine journaled before rejecting the request must be inert on replay
		ruleORDvalidate(w, r)
		ruleEFFcomposite(w, r)
		ruleEFFreadd(w, r)
		ruleWEB7(w, r)      // … and the same for handlers that string several engine calls together
		ruleORD4(w, r)      // a refused compaction/snapshot must not end someone else's shadow mode
		ruleEFFcreate(w, r) // duplicate index name: rejected means unchanged
		ruleJRN6(w, r)      // unsupported metric/precision: refused before the journal write
		ruleORD9(w, r)      // a rejected batch leaves the operation gate balanced: the next snapshot does not hang
	})
	register("C01", "clean restart reproduces the pre-shutdown state", func(w *World, r *Report) {
		ruleJRN12(w, r, nil)
		ruleCDC123(w, r, nil)
		ruleCDC4(w, r, nil)
		ruleCDC8(w, r)
		ruleORD2c(w, r)
		ruleORD1b(w, r) // VImport's log bypass and VCompress rely on SaveSnapshot really saving
		ruleORD1(w, r)  // a write that lands between the snapshot's capture and the truncation is in neither
		ruleORD4(w, r)  // … nor may the shadow-buffered writes be dropped
		ruleORD9(w, r)  // … nor a write that was journaled before snapshot mode and applied after the capture
		ruleCDC10(w, r) // edge weights and ids survive the journal unchanged
		ruleCDC9(w, r)  // a compaction re-emits every edge and every key-value pair
		ruleCDC11(w, r) // index configuration durations survive the journal unchanged
		ruleSIBnumtypes(w, r)
		ruleCDC12(w, r)        // the snapshot carries every node, soft-deleted ones included
		ruleCDC13(w, r)        // replay completes a node the snapshot captured without its metadata
		ruleORD12(w, r)        // clean restart: the newest acknowledged value wins, also for writes that raced the end of a snapshot
		ruleGRDasyncrm(w, r)   // drop, re-create, add under one name: the new arena is not deleted by the old drop
		ruleJRN6(w, r)         // a refused create does not mask a later valid one on replay
		ruleCDC14(w, r)        // the snapshot is a consistent cut of node slice and id map
		ruleCDC16(w, r)        // an acknowledged record is one the next start can read
		ruleGRDshardhash(w, r) // a data directory written by another build is read back whole: the node placement function is part of the snapshot format
		ruleTBLwire(w, r)      // … and so are the field names gob and json match by
		ruleCDC15c(w, r)
		ruleGRDwriteback(w, r) // a record merged into the copy of a replay entry is stored back
	})
}

func init() {
	register("C06", "search returns only live, matching, correctly scored results", func(w *World, r *Report) {
		ruleGRDadmit(w, r)
		ruleGRDcap(w, r)
		ruleGRDorder(w, r)
		ruleGRDxlate(w, r)
		ruleGRDscope(w, r)
		ruleSIBviews(w, r)          // graph-scoped search reads the reverse view: both views must agree
		ruleGRDdupcheck(w, r)       // no duplicates: one live node per external id
		ruleORDdel(w, r)            // a deleted vector takes its secondary-index entries with it (text/filter hits)
		ruleCDC8(w, r)              // … and stays deleted across a restart (tombstones reach snapshot-restored indexes)
		ruleGRDdescent(w, r)        // live vectors stay findable when the top layer holds only tombstones
		ruleCDC10(w, r)             // graph scope is built from whole node ids
		ruleGRDalias(w, r)          // a filter result that aliases the stored bitmap is narrowed in place by the search
		ruleGRDfusionNorm(w, r)     // the text maximum is taken over the in-scope documents
		ruleGRDorphan(w, r)         // a live vector that no search can reach is missing from every result
		ruleLCK10(w, r)             // search returns only live ids
		ruleGRDverbatimHybrid(w, r) // the filter of a hybrid query is evaluated as written
		ruleTBLwire(w, r)           // a tombstone written by an earlier build is still a tombstone: the names in the snapshot format stay
		ruleGRDzerocapture(w, r)    // the graph scope's depth limit reads the node being expanded
		ruleSIBpeerparam(w, r)      // graph-scoped search reads the reverse view: each view is searched for its own peer id
	})
}

func init() {
	register("C08", "metadata filters select exactly the matching live vectors", func(w *World, r *Report) {
		ruleSIB1(w, r)
		ruleTBLops(w, r)
		ruleGRDlive(w, r)
		ruleGRDalias(w, r)
		ruleGRDliveMemo(w, r) // the set a `!=` clause complements follows every add and delete
		ruleSIBsame(w, r)
		ruleSIBnumtypes(w, r)
		ruleSIBnumconv(w, r)
		ruleGRDverbatimFilter(w, r)
		ruleGRDstaleLookup(w, r)    // an inner index map read before the pruning of old entries is not written afterwards
		ruleGRDverbatimKey(w, r)    // string equality asks the inverted index for the value as written
		ruleCDC13(w, r)             // filters select the same vectors after a restart, also for adds that raced a snapshot
		ruleGRDquotetrim(w, r)      // blanks inside a quoted literal belong to the value
		ruleGRDverbatimHybrid(w, r) // quoted values reach the evaluator byte for byte
		ruleGRDreindex(w, r)        // the index entries of a value the node no longer has are removed
		ruleGRDnewid(w, r)
	})
}

func init() {
	register("C10", "edge store keeps forward and reverse views consistent and history queryable", func(w *World, r *Report) {
		ruleSIBviews(w, r)
		ruleCDC9(w, r)
		ruleCDC10(w, r)
		ruleCDC123(w, r, map[string]bool{"GLINK": true, "GUNLINK": true})
		ruleCDC4(w, r, map[string]bool{"GLINK": true, "GUNLINK": true})
		ruleGRDtime(w, r)
		ruleJRN5(w, r)          // a link request that names an inverse relation is not acknowledged from a look at the forward edge alone
		ruleCDC15(w, r)         // history survives restart: a record applied twice adds no version
		ruleGRDrevAppend(w, r)  // the two views agree at every instant
		ruleGRDshardhash(w, r)  // a snapshot written by another build shows the same edges: the node placement function is part of the format
		ruleCDC15c(w, r)        // replayed link/unlink records keep distinct identities
		ruleLCK1graph(w, r)     // an edge operation that keeps a shard locked ends every later query of that shard
		ruleSIBpeerparam(w, r)  // the forward list is searched for the target, the reverse list for the source
		ruleGRDviewdelete(w, r) // pruning one view never deletes from the other
		ruleGRDvacuumAll(w, r)  // the graph vacuum looks at every edge of every list: no list is skipped on the strength of one entry
	})
	register("C11", "graph queries compute exact bounded reachability and shortest paths", func(w *World, r *Report) {
		ruleGRDbfs(w, r, []bfsSpec{{"pkg/engine", "Engine.resolveGraphFilter", 5}, {"pkg/engine", "Engine.VExtractSubgraph", 5}, {"pkg/engine", "Engine.FindPath", 0}}, "GRD-bfs")
		ruleGRDpath(w, r)
		ruleGRDtime(w, r)
		ruleSIBviews(w, r) // the backward frontier and incoming scope read the reverse view: it must mirror the forward one
		ruleCDC10(w, r)
		ruleGRDreslice(w, r)       // the next frontier never shares its backing array with the frontier being expanded
		ruleGRDpathExhausted(w, r) // every traversal terminates: the rounds end with the frontiers
		ruleGRDrevAppend(w, r)     // as-of queries through the incoming view see the edge from its first link on
		ruleGRDzerocapture(w, r)   // traversal depth is computed from the expanded node, not from a never-assigned variable
	})
	register("C12", "deleting a node leaves no live edge to or from it", func(w *World, r *Report) {
		ruleSIB4(w, r)
		ruleSIBviews(w, r)
		ruleCDC10(w, r)         // the cascade names each neighbour by the node id it takes out of the graph id
		ruleGRDcascadeAll(w, r) // every edge of the deleted node is unlinked, whatever its other end is
		ruleLCK7emit(w, r)      // a panic in the delete's event emission would skip the cascade
		ruleCDC15c(w, r)        // a second deletion of a re-added id is repaired like the first: replay dates its repairs per record
		ruleORD9(w, r)          // the cascade runs inside the operation gate: no snapshot cuts between a delete and its unlinks
		ruleGRDdropgraph(w, r)  // a dropped index takes its graph nodes with it: a re-created index starts without relations
	})
}

func init() {
	register("C13", "concurrent use is free of races, deadlocks and lost updates", func(w *World, r *Report) {
		lr := ruleLCK(w, r)
		ruleLCK5(w, r, lr)
		ruleGRDrmw(w, r, lr)
		ruleLCK3b(w, r, lr)
		ruleLCK6(w, r)
		ruleLCK7(w, r, lr)
		ruleLCK8(w, r)
		ruleLCK8b(w, r, lr)
		ruleLCK9(w, r, lr)
		ruleGRDbitset(w, r)  // a search that runs next to inserts must not index past its visited set
		ruleGRDownmeta(w, r) // readers get copies of the stored metadata, never the live map
		ruleGRDdupcheck(w, r)
		ruleORD8b(w, r)
		ruleGRDclosed(w, r, lr)
		ruleORD6(w, r)
		ruleORD14(w, r)            // calls after Close fail cleanly: none is acknowledged into a queue nobody drains
		ruleLCK10(w, r)            // delete vs metadata merge on one node: as if one at a time
		ruleGRDpathExhausted(w, r) // every call returns in bounded time
		ruleGRDchancap(w, r)       // every call returns in bounded time
		ruleORD9(w, r)             // lost updates: a snapshot does not miss an operation that is between journal and apply
		ruleLCKcopy(w, r)          // a lock that is copied excludes nobody
		ruleGRDrmwCallers(w, r)    // a lost update one layer up: no handler pre-merges with a stale read
		ruleLCKdeferloop(w, r)     // a lock taken per iteration is released per iteration
	})
}

func init() {
	register("C04", "the live engine behaves like a simple map-of-records state machine", func(w *World, r *Report) {
		ruleGRDidalloc(w, r)
		ruleGRDidmap(w, r)
		ruleGRDlist(w, r)
		ruleSIB2(w, r)
		ruleSIB5(w, r)
		lr := w.lockAnalysis()
		ruleGRDrmw(w, r, lr)
		ruleLCK8(w, r) // an acknowledged insert must not vanish when the node array grows
		ruleLCK8b(w, r, lr)
		ruleGRDdupcheck(w, r)
		ruleORDvalidate(w, r)      // a rejected compression leaves the index readable
		ruleGRDtrained(w, r)       // a stored int8 vector is what was added, not zeros from an untrained quantizer
		ruleGRDownarg(w, r)        // the record written is the record the caller keeps: insertion never rewrites the caller's vector
		ruleCDC10(w, r)            // ids that contain the graph separator are read back whole
		ruleGRDtrainedEnsure(w, r) // a vector stored through an untrained quantizer reads back as zeros
		ruleGRDclockid(w, r)       // two evolutions of one memory in the same second must get different ids
		ruleEFFevolveFlag(w, r)    // a memory evolved twice still has a current version
		ruleGRDdimension(w, r)     // delete everything, add a vector of another dimension: refused, not cut
		ruleGRDchancap(w, r)       // get-many returns for any number of ids
		ruleGRDcommaok(w, r)       // a key set to the empty value is a key
		ruleGRDnewid(w, r)         // compression keeps every record's metadata with its record
		ruleGRDdimcheck(w, r)
		ruleGRDdropgraph(w, r) // a dropped index takes its graph nodes with it: a re-created index starts without relations
	})
}

func init() {
	register("C09", "text and hybrid ranking follow the BM25 and fusion formulas on current data", func(w *World, r *Report) {
		ruleGRDstats(w, r)
		ruleGRDfusion(w, r)
		ruleGRDorder(w, r)
		ruleSIB1(w, r)
		ruleWEBverbatim(w, r)
		ruleGRDfusionNorm(w, r)                                                              // max-normalised text score: the maximum of the list that is fused
		ruleGRDmaporder(w, r, [][2]string{{"pkg/engine", "Engine.detectTextFieldForIndex"}}) // which text field a hybrid query is scored on does not depend on map order
		ruleLCK10(w, r)                                                                      // a deleted document does not come back into the text index
		ruleGRDreindex(w, r)                                                                 // document counts and lengths always equal those of the current corpus
		ruleWEBverbatimAlpha(w, r)                                                           // alpha = 0 orders purely by text relevance, also over HTTP
		ruleTBLstatwidth(w, r)                                                               // the statistics hold what they count: no counter of the text index narrower than 32 bits
	})
	register("C15", "memory decay and reinforcement obey their stated laws", func(w *World, r *Report) {
		ruleTBLmodels(w, r)
		ruleSIB3(w, r)
		ruleGRDreinforce(w, r)
		lr := w.lockAnalysis()
		ruleGRDrmw(w, r, lr)
		ruleGRDdecayall(w, r)
		ruleSIBmetatypes(w, r)
		ruleGRDdecaylocal(w, r)
		ruleUNI2(w, r)
		ruleGRDfreshcfg(w, r)       // the layer table of one index is not the layer table of every index
		ruleGRDlogarg(w, r)         // the decay factor is a number between 0 and 1, whatever count the metadata carries
		ruleGRDlayersVerbatim(w, r) // a layer configured without decay is found under the name it was configured with
		ruleGRDreinforceAll(w, r)   // reinforcing increases the access count by exactly one, pinned or not
		ruleGRDrmwCallers(w, r)     // reinforcements are not overwritten by a concurrent property update
	})
}

func init() {
	register("C16", "authentication and role/namespace checks cannot be bypassed", func(w *World, r *Report) {
		ruleWEB3(w, r)
		ruleSIBroles(w, r)
		ruleWEBauth(w, r)
		ruleWEB4(w, r)
		ruleWEB9(w, r)
		ruleJRN12(w, r, func(sc sinkCall) bool {
			return relPkg(sc.fi.Obj) == "pkg/auth" || relPkg(sc.fi.Obj) == "internal/server"
		})
		ruleWEB11(w, r) // a read token cannot read the root token out of /debug/pprof/cmdline
	})
}

func init() {
	register("C19", "no HTTP request can crash the server, slip past limits or escape the data dir", func(w *World, r *Report) {
		ruleWEB5(w, r)
		ruleWEB6(w, r)
		ruleWEB7(w, r)
		ruleWEB8(w, r)
		ruleGRDkernel(w, r) // wrong-dimension queries must come back as errors, not BLAS/index panics
		ruleCDC8(w, r)      // a request answered 4xx after its record was journaled must stay without effect on replay
		ruleWEB6b(w, r)
		ruleGRDslice(w, r)     // the request-driven filter parser never slices out of range
		ruleGRDalloc(w, r)     // no request-controlled integer sizes an allocation unchecked
		ruleWEB10(w, r)        // no raw request string becomes a metric label (WithLabelValues panics on invalid UTF-8)
		ruleGRDlogarg(w, r)    // no NaN in a response: a negative count never reaches a logarithm (a NaN cannot be JSON-encoded: 200 with an empty body)
		ruleEFFcreate(w, r)    // a create answered 409 leaves the index that owns the name untouched
		ruleGRDdimension(w, r) // the wrong-dimension guard cannot be switched off by deleting one vector
		ruleGRDlevelmult(w, r) // m = 1 in a create request must not wedge the index
		ruleLCK7emit(w, r)     // an event fan-out that can send on a closed channel panics inside the request that emitted
		ruleGRDpath(w, r)      // a relation path in a request cannot drive the traversal deeper than its constant cap
		ruleWEBencode(w, r)    // an answer that cannot be encoded is an error answer, not 200 with an empty body
	})
}

func init() {
	register("C18", "stored vectors and distances stay faithful across precisions and storage", func(w *World, r *Report) {
		ruleGRDkernel(w, r)
		ruleGRDwiden(w, r)
		ruleGRDclamp(w, r)
		ruleTBLprec(w, r)
		ruleGRDown(w, r)
		ruleGRDownvec(w, r)
		ruleGRDslot(w, r)
		ruleGRDtrained(w, r)
		ruleGRDtrainfull(w, r)
		ruleGRDownarg(w, r)
		ruleGRDfrontier(w, r)
		lr := w.lockAnalysis()
		ruleGRDclosed(w, r, lr)
		ruleLCK8b(w, r, lr) // an int8 norm must not be lost to a concurrent growth of the norm array
		ruleLCK5f(w, r, lr, func(g string) bool {
			return strings.HasPrefix(g, "mmap.VectorArena.") || strings.HasPrefix(g, "distance.Quantizer.") || g == "hnsw.Index.activeMu"
		})
		ruleGRDdimcheck(w, r)        // a vector read back is the vector stored: the index refuses another dimension itself
		ruleGRDqueryscale(w, r)      // int8 distances: the query keeps its resolution
		ruleGRDtrainedEnsure(w, r)   // the 'is it trained' question is asked of the current quantizer on every call
		ruleGRDquerynorm(w, r)       // an int8 cosine query is quantised in the range trained on unit-length vectors
		ruleGRDcloseKeepsFiles(w, r) // reopen: no chunk file disappears at Close
	})
}

func init() {
	register("C17", "the AI gateway blocks what it must block and caches only what matches", func(w *World, r *Report) {
		ruleUNI1(w, r)
		ruleGRDfw(w, r)
		ruleGRDpattern(w, r)
		ruleGRDcache(w, r)
		ruleSIBcachekeys(w, r)
		ruleGRDinval(w, r)
		ruleGRDclockid(w, r)   // two answers cached in the same second must get different ids
		ruleGRDmatchdist(w, r) // an identical prompt (similarity rounding above 1) is still the closest match
		ruleGRDinvalAll(w, r)  // an invalidated source is gone from the cache, whatever the cap
		ruleGRDownarg(w, r)    // the embedding the gateway computed once is still the same vector after the firewall look-up used it
	})
}

func init() {
	register("C20", "text analysis, chunking and context assembly are total and bounded", func(w *World, r *Report) {
		ruleTBLsep(w, r)
		ruleGRDsize(w, r)
		ruleGRDprogress(w, r)
		ruleGRDbudget(w, r)
		ruleGRDexpand(w, r)
		ruleTBLstop(w, r)
		ruleEFFdet(w, r)
		ruleGRDslice(w, r)
		ruleGRDverbatim(w, r)
		ruleGRDchunkloop(w, r)
		ruleGRDpureText(w, r) // same input, same output: the analysers keep no state between calls
	})
}

func init() {
	register("C07", "small indexes are searched exactly (structural part)", func(w *World, r *Report) {
		ruleSIBcap(w, r)
		ruleGRDkeep(w, r)
		ruleSIBsorted(w, r)
		ruleGRDtraverse(w, r)
		ruleGRDelect(w, r)
		ruleGRDsmallgraph(w, r)
		ruleGRDrelink(w, r)
		ruleGRDquerynorm(w, r)
		ruleGRDdescent(w, r)
		ruleGRDwiden(w, r)            // the distances the graph is built and searched with
		ruleCDC12(w, r)               // a restart must not lose the tombstones live nodes link through
		ruleGRDorphan(w, r)           // delete everything, add again: the new vectors must be reachable
		ruleGRDbatchrounds(w, r)      // batch insert: nodes of one batch can find each other
		ruleGRDlevelmult(w, r)        // the level multiplier is finite
		ruleGRDtombstoneStorage(w, r) // a restart re-attaches the vector of every tombstone
		ruleGRDnoQueryShortcut(w, r)  // a stored vector is retrieved by its own value, also the zero vector
		ruleGRDtrainedEnsure(w, r)    // a quantized index searches on trained codes: training is retried until it has succeeded
		ruleGRDqueryscale(w, r)       // an int8 index answers like the float index it approximates, whatever the magnitude of the data
		ruleGRDfrozenset(w, r)        // a vacuum leaves no live node linking to a node it freed
		ruleGRDefboost(w, r)          // the beam widened for an unrefined index is the one the base layer is searched with
		ruleGRDelecttop(w, r)         // a vacuum that removes the entry point keeps the upper layers in use
	})
}
