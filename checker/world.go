package main

// world.go — loads /repo's current working tree (type-checked, all build-default files),
// and gives rules resolved access to packages, functions, SSA and the call graph.

import (
	"fmt"
	"go/ast"
	"go/token"
	"go/types"
	"os"
	"path/filepath"
	"sort"
	"strings"

	"golang.org/x/tools/go/callgraph"
	"golang.org/x/tools/go/callgraph/cha"
	"golang.org/x/tools/go/callgraph/vta"
	"golang.org/x/tools/go/packages"
	"golang.org/x/tools/go/ssa"
	"golang.org/x/tools/go/ssa/ssautil"
)

const modPath = "github.com/sanonone/kektordb"

type World struct {
	Repo    string
	Tier    string
	Tags    string
	Fset    *token.FileSet
	Pkgs    []*packages.Package
	ByPath  map[string]*packages.Package
	Overlay map[string][]byte

	TypesRenamed map[string]string // "pkg/engine.opGate" -> the name the type has in the tree (analysed under the recorded name)

	prog    *ssa.Program
	ssaPkgs []*ssa.Package
	cg      *callgraph.Graph
	vtaG    *callgraph.Graph
	cgKind  string

	declOf map[*types.Func]*FuncInfo
	funcs  []*FuncInfo

	callers map[*ssa.Function]map[*ssa.Function]bool

	anchorsSeen map[string]*FuncInfo       // "rel|name" of every function a rule asked for and found under its name
	renamed     map[string]*FuncInfo       // "rel|name" -> the function found under another name (nil: none)
	aliases     map[*types.Func]string     // a renamed anchor -> the name the rules know it by
	pkgFns      map[string][]*ssa.Function // pkgSSAFuncs, by module-relative package path
}

type FuncInfo struct {
	Obj  *types.Func
	Decl *ast.FuncDecl
	Pkg  *packages.Package
	File *ast.File
}

func goEnv() []string {
	env := []string{}
	for _, kv := range os.Environ() {
		k := kv
		if i := strings.IndexByte(kv, '='); i >= 0 {
			k = kv[:i]
		}
		switch k {
		case "GOFLAGS", "GOPROXY", "GOSUMDB", "GOTOOLCHAIN", "GOWORK", "PATH", "GOOS", "GOARCH", "CGO_ENABLED":
			continue
		}
		env = append(env, kv)
	}
	path := os.Getenv("PATH")
	for _, d := range []string{"/opt/veriftools/go1.26.8/bin"} {
		if st, err := os.Stat(filepath.Join(d, "go")); err == nil && !st.IsDir() && !strings.HasPrefix(path, d+string(os.PathListSeparator)) {
			path = d + string(os.PathListSeparator) + path
		}
	}
	os.Setenv("PATH", path) // exec.LookPath("go") in go/packages consults the process environment
	env = append(env, "PATH="+path, "GOFLAGS=-mod=mod", "GOPROXY=off", "GOSUMDB=off",
		"GOTOOLCHAIN=local", "GOWORK=off")
	return env
}

// Load type-checks every package of the module (and, for SSA, its dependencies).
func Load(repo, tier, tags string, overlay map[string][]byte, extraEnv ...string) (*World, error) {
	w, err := loadOnce(repo, tier, tags, overlay, extraEnv...)
	if err != nil {
		return nil, err
	}
	if ren := w.typeRenames(); len(ren) > 0 {
		if ov := w.typeRenameOverlay(ren); len(ov) > 0 {
			for k, v := range overlay {
				if _, ok := ov[k]; !ok {
					ov[k] = v
				}
			}
			if w2, err := loadOnce(repo, tier, tags, ov, extraEnv...); err == nil && len(w2.typeRenames()) == 0 {
				w2.TypesRenamed = map[string]string{}
				for tn, old := range ren {
					w2.TypesRenamed[strings.TrimPrefix(tn.Pkg().Path(), modPath+"/")+"."+old] = tn.Name()
				}
				return w2, nil
			}
			curWorld = w
		}
	}
	return w, nil
}

func loadOnce(repo, tier, tags string, overlay map[string][]byte, extraEnv ...string) (*World, error) {
	w := &World{Repo: repo, Tier: tier, Tags: tags, Fset: token.NewFileSet(), ByPath: map[string]*packages.Package{}, Overlay: overlay}
	cfg := &packages.Config{
		Mode:    packages.LoadAllSyntax,
		Dir:     repo,
		Fset:    w.Fset,
		Env:     append(goEnv(), extraEnv...),
		Overlay: overlay,
	}
	if tags != "" {
		cfg.BuildFlags = []string{"-tags=" + tags}
	}
	pkgs, err := packages.Load(cfg, "./...")
	if err != nil {
		return nil, fmt.Errorf("packages.Load: %w", err)
	}
	var errs []string
	packages.Visit(pkgs, nil, func(p *packages.Package) {
		if !strings.HasPrefix(p.PkgPath, modPath) {
			return
		}
		for _, e := range p.Errors {
			errs = append(errs, e.Error())
		}
	})
	if len(errs) > 0 {
		return nil, fmt.Errorf("type/load errors in module packages (%d): %s", len(errs), strings.Join(errs[:min(len(errs), 5)], "; "))
	}
	sort.Slice(pkgs, func(i, j int) bool { return pkgs[i].PkgPath < pkgs[j].PkgPath })
	w.Pkgs = pkgs
	for _, p := range pkgs {
		w.ByPath[p.PkgPath] = p
	}
	if len(pkgs) < 25 {
		return nil, fmt.Errorf("only %d packages loaded from %s (expected >= 25): refusing to analyse a partial program", len(pkgs), repo)
	}
	w.indexFuncs()
	curWorld = w
	return w, nil
}

func (w *World) indexFuncs() {
	w.declOf = map[*types.Func]*FuncInfo{}
	for _, p := range w.Pkgs {
		for _, f := range p.Syntax {
			for _, d := range f.Decls {
				fd, ok := d.(*ast.FuncDecl)
				if !ok {
					continue
				}
				obj, _ := p.TypesInfo.Defs[fd.Name].(*types.Func)
				if obj == nil {
					continue
				}
				fi := &FuncInfo{Obj: obj, Decl: fd, Pkg: p, File: f}
				w.declOf[obj] = fi
				w.funcs = append(w.funcs, fi)
			}
		}
	}
}

// Pkg returns the module package with the given path relative to the module root ("pkg/engine").
func (w *World) Pkg(rel string) *packages.Package {
	return w.ByPath[modPath+"/"+rel]
}

// Func resolves "pkg/engine", "Engine.VAdd" or "pkg/engine", "buildGraphID". An UNEXPORTED function that is not found under
// its name is looked for under a new one (renamedAnchor): the rules anchor on what a function is, its name is only the
// quickest way to find it.
func (w *World) Func(rel, name string) *FuncInfo {
	fi := w.funcByName(rel, name)
	key := rel + "|" + name
	if fi != nil {
		if w.anchorsSeen == nil {
			w.anchorsSeen = map[string]*FuncInfo{}
		}
		w.anchorsSeen[key] = fi
		return fi
	}
	if w.renamed == nil {
		w.renamed = map[string]*FuncInfo{}
	}
	if r, ok := w.renamed[key]; ok {
		return r
	}
	r := w.renamedAnchor(rel, name)
	w.renamed[key] = r
	return r
}

func (w *World) funcByName(rel, name string) *FuncInfo {
	p := w.Pkg(rel)
	if p == nil {
		return nil
	}
	if i := strings.IndexByte(name, '.'); i >= 0 {
		tn, mn := name[:i], name[i+1:]
		o := p.Types.Scope().Lookup(tn)
		if o == nil {
			return nil
		}
		named, ok := o.Type().(*types.Named)
		if !ok {
			return nil
		}
		for i := 0; i < named.NumMethods(); i++ {
			if m := named.Method(i); m.Name() == mn {
				return w.declOf[m]
			}
		}
		return nil
	}
	o, _ := p.Types.Scope().Lookup(name).(*types.Func)
	if o == nil {
		return nil
	}
	return w.declOf[o]
}

func (w *World) FuncObj(rel, name string) *types.Func {
	if fi := w.Func(rel, name); fi != nil {
		return fi.Obj
	}
	return nil
}

func (w *World) Decl(f *types.Func) *FuncInfo {
	if f == nil {
		return nil
	}
	return w.declOf[f.Origin()]
}

// ModuleFuncs lists all declared functions of the module (non-test).
func (w *World) ModuleFuncs() []*FuncInfo { return w.funcs }

func (w *World) Pos(p token.Pos) string {
	if !p.IsValid() {
		return "-"
	}
	pos := w.Fset.Position(p)
	rel, err := filepath.Rel(w.Repo, pos.Filename)
	if err != nil || strings.HasPrefix(rel, "..") {
		rel = pos.Filename
	}
	return fmt.Sprintf("%s:%d", rel, pos.Line)
}

// qname gives a stable, line-free name for a function: pkg/engine.(*Engine).VAdd
func qname(f *types.Func) string {
	if f == nil {
		return "<nil>"
	}
	pk := ""
	if f.Pkg() != nil {
		pk = strings.TrimPrefix(f.Pkg().Path(), modPath+"/")
	}
	sig, _ := f.Type().(*types.Signature)
	if sig != nil && sig.Recv() != nil {
		t := sig.Recv().Type()
		ptr := ""
		if p, ok := t.(*types.Pointer); ok {
			t = p.Elem()
			ptr = "*"
		}
		tn := types.TypeString(t, func(*types.Package) string { return "" })
		if i := strings.IndexByte(tn, '['); i >= 0 {
			tn = tn[:i]
		}
		return fmt.Sprintf("%s.(%s%s).%s", pk, ptr, tn, canonName(f))
	}
	return pk + "." + canonName(f)
}

// shortName: Engine.VAdd / replayAOF
func shortName(f *types.Func) string {
	sig, _ := f.Type().(*types.Signature)
	if sig != nil && sig.Recv() != nil {
		t := sig.Recv().Type()
		if p, ok := t.(*types.Pointer); ok {
			t = p.Elem()
		}
		if n, ok := t.(*types.Named); ok {
			return n.Obj().Name() + "." + canonName(f)
		}
	}
	return canonName(f)
}

// ---------- SSA / call graph (lazy) ----------

func (w *World) SSA() *ssa.Program {
	if w.prog != nil {
		return w.prog
	}
	prog, pkgs := ssautil.AllPackages(w.Pkgs, ssa.InstantiateGenerics)
	prog.Build()
	w.prog, w.ssaPkgs = prog, pkgs
	return prog
}

func (w *World) SSAFunc(f *types.Func) *ssa.Function {
	if f == nil {
		return nil
	}
	return w.SSA().FuncValue(f)
}

// CallGraph: CHA for quick, VTA seeded with CHA for thorough.
func (w *World) CallGraph() *callgraph.Graph {
	if w.cg != nil {
		return w.cg
	}
	prog := w.SSA()
	g := cha.CallGraph(prog)
	w.cgKind = "cha"
	if w.Tier == "thorough" || os.Getenv("KVLINT_VTA") == "1" {
		g = vta.CallGraph(ssautil.AllFunctions(prog), g)
		w.cgKind = "vta(cha)"
	}
	w.cg = g
	return g
}

// VTA always returns the VTA-refined call graph (needed where CHA's "every implementer" edges would
// be false alarms, e.g. which concrete store flows into an interface-typed field).
func (w *World) VTA() *callgraph.Graph {
	if w.vtaG != nil {
		return w.vtaG
	}
	prog := w.SSA()
	w.vtaG = vta.CallGraph(ssautil.AllFunctions(prog), cha.CallGraph(prog))
	if w.cg == nil {
		w.cg, w.cgKind = w.vtaG, "vta(cha)"
	}
	return w.vtaG
}

// inModule reports whether fn is declared in the analysed module.
func inModule(fn *ssa.Function) bool {
	if fn == nil {
		return false
	}
	if fn.Pkg != nil && fn.Pkg.Pkg != nil {
		return strings.HasPrefix(fn.Pkg.Pkg.Path(), modPath)
	}
	if fn.Parent() != nil {
		return inModule(fn.Parent())
	}
	if o := fn.Object(); o != nil && o.Pkg() != nil {
		return strings.HasPrefix(o.Pkg().Path(), modPath)
	}
	if fn.Origin() != nil {
		return inModule(fn.Origin())
	}
	return false
}

func isTestFile(fset *token.FileSet, p token.Pos) bool {
	return strings.HasSuffix(fset.Position(p).Filename, "_test.go")
}

// relPkg: module-relative package path of an object.
func relPkg(o types.Object) string {
	if o == nil || o.Pkg() == nil {
		return ""
	}
	return strings.TrimPrefix(o.Pkg().Path(), modPath+"/")
}
