package main

// rules_graph.go — rules for the edge store and the graph queries (C10, C11, C12).

import (
	"fmt"
	"go/ast"
	"go/constant"
	"go/token"
	"go/types"
	"os"
	"sort"
	"strings"

	"golang.org/x/tools/go/ssa"
	"golang.org/x/tools/go/types/typeutil"
)

// ---------- SIB-views: forward / reverse halves of the edge store agree ----------

// condSig: the comparisons made on edge-record fields inside node n, normalised so that the forward
// (TargetID/targetID) and reverse (SourceID/sourceID) halves are comparable.
func condSig(info *types.Info, n ast.Node) string {
	var sig []string
	ast.Inspect(n, func(m ast.Node) bool {
		be, ok := m.(*ast.BinaryExpr)
		if !ok {
			return true
		}
		switch be.Op {
		case token.EQL, token.NEQ, token.GTR, token.LSS, token.GEQ, token.LEQ:
		default:
			return true
		}
		sel, ok := ast.Unparen(be.X).(*ast.SelectorExpr)
		if !ok {
			return true
		}
		f := sel.Sel.Name
		switch f {
		case "TargetID", "SourceID":
			f = "PEER"
		case "DeletedAt", "CreatedAt":
		default:
			return true
		}
		rhs := "expr"
		if tv := info.Types[be.Y]; tv.Value != nil {
			rhs = tv.Value.ExactString()
		} else if id, ok := be.Y.(*ast.Ident); ok {
			switch id.Name {
			case "targetID", "sourceID":
				rhs = "peer"
			default:
				rhs = id.Name
			}
		}
		sig = append(sig, f+be.Op.String()+rhs)
		return true
	})
	sort.Strings(sig)
	return strings.Join(sig, " & ")
}

func condSigIdents(info *types.Info, n ast.Node) string {
	var sig []string
	ast.Inspect(n, func(m ast.Node) bool {
		be, ok := m.(*ast.BinaryExpr)
		if !ok {
			return true
		}
		switch be.Op {
		case token.EQL, token.NEQ, token.GTR, token.LSS, token.GEQ, token.LEQ:
		default:
			return true
		}
		l, ok := be.X.(*ast.Ident)
		if !ok {
			return true
		}
		rhs := "expr"
		if tv := info.Types[be.Y]; tv.Value != nil {
			rhs = tv.Value.ExactString()
		} else if id, ok := be.Y.(*ast.Ident); ok {
			rhs = id.Name
		}
		sig = append(sig, l.Name+be.Op.String()+rhs)
		return true
	})
	sort.Strings(sig)
	return strings.Join(sig, " & ")
}

// ---------- CDC-9: argument roles agree between the live operation and its replay arm ----------

// journalPos: which variadic element of the FormatCommand call carries SSA value v.
func journalPos(v ssa.Value, elems []ssa.Value) int {
	for i, e := range elems {
		if carries(e, v, 0) {
			return i
		}
	}
	return -1
}

// carrierField: v reads field f of a value of an unexported named struct type of the module — the record in which the
// phases of an operation (prepare, journal, apply) hand its arguments on: "T.f". Two reads of the same field of such a
// record are the same argument.
func carrierField(v ssa.Value) string {
	var t types.Type
	idx := -1
	switch x := v.(type) {
	case *ssa.Field:
		t, idx = x.X.Type(), x.Field
	case *ssa.UnOp:
		if fa, ok := x.X.(*ssa.FieldAddr); ok && x.Op == token.MUL {
			if pt, ok := fa.X.Type().Underlying().(*types.Pointer); ok {
				t, idx = pt.Elem(), fa.Field
			}
		}
	}
	if t == nil {
		return ""
	}
	nt, ok := t.(*types.Named)
	if !ok || nt.Obj().Exported() || nt.Obj().Pkg() == nil || !strings.HasPrefix(nt.Obj().Pkg().Path(), modPath+"/") {
		return ""
	}
	st, ok := nt.Underlying().(*types.Struct)
	if !ok || idx < 0 || idx >= st.NumFields() {
		return ""
	}
	return nt.Obj().Name() + "." + fieldNameAt(nt, idx)
}

// carriesCaptured: e carries parameter p through the cell a captured parameter lives in.
func carriesCaptured(e ssa.Value, p *ssa.Parameter) bool {
	seen := map[ssa.Value]bool{}
	var rec func(v ssa.Value, depth int) bool
	rec = func(v ssa.Value, depth int) bool {
		if v == nil || seen[v] || depth > 8 {
			return false
		}
		seen[v] = true
		if capturedParam(v) == p {
			return true
		}
		switch x := v.(type) {
		case *ssa.Convert:
			return rec(x.X, depth+1)
		case *ssa.ChangeType:
			return rec(x.X, depth+1)
		case *ssa.Call:
			if o := calleeObj(&x.Call); o != nil && o.Pkg() != nil && o.Pkg().Path() == "strconv" {
				for _, a := range x.Call.Args {
					if rec(a, depth+1) {
						return true
					}
				}
			}
		case *ssa.Phi:
			for _, ed := range x.Edges {
				if rec(ed, depth+1) {
					return true
				}
			}
		}
		return false
	}
	return rec(e, 0)
}

func carries(e, v ssa.Value, depth int) bool {
	if depth > 5 || e == nil {
		return false
	}
	if e == v || sameValue(e, v) {
		return true
	}
	if ke := carrierField(e); ke != "" && ke == carrierField(v) {
		return true // the same field of the operation record that travels between the phases of the operation
	}
	switch x := e.(type) {
	case *ssa.Convert:
		return carries(x.X, v, depth+1)
	case *ssa.ChangeType:
		return carries(x.X, v, depth+1)
	case *ssa.Call:
		if o := calleeObj(&x.Call); o != nil && o.Pkg() != nil && o.Pkg().Path() == "strconv" {
			for _, a := range x.Call.Args {
				if carries(a, v, depth+1) {
					return true
				}
			}
		}
	case *ssa.Phi:
		for _, ed := range x.Edges {
			if carries(ed, v, depth+1) {
				return true
			}
		}
	}
	return false
}

// cmdPos: which cmd.Args[i] the value derives from (through string(), strconv.Parse*, conversions, phi).
func cmdPos(v ssa.Value, depth int) int {
	if depth > 6 || v == nil {
		return -1
	}
	switch x := v.(type) {
	case *ssa.UnOp:
		if ia, ok := x.X.(*ssa.IndexAddr); ok {
			if i, ok := constInt(ia.Index); ok {
				if ld, ok := ia.X.(*ssa.UnOp); ok {
					if fa, ok := ld.X.(*ssa.FieldAddr); ok {
						if pt, ok := fa.X.Type().Underlying().(*types.Pointer); ok {
							if st, ok := pt.Elem().Underlying().(*types.Struct); ok && st.Field(fa.Field).Name() == "Args" {
								return int(i)
							}
						}
					}
				}
			}
		}
		if al, ok := x.X.(*ssa.Alloc); ok {
			for _, ref := range *al.Referrers() {
				if st, ok := ref.(*ssa.Store); ok && st.Addr == al {
					if p := cmdPos(st.Val, depth+1); p >= 0 {
						return p
					}
				}
			}
		}
	case *ssa.Convert:
		return cmdPos(x.X, depth+1)
	case *ssa.ChangeType:
		return cmdPos(x.X, depth+1)
	case *ssa.Extract:
		return cmdPos(x.Tuple, depth+1)
	case *ssa.Call:
		if o := calleeObj(&x.Call); o != nil && o.Pkg() != nil && o.Pkg().Path() == "strconv" {
			for _, a := range x.Call.Args {
				if p := cmdPos(a, depth+1); p >= 0 {
					return p
				}
			}
		}
	case *ssa.Phi:
		for _, e := range x.Edges {
			if p := cmdPos(e, depth+1); p >= 0 {
				return p
			}
		}
	case *ssa.BinOp:
		if x.Op == token.EQL { // string(cmd.Args[5]) == "true"
			if p := cmdPos(x.X, depth+1); p >= 0 {
				return p
			}
			return cmdPos(x.Y, depth+1)
		}
	}
	return -1
}

func ruleCDC9(w *World, r *Report) {
	r.Doc("CDC-9", "for GLINK/GUNLINK the live operation and the replay arm feed each edge-store call from the same command positions (source, target, relation, inverse relation, weight, props, time)", 4)
	fc := w.formatCommandObj()
	addE := w.FuncObj("pkg/core", "DB.AddEdge")
	rmE := w.FuncObj("pkg/core", "DB.RemoveEdge")
	rp := w.Func("pkg/engine", "Engine.replayAOF")
	if fc == nil || addE == nil || rmE == nil || rp == nil {
		r.Und("CDC-9", "anchor:edge-store-api", "", "anchor lost")
		return
	}
	type spec struct {
		cmd  string
		live string
		sink *types.Func
		nArg int // number of leading args compared
	}
	for _, sp := range []spec{{"GLINK", "Engine.VLink", addE, 6}, {"GUNLINK", "Engine.VUnlink", rmE, 5}} {
		lf := w.Func("pkg/engine", sp.live)
		if lf == nil {
			r.Und("CDC-9", "anchor:"+sp.live, "", "anchor lost")
			continue
		}
		fn := w.SSAFunc(lf.Obj)
		phases := append([]*ssa.Function{fn}, w.extractedHelpers(fn)...) // (journal and apply may be phase functions of their own)
		findAll := func(p func(ssa.Instruction) bool) []ssa.Instruction {
			var out []ssa.Instruction
			for _, f := range phases {
				out = append(out, findInstrs(f, p)...)
			}
			return out
		}
		// the journal command of this op
		var elems []ssa.Value
		for _, in := range findAll(callsTo(fc)) {
			c := in.(*ssa.Call)
			if nm, _ := constString(c.Call.Args[0]); nm == sp.cmd {
				elems, _ = variadicElems(c.Call.Args[1])
			}
		}
		if elems == nil {
			r.Und("CDC-9", sp.cmd+":live-journal", w.Pos(lf.Decl.Pos()), "cannot see the "+sp.cmd+" command built by "+sp.live)
			continue
		}
		// argument positions that the live side cannot express as data flow (a bool turned into
		// "true"/"false" by a branch) are masked on both sides
		masked := map[int]bool{}
		for _, in := range findAll(callsTo(sp.sink)) {
			args := in.(*ssa.Call).Call.Args[1:]
			for i := 0; i < sp.nArg && i < len(args); i++ {
				if b, ok := args[i].Type().Underlying().(*types.Basic); ok && b.Kind() == types.Bool {
					masked[i] = true
				}
			}
		}
		tuple := func(c *ssa.Call, pos func(ssa.Value) int) string {
			var t []string
			args := c.Call.Args[1:] // drop receiver
			for i := 0; i < sp.nArg && i < len(args); i++ {
				if masked[i] {
					t = append(t, "_")
					continue
				}
				t = append(t, fmt.Sprint(pos(args[i])))
			}
			return "(" + strings.Join(t, ",") + ")"
		}
		var live []string
		for _, in := range findAll(callsTo(sp.sink)) {
			live = append(live, tuple(in.(*ssa.Call), func(v ssa.Value) int { return journalPos(v, elems) }))
		}
		// replay side: calls of the sink whose first arg derives from cmd.Args and that sit in the arm of sp.cmd:
		// identify by the set of positions used: arms of other commands use a different sink or arity.
		rfn := w.SSAFunc(rp.Obj)
		var replay []string
		for _, in := range findInstrs(rfn, callsTo(sp.sink)) {
			c := in.(*ssa.Call)
			if cmdPos(c.Call.Args[1], 0) < 0 {
				continue // e.g. the VDEL cascade repair, fed from the graph itself
			}
			replay = append(replay, tuple(c, func(v ssa.Value) int { return cmdPos(v, 0) }))
		}
		sort.Strings(live)
		sort.Strings(replay)
		l, p := strings.Join(live, " "), strings.Join(replay, " ")
		r.Cond(l == p && len(live) >= 2, "CDC-9", sp.cmd+":roles", w.Pos(lf.Decl.Pos()), "live and replay call the edge store with positions "+l,
			fmt.Sprintf("%s journals its arguments at positions %s but the %s replay arm feeds the edge store from positions %s: after a restart the edge (or its inverse) is rebuilt with swapped or wrong arguments", sp.live, l, sp.cmd, p))
		// GRD-ts: the applied time is the journaled time (position must be resolvable, i.e. not a second time.Now())
		for _, t := range live {
			r.Cond(!strings.HasSuffix(t, ",-1)"), "CDC-9", sp.cmd+":live-time-is-journaled-time", w.Pos(lf.Decl.Pos()), "the timestamp applied in memory is the one written to the log", sp.live+" applies a timestamp to the edge store that is not the value written to the log (a second clock read): history differs after restart")
		}
	}
	// compaction re-emits history: a GUNLINK is written for soft-deleted edges, with the original times
	rw := w.Func("pkg/engine", "Engine.RewriteAOF")
	if rw == nil {
		r.Und("CDC-9", "anchor:RewriteAOF", "", "anchor lost")
		return
	}
	names := map[string]bool{}
	for _, f := range append([]*ssa.Function{w.SSAFunc(rw.Obj)}, closuresOf(w.SSAFunc(rw.Obj))...) {
		for _, in := range findInstrs(f, callsTo(fc)) {
			if nm, ok := constString(in.(*ssa.Call).Call.Args[0]); ok {
				names[nm] = true
			}
		}
	}
	// every stored edge is re-emitted: the function that writes GLINK (the edge-iteration callback) has no way out
	// that skips the emission — compaction replaces the log and retires the snapshot, so an edge it leaves out is gone
	for _, f := range append([]*ssa.Function{w.SSAFunc(rw.Obj)}, closuresOf(w.SSAFunc(rw.Obj))...) {
		isGlink := func(in ssa.Instruction) bool {
			c, ok := in.(*ssa.Call)
			if !ok || calleeObj(&c.Call) != fc {
				return false
			}
			nm, _ := constString(c.Call.Args[0])
			return nm == "GLINK"
		}
		if len(findInstrs(f, isGlink)) == 0 || f.Parent() == nil {
			continue
		}
		found, wit := pathQuery{fn: f, target: isReturn, avoid: isGlink}.find(entryPos(f))
		r.Cond(!found, "CDC-9", "RewriteAOF:every-edge-re-emitted", w.Pos(f.Pos()), "the edge callback always reaches the GLINK emission", "the compaction's edge callback can return without emitting GLINK for the edge it was given (an early return on some property of the edge or of its namespace): compaction replaces the log and removes the snapshot, so every edge skipped here is lost at the next restart", w.witness(wit)...)
	}
	// each re-emitted record carries ITS time: the GLINK the time the version was created, the GUNLINK the time it was
	// ended. The iterator hands both to the callback; which parameter is which is read off the iterator's own call.
	{
		rfn := w.SSAFunc(rw.Obj)
		nT := 0
		for _, in := range findInstrs(rfn, func(in ssa.Instruction) bool { _, isC := in.(*ssa.Call); return isC }) {
			c := in.(*ssa.Call)
			g := c.Call.StaticCallee()
			if g == nil || !inModule(g) || len(g.Blocks) == 0 {
				continue
			}
			for ai, a := range c.Call.Args {
				mc, isMC := a.(*ssa.MakeClosure)
				if !isMC {
					continue
				}
				cb, _ := mc.Fn.(*ssa.Function)
				if cb == nil || ai >= len(g.Params) {
					continue
				}
				// the roles of the callback's parameters
				role := map[int]string{}
				for _, gf := range append([]*ssa.Function{g}, closuresOf(g)...) {
					for _, gin := range findInstrs(gf, func(x ssa.Instruction) bool { _, isC := x.(*ssa.Call); return isC }) {
						gc := gin.(*ssa.Call)
						if gc.Call.IsInvoke() || capturedParam(gc.Call.Value) != g.Params[ai] {
							continue
						}
						for j, ga := range gc.Call.Args {
							if f, ok := recordField(ga); ok && (f == "CreatedAt" || f == "DeletedAt") {
								role[j] = f
							}
						}
					}
				}
				if len(role) < 2 {
					continue
				}
				for _, fin := range findInstrs(cb, callsTo(fc)) {
					fcall := fin.(*ssa.Call)
					nm, _ := constString(fcall.Call.Args[0])
					want := map[string]string{"GLINK": "CreatedAt", "GUNLINK": "DeletedAt"}[nm]
					if want == "" {
						continue
					}
					elems, spread := variadicElems(fcall.Call.Args[1])
					if spread || len(elems) == 0 {
						continue
					}
					last := elems[len(elems)-1]
					got := ""
					for j, f := range role {
						if j < len(cb.Params) && (carries(last, cb.Params[j], 0) || carriesCaptured(last, cb.Params[j])) {
							got = f
						}
					}
					nT++
					r.Cond(got == want, "CDC-9", "RewriteAOF:"+nm+":carries-the-time-the-version-was-"+map[string]string{"CreatedAt": "created", "DeletedAt": "ended"}[want], w.Pos(fcall.Pos()), "the record's time argument is the edge's "+want, fmt.Sprintf("the compaction writes the %s record of a stored edge version with %s as its time (expected: the version's %s): after the next restart the version ends at the wrong moment — an unlink dated at the link's own time makes the edge invisible to every as-of query of the interval it existed in, and the replayed record is no longer recognised as already applied", nm, map[bool]string{true: "a value that is not the version's " + want, false: "the version's " + got}[got == ""], want))
				}
			}
		}
		if nT < 2 {
			r.Und("CDC-9", "RewriteAOF:edge-record-times", w.Pos(rw.Decl.Pos()), "the compaction's edge callback (GLINK and GUNLINK written from the iterator's created/ended times) was not found — shape not recognised")
		}
	}
	// ... and every key-value pair is carried over: the callback that collects the pairs has no way out that skips
	// the collection (a key filter there silently deletes user keys at the next restart)
	if ikv := w.FuncObj("pkg/core", "DB.IterateKVUnlocked"); ikv != nil {
		rfn := w.SSAFunc(rw.Obj)
		for _, in := range findInstrs(rfn, callsTo(ikv)) {
			c := in.(*ssa.Call)
			var cb *ssa.Function
			for _, a := range c.Call.Args {
				if mc, ok := a.(*ssa.MakeClosure); ok {
					cb, _ = mc.Fn.(*ssa.Function)
				}
			}
			if cb == nil {
				r.Und("CDC-9", "RewriteAOF:every-kv-pair-carried-over", w.Pos(c.Pos()), "the KV iteration callback is not a function literal")
				continue
			}
			isCollect := func(x ssa.Instruction) bool {
				if ac, ok := isBuiltinCall(x, "append"); ok && ac != nil {
					return true
				}
				return calleeObjOf(x) == fc && fc != nil
			}
			found, wit := pathQuery{fn: cb, target: isReturn, avoid: isCollect}.find(entryPos(cb))
			r.Cond(!found && len(findInstrs(cb, isCollect)) > 0, "CDC-9", "RewriteAOF:every-kv-pair-carried-over", w.Pos(cb.Pos()), "the KV callback always collects the pair it is given", "the compaction's KV callback can return without collecting the pair it was given (a filter on the key): compaction replaces the log and retires the snapshot, so every pair skipped here is gone at the next restart", w.witness(wit)...)
		}
	} else {
		r.Und("CDC-9", "anchor:DB.IterateKVUnlocked", "", "anchor lost")
	}
	r.Cond(names["GLINK"] && names["GUNLINK"], "CDC-9", "RewriteAOF:re-emits-edge-history", w.Pos(rw.Decl.Pos()), "compaction writes GLINK and GUNLINK (soft-deleted history)", "compaction no longer re-emits GUNLINK for soft-deleted edges: history is lost / deleted edges come back after compaction+restart")
}

// ---------- SIB-4 / cascade (C12) ----------

func ruleSIB4(w *World, r *Report) {
	r.Doc("SIB-4", "the runtime delete cascade (VDelete) and the VDEL replay repair cover the same edge directions; the cascade runs inside VDelete (not in a goroutine it leaves behind) and journals through VUnlink; connection hydration schedules an unlink for dead targets", 5)
	vd := w.Func("pkg/engine", "Engine.VDelete")
	rp := w.Func("pkg/engine", "Engine.replayAOF")
	gar := w.FuncObj("pkg/core", "DB.GetAllRelations")
	if vd == nil || rp == nil || gar == nil {
		r.Und("SIB-4", "anchor:VDelete/replayAOF/GetAllRelations", "", "anchor lost")
		return
	}
	dirs := func(fn *ssa.Function) []string {
		set := map[string]bool{}
		scope := append([]*ssa.Function{fn}, closuresOf(fn)...)
		for _, h := range w.extractedHelpers(fn) { // the cascade moved into a helper of its own is still the cascade
			scope = append(append(scope, h), closuresOf(h)...)
		}
		for _, f := range scope {
			for _, in := range findInstrs(f, callsTo(gar)) {
				if s, ok := constString(in.(*ssa.Call).Call.Args[2]); ok {
					// "both" is NOT the union of the two views: GetAllRelations keys its result by relation type only, so
					// for a type that occurs in both directions the incoming list replaces the outgoing one
					set[s] = true
				}
			}
		}
		var out []string
		for k := range set {
			out = append(out, k)
		}
		sort.Strings(out)
		return out
	}
	live := dirs(w.SSAFunc(vd.Obj))
	rep := dirs(w.SSAFunc(rp.Obj))
	r.Cond(strings.Join(live, ",") == "in,out", "SIB-4", "VDelete:cascade-directions", w.Pos(vd.Decl.Pos()), "runtime cascade unlinks incoming and outgoing edges", "the runtime delete cascade covers only {"+strings.Join(live, ",")+"}: edges in the other direction keep pointing at/from the deleted node")
	r.Cond(strings.Join(rep, ",") == strings.Join(live, ","), "SIB-4", "replayAOF:VDEL-repair-directions", w.Pos(rp.Decl.Pos()), "replay repairs the same directions as the runtime cascade",
		fmt.Sprintf("the VDEL replay arm repairs edges in directions {%s} while the runtime cascade (which Close cancels) covers {%s}: after VDelete + shutdown before the cascade finished, the deleted node is still returned as source/target of the unrepaired direction", strings.Join(rep, ","), strings.Join(live, ",")))
	// the cascade runs inside VDelete, before it returns, and journals through VUnlink. (It used to run in a goroutine
	// keyed by the external id: a re-added id showed the dead node's edges and then lost the edges created on it.)
	fn := w.SSAFunc(vd.Obj)
	vunlink := w.FuncObj("pkg/engine", "Engine.VUnlink")
	inGoroutine := false
	for _, g := range findInstrs(fn, func(in ssa.Instruction) bool { _, ok := in.(*ssa.Go); return ok }) {
		gi := g.(*ssa.Go)
		if mc, ok := gi.Call.Value.(*ssa.MakeClosure); ok {
			if body, _ := mc.Fn.(*ssa.Function); body != nil && (len(findInstrs(body, callsTo(gar))) > 0 || len(findInstrs(body, callsTo(vunlink))) > 0) {
				inGoroutine = true
			}
		}
	}
	// the cascade may be a helper of VDelete's own (called in place, by nobody else)
	cascadeFns := append([]*ssa.Function{fn}, closuresOf(fn)...)
	inPlace := len(findInstrs(fn, callsTo(vunlink))) > 0
	for _, h := range w.extractedHelpers(fn) {
		cascadeFns = append(append(cascadeFns, h), closuresOf(h)...)
		if len(findInstrs(h, callsTo(vunlink))) > 0 {
			for _, cs := range callSitesOf(fn, h) {
				if cs.Parent() == fn {
					inPlace = true
				}
			}
		}
	}
	r.Cond(!inGoroutine && inPlace, "SIB-4", "VDelete:cascade-runs-before-return", w.Pos(vd.Decl.Pos()), "the edges of the deleted node are unlinked by VDelete itself", "the delete cascade runs in a goroutine started by VDelete, some time after VDelete has returned and keyed by the external id: an id that is re-added right after its deletion first shows the dead node's edges, and when the cascade finally runs it also removes the edges created on the re-added node")
	nUnlink := 0
	for _, f := range cascadeFns {
		nUnlink += len(findInstrs(f, callsTo(vunlink)))
	}
	r.Cond(nUnlink >= 2, "SIB-4", "VDelete:cascade-journals-through-VUnlink", w.Pos(vd.Decl.Pos()), "cascade unlinks through the journaling VUnlink", "the cascade no longer removes edges through VUnlink for both directions: its unlinks are not journaled and come back after restart")
	// the VDEL record itself precedes the cascade start
	// hydration self-repair
	gc := w.Func("pkg/engine", "Engine.VGetConnections")
	if gc == nil {
		r.Und("SIB-4", "anchor:VGetConnections", "", "anchor lost")
		return
	}
	gfn := w.SSAFunc(gc.Obj)
	schedules := false
	for _, cf := range closuresOf(gfn) {
		if len(findInstrs(cf, callsTo(vunlink))) > 0 {
			schedules = true
		}
	}
	r.Cond(schedules, "SIB-4", "VGetConnections:self-repair", w.Pos(gc.Decl.Pos()), "dead link targets are unlinked", "VGetConnections no longer unlinks targets that hydration did not return: dead links stay visible to graph queries")
}

// ruleGRDpath: FindPath's meeting test and traversePath's recursion guard.
func ruleGRDpath(w *World, r *Report) {
	r.Doc("GRD-path", "FindPath tests for a meeting only on the frontier node being expanded (never on a freshly discovered neighbour, which would return a longer-than-shortest path) and bounds its rounds by maxDepth; traversePath recurses with depth+1 and returns beyond its constant cap", 3)
	ruleGRDpathFind(w, r)
	tp := w.Func("pkg/engine", "Engine.traversePath")
	if tp == nil {
		r.Und("GRD-path", "anchor:traversePath", "", "anchor lost")
		return
	}
	info := tp.Pkg.TypesInfo
	rec, guard := false, false
	ast.Inspect(tp.Decl.Body, func(m ast.Node) bool {
		switch x := m.(type) {
		case *ast.CallExpr:
			if typeutil.StaticCallee(info, x) == tp.Obj && len(x.Args) > 0 {
				last := x.Args[len(x.Args)-1]
				if be, ok := last.(*ast.BinaryExpr); ok && be.Op == token.ADD {
					if tv := info.Types[be.Y]; tv.Value != nil && constant.Sign(tv.Value) > 0 {
						rec = true
					}
				}
			}
		case *ast.IfStmt:
			if be, ok := x.Cond.(*ast.BinaryExpr); ok && (be.Op == token.GTR || be.Op == token.GEQ) {
				if tv := info.Types[be.Y]; tv.Value != nil {
					if v, ok := constant.Int64Val(tv.Value); ok && v <= 64 {
						for _, st := range x.Body.List {
							if _, ok := st.(*ast.ReturnStmt); ok {
								guard = true
							}
						}
					}
				}
			}
		}
		return true
	})
	r.Cond(rec, "GRD-path", "traversePath:depth+1", w.Pos(tp.Decl.Pos()), "recursion passes depth+1", "traversePath recurses without incrementing the depth: a cyclic relation recurses until the stack overflows")
	r.Cond(guard, "GRD-path", "traversePath:depth-cap", w.Pos(tp.Decl.Pos()), "returns beyond a constant depth cap", "traversePath has no constant depth cap any more")
}

func exprString(e ast.Expr) string { return types.ExprString(e) }

func bodyIsContinue(b *ast.BlockStmt) bool {
	if len(b.List) != 1 {
		return false
	}
	bs, ok := b.List[0].(*ast.BranchStmt)
	return ok && bs.Tok == token.CONTINUE
}

func nodeContains(outer ast.Node, inner ast.Node) bool {
	found := false
	ast.Inspect(outer, func(n ast.Node) bool {
		if n == inner {
			found = true
		}
		return !found
	})
	return found
}

// ---------- CDC-10: the graph id codec ----------

// ruleCDC10: graph node ids are stored as <index> + "::" + <node id> (buildGraphID) and taken apart again by
// extractNodeID. Node ids may themselves contain the separator ("session::alpha"); index names cannot. The parser
// must therefore cut at the FIRST separator; and floating-point values written into a journal command must be
// written with the shortest representation that parses back to the same value.
func ruleCDC10(w *World, r *Report) {
	r.Doc("CDC-10", "extractNodeID cuts a graph id at the first occurrence of the separator buildGraphID inserts (strings.Cut / SplitN(…, 2) / Index — never LastIndex, Split or a suffix search); every float written into a journal command uses strconv.FormatFloat(…, -1, …), the shortest representation that round-trips", 2)
	ex := w.Func("pkg/engine", "extractNodeID")
	bg := w.Func("pkg/engine", "buildGraphID")
	if ex == nil || bg == nil {
		r.Und("CDC-10", "anchor:extractNodeID/buildGraphID", "", "anchor lost")
	} else {
		fn := w.SSAFunc(ex.Obj)
		firstOK, bad := false, ""
		var at token.Pos
		for _, b := range fn.Blocks {
			for _, in := range b.Instrs {
				c, ok := in.(*ssa.Call)
				if !ok {
					continue
				}
				o := calleeObj(&c.Call)
				if o == nil || o.Pkg() == nil || o.Pkg().Path() != "strings" {
					continue
				}
				switch o.Name() {
				case "Cut", "Index", "IndexByte":
					firstOK = true
				case "SplitN", "SplitAfterN":
					if n, ok := constInt(c.Call.Args[2]); ok && n == 2 {
						firstOK = true
					} else {
						bad, at = "strings."+o.Name()+" with a limit other than 2", c.Pos()
					}
				case "HasPrefix", "TrimPrefix", "Contains", "TrimSpace":
				default:
					bad, at = "strings."+o.Name(), c.Pos()
				}
			}
		}
		pos := w.Pos(ex.Decl.Pos())
		if bad != "" {
			pos = w.Pos(at)
		}
		r.Cond(firstOK && bad == "", "CDC-10", "extractNodeID:cuts-at-first-separator", pos, "the id is cut at the first separator", "extractNodeID takes a graph id apart with "+bad+" instead of cutting at the FIRST separator: a node id that itself contains the separator (session::alpha, _profile::…) comes back truncated — forward and reverse views, graph scope, cascade unlink and evolve then address a different node")
	}
	// the other half of the codec's assumption: an index name cannot contain the separator. VCreate journals (and
	// creates) only on the "does not contain it" edge of a test of its name parameter for the separator buildGraphID uses.
	if vc := w.Func("pkg/engine", "Engine.VCreate"); vc == nil || bg == nil {
		r.Und("CDC-10", "anchor:Engine.VCreate", "", "anchor lost")
	} else {
		sep := ""
		bfn := w.SSAFunc(bg.Obj)
		for _, b := range bfn.Blocks {
			for _, in := range b.Instrs {
				if bo, ok := in.(*ssa.BinOp); ok && bo.Op == token.ADD {
					for _, o := range []ssa.Value{bo.X, bo.Y} {
						if cs, ok := constString(o); ok && cs != "" {
							sep = cs
						}
					}
				}
			}
		}
		fn := w.SSAFunc(vc.Obj)
		jw := w.journalObj()
		isSepTest := func(in ssa.Instruction) bool {
			c, ok := in.(*ssa.Call)
			if !ok || !commonIs(&c.Call, "strings", "Contains") || len(c.Call.Args) != 2 {
				return false
			}
			cs, ok := constString(c.Call.Args[1])
			if !ok || cs != sep || sep == "" {
				return false
			}
			for _, leaf := range valueRoots(c.Call.Args[0]) {
				if p, ok := leaf.(*ssa.Parameter); ok && p.Parent() == fn {
					return true
				}
			}
			return false
		}
		ok := false
		var wit []ssa.Instruction
		if sep != "" && jw != nil && len(findInstrs(fn, isSepTest)) > 0 {
			ok, wit = mustPassGuard(fn, callsTo(jw), isSepTest, callValue, false, nil)
		}
		if !ok && sep != "" && jw != nil {
			// the request's checks are a function of their own (`if err := req.validate(); err != nil { return err }`): it
			// reports success only on the "does not contain the separator" edge of a test of a string of the request, and
			// VCreate journals only after it has succeeded
			for _, h := range w.extractedHelpers(fn) {
				nres := h.Signature.Results().Len()
				if nres == 0 || !isErrorType(h.Signature.Results().At(nres-1).Type()) {
					continue
				}
				isSep := func(in ssa.Instruction) bool {
					c, ok := in.(*ssa.Call)
					if !ok || !commonIs(&c.Call, "strings", "Contains") || len(c.Call.Args) != 2 {
						return false
					}
					cs, ok := constString(c.Call.Args[1])
					return ok && cs == sep
				}
				if len(findInstrs(h, isSep)) == 0 {
					continue
				}
				okRet := func(in ssa.Instruction) bool {
					rt, isRet := in.(*ssa.Return)
					return isRet && !definitelyError(retVal(rt, nres-1))
				}
				failed := map[edgeKey]bool{} // (a return over the failure edge of another check is a refusal, not a success)
				for _, oc := range findInstrs(h, func(x ssa.Instruction) bool { _, isC := x.(*ssa.Call); return isC }) {
					for e := range failureEdges(h, oc.(*ssa.Call)) {
						failed[e] = true
					}
				}
				inner, w1 := mustPassGuard(h, okRet, isSep, callValue, false, failed)
				hh := h
				outer, w2 := precedesWithSuccess(fn, func(in ssa.Instruction) bool {
					c, isCall := in.(*ssa.Call)
					return isCall && c.Call.StaticCallee() == hh
				}, callsTo(jw))
				if os.Getenv("KVLINT_DEBUG") != "" {
					fmt.Fprintln(os.Stderr, "DEBUG CDC-10 helper", h.Name(), inner, outer)
				}
				if inner && outer {
					ok, wit = true, nil
				} else {
					wit = append(w1, w2...)
				}
			}
		}
		r.Cond(ok, "CDC-10", "Engine.VCreate:name-without-separator", w.Pos(vc.Decl.Pos()), "an index is journaled and created only if its name does not contain the graph id separator "+fmt.Sprintf("%q", sep), "Engine.VCreate accepts an index name that contains the graph id separator: the graph ids of that index cannot be taken apart again (edges of \"team::docs\" read back as \"docs::<id>\") and collide with those of the index named by the prefix", w.witness(wit)...)
	}
	// floats in journal commands
	fc := w.FuncObj("pkg/persistence", "FormatCommand")
	n := 0
	for _, fi := range w.ModuleFuncs() {
		if relPkg(fi.Obj) != "pkg/engine" {
			continue
		}
		root := w.SSAFunc(fi.Obj)
		if root == nil {
			continue
		}
		for _, f := range append([]*ssa.Function{root}, closuresOf(root)...) {
			if fc == nil || len(findInstrs(f, callsTo(fc))) == 0 {
				continue
			}
			k := 0
			for _, in := range findInstrs(f, func(in ssa.Instruction) bool { return isCallTo(in, "strconv", "FormatFloat") }) {
				c := in.(*ssa.Call)
				n++
				k++
				prec, ok := constInt(c.Call.Args[2])
				r.Cond(ok && prec == -1, "CDC-10", fmt.Sprintf("%s:float#%d:shortest-round-trip", shortName(fi.Obj), k), w.Pos(c.Pos()), "FormatFloat with precision -1", shortName(fi.Obj)+" writes a float into a journal command with a fixed number of digits: memory keeps the full value, the log a rounded one — after a restart weights differ, versions that differed only beyond that digit collapse, and an identical re-link is no longer a no-op")
			}
		}
	}
	if n == 0 {
		r.Und("CDC-10", "anchor:journal-floats", "", "no strconv.FormatFloat found in a function that builds journal commands")
	}
}

// ruleCDC11: hnsw.Duration is written into VCONFIG / MEMORY_CONFIG records as JSON text and parsed back. The writer
// must not lose anything the reader could have kept: it may format the whole value (Duration.String, the integer
// nanoseconds), but not a quotient of it.
func ruleCDC11(w *World, r *Report) {
	r.Doc("CDC-11", "hnsw.Duration.MarshalJSON writes the whole duration (no division of the value on the way to the text): index configuration journaled in VCONFIG/MEMORY_CONFIG records reads back exactly", 1)
	fi := w.Func("pkg/core/hnsw", "Duration.MarshalJSON")
	if fi == nil {
		r.Und("CDC-11", "anchor:Duration.MarshalJSON", "", "anchor lost")
		return
	}
	fn := w.SSAFunc(fi.Obj)
	var bad ssa.Instruction
	for _, b := range fn.Blocks {
		for _, in := range b.Instrs {
			if bo, ok := in.(*ssa.BinOp); ok && (bo.Op == token.QUO || bo.Op == token.SHR) {
				// used on the way to the output (not merely in a test like d%time.Hour == 0)
				for _, ref := range *bo.Referrers() {
					if _, isCmp := ref.(*ssa.BinOp); isCmp {
						continue
					}
					bad = in
				}
			}
		}
	}
	pos := w.Pos(fi.Decl.Pos())
	if bad != nil {
		pos = w.Pos(bad.Pos())
	}
	r.Cond(bad == nil, "CDC-11", "Duration.MarshalJSON:whole-value", pos, "the text is produced from the whole value", "Duration.MarshalJSON writes a quotient of the duration (a rounded unit): the in-memory configuration keeps the exact value, the journaled one loses the remainder — after a restart through the log, or a compaction, a 500ms interval is 0 and a 1.5s interval 1s")
}

func calleeObjOf(in ssa.Instruction) *types.Func {
	c, ok := in.(*ssa.Call)
	if !ok {
		return nil
	}
	return calleeObj(&c.Call)
}
