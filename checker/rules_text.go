package main

// rules_text.go — C09 (corpus statistics stay current) and C15 (decay application sites agree).

import (
	"fmt"
	"go/ast"
	"go/constant"
	"go/token"
	"go/types"
	"sort"
	"strings"

	"golang.org/x/tools/go/ssa"
	"golang.org/x/tools/go/types/typeutil"
)

// ---------- GRD-stats ----------

type statsUse struct {
	setsDocLen, delsDocLen             bool
	totalDocs, totalLen, avgLen        bool
	removesPostingsOfNode, addsPosting bool
	decGuardedByHad                    bool
	pos                                token.Pos
}

func ruleGRDstats(w *World, r *Report) {
	r.Doc("GRD-stats", "BM25 corpus statistics move together: a function that sets or deletes DocLengths[node] also maintains TotalDocs, TotalDocLength and AvgFieldLength; a removal is conditional on the node having been counted; a function that strips a node's postings also removes its statistics", 4)
	p := w.Pkg("pkg/core")
	if p == nil {
		r.Und("GRD-stats", "anchor:pkg/core", "", "anchor lost")
		return
	}
	info := p.TypesInfo
	isPostingMapElem := func(e ast.Expr) bool {
		ix, ok := e.(*ast.IndexExpr)
		if !ok {
			return false
		}
		mt, ok := info.TypeOf(ix.X).Underlying().(*types.Map)
		if !ok {
			return false
		}
		nt, ok := mt.Elem().(*types.Named)
		return ok && nt.Obj().Name() == "PostingList"
	}
	n := 0
	// a phase of an operation that is a function of its own (unexported, called by that operation only) is read as part of
	// the operation: "removes the postings" and "removes the statistics" may be two such phases of DeleteMetadata
	isPhase := map[*types.Func]bool{}
	for _, fi := range w.ModuleFuncs() {
		if relPkg(fi.Obj) == "pkg/core" && fi.Decl.Body != nil {
			for _, h := range w.helperDecls(fi) {
				isPhase[h.Obj] = true
			}
		}
	}
	for _, fi := range w.ModuleFuncs() {
		if relPkg(fi.Obj) != "pkg/core" || fi.Decl.Body == nil || isPhase[fi.Obj] {
			continue
		}
		u := statsUse{pos: fi.Decl.Pos()}
		var hadGuards []*ast.IfStmt
		bodies := []*FuncInfo{fi}
		bodies = append(bodies, w.helperDecls(fi)...)
		for _, bd := range bodies {
			ast.Inspect(bd.Decl.Body, func(m ast.Node) bool {
				switch x := m.(type) {
				case *ast.IfStmt:
					if x.Init != nil {
						if as, ok := x.Init.(*ast.AssignStmt); ok && len(as.Rhs) == 1 {
							if ix, ok := as.Rhs[0].(*ast.IndexExpr); ok {
								if sel, ok := ix.X.(*ast.SelectorExpr); ok && sel.Sel.Name == "DocLengths" {
									// "was counted" = the entry EXISTS (comma-ok form, condition is the ok variable); a test
									// on the stored length treats a counted document of length 0 as never counted
									if len(as.Lhs) == 2 {
										if okId, isId := as.Lhs[1].(*ast.Ident); isId {
											if c, isC := x.Cond.(*ast.Ident); isC && c.Name == okId.Name {
												hadGuards = append(hadGuards, x)
											}
										}
									}
								}
							}
						}
					}
				case *ast.AssignStmt:
					for _, l := range x.Lhs {
						if ix, ok := l.(*ast.IndexExpr); ok {
							if sel, ok := ix.X.(*ast.SelectorExpr); ok && sel.Sel.Name == "DocLengths" {
								u.setsDocLen = true
							}
						}
						if sel, ok := l.(*ast.SelectorExpr); ok {
							switch sel.Sel.Name {
							case "TotalDocs":
								u.totalDocs = true
							case "TotalDocLength":
								u.totalLen = true
							case "AvgFieldLength":
								u.avgLen = true
							}
						}
						if isPostingMapElem(l) {
							// appending a PostingEntry = adding; assigning a filtered list = removing
							if c, ok := x.Rhs[0].(*ast.CallExpr); ok {
								if id, ok := c.Fun.(*ast.Ident); ok && id.Name == "append" {
									u.addsPosting = true
									continue
								}
							}
							u.removesPostingsOfNode = true
						}
					}
				case *ast.IncDecStmt:
					if sel, ok := x.X.(*ast.SelectorExpr); ok && sel.Sel.Name == "TotalDocs" {
						u.totalDocs = true
						if x.Tok == token.DEC {
							for _, g := range hadGuards {
								if nodeContains(g.Body, x) {
									u.decGuardedByHad = true
								}
							}
						}
					}
				case *ast.CallExpr:
					if id, ok := x.Fun.(*ast.Ident); ok && id.Name == "delete" && len(x.Args) == 2 {
						if sel, ok := x.Args[0].(*ast.SelectorExpr); ok && sel.Sel.Name == "DocLengths" {
							u.delsDocLen = true
						}
					}
				}
				return true
			})
		}
		if !(u.setsDocLen || u.delsDocLen || u.removesPostingsOfNode) {
			continue
		}
		n++
		name := shortName(fi.Obj)
		if u.setsDocLen {
			r.Cond(u.totalDocs && u.totalLen && u.avgLen, "GRD-stats", name+":set-keeps-totals", w.Pos(u.pos), "DocLengths, TotalDocs, TotalDocLength and AvgFieldLength are updated together",
				name+" records a document length without maintaining TotalDocs/TotalDocLength/AvgFieldLength: BM25 scores are computed from a corpus size or average length that is not the current one")
		}
		if u.delsDocLen {
			r.Cond(u.totalDocs && u.totalLen && u.avgLen, "GRD-stats", name+":delete-keeps-totals", w.Pos(u.pos), "removal adjusts all four statistics", name+" forgets a document length without adjusting the totals")
			// decided on SSA: every decrement of TotalDocs is reached only on the present edge of a comma-ok look-up in
			// DocLengths (any nesting: an enclosing if, an early continue, a flag)
			u.decGuardedByHad = false
			if fn := w.SSAFunc(fi.Obj); fn != nil {
				isDec := func(in ssa.Instruction) bool {
					st, ok := in.(*ssa.Store)
					if !ok {
						return false
					}
					fa, ok := st.Addr.(*ssa.FieldAddr)
					if !ok {
						return false
					}
					if _, f := structFieldName(fa.X.Type(), fa.Field); f != "TotalDocs" {
						return false
					}
					bo, ok := st.Val.(*ssa.BinOp)
					if !ok || bo.Op != token.SUB {
						return false
					}
					c, ok := constInt(bo.Y)
					return ok && c == 1
				}
				isHad := func(in ssa.Instruction) bool {
					lk, ok := in.(*ssa.Lookup)
					return ok && lk.CommaOk && mapFieldOf(lk.X) == "DocLengths"
				}
				var decs []ssa.Instruction
				all := true
				for _, f := range append([]*ssa.Function{fn}, w.extractedHelpers(fn)...) {
					ds := findInstrs(f, isDec)
					decs = append(decs, ds...)
					if len(ds) > 0 && len(findInstrs(f, isHad)) == 0 {
						all = false
					}
				}
				all = all && len(decs) > 0
				for _, d := range decs {
					dd := d
					if ok, _ := mustPassGuard(dd.Parent(), func(in ssa.Instruction) bool { return in == dd }, isHad, func(in ssa.Instruction) ssa.Value { return extractOfValue(in.(*ssa.Lookup), 1) }, true, nil); !ok {
						all = false
					}
				}
				u.decGuardedByHad = all
			}
			r.Cond(u.decGuardedByHad, "GRD-stats", name+":delete-only-if-counted", w.Pos(u.pos), "TotalDocs is decremented only for a node that was counted", name+" does not decide \"was this node counted\" by the presence of its DocLengths entry (comma-ok lookup): either it decrements TotalDocs for nodes that were never counted, or — testing the stored length — it keeps counting deleted documents whose text analysed to zero tokens; N and the average length drift and BM25 order changes")
		}
		if u.removesPostingsOfNode {
			r.Cond(u.delsDocLen, "GRD-stats", name+":postings-removal-removes-stats", w.Pos(u.pos), "stripping a node's postings also removes its statistics",
				name+" removes a node's postings but leaves it counted in the field statistics: after overwriting a text field with a non-text value (or deleting the document) BM25 uses a wrong N and average length until the next rebuild")
		}
	}
	if n < 3 {
		r.Und("GRD-stats", "anchor:stats-maintenance-sites", "", fmt.Sprintf("only %d functions maintain text statistics (expected AddMetadata, AddMetadataUnlocked, removeOldIndexEntries, DeleteMetadata)", n))
	}
	// TBL-bm25
	r.Doc("TBL-bm25", "the BM25 constants are k1 = 1.2 and b = 0.75", 2)
	for name, want := range map[string]string{"bm25k1": "1.2", "bm25b": "0.75"} {
		c, _ := p.Types.Scope().Lookup(name).(*types.Const)
		if c == nil {
			r.Und("TBL-bm25", name, "", "constant not found")
			continue
		}
		f, _ := constant.Float64Val(c.Val())
		r.Cond(fmt.Sprint(f) == want, "TBL-bm25", name, w.Pos(c.Pos()), name+" = "+want, fmt.Sprintf("%s = %v (documented: %s)", name, f, want))
	}
	// the scorer uses both constants and the current stats
	sc := w.Func("pkg/core", "DB.calculateBM25TermScore")
	if sc == nil {
		r.Und("TBL-bm25", "anchor:calculateBM25TermScore", "", "anchor lost")
		return
	}
	uses := map[string]bool{}
	ast.Inspect(sc.Decl.Body, func(m ast.Node) bool {
		switch x := m.(type) {
		case *ast.Ident:
			uses[x.Name] = true
		case *ast.SelectorExpr:
			uses[x.Sel.Name] = true
		}
		return true
	})
	for _, nm := range []string{"bm25k1", "bm25b", "TotalDocs", "AvgFieldLength", "DocLengths"} {
		r.Cond(uses[nm], "TBL-bm25", "scorer-uses:"+nm, w.Pos(sc.Decl.Pos()), "used by the term scorer", "calculateBM25TermScore no longer uses "+nm)
	}
}

// ruleGRDfusion: alpha is clamped before use, and nothing cuts a candidate list to k before fusion.
func ruleGRDfusion(w *World, r *Report) {
	r.Doc("GRD-fusion", "in the hybrid branch alpha is clamped to [0,1] before it is used, both score lists are normalised before fusion, and no candidate list is cut to k before the fused scores are sorted", 1)
	fi := w.Func("pkg/engine", "Engine.searchWithFusion")
	if fi == nil {
		r.Und("GRD-fusion", "anchor:searchWithFusion", "", "anchor lost")
		return
	}
	fn := w.SSAFunc(fi.Obj)
	// alpha: multiplications use a value merged with the clamp constant, never the raw parameter
	alpha := paramNamed(fn, "alpha", 0, func(t types.Type) bool { return basicKind(t) == types.Float64 })
	if alpha == nil {
		// the arguments travel in a parameter record: alpha is its field. A field lives in memory, so the clamp is a
		// conditional store of a constant into it; every arithmetic use must be dominated by the test that guards that store
		var clampTests []*ssa.BasicBlock
		for _, b := range fn.Blocks {
			for _, in := range b.Instrs {
				st, ok := in.(*ssa.Store)
				if !ok {
					continue
				}
				fa, ok := st.Addr.(*ssa.FieldAddr)
				if !ok || paramRecordBase(fa.X) == nil {
					continue
				}
				if _, f := structFieldName(fa.X.Type(), fa.Field); f != "alpha" {
					continue
				}
				if _, isConst := st.Val.(*ssa.Const); !isConst {
					continue
				}
				// the store's block is entered from a test of the field
				for d := b; d != nil; d = d.Idom() {
					p := d.Idom()
					if p == nil {
						break
					}
					if iff, ok := p.Instrs[len(p.Instrs)-1].(*ssa.If); ok {
						if bo, ok := iff.Cond.(*ssa.BinOp); ok && (paramFieldRead(bo.X, "alpha") || paramFieldRead(bo.Y, "alpha")) {
							// the first test of the (short-circuit) range check dominates everything behind the clamp
							top := p
							for q := p.Idom(); q != nil; q = q.Idom() {
								if i2, ok := q.Instrs[len(q.Instrs)-1].(*ssa.If); ok {
									if b2, ok := i2.Cond.(*ssa.BinOp); ok && (paramFieldRead(b2.X, "alpha") || paramFieldRead(b2.Y, "alpha")) {
										top = q
										continue
									}
								}
								break
							}
							clampTests = append(clampTests, top)
						}
					}
				}
			}
		}
		raw, clamped := 0, 0
		for _, b := range fn.Blocks {
			for _, in := range b.Instrs {
				bo, ok := in.(*ssa.BinOp)
				if !ok || (bo.Op != token.MUL && bo.Op != token.SUB) {
					continue
				}
				for _, op := range []ssa.Value{bo.X, bo.Y} {
					if !paramFieldRead(op, "alpha") {
						continue
					}
					dom := false
					for _, ct := range clampTests {
						if ct != b && ct.Dominates(b) {
							dom = true
						}
					}
					if dom {
						clamped++
					} else {
						raw++
					}
				}
			}
		}
		if raw+clamped == 0 {
			r.Und("GRD-fusion", "searchWithFusion:alpha", w.Pos(fi.Decl.Pos()), "no alpha parameter")
		} else {
			r.Cond(raw == 0 && clamped >= 2, "GRD-fusion", "searchWithFusion:alpha-clamped", w.Pos(fi.Decl.Pos()), "alpha is used only after the [0,1] clamp", fmt.Sprintf("alpha is used in the fusion arithmetic without passing the clamp (raw uses %d, clamped uses %d): an out-of-range alpha gives negative weights", raw, clamped))
		}
	} else {
		raw := 0
		clamped := 0
		for _, b := range fn.Blocks {
			for _, in := range b.Instrs {
				bo, ok := in.(*ssa.BinOp)
				if !ok || (bo.Op != token.MUL && bo.Op != token.SUB) {
					continue
				}
				for _, op := range []ssa.Value{bo.X, bo.Y} {
					if op == ssa.Value(alpha) {
						raw++
					}
					if ph, ok := op.(*ssa.Phi); ok {
						hasAlpha, hasConst := false, false
						for _, e := range ph.Edges {
							if e == ssa.Value(alpha) {
								hasAlpha = true
							}
							if _, ok := e.(*ssa.Const); ok {
								hasConst = true
							}
						}
						if hasAlpha && hasConst {
							clamped++
						}
					}
				}
			}
		}
		r.Cond(raw == 0 && clamped >= 2, "GRD-fusion", "searchWithFusion:alpha-clamped", w.Pos(fi.Decl.Pos()), "alpha is used only after the [0,1] clamp", fmt.Sprintf("alpha is used in the fusion arithmetic without passing the clamp (raw uses %d, clamped uses %d): an out-of-range alpha gives negative weights", raw, clamped))
	}
	// normalisation precedes fusion: calls to normalizeVectorScores / normalizeTextScores precede the first MapUpdate on the fused map
	nv, nt := w.FuncObj("pkg/engine", "normalizeVectorScores"), w.FuncObj("pkg/engine", "normalizeTextScores")
	fused := func(in ssa.Instruction) bool {
		mu, ok := in.(*ssa.MapUpdate)
		if !ok {
			return false
		}
		mt, ok := mu.Map.Type().Underlying().(*types.Map)
		return ok && isFloat(mt.Elem())
	}
	found, wit := (pathQuery{fn: fn, target: fused, avoid: callsTo(nv)}).find(entryPos(fn))
	r.Cond(!found, "GRD-fusion", "searchWithFusion:vector-normalised-before-fusion", w.Pos(fi.Decl.Pos()), "vector distances are mapped to similarities before fusion", "fused scores can be computed from raw distances (normalizeVectorScores skipped on some path)", w.witness(wit)...)
	_ = nt
	// no [:k] cut before the final sort is covered by GRD-order (sort<truncate)
}

// ---------- C15: decay ----------

func ruleTBLmodels(w *World, r *Report) {
	r.Doc("TBL-models", "every declared DecayModel constant has an arm in calculateTimeDecayModel, the default arm is the exponential model, and the dispatch is preceded by the unit cases (half-life <= 0 and age <= 0 give 1)", 5)
	hp := w.Pkg("pkg/core/hnsw")
	fi := w.Func("pkg/engine", "calculateTimeDecayModel")
	if hp == nil || fi == nil {
		r.Und("TBL-models", "anchor:calculateTimeDecayModel", "", "anchor lost")
		return
	}
	info := fi.Pkg.TypesInfo
	// declared constants of type DecayModel
	var consts []string
	for _, nm := range hp.Types.Scope().Names() {
		if c, ok := hp.Types.Scope().Lookup(nm).(*types.Const); ok && strings.HasSuffix(c.Type().String(), "hnsw.DecayModel") {
			consts = append(consts, constant.StringVal(c.Val()))
		}
	}
	sort.Strings(consts)
	arms := map[string]*ast.CaseClause{}
	var deflt *ast.CaseClause
	ast.Inspect(fi.Decl.Body, func(m ast.Node) bool {
		sw, ok := m.(*ast.SwitchStmt)
		if !ok {
			return true
		}
		for _, st := range sw.Body.List {
			cc := st.(*ast.CaseClause)
			if cc.List == nil {
				deflt = cc
			}
			for _, e := range cc.List {
				if tv := info.Types[e]; tv.Value != nil && tv.Value.Kind() == constant.String {
					arms[constant.StringVal(tv.Value)] = cc
				}
			}
		}
		return false
	})
	// the same dispatch written as a table: a package-level map from model name to curve, looked up with the model, and a
	// fall-back call after the look-up for names the table does not know
	tableArms := map[string]ast.Expr{}
	var tableDefault ast.Node
	if len(arms) == 0 {
		ast.Inspect(fi.Decl.Body, func(m ast.Node) bool {
			ix, ok := m.(*ast.IndexExpr)
			if !ok {
				return true
			}
			id, ok := ix.X.(*ast.Ident)
			if !ok {
				return true
			}
			v, ok := info.ObjectOf(id).(*types.Var)
			if !ok || v.Parent() != fi.Pkg.Types.Scope() {
				return true
			}
			if _, isMap := v.Type().Underlying().(*types.Map); !isMap {
				return true
			}
			for _, f := range fi.Pkg.Syntax {
				ast.Inspect(f, func(k ast.Node) bool {
					vs, ok := k.(*ast.ValueSpec)
					if !ok {
						return true
					}
					for i, nm := range vs.Names {
						if info.ObjectOf(nm) != types.Object(v) || i >= len(vs.Values) {
							continue
						}
						if cl, ok := vs.Values[i].(*ast.CompositeLit); ok {
							for _, el := range cl.Elts {
								if kv, ok := el.(*ast.KeyValueExpr); ok {
									if tv := info.Types[kv.Key]; tv.Value != nil && tv.Value.Kind() == constant.String {
										tableArms[constant.StringVal(tv.Value)] = kv.Value
									}
								}
							}
						}
					}
					return true
				})
			}
			return true
		})
		if len(tableArms) > 0 {
			// the fall-back: the last statement of the function is a return of a call
			if n := len(fi.Decl.Body.List); n > 0 {
				if rt, ok := fi.Decl.Body.List[n-1].(*ast.ReturnStmt); ok {
					tableDefault = rt
				}
			}
		}
	}
	nodeCallee := func(n ast.Node) string {
		out := ""
		if n == nil {
			return out
		}
		if id, ok := n.(*ast.Ident); ok { // a function named directly as the table entry
			if f, ok := info.ObjectOf(id).(*types.Func); ok {
				return f.Name()
			}
		}
		ast.Inspect(n, func(m ast.Node) bool {
			if c, ok := m.(*ast.CallExpr); ok {
				if f := typeutil.StaticCallee(info, c); f != nil {
					out = f.Name()
				}
			}
			return true
		})
		return out
	}
	if len(tableArms) > 0 {
		for _, c := range consts {
			r.Cond(tableArms[c] != nil, "TBL-models", "model:"+c, w.Pos(fi.Decl.Pos()), "has a table entry ("+nodeCallee(tableArms[c])+")", "decay model \""+c+"\" is declared (and accepted by validation) but the dispatch table of calculateTimeDecayModel has no entry for it: it silently decays exponentially")
		}
		for c, e := range tableArms {
			cal := strings.ToLower(nodeCallee(e))
			r.Cond(strings.Contains(cal, c), "TBL-models", "arm:"+c+":helper", w.Pos(e.Pos()), "dispatches to "+nodeCallee(e), "the \""+c+"\" entry dispatches to "+nodeCallee(e)+", not to the "+c+" model")
		}
		// the fall-back: a call of the exponential curve after the look-up, or a second look-up under a constant key whose
		// entry is that curve (`if !known { decay = table["exponential"] }`)
		fallsBack := tableDefault != nil && strings.Contains(strings.ToLower(nodeCallee(tableDefault)), "exponential")
		ast.Inspect(fi.Decl.Body, func(m ast.Node) bool {
			ix, ok := m.(*ast.IndexExpr)
			if !ok {
				return true
			}
			if tv := info.Types[ix.Index]; tv.Value != nil && tv.Value.Kind() == constant.String {
				if e := tableArms[constant.StringVal(tv.Value)]; e != nil && strings.Contains(strings.ToLower(nodeCallee(e)), "exponential") {
					fallsBack = true
				}
			}
			return true
		})
		r.Cond(fallsBack, "TBL-models", "default:exponential", w.Pos(fi.Decl.Pos()), "unknown model names fall back to the exponential model", "the fall-back after the table look-up of calculateTimeDecayModel is not the exponential model (unknown model names and per-memory overrides with typos change meaning)")
	}
	calleeOf := func(cc *ast.CaseClause) string {
		out := ""
		if cc == nil {
			return out
		}
		ast.Inspect(cc, func(m ast.Node) bool {
			if c, ok := m.(*ast.CallExpr); ok {
				if f := typeutil.StaticCallee(info, c); f != nil {
					out = f.Name()
				}
			}
			return true
		})
		return out
	}
	for _, c := range consts {
		if len(tableArms) > 0 {
			break
		}
		r.Cond(arms[c] != nil, "TBL-models", "model:"+c, w.Pos(fi.Decl.Pos()), "has a dispatch arm ("+calleeOf(arms[c])+")", "decay model \""+c+"\" is declared (and accepted by validation) but calculateTimeDecayModel has no arm for it: it silently decays exponentially")
	}
	// each arm calls a distinct helper whose name contains the model name
	for c, cc := range arms {
		cal := strings.ToLower(calleeOf(cc))
		r.Cond(strings.Contains(cal, c), "TBL-models", "arm:"+c+":helper", w.Pos(cc.Pos()), "dispatches to "+calleeOf(cc), "the \""+c+"\" arm dispatches to "+calleeOf(cc)+", not to the "+c+" model")
	}
	if len(tableArms) == 0 {
		r.Cond(deflt != nil && strings.Contains(strings.ToLower(calleeOf(deflt)), "exponential"), "TBL-models", "default:exponential", w.Pos(fi.Decl.Pos()), "unknown model names fall back to the exponential model", "the default arm of calculateTimeDecayModel is not the exponential model (unknown model names and per-memory overrides with typos change meaning)")
	}
	// unit guards dominate the switch
	fn := w.SSAFunc(fi.Obj)
	helpers := func(in ssa.Instruction) bool {
		c, ok := in.(*ssa.Call)
		if !ok {
			return false
		}
		if c.Call.StaticCallee() == nil && !c.Call.IsInvoke() { // a curve taken out of the dispatch table
			for _, rt := range append(valueRoots(c.Call.Value), c.Call.Value) {
				if ex, ok := rt.(*ssa.Extract); ok {
					rt = ex.Tuple
				}
				if _, isLk := rt.(*ssa.Lookup); isLk {
					return true
				}
			}
		}
		o := calleeObj(&c.Call)
		return o != nil && relPkg(o) == "pkg/engine" && strings.HasPrefix(canonName(o), "calculate")
	}
	leqZero := func(param string) func(ssa.Instruction) bool {
		return func(in ssa.Instruction) bool {
			bo, ok := in.(*ssa.BinOp)
			if !ok || bo.Op != token.LEQ {
				return false
			}
			c, ok := bo.Y.(*ssa.Const)
			if !ok || c.Value == nil || constant.Sign(c.Value) != 0 {
				return false
			}
			if param != "" {
				p, ok := bo.X.(*ssa.Parameter)
				return ok && p.Name() == param
			}
			_, isParam := bo.X.(*ssa.Parameter)
			return !isParam // the computed age
		}
	}
	for _, g := range []struct {
		name string
		pred func(ssa.Instruction) bool
	}{{"halfLife<=0", leqZero("halfLifeSeconds")}, {"age<=0", leqZero("")}} {
		gs := findInstrs(fn, g.pred)
		if len(gs) == 0 {
			r.Bad("TBL-models", "unit:"+g.name, w.Pos(fi.Decl.Pos()), "calculateTimeDecayModel no longer tests "+g.name+" before dispatching: a disabled or future-dated decay does not give factor 1")
			continue
		}
		ok, wit := mustPassGuard(fn, helpers, g.pred, func(in ssa.Instruction) ssa.Value { return in.(ssa.Value) }, false, nil)
		r.Cond(ok, "TBL-models", "unit:"+g.name, w.Pos(gs[0].Pos()), "every model is reached only when "+g.name+" is false", "a decay model can be evaluated although "+g.name+" (which must give factor 1)", w.witness(wit)...)
	}
}

// ruleSIB3: every decay application site consults the same metadata keys, accepts the same forms of the
// pin flag and multiplies the similarity by the factor.
func ruleSIB3(w *World, r *Report) {
	r.Doc("SIB-3", "all callers of calculateTimeDecayModel consult the same metadata keys (_pinned, _created_at, _last_accessed, memory_layer, _decay_model, _access_count), accept the pin flag as bool and as string, skip pinned memories and no-decay layers before computing the factor, and multiply the score by the factor", 2)
	dm := w.FuncObj("pkg/engine", "calculateTimeDecayModel")
	if dm == nil {
		r.Und("SIB-3", "anchor:calculateTimeDecayModel", "", "anchor lost")
		return
	}
	want := []string{"_access_count", "_created_at", "_decay_model", "_last_accessed", "_pinned", "memory_layer"}
	n := 0
	for _, fi := range w.ModuleFuncs() {
		if relPkg(fi.Obj) != "pkg/engine" || fi.Decl.Body == nil || fi.Obj == dm {
			continue
		}
		info := fi.Pkg.TypesInfo
		calls := false
		ast.Inspect(fi.Decl.Body, func(m ast.Node) bool {
			if c, ok := m.(*ast.CallExpr); ok && typeutil.StaticCallee(info, c) == dm {
				calls = true
			}
			return true
		})
		if !calls {
			continue
		}
		n++
		name := shortName(fi.Obj)
		keys := map[string]bool{}
		pinForms := map[string]bool{}
		// the function itself and the unexported helpers of the package it hands the metadata map to
		// (`if memoryIsPinned(meta) {`): what a helper reads of the map, the function reads
		bodies := []*ast.BlockStmt{fi.Decl.Body}
		ast.Inspect(fi.Decl.Body, func(m ast.Node) bool {
			c, ok := m.(*ast.CallExpr)
			if !ok {
				return true
			}
			g := typeutil.StaticCallee(info, c)
			if g == nil || g == dm || g.Exported() || relPkg(g) != "pkg/engine" {
				return true
			}
			takesMap := false
			for _, a := range c.Args {
				if mt, ok := info.TypeOf(a).Underlying().(*types.Map); ok {
					if _, isIface := mt.Elem().Underlying().(*types.Interface); isIface {
						takesMap = true
					}
				}
			}
			if gd := w.Decl(g); takesMap && gd != nil && gd.Decl.Body != nil && gd.Pkg == fi.Pkg {
				bodies = append(bodies, gd.Decl.Body)
			}
			return true
		})
		for _, body := range bodies {
			ast.Inspect(body, func(m ast.Node) bool {
				if ix, ok := m.(*ast.IndexExpr); ok {
					if tv := info.Types[ix.Index]; tv.Value != nil && tv.Value.Kind() == constant.String {
						keys[constant.StringVal(tv.Value)] = true
					}
				}
				return true
			})
			// the pin flag looked up into a variable and type-switched later in the same body
			// (`val, ok := meta["_pinned"]; if !ok { return false }; switch v := val.(type) {`)
			pinVars := map[types.Object]bool{}
			ast.Inspect(body, func(m ast.Node) bool {
				as, ok := m.(*ast.AssignStmt)
				if !ok || len(as.Rhs) != 1 || len(as.Lhs) == 0 {
					return true
				}
				if ix, ok := as.Rhs[0].(*ast.IndexExpr); ok {
					if tv := info.Types[ix.Index]; tv.Value != nil && tv.Value.Kind() == constant.String && constant.StringVal(tv.Value) == "_pinned" {
						if id, ok := as.Lhs[0].(*ast.Ident); ok {
							pinVars[info.ObjectOf(id)] = true
						}
					}
				}
				return true
			})
			ast.Inspect(body, func(m ast.Node) bool {
				ts, ok := m.(*ast.TypeSwitchStmt)
				if !ok {
					return true
				}
				var subj ast.Expr
				switch a := ts.Assign.(type) {
				case *ast.AssignStmt:
					if len(a.Rhs) == 1 {
						if ta, ok := a.Rhs[0].(*ast.TypeAssertExpr); ok {
							subj = ta.X
						}
					}
				case *ast.ExprStmt:
					if ta, ok := a.X.(*ast.TypeAssertExpr); ok {
						subj = ta.X
					}
				}
				if id, ok := subj.(*ast.Ident); ok && pinVars[info.ObjectOf(id)] {
					for _, st := range ts.Body.List {
						for _, e := range st.(*ast.CaseClause).List {
							pinForms[types.TypeString(info.TypeOf(e), nil)] = true
						}
					}
				}
				return true
			})
		}
		// forms of the pin flag: a type switch / assertions on the value looked up under "_pinned"
		ast.Inspect(fi.Decl.Body, func(m ast.Node) bool {
			ifs, ok := m.(*ast.IfStmt)
			if !ok || ifs.Init == nil {
				return true
			}
			as, ok := ifs.Init.(*ast.AssignStmt)
			if !ok || len(as.Rhs) != 1 {
				return true
			}
			ix, ok := as.Rhs[0].(*ast.IndexExpr)
			if !ok {
				if ta, ok := as.Rhs[0].(*ast.TypeAssertExpr); ok {
					if ix2, ok := ta.X.(*ast.IndexExpr); ok {
						if tv := info.Types[ix2.Index]; tv.Value != nil && constant.StringVal(tv.Value) == "_pinned" && ta.Type != nil {
							pinForms[types.TypeString(info.TypeOf(ta.Type), nil)] = true
						}
					}
				}
				return true
			}
			if tv := info.Types[ix.Index]; tv.Value == nil || tv.Value.Kind() != constant.String || constant.StringVal(tv.Value) != "_pinned" {
				return true
			}
			ast.Inspect(ifs.Body, func(k ast.Node) bool {
				if ts, ok := k.(*ast.TypeSwitchStmt); ok {
					for _, st := range ts.Body.List {
						for _, e := range st.(*ast.CaseClause).List {
							pinForms[types.TypeString(info.TypeOf(e), nil)] = true
						}
					}
				}
				return true
			})
			return true
		})
		var missing []string
		for _, k := range want {
			if !keys[k] {
				missing = append(missing, k)
			}
		}
		r.Cond(len(missing) == 0, "SIB-3", name+":keys", w.Pos(fi.Decl.Pos()), "consults all six decay keys", name+" applies time decay without consulting "+strings.Join(missing, ", ")+": the same memory gets a different decay factor on this search path (a pinned memory is decayed / a reinforcement does not move the reference time)")
		r.Cond(pinForms["bool"] && pinForms["string"], "SIB-3", name+":pin-forms", w.Pos(fi.Decl.Pos()), "accepts the pin flag as bool and as string", name+" no longer accepts the pin flag in both documented forms (bool true and string \"true\"): a memory pinned in the other form decays")
		// pinned / no-decay-layer tests dominate the factor computation; the factor is multiplied into the score
		fn := w.SSAFunc(fi.Obj)
		calls2 := findInstrs(fn, callsTo(dm))
		for i, c := range calls2 {
			mult := false
			for _, ref := range *c.(*ssa.Call).Referrers() {
				if bo, ok := ref.(*ssa.BinOp); ok && bo.Op == token.MUL {
					mult = true
				}
			}
			r.Cond(mult, "SIB-3", fmt.Sprintf("%s:score=similarity*factor#%d", name, i+1), w.Pos(c.Pos()), "the factor is multiplied into the score", name+" does not multiply the score by the decay factor")
		}
	}
	// the siblings consult each key under the same circumstances: a key that one caller reads on every path to its
	// decay computation is read on every path by the others too (an input that is fetched only under some condition —
	// say, a test of the index default where the per-memory override decides — gives the same memory a different
	// factor on that search path)
	{
		type site struct {
			name   string
			pos    token.Pos
			always map[string]bool
		}
		var sites []site
		for _, fi := range w.ModuleFuncs() {
			if relPkg(fi.Obj) != "pkg/engine" || fi.Decl.Body == nil || fi.Obj == dm {
				continue
			}
			fn := w.SSAFunc(fi.Obj)
			if fn == nil {
				continue
			}
			for _, f := range append([]*ssa.Function{fn}, closuresOf(fn)...) {
				cs := findInstrs(f, callsTo(dm))
				if len(cs) == 0 {
					continue
				}
				st := site{name: shortName(fi.Obj), pos: cs[0].Pos(), always: map[string]bool{}}
				for _, k := range want {
					kk := k
					rawLk := func(in ssa.Instruction) bool {
						lk, ok := in.(*ssa.Lookup)
						if !ok {
							return false
						}
						sv, ok := constString(lk.Index)
						return ok && sv == kk
					}
					isLk := func(in ssa.Instruction) bool { // … or a helper of the package that always looks the key up
						if rawLk(in) {
							return true
						}
						c, ok := in.(*ssa.Call)
						if !ok {
							return false
						}
						g := c.Call.StaticCallee()
						return g != nil && g.Pkg == f.Pkg && g.Object() != dm && alwaysPerforms(g, rawLk)
					}
					found, _ := pathQuery{fn: f, target: callsTo(dm), avoid: isLk}.find(entryPos(f))
					st.always[k] = !found && len(findInstrs(f, isLk)) > 0
				}
				sites = append(sites, st)
			}
		}
		for _, k := range want {
			any := false
			for _, st := range sites {
				if st.always[k] {
					any = true
				}
			}
			for _, st := range sites {
				r.Cond(!any || st.always[k], "SIB-3", st.name+":consults-"+k+"-like-its-siblings", w.Pos(st.pos), "the key is read on every path to the decay computation wherever a sibling does so", st.name+" reads "+k+" only on some paths to its decay computation while another search path reads it always: the same memory gets a different decay factor here (for example the access count is skipped unless the index default model is Ebbinghaus, although the per-memory override selects the model)")
			}
		}
	}
	if n < 2 {
		r.Und("SIB-3", "anchor:decay-sites", "", fmt.Sprintf("%d decay application sites found (expected searchWithFusion and VSearchWithScores)", n))
	}
}

// ruleGRDreinforce: VReinforce stores count+1 and the current time.
func ruleGRDreinforce(w *World, r *Report) {
	r.Doc("GRD-reinforce", "VReinforce writes _access_count = previous + 1 (constant 1) and _last_accessed = now into the metadata it journals and stores", 1)
	fi := w.Func("pkg/engine", "Engine.VReinforce")
	if fi == nil {
		r.Und("GRD-reinforce", "anchor:VReinforce", "", "anchor lost")
		return
	}
	top := w.SSAFunc(fi.Obj)
	plusOne, now := false, false
	// a value of VReinforce or — through a parameter of a helper extracted from it — of its call sites
	var leavesUp func(f *ssa.Function, v ssa.Value, depth int) []ssa.Value
	leavesUp = func(f *ssa.Function, v ssa.Value, depth int) []ssa.Value {
		var out []ssa.Value
		for _, l := range arithLeaves(v, 0) {
			p := capturedParam(l)
			if p == nil || p.Parent() == top || p.Parent().Parent() != nil || depth > 2 {
				out = append(out, l)
				continue
			}
			idx := -1
			for i, hp := range p.Parent().Params {
				if hp == p {
					idx = i
				}
			}
			sites := callSitesOf(top, p.Parent())
			for _, h := range w.extractedHelpers(top) {
				if h != p.Parent() {
					sites = append(sites, callSitesOf(h, p.Parent())...)
				}
			}
			if idx < 0 || len(sites) == 0 {
				out = append(out, l)
				continue
			}
			for _, cs := range sites {
				if idx < len(cs.Call.Args) {
					out = append(out, leavesUp(cs.Parent(), cs.Call.Args[idx], depth+1)...)
				}
			}
		}
		return out
	}
	for _, f := range append(append([]*ssa.Function{top}, closuresOf(top)...), w.extractedHelpers(top)...) {
		for _, b := range f.Blocks {
			for _, in := range b.Instrs {
				mu, ok := in.(*ssa.MapUpdate)
				if !ok {
					continue
				}
				k, ok := mu.Key.(*ssa.Const)
				if !ok || k.Value == nil || k.Value.Kind() != constant.String {
					continue
				}
				switch constant.StringVal(k.Value) {
				case "_access_count":
					v := mu.Value
					if mi, ok := v.(*ssa.MakeInterface); ok {
						v = mi.X
					}
					if bo, ok := v.(*ssa.BinOp); ok && bo.Op == token.ADD {
						for _, side := range []ssa.Value{bo.X, bo.Y} {
							if c, ok := side.(*ssa.Const); ok && c.Value != nil && (c.Value.ExactString() == "1") {
								plusOne = true
							}
						}
					}
				case "_last_accessed":
					for _, l := range leavesUp(f, mu.Value, 0) {
						if ex, ok := l.(*ssa.Extract); ok {
							l = ex.Tuple
						}
						if c, ok := l.(*ssa.Call); ok {
							if o := calleeObj(&c.Call); o != nil && o.Pkg() != nil && o.Pkg().Path() == "time" {
								// Unix()/UnixNano()/… of a time.Now()
								if len(c.Call.Args) > 0 {
									if nc, ok := c.Call.Args[0].(*ssa.Call); ok && isCallTo(nc, "time", "Now") {
										now = true
									}
								}
								if isCallTo(c, "time", "Now") {
									now = true
								}
							}
						}
					}
				}
			}
		}
	}
	r.Cond(plusOne, "GRD-reinforce", "VReinforce:count+1", w.Pos(fi.Decl.Pos()), "_access_count = previous + 1", "VReinforce no longer stores previous count + 1 into _access_count")
	r.Cond(now, "GRD-reinforce", "VReinforce:last-accessed=now", w.Pos(fi.Decl.Pos()), "_last_accessed = now", "VReinforce no longer moves _last_accessed to the current time")
}

// ruleGRDdecayall: every fused candidate is decayed, not only those of one search leg.
func ruleGRDdecayall(w *World, r *Report) {
	r.Doc("GRD-decayall", "in searchWithFusion the loop that applies the time-decay factor ranges over the very map it writes the decayed score into (the fused scores, which the final ranking reads): a candidate contributed only by the text leg is decayed like one found by the vector leg", 1)
	fi := w.Func("pkg/engine", "Engine.searchWithFusion")
	if fi == nil {
		r.Und("GRD-decayall", "anchor:Engine.searchWithFusion", "", "anchor lost")
		return
	}
	fn := w.SSAFunc(fi.Obj)
	n := 0
	for _, in := range findInstrs(fn, func(in ssa.Instruction) bool { return isModCall(in, "pkg/engine", "calculateTimeDecayModel") }) {
		c := in.(*ssa.Call)
		// the store of the decayed score: a MapUpdate whose value is a product involving the factor
		for _, b := range fn.Blocks {
			for _, x := range b.Instrs {
				mu, ok := x.(*ssa.MapUpdate)
				if !ok {
					continue
				}
				bo, ok := mu.Value.(*ssa.BinOp)
				if !ok || bo.Op != token.MUL || !(phiReaches(bo.X, c) || phiReaches(bo.Y, c) || bo.X == ssa.Value(c) || bo.Y == ssa.Value(c)) {
					continue
				}
				n++
				// the enclosing loop ranges over mu.Map: the key comes out of a Next on a Range over that map
				okRange := false
				for _, leaf := range phiLeaves(mu.Key) {
					if ex, ok := leaf.(*ssa.Extract); ok {
						if nx, ok := ex.Tuple.(*ssa.Next); ok {
							if rg, ok := nx.Iter.(*ssa.Range); ok && rg.X == mu.Map {
								okRange = true
							}
						}
					}
				}
				r.Cond(okRange, "GRD-decayall", fmt.Sprintf("searchWithFusion:decay-store#%d", n), w.Pos(mu.Pos()), "the decayed score is written for a key taken from iterating the fused-score map itself", "searchWithFusion applies the decay factor while walking something other than the fused-score map (one leg's result list): memories that enter the fusion only through the other leg keep factor 1 whatever their age — an old keyword match outranks its fresh twin")
			}
		}
	}
	if n == 0 {
		r.Und("GRD-decayall", "anchor:searchWithFusion:decay-store", w.Pos(fi.Decl.Pos()), "no store of score×factor into a map found after calculateTimeDecayModel")
	}
}

// ruleSIBmetatypes: system metadata keys are written with the dynamic type their readers assert.
func ruleSIBmetatypes(w *World, r *Report) {
	r.Doc("SIB-metatypes", "every system metadata key (\"_…\") that some engine code reads with a single-type assertion (v.(float64)) is written, wherever the engine writes it, with exactly that dynamic type: in memory the value keeps the Go type it was stored with (only a restart turns numbers into float64), so an int written where float64 is asserted is silently read as absent", 1)
	type rd struct {
		t   types.Type
		pos token.Pos
		fn  string
	}
	readers := map[string][]rd{}
	// the types one function asserts for one key: a function that tries several (a type switch, or one comma-ok assertion
	// after the other, each on a look-up of its own) is a tolerant reader, not a single-type one
	assertedIn := map[string]map[string]bool{}
	type wr struct {
		t   types.Type
		pos token.Pos
		fn  string
	}
	writers := map[string][]wr{}
	for _, fi := range w.ModuleFuncs() {
		if relPkg(fi.Obj) != "pkg/engine" {
			continue
		}
		root := w.SSAFunc(fi.Obj)
		if root == nil {
			continue
		}
		for _, fn := range append([]*ssa.Function{root}, closuresOf(root)...) {
			for _, b := range fn.Blocks {
				for _, in := range b.Instrs {
					switch x := in.(type) {
					case *ssa.TypeAssert:
						lk, ok := x.X.(*ssa.Lookup)
						if !ok {
							if ex, ok2 := x.X.(*ssa.Extract); ok2 {
								lk, ok = ex.Tuple.(*ssa.Lookup)
							}
						}
						if !ok || lk == nil {
							continue
						}
						k, isC := constString(lk.Index)
						if !isC || !strings.HasPrefix(k, "_") {
							continue
						}
						if _, isIface := x.AssertedType.Underlying().(*types.Interface); isIface {
							continue
						}
						// a type switch asserts several types on the same value: tolerant reader
						multi := 0
						if x.X.Referrers() != nil {
							for _, ref := range *x.X.Referrers() {
								if _, ok := ref.(*ssa.TypeAssert); ok {
									multi++
								}
							}
						}
						if multi > 1 {
							continue
						}
						readers[k] = append(readers[k], rd{x.AssertedType, x.Pos(), shortName(fi.Obj)})
						if assertedIn[shortName(fi.Obj)+"\x00"+k] == nil {
							assertedIn[shortName(fi.Obj)+"\x00"+k] = map[string]bool{}
						}
						assertedIn[shortName(fi.Obj)+"\x00"+k][x.AssertedType.String()] = true
					case *ssa.MapUpdate:
						k, isC := constString(x.Key)
						if !isC || !strings.HasPrefix(k, "_") {
							continue
						}
						if mi, ok := x.Value.(*ssa.MakeInterface); ok {
							writers[k] = append(writers[k], wr{mi.X.Type(), x.Pos(), shortName(fi.Obj)})
						}
					}
				}
			}
		}
	}
	for k, rs := range readers {
		var strict []rd
		for _, rv := range rs {
			if len(assertedIn[rv.fn+"\x00"+k]) <= 1 {
				strict = append(strict, rv)
			}
		}
		if len(strict) == 0 {
			delete(readers, k)
		} else {
			readers[k] = strict
		}
	}
	n := 0
	var keys []string
	for k := range readers {
		keys = append(keys, k)
	}
	sort.Strings(keys)
	for _, k := range keys {
		for wi, wv := range writers[k] {
			n++
			bad := ""
			for _, rv := range readers[k] {
				if !types.Identical(rv.t, wv.t) {
					bad = fmt.Sprintf("%s asserts %s", rv.fn, rv.t)
				}
			}
			r.Cond(bad == "", "SIB-metatypes", fmt.Sprintf("key:%s:writer#%d:%s", k, wi+1, wv.fn), w.Pos(wv.pos), fmt.Sprintf("written as %s, which every single-type reader asserts", wv.t), fmt.Sprintf("%s stores %q as %s but %s: for values written by the running process the assertion fails silently and the reader falls back to its default (for _access_count: zero reinforcements — a memory reinforced six times decays like one never accessed) until a restart re-types the number", wv.fn, k, wv.t, bad))
		}
	}
	r.Count("typed_system_key_writes", n)
	if n < 2 {
		r.Und("SIB-metatypes", "anchor:system-key-writes", "", fmt.Sprintf("expected ≥2 writes of system keys that are read with a type assertion, found %d", n))
	}
}

// ruleSIBnumtypes: numeric metadata has ONE dynamic type after every decoding path. The secondary indexes, the decay
// inputs and the reinforcement counter all assert float64; a decoder that is switched to json.Number on one
// persistence path (snapshot restore) makes numeric filters, access counts and typed reads differ by how the state was
// reached.
func ruleSIBnumtypes(w *World, r *Report) {
	r.Doc("SIB-numtypes", "no decoder of persisted state in pkg/core, pkg/engine or pkg/persistence enables json.Decoder.UseNumber: numeric metadata is float64 whichever path (log replay, snapshot restore, request) produced it", 1)
	n := 0
	for _, fi := range w.ModuleFuncs() {
		rp := relPkg(fi.Obj)
		if !(strings.HasPrefix(rp, "pkg/core") || rp == "pkg/engine" || rp == "pkg/persistence") {
			continue
		}
		fn := w.SSAFunc(fi.Obj)
		if fn == nil {
			continue
		}
		for _, f := range append([]*ssa.Function{fn}, closuresOf(fn)...) {
			for _, in := range findInstrs(f, func(in ssa.Instruction) bool { return isCallTo(in, "encoding/json", "Decoder.UseNumber") }) {
				n++
				r.Bad("SIB-numtypes", shortName(fi.Obj)+":decodes-numbers-as-json.Number", w.Pos(in.Pos()), shortName(fi.Obj)+" decodes persisted JSON with UseNumber: numbers come back as json.Number on this path and as float64 on every other one — numeric filters stop matching restored nodes (only float64 enters the B-tree), access counts restart, typed reads differ after a restart through this path")
			}
		}
	}
	if n == 0 {
		r.Ok("SIB-numtypes", "persisted-json-decodes-numbers-as-float64", "", "no UseNumber in the persistence layers")
	}
}
