package main

// rules_r11.go — round 11: rules written for seeded changes the earlier rules let through.

import (
	"fmt"
	"go/types"
	"sort"
	"strings"

	"golang.org/x/tools/go/ssa"
)

// ---------------------------------------------------------------------------------------------------------------
// GRD-vacuum-all (C10): VacuumGraph looks at every edge of every adjacency list.
// A list is ordered by creation, not by deletion: whether its first (or last, or any one) entry is retained says
// nothing about the others. A fast path that leaves a relation's list alone on the strength of one entry keeps
// soft-deleted versions alive in one view that the other view (whose list has another head) has already lost.
// Structural part decided: in every loop over a map of relation -> []GraphEdge, each iteration walks the list — there is
// no way from the loop header back to it that goes around the nested loop over the edges.
// ---------------------------------------------------------------------------------------------------------------
func ruleGRDvacuumAll(w *World, r *Report) {
	r.Doc("GRD-vacuum-all", "in DB.VacuumGraph every iteration of a loop over a relation map (relation -> list of edge versions) reaches the nested loop over that relation's edges: no relation's list is left alone on the strength of one of its entries", 2)
	fi := w.Func("pkg/core", "DB.VacuumGraph")
	if fi == nil {
		r.Und("GRD-vacuum-all", "anchor:DB.VacuumGraph", "", "anchor lost")
		return
	}
	root := w.SSAFunc(fi.Obj)
	scope := append([]*ssa.Function{root}, closuresOf(root)...)
	for _, h := range w.extractedHelpers(root) {
		scope = append(append(scope, h), closuresOf(h)...)
	}
	isEdgeList := func(t types.Type) bool {
		m, ok := t.Underlying().(*types.Map)
		if !ok {
			return false
		}
		sl, ok := m.Elem().Underlying().(*types.Slice)
		if !ok {
			return false
		}
		nt, ok := sl.Elem().(*types.Named)
		if !ok {
			return false
		}
		st, ok := nt.Underlying().(*types.Struct)
		if !ok {
			return false
		}
		for i := 0; i < st.NumFields(); i++ {
			if fieldNameAt(nt, i) == "DeletedAt" {
				return true // GraphEdge, ReverseEdge: an edge version with its soft-delete time
			}
		}
		return false
	}
	n := 0
	for _, f := range scope {
		for _, b := range f.Blocks {
			for _, in := range b.Instrs {
				nx, ok := in.(*ssa.Next)
				if !ok {
					continue
				}
				rg, ok := nx.Iter.(*ssa.Range)
				if !ok || !isEdgeList(rg.X.Type()) {
					continue
				}
				n++
				at := nx.Pos()
				if !at.IsValid() {
					at = rg.Pos()
				}
				if !at.IsValid() {
					at = rg.X.Pos()
				}
				h := nx.Block()
				body := naturalLoop(h)
				// the nested loops of this relation loop
				var inner []*ssa.BasicBlock
				for _, c := range f.Blocks {
					if c == h || !body[c] {
						continue
					}
					isHeader := false
					for _, p := range c.Preds {
						if c.Dominates(p) {
							isHeader = true
						}
					}
					if isHeader {
						inner = append(inner, c)
					}
				}
				key := fmt.Sprintf("%s:relation-loop#%d:every-list-is-walked", shortFn(f), n)
				if len(inner) == 0 {
					// the per-edge work may be a helper called with the list: then the call is what every iteration has to reach
					r.Und("GRD-vacuum-all", key, w.Pos(at), "the loop over the relations has no nested loop over the edges (shape not recognised)")
					continue
				}
				bl := map[edgeKey]bool{}
				for c := range body {
					for si, s := range c.Succs {
						if !body[s] {
							bl[edgeKey{c, si}] = true
						}
					}
				}
				innerSet := map[*ssa.BasicBlock]bool{}
				for _, c := range inner {
					innerSet[c] = true
				}
				last := h.Instrs[len(h.Instrs)-1]
				target := func(x ssa.Instruction) bool { return x == h.Instrs[0] }
				avoid := func(x ssa.Instruction) bool { return innerSet[x.Block()] }
				found, wit := (pathQuery{fn: f, target: target, avoid: avoid, blocked: bl}).find(posOf(last))
				r.Cond(!found, "GRD-vacuum-all", key, w.Pos(at), "every iteration over a relation walks that relation's edge list", "the vacuum leaves some relation's list alone without looking at its entries (a `continue` before the loop over the edges): lists are ordered by creation, not by deletion, so a retained first entry shields later entries that were soft-deleted before the cutoff — the outgoing and the incoming list of the same edges have different heads and are pruned differently, and an as-of query sees the edge in one view only", w.witness(wit)...)
			}
		}
	}
	if n == 0 {
		r.Und("GRD-vacuum-all", "DB.VacuumGraph:relation-loops", w.Pos(fi.Decl.Pos()), "no loop over a relation map found in DB.VacuumGraph or its helpers (shape not recognised)")
	}
	r.Count("relation_loops", n)
}

// ---------------------------------------------------------------------------------------------------------------
// GRD-live-memo (C08, C06): the set of live ids that every `!=` clause complements is computed from the nodes.
// Index.GetAllValidNodeIDs walks the node slice on every call. If it ever answers from a memo (a path to a successful
// return that goes around the walk), the memo has to be dropped by every function of the package that changes which
// nodes are live — registers a node in the id maps, replaces the node slice, or sets a node's Deleted flag. The rule
// finds the memo fields by itself (fields of the index this function both reads and fills) and asks each such
// function for a write to them.
// ---------------------------------------------------------------------------------------------------------------
func ruleGRDliveMemo(w *World, r *Report) {
	r.Doc("GRD-live-memo", "Index.GetAllValidNodeIDs computes the live set from the node slice on every successful call; if a path answers from a memo field instead, every function of pkg/core/hnsw that registers a node in the id maps, replaces the node slice or sets a Deleted flag also writes that field", 1)
	fi := w.Func("pkg/core/hnsw", "Index.GetAllValidNodeIDs")
	getNodes := w.FuncObj("pkg/core/hnsw", "Index.getNodes")
	if fi == nil {
		r.Und("GRD-live-memo", "anchor:Index.GetAllValidNodeIDs", "", "anchor lost")
		return
	}
	fn := w.SSAFunc(fi.Obj)
	// the walk: a loop in the function (the node slice is walked by index or by range), after the slice was obtained
	walks := func(in ssa.Instruction) bool {
		if getNodes != nil && callsTo(getNodes)(in) {
			return true
		}
		// (inlined accessor: an atomic load of the `nodes` field)
		if c, ok := in.(*ssa.Call); ok {
			if fa := recvFieldAddr(c); fa != nil {
				if _, f := structFieldName(fa.X.Type(), fa.Field); f == "nodes" {
					return true
				}
			}
		}
		return false
	}
	if len(findInstrs(fn, walks)) == 0 {
		r.Und("GRD-live-memo", "Index.GetAllValidNodeIDs:walk", w.Pos(fi.Decl.Pos()), "the function does not obtain the node slice (shape not recognised)")
		return
	}
	okReturn := func(in ssa.Instruction) bool {
		ret, ok := in.(*ssa.Return)
		if !ok || len(ret.Results) == 0 {
			return false
		}
		return !isNilConst(ret.Results[0])
	}
	found, wit := (pathQuery{fn: fn, target: okReturn, avoid: walks}).find(entryPos(fn))
	if !found {
		r.Cond(true, "GRD-live-memo", "Index.GetAllValidNodeIDs:computed-from-the-nodes", w.Pos(fi.Decl.Pos()), "every successful return comes after the node slice was obtained: nothing is answered from a memo", "")
		return
	}
	// memo fields: fields of the receiver that the function reads and that it also fills
	read, filled := map[string]bool{}, map[string]bool{}
	for _, b := range fn.Blocks {
		for _, in := range b.Instrs {
			switch x := in.(type) {
			case *ssa.Call:
				if fa := recvFieldAddr(x); fa != nil {
					if o, f := structFieldName(fa.X.Type(), fa.Field); strings.HasSuffix(o, "Index") {
						switch x.Call.StaticCallee().Name() {
						case "Load":
							read[f] = true
						case "Store", "Swap", "CompareAndSwap":
							filled[f] = true
						}
					}
				}
			case *ssa.Store:
				if fa, ok := x.Addr.(*ssa.FieldAddr); ok {
					if o, f := structFieldName(fa.X.Type(), fa.Field); strings.HasSuffix(o, "Index") {
						filled[f] = true
					}
				}
			case *ssa.UnOp:
				if fa, ok := x.X.(*ssa.FieldAddr); ok {
					if o, f := structFieldName(fa.X.Type(), fa.Field); strings.HasSuffix(o, "Index") {
						read[f] = true
					}
				}
			}
		}
	}
	var memos []string
	for f := range read {
		if filled[f] {
			memos = append(memos, f)
		}
	}
	sort.Strings(memos)
	if len(memos) == 0 {
		r.Cond(false, "GRD-live-memo", "Index.GetAllValidNodeIDs:computed-from-the-nodes", w.Pos(fi.Decl.Pos()), "", "Index.GetAllValidNodeIDs can return a set without having looked at the nodes, and not from a memo this function fills: the `!=` and NOT clauses complement against a set that does not follow adds and deletes", w.witness(wit)...)
		return
	}
	// every function that changes which nodes are live writes each memo
	changesLive := func(in ssa.Instruction) string {
		switch x := in.(type) {
		case *ssa.MapUpdate:
			if ld, ok := x.Map.(*ssa.UnOp); ok {
				if fa, ok := ld.X.(*ssa.FieldAddr); ok {
					if _, f := structFieldName(fa.X.Type(), fa.Field); f == "internalToExternalID" || f == "externalToInternalID" {
						return "registers a node in " + f
					}
				}
			}
		case *ssa.Store:
			if fa, ok := x.Addr.(*ssa.FieldAddr); ok {
				if _, f := structFieldName(fa.X.Type(), fa.Field); f == "internalToExternalID" || f == "externalToInternalID" {
					return "replaces " + f
				}
			}
		case *ssa.Call:
			if fa := recvFieldAddr(x); fa != nil {
				_, f := structFieldName(fa.X.Type(), fa.Field)
				if f == "Deleted" && x.Call.StaticCallee().Name() == "Store" {
					if _, fresh := fa.X.(*ssa.Alloc); fresh {
						return "" // a node built here (a copy for a snapshot), not a node of the index
					}
					return "sets a node's Deleted flag"
				}
				if f == "nodes" && x.Call.StaticCallee().Name() == "Store" {
					return "replaces the node slice"
				}
			}
		}
		return ""
	}
	writesMemo := func(g *ssa.Function, memo string) bool {
		for _, f := range append([]*ssa.Function{g}, closuresOf(g)...) {
			for _, b := range f.Blocks {
				for _, in := range b.Instrs {
					switch x := in.(type) {
					case *ssa.Call:
						if fa := recvFieldAddr(x); fa != nil {
							if _, fld := structFieldName(fa.X.Type(), fa.Field); fld == memo && x.Call.StaticCallee().Name() != "Load" {
								return true
							}
						}
					case *ssa.Store:
						if fa, ok := x.Addr.(*ssa.FieldAddr); ok {
							if _, fld := structFieldName(fa.X.Type(), fa.Field); fld == memo {
								return true
							}
						}
					}
				}
			}
		}
		return false
	}
	nm := 0
	for _, g := range w.ModuleFuncs() {
		if relPkg(g.Obj) != "pkg/core/hnsw" || g.Obj == fi.Obj || !strings.HasPrefix(shortName(g.Obj), "Index.") {
			continue // (a constructor starts with no memo; a node's own decoder does not know the index)
		}
		gf := w.SSAFunc(g.Obj)
		if gf == nil {
			continue
		}
		what, at := "", ssa.Instruction(nil)
		for _, f := range append([]*ssa.Function{gf}, closuresOf(gf)...) {
			for _, b := range f.Blocks {
				for _, in := range b.Instrs {
					if s := changesLive(in); s != "" && what == "" {
						what, at = s, in
					}
				}
			}
		}
		if what == "" {
			continue
		}
		// a setter that only replaces the node slice on behalf of its callers (setNodes) is judged at its callers
		if shortName(g.Obj) == "Index.setNodes" {
			continue
		}
		for _, memo := range memos {
			nm++
			r.Cond(writesMemo(gf, memo), "GRD-live-memo", shortName(g.Obj)+":drops-memo:"+memo, w.Pos(at.Pos()), "the function that changes which nodes are live also writes the memo", shortName(g.Obj)+" "+what+" but never writes Index."+memo+", the memo Index.GetAllValidNodeIDs answers from: after this function ran, `!=` and NOT filters complement against the set of live ids as it was before — nodes it added are missing from the answers (nodes it deleted are still in them) until some other writer happens to drop the memo")
		}
	}
	r.Count("memo_invalidation_sites", nm)
}

// recvFieldAddr: for a call of a method on a field of a struct (h.liveIDs.Store(x), node.Deleted.Store(true)), the
// FieldAddr of that field; nil otherwise.
func recvFieldAddr(c *ssa.Call) *ssa.FieldAddr {
	if c.Call.IsInvoke() || c.Call.StaticCallee() == nil || c.Call.StaticCallee().Signature.Recv() == nil || len(c.Call.Args) == 0 {
		return nil
	}
	fa, _ := c.Call.Args[0].(*ssa.FieldAddr)
	return fa
}
