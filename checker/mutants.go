package main

// mutants.go — overlay rewrites used by the thorough tier to validate the analyser itself.
// Each entry: a unique source fragment of the CURRENT tree, its replacement, and the rule+construct
// the analyser must report. A fragment that no longer occurs exactly once is skipped (reported as such).

func init() {
	addMutants("C01",
		mutant{"auth-bypasses-journal", "internal/server/server.go", "auth.NewJWTProvider(journaledKV{eng})", "auth.NewJWTProvider(eng.DB.GetKVStore())", "JRN-2", "pkg/auth"},
		mutant{"vadd-arm-ignores-restored-index", "pkg/engine/recovery.go", "if idx, ok := lookupIndex(idxName); ok {\n\t\t\t\t\tvec, err := parseVectorFromString(vecStr)", "if idx, ok := indexes[idxName]; ok {\n\t\t\t\t\tvec, err := parseVectorFromString(vecStr)", "CDC-8", "arm:VADD"},
		mutant{"vlink-not-journaled", "pkg/engine/graph.go", "\tif err := e.AOF.Write(cmd); err != nil {\n\t\treturn err\n\t}\n\n\t// 2. In-Memory Update (Blazing fast O(1))", "\t_ = cmd\n\n\t// 2. In-Memory Update (Blazing fast O(1))", "JRN-1", "VLink"},
		mutant{"command-without-replay-arm", "pkg/engine/ops.go", "persistence.FormatCommand(\"VDEL\", []byte(indexName), []byte(id))", "persistence.FormatCommand(\"VDELETE\", []byte(indexName), []byte(id))", "CDC-1", "written:VDELETE"},
		mutant{"vcreate-option-only-written", "pkg/engine/ops.go", "args = append(args, []byte(\"MEMORY_CONFIG\"), memBytes)\n\t\t}\n\t}\n\n\t// 3. Write to AOF", "args = append(args, []byte(\"MEMORY_CFG\"), memBytes)\n\t\t}\n\t}\n\n\t// 3. Write to AOF", "CDC-3", "key:MEMORY_CFG"},
		mutant{"vcompress-not-committed", "pkg/engine/ops.go", "\tif err := e.SaveSnapshot(); err != nil {\n\t\treturn fmt.Errorf(\"index compressed in memory but not persisted: %w\", err)\n\t}\n\treturn nil", "\treturn nil", "JRN-1", "VCompress"},
		mutant{"vmeta-arity-tightened", "pkg/engine/recovery.go", "// VMETA <IndexName> <ID> <MetadataJSON>\n\t\t\tif len(cmd.Args) == 3 {", "// VMETA <IndexName> <ID> <MetadataJSON>\n\t\t\tif len(cmd.Args) == 4 {", "CDC-2", "arity:VMETA"},
	)
	addMutants("C03",
		mutant{"payload-cap-raised-beyond-memory", "pkg/persistence/frame.go", "\tif length > MaxPayloadSize {\n\t\treturn nil, HeaderSize, fmt.Errorf(", "\tif uint64(length) > MaxPayloadSize*1024 {\n\t\treturn nil, HeaderSize, fmt.Errorf(", "CDC-5", "ReadFrame"},
		mutant{"args-cap-removed", "pkg/persistence/resp.go", "\tif numArgs > MaxArgsPerCommand {\n\t\treturn nil, fmt.Errorf(\"too many arguments: %d exceeds maximum %d\", numArgs, MaxArgsPerCommand)\n\t}\n", "", "CDC-5", "ParseCommand"},
		mutant{"payload-returned-before-crc", "pkg/persistence/frame.go", "\tif actualCRC != expectedCRC {\n\t\treturn nil, HeaderSize + int(length), ErrChecksumMismatch\n\t}\n", "\tif actualCRC != expectedCRC && length > 16 {\n\t\treturn nil, HeaderSize + int(length), ErrChecksumMismatch\n\t}\n", "GRD-crc", "ReadFrame"},
		mutant{"checksum-error-refuses-start", "pkg/engine/recovery.go", "\t\t\t// Case B: Corruption (Incomplete write or Bit rot)", "\t\t\tif errors.Is(err, persistence.ErrChecksumMismatch) {\n\t\t\t\treturn err\n\t\t\t}\n\t\t\t// Case B: Corruption (Incomplete write or Bit rot)", "CDC-6", "loop-error-return"},
		mutant{"index-beyond-guard", "pkg/engine/recovery.go", "props := cmd.Args[6]", "props := cmd.Args[7]", "CDC-2", "arm:GLINK:Args[7]"},
		mutant{"nil-marker-rejected-again", "pkg/persistence/resp.go", "\t\tif err == nil && lenArg == -1 {\n\t\t\t// RESP null bulk string (\"$-1\\r\\n\"): FormatCommand emits it for a nil\n\t\t\t// argument. It carries no payload and no trailing CRLF.\n\t\t\targs[i] = nil\n\t\t\tcontinue\n\t\t}\n", "", "CDC-4", "nilarg:VADD"},
		mutant{"decimal-vector-text", "pkg/engine/ops.go", "\tvecStr := float32SliceToHexString(vector)\n\tvar metaBytes []byte", "\tvecStr := fmt.Sprint(vector)\n\tvar metaBytes []byte", "CDC-7", "vadd-vector"},
		mutant{"opcode-folded-into-magic-error", "pkg/persistence/frame.go", "if header[0] != MagicByte {", "if header[0] != MagicByte || header[1] != OpCodeCommand {", "CDC-6b", "ErrInvalidMagic"},
		mutant{"resync-skips-window-tail", "pkg/engine/recovery.go", "for i := 0; i < n; i++ {\n\t\t\tif buf[i] == persistence.MagicByte {", "for i := 0; i < n-1; i++ {\n\t\t\tif buf[i] == persistence.MagicByte {", "GRD-scan", "index-bound"},
		mutant{"resync-accepts-unparsed", "pkg/engine/recovery.go", "if _, parseErr := persistence.ParseCommand(cmdReader); parseErr == nil {\n\t\t\t\t\t\treturn candidatePos, true\n\t\t\t\t\t}", "_ = cmdReader\n\t\t\t\t\treturn candidatePos, true", "GRD-crc", "resyncAOF"},
	)
	addMutants("C02",
		mutant{"truncate-before-rename", "pkg/engine/recovery.go", "\t// STEP 4: Atomically rename snapshot file (atomic operation on POSIX)\n\tif err := os.Rename(tempSnap, e.snapPath); err != nil {\n\t\tos.Remove(tempSnap) // Clean up temp file on error\n\t\treturn fmt.Errorf(\"failed to rename snapshot file: %w\", err)\n\t}\n\n\t// STEP 5: Truncate AOF\n\t// Any writes that occurred during snapshot are still in the shadow buffer\n\tif err := e.AOF.Truncate(); err != nil {\n\t\treturn fmt.Errorf(\"failed to truncate AOF: %w\", err)\n\t}\n", "\tif err := e.AOF.Truncate(); err != nil {\n\t\treturn fmt.Errorf(\"failed to truncate AOF: %w\", err)\n\t}\n\tif err := os.Rename(tempSnap, e.snapPath); err != nil {\n\t\tos.Remove(tempSnap) // Clean up temp file on error\n\t\treturn fmt.Errorf(\"failed to rename snapshot file: %w\", err)\n\t}\n", "ORD-1", "Rename(tmp,snapPath)<AOF.Truncate"},
		mutant{"rename-error-ignored", "pkg/engine/recovery.go", "\tif err := os.Rename(tempSnap, e.snapPath); err != nil {\n\t\tos.Remove(tempSnap) // Clean up temp file on error\n\t\treturn fmt.Errorf(\"failed to rename snapshot file: %w\", err)\n\t}", "\tif err := os.Rename(tempSnap, e.snapPath); err != nil {\n\t\tos.Remove(tempSnap) // Clean up temp file on error\n\t\tslog.Warn(\"rename failed\", \"error\", err)\n\t}", "ORD-1", "Rename(tmp,snapPath)<AOF.Truncate"},
		mutant{"snapshot-written-in-place", "pkg/engine/recovery.go", "tempSnap := e.snapPath + \".tmp\"\n\tf, err := os.Create(tempSnap)", "tempSnap := e.snapPath + \".tmp\"\n\tf, err := os.Create(e.snapPath)", "ORD-1", "snapshot-written-to-temp"},
		mutant{"repair-not-synced", "pkg/engine/recovery.go", "\t\tif err := file.Sync(); err != nil {\n\t\t\treturn fmt.Errorf(\"failed to sync repaired AOF: %w\", err)\n\t\t}\n", "", "ORD-7", "truncate-then-sync"},
		mutant{"stale-rewrite-tmp-kept", "pkg/engine/recovery.go", "\tos.Remove(tempAof)\n\n\twriter, err := persistence.NewAOFWriter(tempAof, 0)", "\twriter, err := persistence.NewAOFWriter(tempAof, 0)", "ORD-3", "RewriteAOF"},
		mutant{"torn-tail-is-clean-eof", "pkg/engine/recovery.go", "\t\tif err == io.EOF {\n\t\t\tbreak // Clean end of file.\n\t\t}", "\t\tif err == io.EOF || errors.Is(err, persistence.ErrIncompleteFrame) {\n\t\t\tbreak // Clean end of file.\n\t\t}", "ORD-7b", "non-EOF-error"},
		mutant{"snapshot-fast-path", "pkg/engine/recovery.go", "\tdefer e.adminMu.Unlock()\n\treturn e.saveSnapshotLocked()", "\tdefer e.adminMu.Unlock()\n\tif atomic.LoadInt64(&e.dirtyCounter) == 0 {\n\t\treturn nil\n\t}\n\treturn e.saveSnapshotLocked()", "ORD-1b", "SaveSnapshot"},
		mutant{"replace-before-flush", "pkg/engine/recovery.go", "\tif err := writer.Flush(); err != nil {\n\t\treturn err\n\t}\n\twriter.Close()\n", "\twriter.Close()\n", "ORD-2", "temp.Flush"},
	)
	addMutants("C14",
		mutant{"flush-without-drain", "pkg/persistence/lazy_aof.go", "\t\tcase cmd := <-lw.cmdCh:\n\t\t\tdrainPending()\n", "\t\tcase cmd := <-lw.cmdCh:\n\t\t\t_ = drainPending\n", "ORD-5", "arm:cmdFlush"},
		mutant{"shadow-writes-dropped-on-failure", "pkg/engine/recovery.go", "\t\t\tfor _, write := range pending {\n\t\t\t\tif err := e.AOF.Write(write); err != nil {\n\t\t\t\t\tslog.Error(\"Failed to re-append shadow write after failed snapshot\", \"error\", err)\n\t\t\t\t}\n\t\t\t}\n", "\t\t\t_ = pending\n", "ORD-4", "saveSnapshotLocked"},
		mutant{"log-closed-before-background-stops", "pkg/engine/engine.go", "\t\te.wg.Wait() // Wait for background tasks\n", "", "ORD-8", "wg.Wait"},
		mutant{"bare-send-to-writer", "pkg/persistence/lazy_aof.go", "\tselect {\n\tcase <-lw.closedCh:\n\t\treturn fmt.Errorf(\"cannot write to closed LazyAOFWriter\")\n\tcase lw.writeCh <- writeRequest{data: data}:\n\t\treturn nil\n\t}", "\tlw.writeCh <- writeRequest{data: data}\n\treturn nil", "ORD-6", "send@"},
		mutant{"end-before-truncate", "pkg/engine/recovery.go", "\t// STEP 5: Truncate AOF\n\t// Any writes that occurred during snapshot are still in the shadow buffer\n\tif err := e.AOF.Truncate(); err != nil {\n\t\treturn fmt.Errorf(\"failed to truncate AOF: %w\", err)\n\t}\n\n\t// STEP 6: End snapshot mode and get accumulated writes\n\tsnapshotWrites, err := e.AOF.EndSnapshotMode()\n\tif err != nil {\n\t\treturn fmt.Errorf(\"failed to end snapshot mode: %w\", err)\n\t}\n", "\tsnapshotWrites, err := e.AOF.EndSnapshotMode()\n\tif err != nil {\n\t\treturn fmt.Errorf(\"failed to end snapshot mode: %w\", err)\n\t}\n\tif err := e.AOF.Truncate(); err != nil {\n\t\treturn fmt.Errorf(\"failed to truncate AOF: %w\", err)\n\t}\n", "ORD-1", "AOF.Truncate<EndSnapshotMode"},
	)
	addMutants("C05",
		mutant{"dimension-check-after-journal", "pkg/engine/ops.go", "\t// 1. Serialize inputs for AOF (before any mutation).\n\tvecStr := float32SliceToHexString(vector)", "\t// 1. Serialize inputs for AOF (before any mutation).\n\tif err := e.AOF.Write(\"x\"); err != nil {\n\t\treturn err\n\t}\n\tif len(vector) > 70000 {\n\t\treturn fmt.Errorf(\"vector too large\")\n\t}\n\tvecStr := float32SliceToHexString(vector)", "JRN-3", "Engine.VAdd:error-after-journal:error:vector_too_large"},
		mutant{"props-validated-after-journal", "pkg/engine/graph.go", "\tif err := e.AOF.Write(cmd); err != nil {\n\t\treturn err\n\t}\n\n\t// 2. In-Memory Update (Blazing fast O(1))", "\tif err := e.AOF.Write(cmd); err != nil {\n\t\treturn err\n\t}\n\tif err := validateProps(props); err != nil {\n\t\treturn err\n\t}\n\n\t// 2. In-Memory Update (Blazing fast O(1))", "JRN-3", "Engine.VLink:error-after-journal:validateProps"},
	)
}

func init() {
	addMutants("C06",
		mutant{"entrypoint-deleted-check-dropped", "pkg/core/hnsw/hnsw_index.go", "if isEpValid && !entryNode.Deleted.Load() {", "if isEpValid {", "GRD-admit", "push#1:not-deleted"},
		mutant{"neighbour-deleted-check-dropped", "pkg/core/hnsw/hnsw_index.go", "\t\t\t\tif !neighborNode.Deleted.Load() {\n\t\t\t\t\tresults.Push(neighborCandidate)", "\t\t\t\tif neighborNode != nil {\n\t\t\t\t\tresults.Push(neighborCandidate)", "GRD-admit", "push#2:not-deleted"},
		mutant{"allow-list-only-steers-traversal", "pkg/core/hnsw/hnsw_index.go", "\t\t\t\tif !allowList.Contains(neighborID) {\n\t\t\t\t\tcontinue\n\t\t\t\t}", "\t\t\t\t_ = allowList.Contains(neighborID)", "GRD-admit", "push#2:allow-listed"},
		mutant{"scope-united-with-filter", "pkg/engine/ops.go", "allowList.And(graphAllowList)", "allowList.Or(graphAllowList)", "GRD-scope", "intersect"},
		mutant{"truncate-before-sort", "pkg/engine/ops.go", "\tsort.Slice(finalRes, func(i, j int) bool {\n\t\treturn finalRes[i].score > finalRes[j].score\n\t})\n\n\tif len(finalRes) > k {\n\t\tfinalRes = finalRes[:k]\n\t}\n", "\tif len(finalRes) > k {\n\t\tfinalRes = finalRes[:k]\n\t}\n\tsort.Slice(finalRes, func(i, j int) bool {\n\t\treturn finalRes[i].score > finalRes[j].score\n\t})\n", "GRD-order", "sort<truncate"},
		mutant{"ascending-sort", "pkg/engine/ops.go", "return finalRes[i].score > finalRes[j].score", "return finalRes[i].score < finalRes[j].score", "GRD-order", "descending"},
		mutant{"empty-scope-check-only-when-both", "pkg/engine/ops.go", "\t\t\tallowList.And(graphAllowList)\n\t\t}\n\n\t\t// If intersection resulted in empty set, return immediately\n\t\tif allowList != nil && allowList.IsEmpty() {\n\t\t\treturn []fusedResult{}, nil\n\t\t}\n", "\t\t\tallowList.And(graphAllowList)\n\t\t\tif allowList.IsEmpty() {\n\t\t\t\treturn []fusedResult{}, nil\n\t\t\t}\n\t\t}\n", "GRD-scope", "empty-check-after:Engine.resolveGraphFilter"},
		mutant{"k-cap-dropped", "pkg/engine/ops.go", "\tif len(finalRes) > k {\n\t\tfinalRes = finalRes[:k]\n\t}\n\n\treturn finalRes, nil\n\n}", "\treturn finalRes, nil\n\n}", "GRD-cap", "searchWithFusion"},
		mutant{"found-flag-ignored", "pkg/engine/ops.go", "\t\textID, found := hnswIndex.GetExternalID(id)\n\t\tif !found {\n\t\t\tcontinue\n\t\t}\n\t\tfinalRes = append", "\t\textID, _ := hnswIndex.GetExternalID(id)\n\t\tfinalRes = append", "GRD-xlate", "fused-translate"},
	)
}

func init() {
	addMutants("C08",
		mutant{"restore-path-skips-lists", "pkg/core/core.go", "\t\tcase []interface{}:\n\t\t\t// Index every element, exactly like AddMetadata", "\t\tcase []string:\n\t\t\t// Index every element, exactly like AddMetadata", "SIB-1", "AddMetadataUnlocked=AddMetadata"},
		mutant{"parser-knows-unevaluated-operator", "pkg/core/core.go", "case \"!=\", \"<=\", \">=\":\n\t\t\t\treturn filter[i : i+2], i", "case \"!=\", \"<=\", \">=\", \"==\":\n\t\t\t\treturn filter[i : i+2], i", "TBL-ops", "recognised:=="},
		mutant{"complement-against-raw-range", "pkg/core/core.go", "\t\tallValidIDs, err := s.getAllValidNodeIDsLocked(indexName)\n\t\tif err != nil {\n\t\t\treturn nil, err\n\t\t}\n\n\t\tmatchedSet := roaring.New()", "\t\tallValidIDs := roaring.New()\n\t\tallValidIDs.AddRange(0, 1<<20)\n\n\t\tmatchedSet := roaring.New()", "GRD-live", "complement-base"},
		mutant{"equality-returns-stored-bitmap", "pkg/core/core.go", "\t\t\t\tif valSet, ok := keyMetadata[valueStr]; ok {\n\t\t\t\t\tidSet.Or(valSet)\n\t\t\t\t}\n\t\t\t}\n\t\t}\n\n\t\treturn idSet, nil\n\n\tcase \"<\", \"<=\", \">\", \">=\":", "\t\t\t\tif valSet, ok := keyMetadata[valueStr]; ok && idSet.IsEmpty() {\n\t\t\t\t\treturn valSet, nil\n\t\t\t\t}\n\t\t\t}\n\t\t}\n\n\t\treturn idSet, nil\n\n\tcase \"<\", \"<=\", \">\", \">=\":", "GRD-alias", "returns-owned-bitmap"},
		mutant{"unchanged-test-by-rendering", "pkg/core/core.go", "\treturn reflect.DeepEqual(a, b)\n}", "\t_ = reflect.DeepEqual\n\treturn fmt.Sprint(a) == fmt.Sprint(b)\n}", "SIB-same", "no-string-rendering"},
		mutant{"removal-arm-forgotten", "pkg/core/core.go", "\tcase []interface{}:\n\t\tif invIdx, ok := s.invertedIndex[indexName]; ok {\n\t\t\tif keyMap, ok := invIdx[key]; ok {\n\t\t\t\tfor _, elem := range old {", "\tcase []string:\n\t\tif invIdx, ok := s.invertedIndex[indexName]; ok {\n\t\t\tif keyMap, ok := invIdx[key]; ok {\n\t\t\t\tfor _, elem := range old {", "SIB-1", "removeOldIndexEntries:has:[]interface{}"},
	)
}

func init() {
	addMutants("C10",
		mutant{"reverse-soft-delete-stamps-first-entry", "pkg/core/graph.go", "if inList[i].SourceID == sourceID && inList[i].DeletedAt == 0 {\n\t\t\t\t\t\tinList[i].DeletedAt = timestamp", "if inList[i].SourceID == sourceID {\n\t\t\t\t\t\tinList[i].DeletedAt = timestamp", "SIB-views", "RemoveEdge:soft:forward=reverse"},
		mutant{"hard-delete-keeps-history", "pkg/core/graph.go", "if edge.TargetID != targetID {\n\t\t\t\t\t\tnewOut = append(newOut, edge)", "if edge.TargetID != targetID || edge.DeletedAt != 0 {\n\t\t\t\t\t\tnewOut = append(newOut, edge)", "SIB-views", "RemoveEdge:hard"},
		mutant{"replay-inverse-unlink-swapped", "pkg/engine/recovery.go", "e.DB.RemoveEdge(targetID, sourceID, invRelType, hardDelete, ts)", "e.DB.RemoveEdge(sourceID, targetID, invRelType, hardDelete, ts)", "CDC-9", "GUNLINK:roles"},
		mutant{"second-clock-read-on-apply", "pkg/engine/graph.go", "e.DB.AddEdge(internalSource, internalTarget, relationType, weight, rawProps, now)\n", "e.DB.AddEdge(internalSource, internalTarget, relationType, weight, rawProps, time.Now().UnixNano())\n", "CDC-9", "GLINK"},
		mutant{"boundary-inclusive-delete", "pkg/core/graph.go", "if deletedAt == 0 || deletedAt > queryTime {", "if deletedAt == 0 || deletedAt >= queryTime {", "SIB-views", "isActiveAtTime"},
		mutant{"relink-not-mirrored", "pkg/core/graph.go", "if inList[i].SourceID == sourceID && inList[i].DeletedAt == 0 {\n\t\t\tfoundIn = true", "if inList[i].SourceID == sourceID {\n\t\t\tfoundIn = true", "SIB-views", "AddEdge:active-lookup"},
	)
	addMutants("C11",
		mutant{"lifo-worklist", "pkg/engine/graph.go", "\t\tcurr := queue[0]\n\t\tqueue = queue[1:]\n", "\t\tcurr := queue[len(queue)-1]\n\t\tqueue = queue[:len(queue)-1]\n", "GRD-bfs", "resolveGraphFilter:fifo"},
		mutant{"enqueue-before-visited-test", "pkg/engine/graph.go", "\t\t\t\t\tif !visited[target] {\n\t\t\t\t\t\tvisited[target] = true\n\t\t\t\t\t\tdata, _ := e.VGet(indexName, target)\n\t\t\t\t\t\tnodesMap[target] = SubgraphNode{ID: target, Metadata: data.Metadata}\n\t\t\t\t\t\tqueue = append(queue, queueItem{id: target, depth: current.depth + 1})\n\t\t\t\t\t}", "\t\t\t\t\tqueue = append(queue, queueItem{id: target, depth: current.depth + 1})\n\t\t\t\t\tif !visited[target] {\n\t\t\t\t\t\tvisited[target] = true\n\t\t\t\t\t\tdata, _ := e.VGet(indexName, target)\n\t\t\t\t\t\tnodesMap[target] = SubgraphNode{ID: target, Metadata: data.Metadata}\n\t\t\t\t\t}", "GRD-bfs", "VExtractSubgraph:enqueue"},
		mutant{"depth-clamp-removed", "pkg/engine/graph.go", "\tif maxDepth > 5 {\n\t\tmaxDepth = 5\n\t}\n\n\tfor len(queue) > 0 {\n\t\tcurr := queue[0]", "\tfor len(queue) > 0 {\n\t\tcurr := queue[0]", "GRD-bfs", "resolveGraphFilter:depth-clamp"},
		mutant{"recursion-without-increment", "pkg/engine/ops.go", "e.traversePath(indexName, nodeData.ID, remainingPath, hydrate, currentDepth+1)", "e.traversePath(indexName, nodeData.ID, remainingPath, hydrate, currentDepth)", "GRD-path", "traversePath:depth+1"},
		mutant{"meeting-at-discovery", "pkg/engine/pathfinding.go", "\t\t\t\t\t\t\tif _, seen := fwdVisited[neighbor]; !seen {\n\t\t\t\t\t\t\t\tfwdVisited[neighbor] = curr", "\t\t\t\t\t\t\tif _, seen := fwdVisited[neighbor]; !seen {\n\t\t\t\t\t\t\t\tif _, ok := bwdVisited[neighbor]; ok {\n\t\t\t\t\t\t\t\t\tfwdVisited[neighbor] = curr\n\t\t\t\t\t\t\t\t\tmeetingNode = neighbor\n\t\t\t\t\t\t\t\t\tgoto Found\n\t\t\t\t\t\t\t\t}\n\t\t\t\t\t\t\t\tfwdVisited[neighbor] = curr", "GRD-path", "meeting-on-frontier-node"},
	)
	addMutants("C12",
		mutant{"replay-repairs-incoming-only", "pkg/engine/recovery.go", "outgoing := e.DB.GetAllRelations(graphID, \"out\")\n\t\t\t\tfor relType, targets := range outgoing {", "outgoing := map[string][]string{}\n\t\t\t\tfor relType, targets := range outgoing {", "SIB-4", "VDEL-repair-directions"},
		mutant{"cascade-skips-outgoing", "pkg/engine/ops.go", "outgoingRels := e.DB.GetAllRelations(graphID, \"out\")", "outgoingRels := e.DB.GetAllRelations(graphID, \"in\")", "SIB-4", "VDelete:cascade-directions"},
		mutant{"cascade-not-registered", "pkg/engine/ops.go", "\te.wg.Add(1)\n\tgo func(deadNodeID string) {\n\t\tdefer e.wg.Done()\n", "\tgo func(deadNodeID string) {\n", "SIB-4", "cascade-registered-before-go"},
	)
}

func init() {
	addMutants("C13",
		mutant{"vacuum-without-compaction-gate", "pkg/core/hnsw/optimizer.go", "\t\tif !coord.TryAcquireCompactionLock() {\n\t\t\tslog.Debug(\"[Optimizer] Vacuum skipped: arena compaction running\")\n\t\t\treturn false\n\t\t}\n\t\tdefer coord.ReleaseCompactionLock()\n", "\t\t_ = coord\n", "LCK-3", "gate:mmap.VectorArena"},
		mutant{"getvector-relocks-db", "pkg/core/core.go", "\tmetadata := make(map[string]any)\n\tif idxMu, ok := s.indexLocks[indexName]; ok {\n\t\tmetadata = s.getMetadataForNodeLocked(indexName, nodeData.InternalID, idxMu)\n\t}\n", "\tmetadata := s.getMetadataForNode(indexName, nodeData.InternalID)\n", "LCK-4", "reentrant:core.DB.mu"},
		mutant{"snapshot-lock-released-unconditionally", "pkg/core/hnsw/hnsw_index.go", "\t\tif h.maintenanceCoord.TryAcquireSnapshotLock() {\n\t\t\t// Release only what was actually acquired: unlocking after a failed\n\t\t\t// try either panics (\"unlock of unlocked mutex\") or releases the lock\n\t\t\t// of the snapshot that is still running.\n\t\t\tdefer h.maintenanceCoord.ReleaseSnapshotLock()\n\t\t} else {\n\t\t\tslog.Warn(\"[HNSW] SnapshotData: could not acquire snapshot lock, proceeding anyway\")\n\t\t}", "\t\tif !h.maintenanceCoord.TryAcquireSnapshotLock() {\n\t\t\tslog.Warn(\"[HNSW] SnapshotData: could not acquire snapshot lock, proceeding anyway\")\n\t\t}\n\t\tdefer h.maintenanceCoord.ReleaseSnapshotLock()", "LCK-2", "snapshotLock@Index.SnapshotData"},
		mutant{"early-return-keeps-read-lock", "pkg/core/core.go", "func (s *DB) getMetadataForNode(indexName string, nodeID uint32) map[string]any {\n\ts.mu.RLock()\n\tidxMu, exists := s.indexLocks[indexName]\n\tif !exists {\n\t\ts.mu.RUnlock()\n\t\treturn make(map[string]any)\n\t}", "func (s *DB) getMetadataForNode(indexName string, nodeID uint32) map[string]any {\n\ts.mu.RLock()\n\tidxMu, exists := s.indexLocks[indexName]\n\tif !exists {\n\t\treturn make(map[string]any)\n\t}", "LCK-1", "getMetadataForNode"},
		mutant{"compaction-iterates-kv-unlocked", "pkg/engine/recovery.go", "\te.DB.GetKVStore().RLock()\n\te.DB.IterateKVUnlocked(", "\te.DB.IterateKVUnlocked(", "LCK-5", "guard:core.KVStore.mu@Engine.RewriteAOF"},
		mutant{"blocking-event-send", "pkg/engine/events.go", "\t\tselect {\n\t\tcase ch <- e:\n\t\tdefault:\n\t\t\t// Buffer full, drop the event for this slow consumer.\n\t\t}", "\t\tch <- e", "LCK-6", "Emit:send"},
		mutant{"reinforce-reads-before-lock", "pkg/engine/ops.go", "\t\tlock := e.getMetadataLockShard(internalID)\n\t\tlock.Lock()\n\n\t\t// 3. Fetch current metadata (under protection of node-level lock).\n\t\t// GetMetadataForNode self-locks (s.mu + idxMu): do NOT wrap it in an\n\t\t// outer e.DB.RLock() — that re-acquires s.mu.RLock reentrantly and\n\t\t// deadlocks once a writer (create/delete index, close) waits (P1-5).\n\t\tmeta := e.DB.GetMetadataForNode(indexName, internalID)\n", "\t\tmeta := e.DB.GetMetadataForNode(indexName, internalID)\n\t\tlock := e.getMetadataLockShard(internalID)\n\t\tlock.Lock()\n", "GRD-rmw", "VReinforce:read"},
		mutant{"chunk-stats-lock-order", "pkg/storage/mmap/compactor.go", "\tac.arena.slotMu.RLock()\n\tdefer ac.arena.slotMu.RUnlock()\n\n\tac.arena.mu.RLock()\n\tdefer ac.arena.mu.RUnlock()\n\n\tstats := make([]ChunkFragmentation", "\tac.arena.mu.RLock()\n\tdefer ac.arena.mu.RUnlock()\n\n\tac.arena.slotMu.RLock()\n\tdefer ac.arena.slotMu.RUnlock()\n\n\tstats := make([]ChunkFragmentation", "LCK-3", "order:mmap.VectorArena.mu->mmap.VectorArena.slotMu"},
		mutant{"db-lock-under-shard-lock", "pkg/core/graph.go", "\tshardSource, shardTarget := db.LockTwoShards(sourceID, targetID)\n\tdefer db.UnlockTwoShards(sourceID, targetID)\n\n\t// 1. Ensure Nodes exist", "\tshardSource, shardTarget := db.LockTwoShards(sourceID, targetID)\n\tdefer db.UnlockTwoShards(sourceID, targetID)\n\tdb.mu.RLock()\n\t_ = len(db.vectorIndexes)\n\tdb.mu.RUnlock()\n\n\t// 1. Ensure Nodes exist", "LCK-3", "core.GraphShard.mu->core.DB.mu"},
		mutant{"text-fields-read-without-index-lock", "pkg/core/core.go", "\tidxMu.RLock()\n\tdefer idxMu.RUnlock()\n\tdefer s.mu.RUnlock()\n\n\tfields, ok := s.textIndex[indexName]", "\t_ = idxMu\n\tdefer s.mu.RUnlock()\n\n\tfields, ok := s.textIndex[indexName]", "LCK-5", "GetTextIndexMap"},
		mutant{"higher-shard-first", "pkg/core/graph.go", "\tif s1 < s2 {\n\t\tdb.graphShards[s1].mu.Lock()\n\t\tdb.graphShards[s2].mu.Lock()\n\t} else if s2 < s1 {", "\tif s1 < s2 {\n\t\tdb.graphShards[s2].mu.Lock()\n\t\tdb.graphShards[s1].mu.Lock()\n\t} else if s2 < s1 {", "LCK-3b", "LockTwoShards"},
	)
}

func init() {
	addMutants("C04",
		mutant{"batch-ids-start-at-old-counter", "pkg/core/hnsw/hnsw_index.go", "startID := h.nodeCounter.Add(uint64(numVectors)) - uint64(numVectors) + 1", "startID := h.nodeCounter.Add(uint64(numVectors)) - uint64(numVectors)", "GRD-idalloc", "alloc@Index.addBatchInternal"},
		mutant{"vacuum-deletes-readded-mapping", "pkg/core/hnsw/optimizer.go", "\t\t\tif cur, still := o.index.externalToInternalID[extID]; still && cur == deadID {\n\t\t\t\tdelete(o.index.externalToInternalID, extID)\n\t\t\t}", "\t\t\tdelete(o.index.externalToInternalID, extID)", "GRD-idmap", "reverse-keyed-delete"},
		mutant{"restore-registers-tombstones", "pkg/core/hnsw/hnsw_index.go", "\t\tif !node.Deleted.Load() {\n\t\t\th.externalToInternalID[node.Id] = internalID\n\t\t}", "\t\th.externalToInternalID[node.Id] = internalID", "GRD-idmap", "LoadSnapshotData:forward-store#1:not-deleted"},
		mutant{"batch-forgets-reverse-entry", "pkg/core/hnsw/hnsw_index.go", "\t\th.externalToInternalID[obj.Id] = internalID\n\t\th.internalToExternalID[internalID] = obj.Id\n", "\t\th.externalToInternalID[obj.Id] = internalID\n", "GRD-idmap", "addBatchInternal:forward-store"},
		mutant{"cursor-lists-by-map-presence", "pkg/core/hnsw/hnsw_index.go", "\t\tif node != nil && !node.Deleted.Load() {\n\t\t\tids = append(ids, node.Id)\n\t\t}", "\t\tif node != nil {\n\t\t\tif _, ok := h.externalToInternalID[node.Id]; ok {\n\t\t\t\tids = append(ids, node.Id)\n\t\t\t}\n\t\t}", "GRD-list", "GetIDsByCursor"},
		mutant{"compress-drops-memory-config", "pkg/core/core.go", "\tnewIndex.SetMemoryConfig(oldHNSWIndex.GetMemoryConfig())\n", "", "SIB-2", "DB.Compress:Index.SetMemoryConfig"},
		mutant{"small-batch-not-prevalidated", "pkg/core/hnsw/hnsw_index.go", "\t\tif err := h.checkBatchIDs(objects); err != nil {\n\t\t\treturn err\n\t\t}\n", "", "SIB-5", "validate-before-mutation"},
		mutant{"setmetadata-reads-before-lock", "pkg/engine/ops.go", "\tlock := e.getMetadataLockShard(internalID)\n\tlock.Lock()\n\tdefer lock.Unlock()\n\n\t// 2. Legge i metadati correnti (sotto protezione del node-level lock).\n\t// GetMetadataForNode self-locks: no outer e.DB.RLock() (P1-5, vedi\n\t// VReinforce).\n\tmeta := e.DB.GetMetadataForNode(indexName, internalID)\n", "\tmeta := e.DB.GetMetadataForNode(indexName, internalID)\n\tlock := e.getMetadataLockShard(internalID)\n\tlock.Lock()\n\tdefer lock.Unlock()\n", "GRD-rmw", "VSetMetadata:read"},
	)
}

func init() {
	addMutants("C09",
		mutant{"overwrite-leaves-doc-counted", "pkg/core/core.go", "\t\t\t\t\tif _, had := stats.DocLengths[nodeID]; had {\n\t\t\t\t\t\tstats.TotalDocLength -= int64(stats.DocLengths[nodeID])\n\t\t\t\t\t\tdelete(stats.DocLengths, nodeID)\n\t\t\t\t\t\tstats.TotalDocs--", "\t\t\t\t\tif _, had := stats.DocLengths[nodeID]; had && false {\n\t\t\t\t\t\tstats.TotalDocLength -= int64(stats.DocLengths[nodeID])\n\t\t\t\t\t\tstats.TotalDocs--", "GRD-stats", "removeOldIndexEntries:postings-removal-removes-stats"},
		mutant{"bm25-constant-changed", "pkg/core/core.go", "bm25b  = 0.75", "bm25b  = 0.5", "TBL-bm25", "bm25b"},
		mutant{"alpha-unclamped", "pkg/engine/ops.go", "\t\tif alpha < 0 || alpha > 1 {\n\t\t\talpha = 0.5\n\t\t}\n", "", "GRD-fusion", "alpha-clamped"},
		mutant{"text-candidates-cut-to-k", "pkg/engine/ops.go", "\t\t\t} else {\n\t\t\t\ttextResults = results\n\t\t\t}\n\t\t}()", "\t\t\t} else {\n\t\t\t\ttextResults = results\n\t\t\t}\n\t\t\tif k > 0 && len(textResults) > k {\n\t\t\t\ttextResults = textResults[:k]\n\t\t\t}\n\t\t}()", "GRD-order", "no-candidate-cut-before-fusion"},
	)
	addMutants("C15",
		mutant{"pinned-string-form-dropped", "pkg/engine/ops.go", "\t\t\t\tswitch v := val.(type) {\n\t\t\t\tcase bool:\n\t\t\t\t\tisPinned = v\n\t\t\t\tcase string:\n\t\t\t\t\tisPinned = (v == \"true\")\n\t\t\t\t}\n\t\t\t}\n\n\t\t\tif isPinned {\n\t\t\t\tcontinue // Skip decay", "\t\t\t\tisPinned, _ = val.(bool)\n\t\t\t}\n\n\t\t\tif isPinned {\n\t\t\t\tcontinue // Skip decay", "SIB-3", "searchWithFusion:pin-forms"},
		mutant{"scored-search-ignores-last-access", "pkg/engine/ops.go", "\t\t\t\tif val, ok := meta[\"_last_accessed\"]; ok {\n\t\t\t\t\tif lastAccess := toFloat64(val); lastAccess > created {\n\t\t\t\t\t\tcreated = lastAccess\n\t\t\t\t\t}\n\t\t\t\t}\n", "", "SIB-3", "VSearchWithScores:keys"},
		mutant{"unknown-model-is-step", "pkg/engine/search_utils.go", "\tdefault:\n\t\treturn calculateExponentialDecay(age, halfLifeSeconds)", "\tdefault:\n\t\treturn calculateStepDecay(age, halfLifeSeconds)", "TBL-models", "default:exponential"},
		mutant{"future-timestamp-decays", "pkg/engine/search_utils.go", "\tage := now - createdAt\n\tif age <= 0 {\n\t\treturn 1.0\n\t}\n\n\tswitch model {", "\tage := now - createdAt\n\n\tswitch model {", "TBL-models", "unit:age<=0"},
		mutant{"reinforce-adds-two", "pkg/engine/ops.go", "newCount := count + 1", "newCount := count + 2", "GRD-reinforce", "count+1"},
	)
}

func init() {
	addMutants("C16",
		mutant{"read-exemption-by-path-suffix", "internal/server/middleware.go", "\t\t\tif isReadAction || (method == http.MethodPost && (path == \"/rag/retrieve\" || strings.HasPrefix(path, \"/ui/\"))) {", "\t\t\tif isReadAction || strings.HasSuffix(path, \"search\") || (method == http.MethodPost && (path == \"/rag/retrieve\" || strings.HasPrefix(path, \"/ui/\"))) {", "WEB-3", "route:DELETE_/vector/indexes/{name}"},
		mutant{"admin-requirement-not-enforced", "pkg/auth/rbac.go", "\tif requiredRole == RoleAdmin {\n\t\treturn false\n\t}\n", "", "SIB-roles", "HasAccess:denies:admin"},
		mutant{"new-mutating-route-with-read-suffix", "internal/server/http_handlers.go", "\tmux.HandleFunc(\"POST /graph/actions/unlink\", s.handleGraphUnlink)", "\tmux.HandleFunc(\"POST /graph/actions/unlink\", s.handleGraphUnlink)\n\tmux.HandleFunc(\"POST /graph/actions/unlink-and-search\", s.handleGraphUnlink)\n\tmux.HandleFunc(\"POST /graph/actions/search\", s.handleGraphUnlink)", "WEB-3", "route:POST_/graph/actions/search"},
		mutant{"namespace-from-query-decoy", "internal/server/middleware.go", "\t// B. Controllo dal Body (es. POST /vector/actions/add)\n", "\tif ns := r.URL.Query().Get(\"index_name\"); ns != \"\" {\n\t\treturn []string{ns}\n\t}\n\t// B. Controllo dal Body (es. POST /vector/actions/add)\n", "WEB-4", "middleware:namespace-locations"},
		mutant{"verified-token-cache", "pkg/auth/jwt_provider.go", "func (j *JWTProvider) VerifyToken(tokenStr string) (*APIKeyPolicy, error) {\n", "var verifiedCache = map[string]*APIKeyPolicy{}\n\nfunc (j *JWTProvider) VerifyToken(tokenStr string) (*APIKeyPolicy, error) {\n\tif p, ok := verifiedCache[tokenStr]; ok {\n\t\tif _, revoked := j.kvStore.Get(\"_sys_auth::revoked::\" + p.ID); !revoked {\n\t\t\treturn p, nil\n\t\t}\n\t}\n", "WEB-auth", "VerifyToken:success-after-parse"},
		mutant{"any-signing-method", "pkg/auth/jwt_provider.go", "\t\tif _, ok := t.Method.(*jwt.SigningMethodECDSA); !ok {\n\t\t\treturn nil, fmt.Errorf(\"auth: unexpected signing method: %v\", t.Header[\"alg\"])\n\t\t}\n", "", "WEB-auth", "VerifyToken:pins-ECDSA"},
		mutant{"transfer-indexes-not-authorised", "internal/server/middleware.go", "\t\t\tfor _, ns := range []string{payload.IndexName, payload.SourceIndex, payload.TargetIndex} {", "\t\t\tfor _, ns := range []string{payload.IndexName} {", "WEB-4", "Server.handleTransferMemory"},
		mutant{"forbidden-but-served", "internal/server/middleware.go", "\t\t\t\t\thttp.Error(w, \"Forbidden: insufficient permissions for this namespace/action\", http.StatusForbidden)\n\t\t\t\t\treturn\n", "\t\t\t\t\thttp.Error(w, \"Forbidden: insufficient permissions for this namespace/action\", http.StatusForbidden)\n", "WEB-auth", "serve-needs-HasAccess"},
		mutant{"auth-store-unjournaled-again", "internal/server/server.go", "auth.NewJWTProvider(journaledKV{eng})", "auth.NewJWTProvider(eng.DB.GetKVStore())", "JRN-2", "pkg/auth"},
	)
}
