package main

// mutants.go — overlay rewrites used by the thorough tier to validate the analyser itself.
// Each entry: a unique source fragment of the CURRENT tree, its replacement, and the rule+construct
// the analyser must report. A fragment that no longer occurs exactly once is skipped (reported as such).

func init() {
	addMutants("C01",
		mutant{"auth-bypasses-journal", "internal/server/server.go", "auth.NewJWTProvider(journaledKV{eng})", "auth.NewJWTProvider(eng.DB.GetKVStore())", "JRN-2", "pkg/auth"},
		mutant{"vadd-arm-ignores-restored-index", "pkg/engine/recovery.go", "if idx, ok := lookupIndex(idxName); ok {\n\t\t\t\t\tvec, err := parseVectorFromString(vecStr)", "if idx, ok := indexes[idxName]; ok {\n\t\t\t\t\tvec, err := parseVectorFromString(vecStr)", "CDC-8", "arm:VADD"},
		mutant{"vlink-not-journaled", "pkg/engine/graph.go", "\tif err := e.AOF.Write(cmd); err != nil {\n\t\treturn err\n\t}\n\n\t// 2. In-Memory Update (Blazing fast O(1))", "\t_ = cmd\n\n\t// 2. In-Memory Update (Blazing fast O(1))", "JRN-1", "VLink"},
		mutant{"command-without-replay-arm", "pkg/engine/ops.go", "persistence.FormatCommand(\"VDEL\", []byte(indexName), []byte(id))", "persistence.FormatCommand(\"VDELETE\", []byte(indexName), []byte(id))", "CDC-1", "written:VDELETE"},
		mutant{"vcreate-option-only-written", "pkg/engine/ops.go", "args = append(args, []byte(\"MEMORY_CONFIG\"), memBytes)\n\t\t}\n\t}\n\n\t// 3. Write to AOF", "args = append(args, []byte(\"MEMORY_CFG\"), memBytes)\n\t\t}\n\t}\n\n\t// 3. Write to AOF", "CDC-3", "key:MEMORY_CFG"},
		mutant{"vcompress-not-committed", "pkg/engine/ops.go", "\tif err := e.SaveSnapshot(); err != nil {\n\t\treturn fmt.Errorf(\"index compressed in memory but not persisted: %w\", err)\n\t}\n\treturn nil", "\treturn nil", "JRN-1", "VCompress"},
		mutant{"vmeta-arity-tightened", "pkg/engine/recovery.go", "// VMETA <IndexName> <ID> <MetadataJSON>\n\t\t\tif len(cmd.Args) == 3 {", "// VMETA <IndexName> <ID> <MetadataJSON>\n\t\t\tif len(cmd.Args) == 4 {", "CDC-2", "arity:VMETA"},
	)
	addMutants("C03",
		// (payload-cap-raised-beyond-memory was retired with fix 8ddeebb: the frame reader no longer allocates what the cap allows, so raising the cap costs nothing)
		mutant{"args-cap-removed", "pkg/persistence/resp.go", "\tif numArgs > MaxArgsPerCommand {\n\t\treturn nil, fmt.Errorf(\"too many arguments: %d exceeds maximum %d\", numArgs, MaxArgsPerCommand)\n\t}\n", "", "CDC-5", "ParseCommand"},
		mutant{"payload-returned-before-crc", "pkg/persistence/frame.go", "\tif actualCRC != expectedCRC {\n\t\treturn nil, HeaderSize + int(length), ErrChecksumMismatch\n\t}\n", "\tif actualCRC != expectedCRC && length > 16 {\n\t\treturn nil, HeaderSize + int(length), ErrChecksumMismatch\n\t}\n", "GRD-crc", "ReadFrame"},
		mutant{"checksum-error-refuses-start", "pkg/engine/recovery.go", "\t\t\t// Case B: Corruption (Incomplete write or Bit rot)", "\t\t\tif errors.Is(err, persistence.ErrChecksumMismatch) {\n\t\t\t\treturn err\n\t\t\t}\n\t\t\t// Case B: Corruption (Incomplete write or Bit rot)", "CDC-6", "loop-error-return"},
		mutant{"index-beyond-guard", "pkg/engine/recovery.go", "props := cmd.Args[6]", "props := cmd.Args[7]", "CDC-2", "arm:GLINK:Args[7]"},
		mutant{"nil-marker-rejected-again", "pkg/persistence/resp.go", "\t\tif err == nil && lenArg == -1 {\n\t\t\t// RESP null bulk string (\"$-1\\r\\n\"): FormatCommand emits it for a nil\n\t\t\t// argument. It carries no payload and no trailing CRLF.\n\t\t\targs[i] = nil\n\t\t\tcontinue\n\t\t}\n", "", "CDC-4", "nilarg:VADD"},
		mutant{"decimal-vector-text", "pkg/engine/ops.go", "\tvecStr := float32SliceToHexString(vector)\n\tvar metaBytes []byte", "\tvecStr := fmt.Sprint(vector)\n\tvar metaBytes []byte", "CDC-7", "vadd-vector"},
		mutant{"opcode-folded-into-magic-error", "pkg/persistence/frame.go", "if header[0] != MagicByte {", "if header[0] != MagicByte || header[1] != OpCodeCommand {", "CDC-6b", "ErrInvalidMagic"},
		mutant{"resync-skips-window-tail", "pkg/engine/recovery.go", "for i := 0; i < n; i++ {\n\t\t\tif buf[i] == persistence.MagicByte {", "for i := 0; i < n-1; i++ {\n\t\t\tif buf[i] == persistence.MagicByte {", "GRD-scan", "index-bound"},
		mutant{"resync-accepts-unparsed", "pkg/engine/recovery.go", "if _, parseErr := persistence.ParseCommand(cmdReader); parseErr == nil {\n\t\t\t\t\t\treturn candidatePos, true\n\t\t\t\t\t}", "_ = cmdReader\n\t\t\t\t\treturn candidatePos, true", "GRD-crc", "resyncAOF"},
	)
	addMutants("C02",
		mutant{"truncate-before-rename", "pkg/engine/recovery.go", "\t// STEP 4: Atomically rename snapshot file (atomic operation on POSIX)\n\tif err := os.Rename(tempSnap, e.snapPath); err != nil {\n\t\tos.Remove(tempSnap) // Clean up temp file on error\n\t\treturn fmt.Errorf(\"failed to rename snapshot file: %w\", err)\n\t}\n\n\t// STEP 5: Truncate AOF\n\t// Any writes that occurred during snapshot are still in the shadow buffer\n\tif err := e.AOF.Truncate(); err != nil {\n\t\treturn fmt.Errorf(\"failed to truncate AOF: %w\", err)\n\t}\n", "\tif err := e.AOF.Truncate(); err != nil {\n\t\treturn fmt.Errorf(\"failed to truncate AOF: %w\", err)\n\t}\n\tif err := os.Rename(tempSnap, e.snapPath); err != nil {\n\t\tos.Remove(tempSnap) // Clean up temp file on error\n\t\treturn fmt.Errorf(\"failed to rename snapshot file: %w\", err)\n\t}\n", "ORD-1", "Rename(tmp,snapPath)<AOF.Truncate"},
		mutant{"rename-error-ignored", "pkg/engine/recovery.go", "\tif err := os.Rename(tempSnap, e.snapPath); err != nil {\n\t\tos.Remove(tempSnap) // Clean up temp file on error\n\t\treturn fmt.Errorf(\"failed to rename snapshot file: %w\", err)\n\t}", "\tif err := os.Rename(tempSnap, e.snapPath); err != nil {\n\t\tos.Remove(tempSnap) // Clean up temp file on error\n\t\tslog.Warn(\"rename failed\", \"error\", err)\n\t}", "ORD-1", "Rename(tmp,snapPath)<AOF.Truncate"},
		mutant{"snapshot-written-in-place", "pkg/engine/recovery.go", "tempSnap := e.snapPath + \".tmp\"\n\tf, err := os.Create(tempSnap)", "tempSnap := e.snapPath + \".tmp\"\n\tf, err := os.Create(e.snapPath)", "ORD-1", "snapshot-written-to-temp"},
		mutant{"repair-not-synced", "pkg/engine/recovery.go", "\t\tif err := file.Sync(); err != nil {\n\t\t\treturn fmt.Errorf(\"failed to sync repaired AOF: %w\", err)\n\t\t}\n", "", "ORD-7", "truncate-then-sync"},
		mutant{"stale-rewrite-tmp-kept", "pkg/engine/recovery.go", "\tos.Remove(tempAof)\n\n\twriter, err := persistence.NewAOFWriter(tempAof, 0)", "\twriter, err := persistence.NewAOFWriter(tempAof, 0)", "ORD-3", "RewriteAOF"},
		mutant{"torn-tail-is-clean-eof", "pkg/engine/recovery.go", "\t\tif err == io.EOF {\n\t\t\tbreak // Clean end of file.\n\t\t}", "\t\tif err == io.EOF || errors.Is(err, persistence.ErrIncompleteFrame) {\n\t\t\tbreak // Clean end of file.\n\t\t}", "ORD-7b", "non-EOF-error"},
		mutant{"snapshot-fast-path", "pkg/engine/recovery.go", "\tdefer e.adminMu.Unlock()\n\treturn e.saveSnapshotLocked()", "\tdefer e.adminMu.Unlock()\n\tif atomic.LoadInt64(&e.dirtyCounter) == 0 {\n\t\treturn nil\n\t}\n\treturn e.saveSnapshotLocked()", "ORD-1b", "SaveSnapshot"},
		mutant{"replace-before-flush", "pkg/engine/recovery.go", "\tif err := writer.Flush(); err != nil {\n\t\treturn err\n\t}\n\twriter.Close()\n", "\twriter.Close()\n", "ORD-2", "temp.Flush"},
	)
	addMutants("C14",
		mutant{"flush-without-drain", "pkg/persistence/lazy_aof.go", "\t\tcase cmd := <-lw.cmdCh:\n\t\t\tdrainPending()\n", "\t\tcase cmd := <-lw.cmdCh:\n\t\t\t_ = drainPending\n", "ORD-5", "arm:cmdFlush"},
		mutant{"shadow-writes-dropped-on-failure", "pkg/engine/recovery.go", "\t\t\tif _, err := e.AOF.EndSnapshotModeRequeue(); err != nil {\n\t\t\t\tslog.Debug(\"Failed to end snapshot mode during cleanup\", \"error\", err)\n\t\t\t}\n", "\t\t\tif _, err := e.AOF.EndSnapshotMode(); err != nil {\n\t\t\t\tslog.Debug(\"Failed to end snapshot mode during cleanup\", \"error\", err)\n\t\t\t}\n", "ORD-4", "saveSnapshotLocked"},
		mutant{"log-closed-before-background-stops", "pkg/engine/engine.go", "\t\te.wg.Wait() // Wait for background tasks\n", "", "ORD-8", "wg.Wait"},
		mutant{"bare-send-to-writer", "pkg/persistence/lazy_aof.go", "\tselect {\n\tcase <-lw.closedCh:\n\t\treturn fmt.Errorf(\"cannot write to closed LazyAOFWriter\")\n\tcase lw.writeCh <- writeRequest{data: data}:\n\t\treturn nil\n\t}", "\tlw.writeCh <- writeRequest{data: data}\n\treturn nil", "ORD-6", "send@"},
		mutant{"end-before-truncate", "pkg/engine/recovery.go", "\t// STEP 5: Truncate AOF\n\t// Any writes that occurred during snapshot are still in the shadow buffer\n\tif err := e.AOF.Truncate(); err != nil {\n\t\treturn fmt.Errorf(\"failed to truncate AOF: %w\", err)\n\t}\n\n\t// STEP 6: End snapshot mode and get accumulated writes\n\t// The writer re-queues them itself, in the step that ends snapshot mode: a\n\t// write acknowledged right after that step must not get into the log ahead of\n\t// the older shadow writes (replay would end with the older value).\n\tsnapshotWrites, err := e.AOF.EndSnapshotModeRequeue()\n\tif err != nil {\n\t\treturn fmt.Errorf(\"failed to end snapshot mode: %w\", err)\n\t}\n", "\tsnapshotWrites, err := e.AOF.EndSnapshotModeRequeue()\n\tif err != nil {\n\t\treturn fmt.Errorf(\"failed to end snapshot mode: %w\", err)\n\t}\n\tif err := e.AOF.Truncate(); err != nil {\n\t\treturn fmt.Errorf(\"failed to truncate AOF: %w\", err)\n\t}\n", "ORD-1", "AOF.Truncate<EndSnapshotMode"},
	)
	addMutants("C05",
		mutant{"dimension-check-after-journal", "pkg/engine/ops.go", "\t// 1. Serialize inputs for AOF (before any mutation).\n\tvecStr := float32SliceToHexString(vector)", "\t// 1. Serialize inputs for AOF (before any mutation).\n\tif err := e.AOF.Write(\"x\"); err != nil {\n\t\treturn err\n\t}\n\tif len(vector) > 70000 {\n\t\treturn fmt.Errorf(\"vector too large\")\n\t}\n\tvecStr := float32SliceToHexString(vector)", "JRN-3", "error:vector_too_large"},
		mutant{"props-validated-after-journal", "pkg/engine/graph.go", "\tif err := e.AOF.Write(cmd); err != nil {\n\t\treturn err\n\t}\n\n\t// 2. In-Memory Update (Blazing fast O(1))", "\tif err := e.AOF.Write(cmd); err != nil {\n\t\treturn err\n\t}\n\tif err := validateProps(props); err != nil {\n\t\treturn err\n\t}\n\n\t// 2. In-Memory Update (Blazing fast O(1))", "JRN-3", "]:validateProps"},
	)
}

func init() {
	addMutants("C06",
		mutant{"entrypoint-deleted-check-dropped", "pkg/core/hnsw/hnsw_index.go", "if isEpValid && !entryNode.Deleted.Load() {", "if isEpValid {", "GRD-admit", "push#1:not-deleted"},
		mutant{"neighbour-deleted-check-dropped", "pkg/core/hnsw/hnsw_index.go", "\t\t\t\tif !neighborNode.Deleted.Load() {\n\t\t\t\t\tresults.Push(neighborCandidate)", "\t\t\t\tif neighborNode != nil {\n\t\t\t\t\tresults.Push(neighborCandidate)", "GRD-admit", "push#2:not-deleted"},
		mutant{"allow-list-only-steers-traversal", "pkg/core/hnsw/hnsw_index.go", "\t\t\t\tif !allowList.Contains(neighborID) {\n\t\t\t\t\tcontinue\n\t\t\t\t}", "\t\t\t\t_ = allowList.Contains(neighborID)", "GRD-admit", "push#2:allow-listed"},
		mutant{"scope-united-with-filter", "pkg/engine/ops.go", "allowList.And(graphAllowList)", "allowList.Or(graphAllowList)", "GRD-scope", "intersect"},
		mutant{"truncate-before-sort", "pkg/engine/ops.go", "\tsort.Slice(finalRes, func(i, j int) bool {\n\t\treturn finalRes[i].score > finalRes[j].score\n\t})\n\n\tif len(finalRes) > k {\n\t\tfinalRes = finalRes[:k]\n\t}\n", "\tif len(finalRes) > k {\n\t\tfinalRes = finalRes[:k]\n\t}\n\tsort.Slice(finalRes, func(i, j int) bool {\n\t\treturn finalRes[i].score > finalRes[j].score\n\t})\n", "GRD-order", "sort<truncate"},
		mutant{"ascending-sort", "pkg/engine/ops.go", "return finalRes[i].score > finalRes[j].score", "return finalRes[i].score < finalRes[j].score", "GRD-order", "descending"},
		mutant{"empty-scope-check-only-when-both", "pkg/engine/ops.go", "\t\t\tallowList.And(graphAllowList)\n\t\t}\n\n\t\t// If intersection resulted in empty set, return immediately\n\t\tif allowList != nil && allowList.IsEmpty() {\n\t\t\treturn []fusedResult{}, nil\n\t\t}\n", "\t\t\tallowList.And(graphAllowList)\n\t\t\tif allowList.IsEmpty() {\n\t\t\t\treturn []fusedResult{}, nil\n\t\t\t}\n\t\t}\n", "GRD-scope", "empty-check-after:Engine.resolveGraphFilter"},
		mutant{"k-cap-dropped", "pkg/engine/ops.go", "\tif len(finalRes) > k {\n\t\tfinalRes = finalRes[:k]\n\t}\n\n\treturn finalRes, nil\n\n}", "\treturn finalRes, nil\n\n}", "GRD-cap", "searchWithFusion"},
		mutant{"found-flag-ignored", "pkg/engine/ops.go", "\t\textID, found := hnswIndex.GetExternalID(id)\n\t\tif !found {\n\t\t\tcontinue\n\t\t}\n\t\tfinalRes = append", "\t\textID, _ := hnswIndex.GetExternalID(id)\n\t\tfinalRes = append", "GRD-xlate", "fused-translate"},
	)
}

func init() {
	addMutants("C08",
		mutant{"restore-path-skips-lists", "pkg/core/core.go", "\t\tcase []interface{}:\n\t\t\t// Index every element, exactly like AddMetadata", "\t\tcase []string:\n\t\t\t// Index every element, exactly like AddMetadata", "SIB-1", "AddMetadataUnlocked=AddMetadata"},
		mutant{"parser-knows-unevaluated-operator", "pkg/core/core.go", "case \"!=\", \"<=\", \">=\":\n\t\t\t\treturn filter[i : i+2], i", "case \"!=\", \"<=\", \">=\", \"==\":\n\t\t\t\treturn filter[i : i+2], i", "TBL-ops", "recognised:=="},
		mutant{"complement-against-raw-range", "pkg/core/core.go", "\t\tallValidIDs, err := s.getAllValidNodeIDsLocked(indexName)\n\t\tif err != nil {\n\t\t\treturn nil, err\n\t\t}\n\n\t\tmatchedSet := roaring.New()", "\t\tallValidIDs := roaring.New()\n\t\tallValidIDs.AddRange(0, 1<<20)\n\n\t\tmatchedSet := roaring.New()", "GRD-live", "complement-base"},
		mutant{"equality-returns-stored-bitmap", "pkg/core/core.go", "\t\t\t\tif valSet, ok := keyMetadata[valueStr]; ok {\n\t\t\t\t\tidSet.Or(valSet)\n\t\t\t\t}\n\t\t\t}\n\t\t}\n\n\t\treturn idSet, nil\n\n\tcase \"<\", \"<=\", \">\", \">=\":", "\t\t\t\tif valSet, ok := keyMetadata[valueStr]; ok && idSet.IsEmpty() {\n\t\t\t\t\treturn valSet, nil\n\t\t\t\t}\n\t\t\t}\n\t\t}\n\n\t\treturn idSet, nil\n\n\tcase \"<\", \"<=\", \">\", \">=\":", "GRD-alias", "returns-owned-bitmap"},
		mutant{"unchanged-test-by-rendering", "pkg/core/core.go", "\treturn reflect.DeepEqual(a, b)\n}", "\t_ = reflect.DeepEqual\n\treturn fmt.Sprint(a) == fmt.Sprint(b)\n}", "SIB-same", "no-string-rendering"},
		mutant{"removal-arm-forgotten", "pkg/core/core.go", "\tcase []interface{}:\n\t\tif invIdx, ok := s.invertedIndex[indexName]; ok {\n\t\t\tif keyMap, ok := invIdx[key]; ok {\n\t\t\t\tfor _, elem := range old {", "\tcase []string:\n\t\tif invIdx, ok := s.invertedIndex[indexName]; ok {\n\t\t\tif keyMap, ok := invIdx[key]; ok {\n\t\t\t\tfor _, elem := range old {", "SIB-1", "removeOldIndexEntries:has:[]interface{}"},
	)
}

func init() {
	addMutants("C10",
		mutant{"reverse-soft-delete-stamps-first-entry", "pkg/core/graph.go", "if inList[i].SourceID == sourceID && inList[i].DeletedAt == 0 {\n\t\t\t\t\t\tinList[i].DeletedAt = timestamp", "if inList[i].SourceID == sourceID {\n\t\t\t\t\t\tinList[i].DeletedAt = timestamp", "SIB-views", "RemoveEdge:soft:forward=reverse"},
		mutant{"hard-delete-keeps-history", "pkg/core/graph.go", "if edge.TargetID != targetID {\n\t\t\t\t\t\tnewOut = append(newOut, edge)", "if edge.TargetID != targetID || edge.DeletedAt != 0 {\n\t\t\t\t\t\tnewOut = append(newOut, edge)", "SIB-views", "RemoveEdge:hard"},
		mutant{"replay-inverse-unlink-swapped", "pkg/engine/recovery.go", "e.DB.RemoveEdge(targetID, sourceID, invRelType, hardDelete, ts)", "e.DB.RemoveEdge(sourceID, targetID, invRelType, hardDelete, ts)", "CDC-9", "GUNLINK:roles"},
		mutant{"second-clock-read-on-apply", "pkg/engine/graph.go", "e.DB.AddEdge(internalSource, internalTarget, relationType, weight, rawProps, now)\n", "e.DB.AddEdge(internalSource, internalTarget, relationType, weight, rawProps, time.Now().UnixNano())\n", "CDC-9", "GLINK"},
		mutant{"boundary-inclusive-delete", "pkg/core/graph.go", "if deletedAt == 0 || deletedAt > queryTime {", "if deletedAt == 0 || deletedAt >= queryTime {", "SIB-views", "isActiveAtTime"},
		mutant{"relink-not-mirrored", "pkg/core/graph.go", "if inList[i].SourceID == sourceID && inList[i].DeletedAt == 0 {\n\t\t\tfoundIn = true", "if inList[i].SourceID == sourceID {\n\t\t\tfoundIn = true", "SIB-views", "AddEdge:active-lookup"},
	)
	addMutants("C11",
		mutant{"lifo-worklist", "pkg/engine/graph.go", "\t\tcurr := queue[0]\n\t\tqueue = queue[1:]\n", "\t\tcurr := queue[len(queue)-1]\n\t\tqueue = queue[:len(queue)-1]\n", "GRD-bfs", "resolveGraphFilter:fifo"},
		mutant{"enqueue-before-visited-test", "pkg/engine/graph.go", "\t\t\t\t\tif !visited[target] {\n\t\t\t\t\t\tvisited[target] = true\n\t\t\t\t\t\tdata, _ := e.VGet(indexName, target)\n\t\t\t\t\t\tnodesMap[target] = SubgraphNode{ID: target, Metadata: data.Metadata}\n\t\t\t\t\t\tqueue = append(queue, queueItem{id: target, depth: current.depth + 1})\n\t\t\t\t\t}", "\t\t\t\t\tqueue = append(queue, queueItem{id: target, depth: current.depth + 1})\n\t\t\t\t\tif !visited[target] {\n\t\t\t\t\t\tvisited[target] = true\n\t\t\t\t\t\tdata, _ := e.VGet(indexName, target)\n\t\t\t\t\t\tnodesMap[target] = SubgraphNode{ID: target, Metadata: data.Metadata}\n\t\t\t\t\t}", "GRD-bfs", "VExtractSubgraph:enqueue"},
		mutant{"depth-clamp-removed", "pkg/engine/graph.go", "\tif maxDepth > 5 {\n\t\tmaxDepth = 5\n\t}\n\n\tfor len(queue) > 0 {\n\t\tcurr := queue[0]", "\tfor len(queue) > 0 {\n\t\tcurr := queue[0]", "GRD-bfs", "resolveGraphFilter:depth-clamp"},
		mutant{"recursion-without-increment", "pkg/engine/ops.go", "e.traversePath(indexName, nodeData.ID, remainingPath, hydrate, currentDepth+1)", "e.traversePath(indexName, nodeData.ID, remainingPath, hydrate, currentDepth)", "GRD-path", "traversePath:depth+1"},
		mutant{"meeting-at-discovery", "pkg/engine/pathfinding.go", "\t\t\t\t\t\t\tif _, seen := fwdVisited[neighbor]; !seen {\n\t\t\t\t\t\t\t\tfwdVisited[neighbor] = curr", "\t\t\t\t\t\t\tif _, seen := fwdVisited[neighbor]; !seen {\n\t\t\t\t\t\t\t\tif _, ok := bwdVisited[neighbor]; ok {\n\t\t\t\t\t\t\t\t\tfwdVisited[neighbor] = curr\n\t\t\t\t\t\t\t\t\tmeetingNode = neighbor\n\t\t\t\t\t\t\t\t\tgoto Found\n\t\t\t\t\t\t\t\t}\n\t\t\t\t\t\t\t\tfwdVisited[neighbor] = curr", "GRD-path", "meeting-on-frontier-node"},
	)
	addMutants("C12",
		mutant{"replay-repairs-incoming-only", "pkg/engine/recovery.go", "outgoing := e.DB.GetAllRelations(graphID, \"out\")\n\t\t\t\tfor relType, targets := range outgoing {", "outgoing := map[string][]string{}\n\t\t\t\tfor relType, targets := range outgoing {", "SIB-4", "VDEL-repair-directions"},
		mutant{"cascade-skips-outgoing", "pkg/engine/ops.go", "outgoingRels := e.DB.GetAllRelations(graphID, \"out\")", "outgoingRels := e.DB.GetAllRelations(graphID, \"in\")", "SIB-4", "VDelete:cascade-directions"},
	)
}

func init() {
	addMutants("C13",
		mutant{"vacuum-without-compaction-gate", "pkg/core/hnsw/optimizer.go", "\t\tif !coord.TryAcquireCompactionLock() {\n\t\t\tslog.Debug(\"[Optimizer] Vacuum skipped: arena compaction running\")\n\t\t\treturn false\n\t\t}\n\t\tdefer coord.ReleaseCompactionLock()\n", "\t\t_ = coord\n", "LCK-3", "gate:mmap.VectorArena"},
		mutant{"getvector-relocks-db", "pkg/core/core.go", "\tmetadata := make(map[string]any)\n\tif idxMu, ok := s.indexLocks[indexName]; ok {\n\t\tmetadata = s.getMetadataForNodeLocked(indexName, nodeData.InternalID, idxMu)\n\t}\n", "\tmetadata := s.getMetadataForNode(indexName, nodeData.InternalID)\n", "LCK-4", "reentrant:core.DB.mu"},
		mutant{"snapshot-lock-released-unconditionally", "pkg/core/hnsw/hnsw_index.go", "\t\tif h.maintenanceCoord.TryAcquireSnapshotLock() {\n\t\t\t// Release only what was actually acquired: unlocking after a failed\n\t\t\t// try either panics (\"unlock of unlocked mutex\") or releases the lock\n\t\t\t// of the snapshot that is still running.\n\t\t\tdefer h.maintenanceCoord.ReleaseSnapshotLock()\n\t\t} else {\n\t\t\tslog.Warn(\"[HNSW] SnapshotData: could not acquire snapshot lock, proceeding anyway\")\n\t\t}", "\t\tif !h.maintenanceCoord.TryAcquireSnapshotLock() {\n\t\t\tslog.Warn(\"[HNSW] SnapshotData: could not acquire snapshot lock, proceeding anyway\")\n\t\t}\n\t\tdefer h.maintenanceCoord.ReleaseSnapshotLock()", "LCK-2", "snapshotLock@Index.SnapshotData"},
		mutant{"early-return-keeps-read-lock", "pkg/core/core.go", "func (s *DB) getMetadataForNode(indexName string, nodeID uint32) map[string]any {\n\ts.mu.RLock()\n\tidxMu, exists := s.indexLocks[indexName]\n\tif !exists {\n\t\ts.mu.RUnlock()\n\t\treturn make(map[string]any)\n\t}", "func (s *DB) getMetadataForNode(indexName string, nodeID uint32) map[string]any {\n\ts.mu.RLock()\n\tidxMu, exists := s.indexLocks[indexName]\n\tif !exists {\n\t\treturn make(map[string]any)\n\t}", "LCK-1", "getMetadataForNode"},
		mutant{"compaction-iterates-kv-unlocked", "pkg/engine/recovery.go", "\te.DB.GetKVStore().RLock()\n\te.DB.IterateKVUnlocked(", "\te.DB.IterateKVUnlocked(", "LCK-5", "guard:core.KVStore.mu@Engine.RewriteAOF"},
		mutant{"blocking-event-send", "pkg/engine/events.go", "\t\tselect {\n\t\tcase ch <- e:\n\t\tdefault:\n\t\t\t// Buffer full, drop the event for this slow consumer.\n\t\t}", "\t\tch <- e", "LCK-6", "Emit:send"},
		mutant{"reinforce-reads-before-lock", "pkg/engine/ops.go", "\t\tlock := e.getMetadataLockShard(internalID)\n\t\tlock.Lock()\n\t\t// Deleted between the look-up and the lock (VDelete holds the same lock)?\n", "\t\tmeta := e.DB.GetMetadataForNode(indexName, internalID)\n\t\tlock := e.getMetadataLockShard(internalID)\n\t\tlock.Lock()\n\t\t// Deleted between the look-up and the lock (VDelete holds the same lock)?\n", "GRD-rmw", "VReinforce:read"},
		mutant{"chunk-stats-lock-order", "pkg/storage/mmap/compactor.go", "\tac.arena.slotMu.RLock()\n\tdefer ac.arena.slotMu.RUnlock()\n\n\tac.arena.mu.RLock()\n\tdefer ac.arena.mu.RUnlock()\n\n\tstats := make([]ChunkFragmentation", "\tac.arena.mu.RLock()\n\tdefer ac.arena.mu.RUnlock()\n\n\tac.arena.slotMu.RLock()\n\tdefer ac.arena.slotMu.RUnlock()\n\n\tstats := make([]ChunkFragmentation", "LCK-3", "order:mmap.VectorArena.mu->mmap.VectorArena.slotMu"},
		mutant{"db-lock-under-shard-lock", "pkg/core/graph.go", "\tshardSource, shardTarget := db.LockTwoShards(sourceID, targetID)\n\tdefer db.UnlockTwoShards(sourceID, targetID)\n\n\t// 1. Ensure Nodes exist", "\tshardSource, shardTarget := db.LockTwoShards(sourceID, targetID)\n\tdefer db.UnlockTwoShards(sourceID, targetID)\n\tdb.mu.RLock()\n\t_ = len(db.vectorIndexes)\n\tdb.mu.RUnlock()\n\n\t// 1. Ensure Nodes exist", "LCK-3", "core.GraphShard.mu->core.DB.mu"},
		mutant{"text-fields-read-without-index-lock", "pkg/core/core.go", "\tidxMu.RLock()\n\tdefer idxMu.RUnlock()\n\tdefer s.mu.RUnlock()\n\n\tfields, ok := s.textIndex[indexName]", "\t_ = idxMu\n\tdefer s.mu.RUnlock()\n\n\tfields, ok := s.textIndex[indexName]", "LCK-5", "GetTextIndexMap"},
		mutant{"higher-shard-first", "pkg/core/graph.go", "\tif s1 < s2 {\n\t\tdb.graphShards[s1].mu.Lock()\n\t\tdb.graphShards[s2].mu.Lock()\n\t} else if s2 < s1 {", "\tif s1 < s2 {\n\t\tdb.graphShards[s2].mu.Lock()\n\t\tdb.graphShards[s1].mu.Lock()\n\t} else if s2 < s1 {", "LCK-3b", "LockTwoShards"},
	)
}

func init() {
	addMutants("C04",
		mutant{"batch-ids-start-at-old-counter", "pkg/core/hnsw/hnsw_index.go", "startID := h.nodeCounter.Add(uint64(numVectors)) - uint64(numVectors) + 1", "startID := h.nodeCounter.Add(uint64(numVectors)) - uint64(numVectors)", "GRD-idalloc", "alloc@Index.addBatchInternal"},
		mutant{"vacuum-deletes-readded-mapping", "pkg/core/hnsw/optimizer.go", "\t\t\tif cur, still := o.index.externalToInternalID[extID]; still && cur == deadID {\n\t\t\t\tdelete(o.index.externalToInternalID, extID)\n\t\t\t}", "\t\t\tdelete(o.index.externalToInternalID, extID)", "GRD-idmap", "reverse-keyed-delete"},
		mutant{"restore-registers-tombstones", "pkg/core/hnsw/hnsw_index.go", "\t\tif !node.Deleted.Load() {\n\t\t\th.externalToInternalID[node.Id] = internalID\n\t\t}", "\t\th.externalToInternalID[node.Id] = internalID", "GRD-idmap", "LoadSnapshotData:forward-store#1:not-deleted"},
		mutant{"batch-forgets-reverse-entry", "pkg/core/hnsw/hnsw_index.go", "\t\th.externalToInternalID[obj.Id] = internalID\n\t\th.internalToExternalID[internalID] = obj.Id\n", "\t\th.externalToInternalID[obj.Id] = internalID\n", "GRD-idmap", "addBatchInternal:forward-store"},
		mutant{"cursor-lists-by-map-presence", "pkg/core/hnsw/hnsw_index.go", "\t\tif node != nil && !node.Deleted.Load() {\n\t\t\tids = append(ids, node.Id)\n\t\t}", "\t\tif node != nil {\n\t\t\tif _, ok := h.externalToInternalID[node.Id]; ok {\n\t\t\t\tids = append(ids, node.Id)\n\t\t\t}\n\t\t}", "GRD-list", "GetIDsByCursor"},
		mutant{"compress-drops-memory-config", "pkg/core/core.go", "\tnewIndex.SetMemoryConfig(oldHNSWIndex.GetMemoryConfig())\n", "", "SIB-2", "DB.Compress:Index.SetMemoryConfig"},
		mutant{"small-batch-not-prevalidated", "pkg/core/hnsw/hnsw_index.go", "\t\tif err := h.checkBatchIDs(objects); err != nil {\n\t\t\treturn err\n\t\t}\n", "", "SIB-5", "validate-before-mutation"},
		mutant{"setmetadata-reads-before-lock", "pkg/engine/ops.go", "\tlock := e.getMetadataLockShard(internalID)\n\tlock.Lock()\n\tdefer lock.Unlock()\n\t// The node may have been deleted between the look-up above and the lock\n", "\tmeta := e.DB.GetMetadataForNode(indexName, internalID)\n\tlock := e.getMetadataLockShard(internalID)\n\tlock.Lock()\n\tdefer lock.Unlock()\n\t// The node may have been deleted between the look-up above and the lock\n", "GRD-rmw", "VSetMetadata:read"},
	)
}

func init() {
	addMutants("C09",
		mutant{"overwrite-leaves-doc-counted", "pkg/core/core.go", "\t\t\t\t\tif _, had := stats.DocLengths[nodeID]; had {\n\t\t\t\t\t\tstats.TotalDocLength -= int64(stats.DocLengths[nodeID])\n\t\t\t\t\t\tdelete(stats.DocLengths, nodeID)\n\t\t\t\t\t\tstats.TotalDocs--", "\t\t\t\t\tif _, had := stats.DocLengths[nodeID]; had && false {\n\t\t\t\t\t\tstats.TotalDocLength -= int64(stats.DocLengths[nodeID])\n\t\t\t\t\t\tstats.TotalDocs--", "GRD-stats", "removeOldIndexEntries:postings-removal-removes-stats"},
		mutant{"bm25-constant-changed", "pkg/core/core.go", "bm25b  = 0.75", "bm25b  = 0.5", "TBL-bm25", "bm25b"},
		mutant{"alpha-unclamped", "pkg/engine/ops.go", "\t\tif alpha < 0 || alpha > 1 {\n\t\t\talpha = 0.5\n\t\t}\n", "", "GRD-fusion", "alpha-clamped"},
		mutant{"text-candidates-cut-to-k", "pkg/engine/ops.go", "\t\t\t} else {\n\t\t\t\ttextResults = results\n\t\t\t}\n\t\t}()", "\t\t\t} else {\n\t\t\t\ttextResults = results\n\t\t\t}\n\t\t\tif k > 0 && len(textResults) > k {\n\t\t\t\ttextResults = textResults[:k]\n\t\t\t}\n\t\t}()", "GRD-order", "no-candidate-cut-before-fusion"},
	)
	addMutants("C15",
		mutant{"pinned-string-form-dropped", "pkg/engine/ops.go", "\t\t\t\tswitch v := val.(type) {\n\t\t\t\tcase bool:\n\t\t\t\t\tisPinned = v\n\t\t\t\tcase string:\n\t\t\t\t\tisPinned = (v == \"true\")\n\t\t\t\t}\n\t\t\t}\n\n\t\t\tif isPinned {\n\t\t\t\tcontinue // Skip decay", "\t\t\t\tisPinned, _ = val.(bool)\n\t\t\t}\n\n\t\t\tif isPinned {\n\t\t\t\tcontinue // Skip decay", "SIB-3", "searchWithFusion:pin-forms"},
		mutant{"scored-search-ignores-last-access", "pkg/engine/ops.go", "\t\t\t\tif val, ok := meta[\"_last_accessed\"]; ok {\n\t\t\t\t\tif lastAccess := toFloat64(val); lastAccess > created {\n\t\t\t\t\t\tcreated = lastAccess\n\t\t\t\t\t}\n\t\t\t\t}\n", "", "SIB-3", "VSearchWithScores:keys"},
		mutant{"unknown-model-is-step", "pkg/engine/search_utils.go", "\tdefault:\n\t\treturn calculateExponentialDecay(age, halfLifeSeconds)", "\tdefault:\n\t\treturn calculateStepDecay(age, halfLifeSeconds)", "TBL-models", "default:exponential"},
		mutant{"future-timestamp-decays", "pkg/engine/search_utils.go", "\tage := now - createdAt\n\tif age <= 0 {\n\t\treturn 1.0\n\t}\n\n\tswitch model {", "\tage := now - createdAt\n\n\tswitch model {", "TBL-models", "unit:age<=0"},
		mutant{"reinforce-adds-two", "pkg/engine/ops.go", "newCount := count + 1", "newCount := count + 2", "GRD-reinforce", "count+1"},
	)
}

func init() {
	addMutants("C16",
		mutant{"read-exemption-by-path-suffix", "internal/server/middleware.go", "\t\t\tif isReadAction || (method == http.MethodPost && (path == \"/rag/retrieve\" || strings.HasPrefix(path, \"/ui/\"))) {", "\t\t\tif isReadAction || strings.HasSuffix(path, \"search\") || (method == http.MethodPost && (path == \"/rag/retrieve\" || strings.HasPrefix(path, \"/ui/\"))) {", "WEB-3", "route:DELETE_/vector/indexes/{name}"},
		mutant{"admin-requirement-not-enforced", "pkg/auth/rbac.go", "\tif requiredRole == RoleAdmin {\n\t\treturn false\n\t}\n", "", "SIB-roles", "HasAccess:denies:admin"},
		mutant{"new-mutating-route-with-read-suffix", "internal/server/http_handlers.go", "\tmux.HandleFunc(\"POST /graph/actions/unlink\", s.handleGraphUnlink)", "\tmux.HandleFunc(\"POST /graph/actions/unlink\", s.handleGraphUnlink)\n\tmux.HandleFunc(\"POST /graph/actions/unlink-and-search\", s.handleGraphUnlink)\n\tmux.HandleFunc(\"POST /graph/actions/search\", s.handleGraphUnlink)", "WEB-3", "route:POST_/graph/actions/search"},
		mutant{"namespace-from-query-decoy", "internal/server/middleware.go", "\t// B. Controllo dal Body (es. POST /vector/actions/add)\n", "\tif ns := r.URL.Query().Get(\"index_name\"); ns != \"\" {\n\t\treturn []string{ns}\n\t}\n\t// B. Controllo dal Body (es. POST /vector/actions/add)\n", "WEB-4", "middleware:namespace-locations"},
		mutant{"verified-token-cache", "pkg/auth/jwt_provider.go", "func (j *JWTProvider) VerifyToken(tokenStr string) (*APIKeyPolicy, error) {\n", "var verifiedCache = map[string]*APIKeyPolicy{}\n\nfunc (j *JWTProvider) VerifyToken(tokenStr string) (*APIKeyPolicy, error) {\n\tif p, ok := verifiedCache[tokenStr]; ok {\n\t\tif _, revoked := j.kvStore.Get(\"_sys_auth::revoked::\" + p.ID); !revoked {\n\t\t\treturn p, nil\n\t\t}\n\t}\n", "WEB-auth", "VerifyToken:success-after-parse"},
		mutant{"any-signing-method", "pkg/auth/jwt_provider.go", "\t\tif _, ok := t.Method.(*jwt.SigningMethodECDSA); !ok {\n\t\t\treturn nil, fmt.Errorf(\"auth: unexpected signing method: %v\", t.Header[\"alg\"])\n\t\t}\n", "", "WEB-auth", "VerifyToken:pins-ECDSA"},
		mutant{"transfer-indexes-not-authorised", "internal/server/middleware.go", "\t\t\tif r.URL.Path == \"/transfer/memory\" {\n\t\t\t\tnamed = append(named, payload.SourceIndex, payload.TargetIndex)\n\t\t\t}\n", "", "WEB-4", "Server.handleTransferMemory"},
		mutant{"forbidden-but-served", "internal/server/middleware.go", "\t\t\t\t\thttp.Error(w, \"Forbidden: insufficient permissions for this namespace/action\", http.StatusForbidden)\n\t\t\t\t\treturn\n", "\t\t\t\t\thttp.Error(w, \"Forbidden: insufficient permissions for this namespace/action\", http.StatusForbidden)\n", "WEB-auth", "serve-needs-HasAccess"},
		mutant{"auth-store-unjournaled-again", "internal/server/server.go", "auth.NewJWTProvider(journaledKV{eng})", "auth.NewJWTProvider(eng.DB.GetKVStore())", "JRN-2", "pkg/auth"},
	)
}

func init() {
	addMutants("C19",
		mutant{"decode-error-ignored", "internal/server/http_handlers.go", "\tvar req VectorDeleteRequest\n\tif err := s.decodeJSON(r, &req); err != nil {\n\t\ts.writeHTTPError(w, http.StatusBadRequest, err)\n\t\treturn\n\t}", "\tvar req VectorDeleteRequest\n\tif err := s.decodeJSON(r, &req); err != nil {\n\t\ts.writeHTTPError(w, http.StatusBadRequest, err)\n\t}", "WEB-5", "handleVectorDelete:decode"},
		mutant{"empty-body-is-empty-object", "internal/server/http_handlers.go", "\tif err := dec.Decode(v); err != nil {\n\t\treturn fmt.Errorf(\"invalid JSON: %w\", err)\n\t}\n\treturn nil", "\tif err := dec.Decode(v); err != nil {\n\t\tif err.Error() == \"EOF\" {\n\t\t\treturn nil\n\t\t}\n\t\treturn fmt.Errorf(\"invalid JSON: %w\", err)\n\t}\n\treturn nil", "WEB-5", "decodeJSON:error-is-returned"},
		mutant{"k-limit-dropped", "internal/server/http_handlers.go", "\tif req.K > maxK {\n\t\ts.writeHTTPError(w, http.StatusBadRequest, fmt.Errorf(\"k must be between 1 and %d\", maxK))\n\t\treturn\n\t}\n\n\t// Auto-embed: if QueryVector empty but QueryText provided (mirrors /search).", "\t// Auto-embed: if QueryVector empty but QueryText provided (mirrors /search).", "WEB-6", "Engine.VSearchWithScores"},
		mutant{"batch-item-dimension-unchecked", "internal/server/http_handlers.go", "\tfor i := range req.Vectors {\n\t\tif len(req.Vectors[i].Vector) > maxVectorDim {\n\t\t\ts.writeHTTPError(w, http.StatusBadRequest, fmt.Errorf(\"vector dimension must be <= %d, got %d (item %d)\", maxVectorDim, len(req.Vectors[i].Vector), i))\n\t\t\treturn\n\t\t}\n\t}\n\n\terr := s.Engine.VAddBatch(", "\n\terr := s.Engine.VAddBatch(", "WEB-6", "handleVectorAddBatch:Engine.VAddBatch#1:vector-dimension-of-batch-items"},
		mutant{"body-limit-inside-auth", "internal/server/server.go", "\t// 1. Auth (Inner)\n\thandler = s.authMiddleware(handler)\n\n\t// 2. Body Size Limit - prevents oversized payloads (DoS protection)\n\thandler = s.bodySizeLimitMiddleware(handler)\n", "\thandler = s.bodySizeLimitMiddleware(handler)\n\thandler = s.authMiddleware(handler)\n", "WEB-6", "chain:body-limit-outside-auth"},
		mutant{"index-name-unvalidated-on-create", "pkg/engine/ops.go", "\tif err := validateIndexName(name); err != nil {\n\t\treturn err\n\t}\n\t// \"::\" separates the index name from the node id in graph ids", "\t// \"::\" separates the index name from the node id in graph ids", "WEB-8", "Engine.VCreate:arena-path"},
		mutant{"vdrop-replay-unvalidated", "pkg/engine/recovery.go", "\t\t\t\tif validateIndexName(idxName) != nil {\n\t\t\t\t\tslog.Warn(\"skipping VDROP with an invalid index name\", \"index\", idxName)\n\t\t\t\t\tbreak\n\t\t\t\t}\n", "", "WEB-8", "Engine.replayAOF:arena-path"},
		mutant{"validator-allows-backslash", "pkg/engine/ops.go", "strings.ContainsAny(name, \"/\\\\\\x00\")", "strings.ContainsAny(name, \"/\\x00\")", "WEB-8", "validator:rejects:backslash"},
		mutant{"bad-request-after-delete", "internal/server/http_handlers.go", "\tif err := s.Engine.VDelete(req.IndexName, req.Id); err != nil {\n\t\ts.writeHTTPError(w, http.StatusInternalServerError, err)\n\t\treturn\n\t}\n\ts.writeHTTPResponse(w, http.StatusOK, map[string]string{\"status\": \"OK\"})", "\tif err := s.Engine.VDelete(req.IndexName, req.Id); err != nil {\n\t\ts.writeHTTPError(w, http.StatusInternalServerError, err)\n\t\treturn\n\t}\n\tif len(req.Id) > 512 {\n\t\ts.writeHTTPError(w, http.StatusBadRequest, fmt.Errorf(\"id too long\"))\n\t\treturn\n\t}\n\ts.writeHTTPResponse(w, http.StatusOK, map[string]string{\"status\": \"OK\"})", "WEB-7", "handleVectorDelete:VDelete"},
	)
	addMutants("C18",
		mutant{"int8-kernel-length-unchecked", "pkg/core/distance/distance_go.go", "\tif len(v1) != len(v2) {\n\t\treturn 0, errors.New(\"int8 vectors must have the same length\")\n\t}\n", "", "GRD-kernel", "DistanceFuncI8[cosine]"},
		mutant{"gonum-kernel-length-unchecked", "pkg/core/distance/distance_go.go", "\tif len(v1) != len(v2) {\n\t\treturn 0, errors.New(\"vectors must have the same length\")\n\t}\n\tdot := gonumEngine", "\tdot := gonumEngine", "GRD-kernel", "dotProductAsDistanceGonum"},
		mutant{"mismatch-returns-zero-distance", "pkg/core/distance/distance_go.go", "\t\treturn 0, errors.New(\"float16 vectors must have the same length\")", "\t\treturn 0, nil", "GRD-kernel", "DistanceFuncF16[euclidean]"},
		mutant{"cosine-delegate-error-dropped", "pkg/core/distance/distance_go.go", "\tdot, err := dotProductGo(v1, v2)\n\tif err != nil {\n\t\treturn 0, err\n\t}\n\treturn 1.0 - float64(dot), nil", "\tdot, _ := dotProductGo(v1, v2)\n\treturn 1.0 - float64(dot), nil", "GRD-kernel", "dotProductAsDistanceGo"},
		mutant{"int8-product-not-widened", "pkg/core/distance/distance_go.go", "sum += int32(v1[i]) * int32(v2[i])", "sum += int32(v1[i] * v2[i])", "GRD-widen", "narrow-arith:"},
		mutant{"lower-clamp-removed", "pkg/core/distance/quantizer.go", "\t\tif scaled > 127.0 {\n\t\t\tscaled = 127.0\n\t\t} else if scaled < -127.0 {\n\t\t\tscaled = -127.0\n\t\t}", "\t\tif scaled > 127.0 {\n\t\t\tscaled = 127.0\n\t\t}", "GRD-clamp", "Quantize:int8-conversion#1"},
		mutant{"upper-clamp-off-by-one", "pkg/core/distance/quantizer.go", "\t\tif scaled > 127.0 {\n\t\t\tscaled = 127.0\n\t\t}", "\t\tif scaled > 128.0 {\n\t\t\tscaled = 128.0\n\t\t}", "GRD-clamp", "Quantize:int8-conversion#1"},
		mutant{"float16-slot-one-byte", "pkg/core/hnsw/hnsw_index.go", "vecSize = dim * 2", "vecSize = dim * 1", "TBL-prec", "Index.initArenaIfNeeded:slot-size:Float16"},
		mutant{"float16-arena-code-of-float32", "pkg/core/hnsw/hnsw_index.go", "precType = mmap.PrecFloat16 // 1", "precType = mmap.PrecFloat32 // 1", "TBL-prec", "Index.initArenaIfNeeded:switch#1:Float16"},
		mutant{"getstate-returns-views", "pkg/storage/mmap/arena.go", "\t\tSlotTable:    st,\n\t\tFreeSlots:    fs,", "\t\tSlotTable:    va.slotTable[:len(st):len(st)],\n\t\tFreeSlots:    va.freeSlots[:len(fs):len(fs)],", "GRD-own", "GetState:slotTable"},
		mutant{"find-free-slots-window", "pkg/storage/mmap/arena.go", "result := append([]uint32(nil), va.freeSlots[len(va.freeSlots)-count:]...)", "result := va.freeSlots[len(va.freeSlots)-count:]", "GRD-own", "findFreeSlotsLocked:freeSlots:returned"},
		mutant{"alloc-does-not-pop", "pkg/storage/mmap/arena.go", "\t\tphysSlot = va.freeSlots[len(va.freeSlots)-1]\n\t\tva.freeSlots = va.freeSlots[:len(va.freeSlots)-1]", "\t\tphysSlot = va.freeSlots[len(va.freeSlots)-1]", "GRD-slot", "pop:pkg/storage/mmap.(*VectorArena).AllocSlot#1"},
		mutant{"alloc-does-not-bump", "pkg/storage/mmap/arena.go", "\t\tphysSlot = va.nextPhysSlot\n\t\tva.nextPhysSlot++", "\t\tphysSlot = va.nextPhysSlot", "GRD-slot", "bump:pkg/storage/mmap.(*VectorArena).AllocSlot#1"},
		mutant{"free-keeps-table-entry", "pkg/storage/mmap/arena.go", "\t\t\tva.freeSlots = append(va.freeSlots, physSlot)\n\t\t\tva.slotTable[internalID] = UnallocatedSlot", "\t\t\tva.freeSlots = append(va.freeSlots, physSlot)", "GRD-slot", "push:pkg/storage/mmap.(*VectorArena).FreeSlot#1"},
		mutant{"movebatch-frees-skipped-entries", "pkg/storage/mmap/compactor.go", "\t\t\tac.arena.freeSlots = append(ac.arena.freeSlots, v.fromSlot)\n\t\t\tfreed++\n\t\t}\n\t}\n", "\t\t}\n\t\tac.arena.freeSlots = append(ac.arena.freeSlots, v.fromSlot)\n\t\tfreed++\n\t}\n", "GRD-slot", "push:pkg/storage/mmap.(*AsyncCompactor).moveBatch#1"},
		mutant{"relocation-not-revalidated", "pkg/storage/mmap/compactor.go", "\t\t// TOCTOU check\n\t\tif ac.arena.slotTable[v.internalID] != v.fromSlot {\n\t\t\tcontinue\n\t\t}\n", "", "GRD-slot", "reloc:moveBatch#1:revalidate"},
		mutant{"node-pointer-not-updated", "pkg/storage/mmap/compactor.go", "\t\t\tif ac.nodeUpdater != nil {\n\t\t\t\tac.nodeUpdater.UpdateNodePointer(v.internalID, newBytes)\n\t\t\t}", "\t\t\t_ = newBytes", "GRD-slot", "reloc:moveBatch#1:update-pointer"},
		mutant{"table-switched-before-copy", "pkg/storage/mmap/compactor.go", "\t\t\tcopy(ac.arena.chunks[targetChunkID].Data[targetOffset:targetOffset+ac.arena.vectorSize], v.data)\n\n\t\t\t// Update slot table\n\t\t\tac.arena.slotTable[v.internalID] = targetSlot\n", "\t\t\t// Update slot table\n\t\t\tac.arena.slotTable[v.internalID] = targetSlot\n", "GRD-slot", "reloc:moveBatch#1:copy-first"},
		mutant{"freeslot-without-slot-lock", "pkg/storage/mmap/arena.go", "\tva.slotMu.Lock()\n\tdefer va.slotMu.Unlock()\n\n\tif internalID < uint32(len(va.slotTable)) {", "\tif internalID < uint32(len(va.slotTable)) {", "LCK-5", "mmap.VectorArena.slotMu"},
	)
	addMutants("C17",
		mutant{"firewall-compares-similarity", "pkg/proxy/proxy.go", "\tif dist := matchDistance(bestMatch); dist < p.cfg.FirewallThreshold {\n\t\treturn true, fmt.Sprintf(\"Similar to '%s' (Dist: %.4f)\"", "\tif dist := float32(bestMatch.Score); dist < p.cfg.FirewallThreshold {\n\t\treturn true, fmt.Sprintf(\"Similar to '%s' (Dist: %.4f)\"", "UNI-1", "AIProxy.checkFirewallWithVec:FirewallThreshold"},
		mutant{"cache-comparison-flipped", "pkg/proxy/proxy.go", "if matchDistance(best) < p.cfg.CacheThreshold {", "if matchDistance(best) > p.cfg.CacheThreshold {", "UNI-1", "AIProxy.checkCache:CacheThreshold"},
		mutant{"engine-hands-out-raw-distance", "pkg/engine/ops.go", "\t\tsimilarity[i] = 1.0 / (1.0 + internalResults[i].Score)\n\t\tinternalResults[i].Score = similarity[i]\n\t\tdecayFactor[i] = 1.0", "\t\tsimilarity[i] = internalResults[i].Score\n\t\tinternalResults[i].Score = similarity[i]\n\t\tdecayFactor[i] = 1.0", "UNI-1", "AIProxy.checkCache:CacheThreshold"},
		mutant{"task-marker-bypasses-patterns", "pkg/proxy/proxy.go", "\t// --- FIREWALL (Static) ---\n\t// Check text BEFORE doing anything expensive (Embedding/RAG) and before", "\tif strings.Contains(lastQuery, \"### Task:\") {\n\t\tp.reverseProxy.ServeHTTP(w, r)\n\t\treturn\n\t}\n\t// --- FIREWALL (Static) ---\n\t// Check text BEFORE doing anything expensive (Embedding/RAG) and before", "GRD-fw", "forward#2:static"},
		mutant{"semantic-check-only-long-prompts", "pkg/proxy/proxy.go", "\tif p.cfg.FirewallEnabled && len(originalVec) > 0 {\n\t\tif blocked, reason := p.checkFirewallWithVec(originalVec); blocked {", "\tif p.cfg.FirewallEnabled && len(originalVec) > 0 && len(lastQuery) > 20 {\n\t\tif blocked, reason := p.checkFirewallWithVec(originalVec); blocked {", "GRD-fw", ":semantic"},
		mutant{"pattern-check-on-truncated-text", "pkg/proxy/proxy.go", "if blocked, reason := p.checkStaticFirewall(lastQuery); blocked {", "if blocked, reason := p.checkStaticFirewall(limitStr(lastQuery, 200)); blocked {", "GRD-fw", "static-check#1:sees-whole-prompt"},
		mutant{"flag-only-without-own-group", "pkg/proxy/firewall.go", "\t\tcompileStr := \"(?i)\" + pattern\n", "\t\tcompileStr := pattern\n\t\tif len(pattern) < 2 || pattern[:2] != \"(?\" {\n\t\t\tcompileStr = \"(?i)\" + pattern\n\t\t}\n", "GRD-pattern", "initFirewall:compile#1:case-insensitive"},
		mutant{"long-patterns-dropped", "pkg/proxy/firewall.go", "\t\tp.firewallPatterns = append(p.firewallPatterns, re)\n", "\t\tif len(pattern) < 64 {\n\t\t\tp.firewallPatterns = append(p.firewallPatterns, re)\n\t\t}\n", "GRD-pattern", "initFirewall:compile#1:kept"},
		mutant{"match-ignored-on-long-text", "pkg/proxy/firewall.go", "\t\tif re.MatchString(text) {", "\t\tif re.MatchString(text) && len(text) < 4096 {", "GRD-pattern", "checkStaticFirewall:match#1:blocks"},
		mutant{"ttl-compared-with-multiple", "pkg/proxy/proxy.go", "time.Since(createdTime) > p.cfg.CacheTTL {", "time.Since(createdTime) > 10*p.cfg.CacheTTL {", "GRD-cache", "checkCache:ttl"},
		mutant{"expired-entry-still-served", "pkg/proxy/proxy.go", "\t\t\t\t\tgo func(id string) { _ = p.engine.VDelete(p.cfg.CacheIndex, id) }(best.ID)\n\t\t\t\t\treturn \"\", false\n", "\t\t\t\t\tgo func(id string) { _ = p.engine.VDelete(p.cfg.CacheIndex, id) }(best.ID)\n", "GRD-cache", "checkCache:ttl"},
		mutant{"created-at-stored-as-int64", "pkg/proxy/proxy.go", "\"created_at\": float64(time.Now().Unix()),", "\"created_at\": time.Now().Unix(),", "SIB-cachekeys", "checkCache:created_at"},
		mutant{"cache-consulted-for-streams", "pkg/proxy/proxy.go", "\tif !isStreaming && p.cfg.CacheEnabled && len(originalVec) > 0 {\n\t\tif cachedResp, hit := p.checkCache(originalVec); hit {", "\tif p.cfg.CacheEnabled && len(originalVec) > 0 {\n\t\tif cachedResp, hit := p.checkCache(originalVec); hit {", "GRD-cache", "ServeHTTP:cache-only-non-streaming"},
		mutant{"error-answers-cached", "pkg/proxy/proxy.go", "\tif capturer.statusCode == http.StatusOK {\n\t\tgo p.saveToCache(", "\tif capturer.statusCode < 500 {\n\t\tgo p.saveToCache(", "GRD-cache", "ServeHTTP:save#1:only-200"},
		mutant{"citation-test-substring", "pkg/proxy/proxy.go", "\t\tif src == docID {\n\t\t\treturn true\n\t\t}", "\t\tif strings.Contains(src, docID) {\n\t\t\treturn true\n\t\t}", "GRD-inval", "citesDocument:whole-id"},
		mutant{"delete-without-citation-test", "pkg/proxy/proxy.go", "\t\tif !citesDocument(sources, req.DocumentID) {\n\t\t\tcontinue\n\t\t}\n", "\t\t_ = sources\n", "GRD-inval", "handleCacheInvalidate:delete#1:behind-citation-test"},
	)
	addMutants("C20",
		mutant{"second-piece-loses-keyword", "pkg/rag/splitter.go", "\t\tif i > 0 {\n\t\t\tpart = kept + part\n\t\t}", "\t\tif i > 1 {\n\t\t\tpart = kept + part\n\t\t}", "TBL-sep", "recursiveSplit:piece#1:prefixed"},
		mutant{"whole-separator-is-joiner-again", "pkg/rag/splitter.go", "\treturn s.mergeSplits(goodSplits, joiner)", "\t_ = joiner\n\treturn s.mergeSplits(goodSplits, separator)", "TBL-sep", "whitespace-only"},
		mutant{"cut-point-not-whitespace", "pkg/rag/splitter.go", "lead := len(separator) - len(strings.TrimLeftFunc(separator, unicode.IsSpace))", "lead := len(separator) - len(strings.TrimLeftFunc(separator, unicode.IsPunct))", "TBL-sep", "recursiveSplit:joiner-is-whitespace"},
		mutant{"generic-table-without-fallback", "pkg/rag/splitter.go", "\t\tSeparators:   []string{\"\\n\\n\", \"\\n\", \" \", \"\"},\n\t}\n}\n\n// NewCodeSplitter", "\t\tSeparators:   []string{\"\\n\\n\", \"\\n\", \" \"},\n\t}\n}\n\n// NewCodeSplitter", "GRD-size", "table:NewRecursiveSplitter#1:ends-with-fallback"},
		mutant{"uncounted-space-between-pieces", "pkg/rag/splitter.go", "\t\t\t// This simple splitter assumes pieces are \"clean\".\n\t\t}\n", "\t\t\tcurrentDoc += \" \"\n\t\t}\n", "GRD-size", "SplitText:concat"},
		mutant{"overlap-tail-ignores-next-piece", "pkg/rag/splitter.go", "for len(newParts) > 0 && (totalLen > overlapSize || totalLen+sepLen+nextLen > s.ChunkSize) {", "for len(newParts) > 0 && totalLen > overlapSize {", "GRD-size", "mergeSplits:overlap-tail#1:fits-with-next"},
		mutant{"joined-with-uncounted-string", "pkg/rag/splitter.go", "\t\t\t\tdoc := strings.Join(currentDoc, separator)\n\t\t\t\tmergedDocs = append(mergedDocs, doc)\n", "\t\t\t\tdoc := strings.Join(currentDoc, separator+\" \")\n\t\t\t\tmergedDocs = append(mergedDocs, doc)\n", "GRD-size", "mergeSplits:join#1:counted-joiner"},
		mutant{"recursion-on-same-list", "pkg/rag/splitter.go", "\t\treturn s.recursiveSplit(text, nextSeparators)", "\t\treturn s.recursiveSplit(text, separators)", "GRD-progress", "recursiveSplit:recursion#1:shorter-list"},
		mutant{"chunker-accepts-overlap-equal-size", "pkg/core/text/chunker.go", "overlapSize >= chunkSize {", "overlapSize > chunkSize {", "GRD-progress", "FixedSizeChunker:step-positive"},
		mutant{"overlap-loop-keeps-head", "pkg/rag/splitter.go", "\t\tnewParts = newParts[1:]\n", "\t\tnewParts = newParts[0:]\n", "GRD-progress", "removeFirstUntilOverlap:loop#1:shrinks"},
		mutant{"first-chunk-always-taken", "pkg/rag/adaptive_retriever.go", "\t\t\tif float64(totalTokens)+chunkCost > float64(budget) {\n", "\t\t\tif float64(totalTokens)+chunkCost > float64(budget) && len(selected) > 0 {\n", "GRD-budget", "assembleContext:select#1:within-budget"},
		mutant{"selected-chunk-not-counted", "pkg/rag/adaptive_retriever.go", "\t\t\tchunkTokens := int(chunkCost)\n\n\t\t\tselected = append(selected, chunk.Chunk)\n\t\t\ttotalTokens += chunkTokens\n", "\t\t\tselected = append(selected, chunk.Chunk)\n", "GRD-budget", "assembleContext:select#1:counted"},
		mutant{"depth-limit-off-by-one", "pkg/rag/adaptive_retriever.go", "if current.Depth >= ar.config.GraphExpansionDepth {", "if current.Depth > ar.config.GraphExpansionDepth {", "GRD-expand", "expandGraphBFS:depth-cut"},
		mutant{"node-cap-not-tested", "pkg/rag/adaptive_retriever.go", "for head < len(queue) && len(visited) < ar.config.MaxExpansionNodes {", "for head < len(queue) {", "GRD-expand", "expandGraphBFS:node-cap"},
		mutant{"neighbour-not-marked-visited", "pkg/rag/adaptive_retriever.go", "\t\t\t\t// New node\n\t\t\t\tvisited[targetID] = newDepth\n", "\t\t\t\t// New node\n", "GRD-expand", "expandGraphBFS:enqueue#1:marked"},
		mutant{"head-not-advanced-on-depth-cut", "pkg/rag/adaptive_retriever.go", "\t\tcurrent := queue[head]\n\t\thead++\n\n\t\tif current.Depth >= ar.config.GraphExpansionDepth {\n\t\t\tcontinue\n\t\t}", "\t\tcurrent := queue[head]\n\n\t\tif current.Depth >= ar.config.GraphExpansionDepth {\n\t\t\tcontinue\n\t\t}\n\t\thead++", "GRD-expand", "expandGraphBFS:head-advances"},
		mutant{"negation-listed-as-stop-word", "pkg/textanalyzer/compressor.go", "\t// Other safe words\n\t\"as\": {},", "\t// Other safe words\n\t\"as\": {}, \"not\": {},", "TBL-stop", "table:englishSafeStopWords:no-core-word"},
		mutant{"protected-check-dropped", "pkg/textanalyzer/compressor.go", "\t// Never remove important words regardless of language\n\tif isImportantWord(word) {\n\t\treturn false\n\t}\n", "", "TBL-stop", "isStopWord:protected-first"},
		mutant{"never-unprotected", "pkg/textanalyzer/compressor.go", "\"not\": {}, \"no\": {}, \"never\": {}, \"none\": {}, \"nothing\": {},", "\"not\": {}, \"no\": {}, \"none\": {}, \"nothing\": {},", "TBL-stop", "isImportantWord:covers-core"},
		mutant{"compress-iterates-a-map", "pkg/textanalyzer/compressor.go", "\tfor _, token := range tokens {\n\t\tif !isStopWord(token, normalizedLang) {", "\tseen := map[string]bool{}\n\tfor _, token := range tokens {\n\t\tseen[token] = true\n\t}\n\tfor token := range seen {\n\t\tif !isStopWord(token, normalizedLang) {", "EFF-det", "root:Compress"},
	)
	addMutants("C07",
		mutant{"single-add-prunes-base-layer-to-m", "pkg/core/hnsw/hnsw_index.go", "\t\t// Select Neighbors\n\t\tmaxM := h.m\n\t\tif l == 0 {\n\t\t\tmaxM = h.mMax0\n\t\t}", "\t\t// Select Neighbors\n\t\tmaxM := h.m", "SIB-cap", "select:pkg/core/hnsw.(*Index).addActive"},
		mutant{"repair-swaps-the-caps", "pkg/core/hnsw/hnsw_index.go", "\t\t\t\t\tmaxConns := h.m\n\t\t\t\t\tif level == 0 {\n\t\t\t\t\t\tmaxConns = h.mMax0\n\t\t\t\t\t}", "\t\t\t\t\tmaxConns := h.m\n\t\t\t\t\tif level != 0 {\n\t\t\t\t\t\tmaxConns = h.mMax0\n\t\t\t\t\t}", "SIB-cap", "cap:"},
		mutant{"base-cap-equals-m", "pkg/core/hnsw/hnsw_index.go", "mMax0:                m * 2,", "mMax0:                m,", "SIB-cap", "mMax0:initialised-as-2m"},
		mutant{"heuristic-applied-below-cap", "pkg/core/hnsw/hnsw_index.go", "\tif len(candidates) <= m {\n\t\treturn candidates\n\t}\n\n\tresults := make([]types.Candidate, 0, m)", "\tif len(candidates) <= m/2 {\n\t\treturn candidates\n\t}\n\n\tresults := make([]types.Candidate, 0, m)", "GRD-keep", "selectNeighbors:keeps-all-within-cap"},
		mutant{"ef-not-raised-to-k", "pkg/core/hnsw/hnsw_index.go", "\tef := efSearch\n\tif ef < k {\n\t\tef = k\n\t}", "\tef := efSearch\n\tif ef < 1 {\n\t\tef = k\n\t}", "GRD-keep", "searchLayerUnlocked:ef-at-least-k"},
	)
	addMutants("C20",
		mutant{"edly-cut-one-too-many", "pkg/textanalyzer/stemmer_english.go", "\t\t\tstem = s[:len(s)-4]", "\t\t\tstem = s[:len(s)-5]", "GRD-slice", "englishStep1b:s[:len(s)-5]"},
		mutant{"chunk-window-not-clamped", "pkg/core/text/chunker.go", "\t\tif end > length {\n\t\t\tend = length\n\t\t}\n", "", "GRD-slice", "FixedSizeChunker:runes[i:end]"},
		mutant{"short-word-guard-weakened", "pkg/textanalyzer/stemmer_english.go", "\tif len(word) <= 2 {\n\t\treturn word\n\t}\n\texceptions1", "\tif len(word) < 1 {\n\t\treturn word\n\t}\n\texceptions1", "GRD-slice", "stemEnglish:runes[0]"},
	)
	addMutants("C04",
		mutant{"ids-checked-while-registering", "pkg/core/hnsw/hnsw_index.go", "\tfor i, obj := range objects {\n\t\tinternalID := uint32(startID + uint64(i))\n\t\th.externalToInternalID[obj.Id] = internalID", "\tfor i, obj := range objects {\n\t\tif _, exists := h.externalToInternalID[obj.Id]; exists {\n\t\t\th.metaMu.Unlock()\n\t\t\treturn fmt.Errorf(\"ID '%s' already exists\", obj.Id)\n\t\t}\n\t\tinternalID := uint32(startID + uint64(i))\n\t\th.externalToInternalID[obj.Id] = internalID", "SIB-5", "addBatchInternal:no-validation-after-mutation"},
	)
	addMutants("C05",
		mutant{"ids-checked-while-registering", "pkg/core/hnsw/hnsw_index.go", "\tfor i, obj := range objects {\n\t\tinternalID := uint32(startID + uint64(i))\n\t\th.externalToInternalID[obj.Id] = internalID", "\tfor i, obj := range objects {\n\t\tif _, exists := h.externalToInternalID[obj.Id]; exists {\n\t\t\th.metaMu.Unlock()\n\t\t\treturn fmt.Errorf(\"ID '%s' already exists\", obj.Id)\n\t\t}\n\t\tinternalID := uint32(startID + uint64(i))\n\t\th.externalToInternalID[obj.Id] = internalID", "SIB-5", "addBatchInternal:no-validation-after-mutation"},
	)
	addMutants("C01",
		mutant{"kv-delete-only-in-aggregation", "pkg/engine/recovery.go", "\t\t\t\te.DB.GetKVStore().Delete(string(cmd.Args[0]))\n", "", "CDC-8", "arm:DEL:deletes-from-restored-store"},
		mutant{"compaction-keeps-stale-snapshot", "pkg/engine/recovery.go", "\tif err := os.Remove(e.snapPath); err != nil && !os.IsNotExist(err) {\n\t\tslog.Error(\"rewrite: failed to remove the snapshot superseded by the compacted log\", \"path\", e.snapPath, \"error\", err)\n\t}\n", "", "ORD-2c", "Engine.RewriteAOF:snapshot-retired-after-ReplaceWith"},
	)
	addMutants("C14",
		mutant{"compaction-keeps-stale-snapshot", "pkg/engine/recovery.go", "\tif err := os.Remove(e.snapPath); err != nil && !os.IsNotExist(err) {\n\t\tslog.Error(\"rewrite: failed to remove the snapshot superseded by the compacted log\", \"path\", e.snapPath, \"error\", err)\n\t}\n", "", "ORD-2c", "Engine.RewriteAOF:snapshot-retired-after-ReplaceWith"},
	)
	addMutants("C07",
		mutant{"batch-prune-not-sorted", "pkg/core/hnsw/hnsw_index.go", "\t\t\t\t\t// Sort by distance (using slices.SortFunc - faster than sort.Slice)\n\t\t\t\t\tslices.SortFunc(allCandidates, func(a, b types.Candidate) int {\n\t\t\t\t\t\t// Confronto esplicito per float64\n\t\t\t\t\t\tif a.Distance < b.Distance {\n\t\t\t\t\t\t\treturn -1\n\t\t\t\t\t\t}\n\t\t\t\t\t\tif a.Distance > b.Distance {\n\t\t\t\t\t\t\treturn 1\n\t\t\t\t\t\t}\n\t\t\t\t\t\treturn 0\n\t\t\t\t\t})\n", "", "SIB-sorted", "sorted:"},
	)
	addMutants("C13",
		mutant{"emit-sends-outside-the-bus-lock", "pkg/engine/events.go", "\teb.mu.RLock()\n\tdefer eb.mu.RUnlock()\n\n\tfor ch := range eb.subscribers {\n\t\tselect {", "\teb.mu.RLock()\n\tchans := make([]chan Event, 0, len(eb.subscribers))\n\tfor ch := range eb.subscribers {\n\t\tchans = append(chans, ch)\n\t}\n\teb.mu.RUnlock()\n\n\tfor _, ch := range chans {\n\t\tselect {", "LCK-7", "EventBus.Emit:send#1"},
		mutant{"unsubscribe-closes-after-unlock", "pkg/engine/events.go", "\teb.mu.Lock()\n\tif _, ok := eb.subscribers[ch]; ok {\n\t\tdelete(eb.subscribers, ch)\n\t\tclose(ch)\n\t}\n\teb.mu.Unlock()", "\teb.mu.Lock()\n\t_, ok := eb.subscribers[ch]\n\tif ok {\n\t\tdelete(eb.subscribers, ch)\n\t}\n\teb.mu.Unlock()\n\tif ok {\n\t\tclose(ch)\n\t}", "LCK-7", "EventBus.Unsubscribe:close#1"},
	)
	addMutants("C13",
		mutant{"refine-not-registered-as-in-flight", "pkg/core/hnsw/optimizer.go", "\t// turbo refine) faults on unmapped memory.\n\to.index.activeMu.RLock()\n\tdefer o.index.activeMu.RUnlock()\n\tif o.index.isClosed() {\n\t\treturn false\n\t}\n", "\t// turbo refine) faults on unmapped memory.\n", "LCK-5", "guard:hnsw.Index.activeMu@hnsw.(*GraphOptimizer).Refine$Refine$1"},
		mutant{"arena-closed-before-compactor-stopped", "pkg/core/hnsw/hnsw_index.go", "\t\tslog.Info(\"[HNSW] Waiting for compactor to stop\")\n\t\th.arena.WaitForStopped()\n", "\t\tslog.Info(\"[HNSW] Not waiting for the compactor\")\n", "ORD-8b", "Index.Close:WaitForStopped<arena.Close"},
	)
	addMutants("C01",
		mutant{"tombstone-only-without-pending-entry", "pkg/engine/recovery.go", "\t\t\t\t\tdelete(idx.entries, id)\n\t\t\t\t\tif idx.restored {\n\t\t\t\t\t\tidx.deleted[id] = struct{}{}\n\t\t\t\t\t}", "\t\t\t\t\tif _, pending := idx.entries[id]; pending {\n\t\t\t\t\t\tdelete(idx.entries, id)\n\t\t\t\t\t} else if idx.restored {\n\t\t\t\t\t\tidx.deleted[id] = struct{}{}\n\t\t\t\t\t}", "CDC-8", "arm:VDEL:tombstone#1:independent-of-pending-entry"},
	)
	addMutants("C07",
		mutant{"small-graph-test-on-id-counter", "pkg/core/hnsw/hnsw_index.go", "\tcurrentSize := uint64(len(h.externalToInternalID))\n\th.metaMu.RUnlock()\n\n\tif currentSize < uint64(efConst) {", "\tcurrentSize := h.nodeCounter.Load()\n\th.metaMu.RUnlock()\n\n\tif currentSize < uint64(efConst) {", "GRD-smallgraph", "addBatchInternal:small-graph-test"},
		mutant{"deleted-nodes-not-walked-through", "pkg/core/hnsw/hnsw_index.go", "\t\t\tif neighborNode == nil {\n\t\t\t\tcontinue\n\t\t\t}\n\n\t\t\t// --- DISTANCE CALCULATION ---", "\t\t\tif neighborNode == nil || neighborNode.Deleted.Load() {\n\t\t\t\tcontinue\n\t\t\t}\n\n\t\t\t// --- DISTANCE CALCULATION ---", "GRD-traverse", "searchLayerUnlocked:candidate-push"},
		mutant{"election-flag-set-conditionally", "pkg/core/hnsw/optimizer.go", "\t\t\t\tnewEntryFound = true\n", "\t\t\t\tif len(node.Connections) > 1 {\n\t\t\t\t\tnewEntryFound = true\n\t\t\t\t}\n", "GRD-elect", "Vacuum:live-node-seen"},
	)
	addMutants("C18",
		mutant{"clamp-after-float-to-int", "pkg/core/distance/quantizer.go", "\t\tif scaled > 127.0 {\n\t\t\tscaled = 127.0\n\t\t} else if scaled < -127.0 {\n\t\t\tscaled = -127.0\n\t\t}\n\t\t// --- END CLIPPING LOGIC ---\n\n\t\tquantized[i] = int8(math.Round(float64(scaled)))", "\t\tlevel := int(math.Round(float64(scaled)))\n\t\tif level > 127 {\n\t\t\tlevel = 127\n\t\t} else if level < -127 {\n\t\t\tlevel = -127\n\t\t}\n\t\t// --- END CLIPPING LOGIC ---\n\n\t\tquantized[i] = int8(level)", "GRD-clamp", "Quantize:int8-conversion#1"},
	)
	addMutants("C14",
		mutant{"shadow-buffer-handed-out", "pkg/persistence/lazy_aof.go", "\t\t\t\t\twrites := make([]string, len(snapshotBuffer))\n\t\t\t\t\tcopy(writes, snapshotBuffer)\n", "\t\t\t\t\twrites := snapshotBuffer\n", "ORD-4b", "run:handout#1"},
	)
	addMutants("C18",
		mutant{"vget-hands-out-arena-slice", "pkg/core/hnsw/hnsw_index.go", "\t\tvectorF32 = append([]float32(nil), node.GetVectorF32()...)", "\t\tvectorF32 = node.GetVectorF32()", "GRD-own-vec", "no-escape:pkg/core/hnsw.(*Index).GetNodeData"},
		mutant{"iterate-ignores-closed-flag", "pkg/core/hnsw/hnsw_index.go", "\tif h.closed.Load() { // see Iterate\n\t\treturn\n\t}\n", "", "GRD-closed", "closed-test:Index.IterateRaw"},
		mutant{"vacuum-tests-flag-before-the-gate", "pkg/core/hnsw/optimizer.go", "\tif o.index.isClosed() {\n\t\treturn false\n\t}\n\to.index.activeMu.RLock()\n\tdefer o.index.activeMu.RUnlock()\n\tif o.index.isClosed() {\n\t\treturn false\n\t}\n\n\t// Vacuum and the arena compactor", "\tif o.index.isClosed() {\n\t\treturn false\n\t}\n\n\t// Vacuum and the arena compactor", "GRD-closed", "closed-test:GraphOptimizer.Vacuum"},
	)
	addMutants("C13",
		mutant{"array-grown-without-shard-locks", "pkg/core/hnsw/hnsw_index.go", "\t\t\tfor i := range h.shardsMu {\n\t\t\t\th.shardsMu[i].Lock()\n\t\t\t}\n\t\t\tdefer func() {\n\t\t\t\tfor i := range h.shardsMu {\n\t\t\t\t\th.shardsMu[i].Unlock()\n\t\t\t\t}\n\t\t\t}()\n\t\t\tcurrNodes = h.getNodes()\n", "", "LCK-8", "Index.growNodes:publish#1"},
	)
	addMutants("C04",
		mutant{"array-grown-without-shard-locks", "pkg/core/hnsw/hnsw_index.go", "\t\t\tfor i := range h.shardsMu {\n\t\t\t\th.shardsMu[i].Lock()\n\t\t\t}\n\t\t\tdefer func() {\n\t\t\t\tfor i := range h.shardsMu {\n\t\t\t\t\th.shardsMu[i].Unlock()\n\t\t\t\t}\n\t\t\t}()\n\t\t\tcurrNodes = h.getNodes()\n", "", "LCK-8", "Index.growNodes:publish#1"},
	)
	addMutants("C06",
		mutant{"duplicate-test-under-earlier-read-lock", "pkg/core/hnsw/hnsw_index.go", "\tif _, exists := h.externalToInternalID[id]; exists {\n\t\th.metaMu.Unlock()\n\t\treturn 0, fmt.Errorf(\"ID '%s' already exists\", id)\n\t}\n\n\t// 1. Determine dimension from the incoming vector", "\t// 1. Determine dimension from the incoming vector", "GRD-dupcheck", "Index.addActive:register#1"},
		mutant{"replay-deletes-before-resolving-id", "pkg/engine/recovery.go", "\t\t\tif isHnsw {\n\t\t\t\tif internalID, found := hnswIdx.GetInternalID(id); found {\n\t\t\t\t\tidx.Delete(id)\n\t\t\t\t\te.DB.DeleteMetadata(name, internalID)\n\t\t\t\t}\n\t\t\t}", "\t\t\tidx.Delete(id)\n\t\t\tif isHnsw {\n\t\t\t\tif internalID, found := hnswIdx.GetInternalID(id); found {\n\t\t\t\t\te.DB.DeleteMetadata(name, internalID)\n\t\t\t\t}\n\t\t\t}", "ORD-del", "Engine.replayAOF:delete#1:id-resolved-first"},
	)
	addMutants("C04",
		mutant{"duplicate-test-under-earlier-read-lock", "pkg/core/hnsw/hnsw_index.go", "\tif _, exists := h.externalToInternalID[id]; exists {\n\t\th.metaMu.Unlock()\n\t\treturn 0, fmt.Errorf(\"ID '%s' already exists\", id)\n\t}\n\n\t// 1. Determine dimension from the incoming vector", "\t// 1. Determine dimension from the incoming vector", "GRD-dupcheck", "Index.addActive:register#1"},
	)
	addMutants("C03",
		mutant{"resync-starts-after-failed-frame", "pkg/engine/recovery.go", "\t\t\tslog.Warn(\"AOF Corruption Detected\", \"error\", err, \"offset\", validOffset)\n\t\t\tresyncOffset, found := resyncAOF(file, validOffset)", "\t\t\tslog.Warn(\"AOF Corruption Detected\", \"error\", err, \"offset\", validOffset)\n\t\t\tresyncOffset, found := resyncAOF(file, validOffset+int64(frameSize)-1)", "GRD-scan", "Engine.replayAOF:resync-start#1"},
	)
	addMutants("C09",
		mutant{"counted-means-positive-length", "pkg/core/core.go", "\t\t\tif _, had := stats.DocLengths[nodeID]; had {\n\t\t\t\tstats.TotalDocLength -= int64(stats.DocLengths[nodeID])", "\t\t\tif docLen := stats.DocLengths[nodeID]; docLen > 0 {\n\t\t\t\tstats.TotalDocLength -= int64(docLen)", "GRD-stats", "DB.DeleteMetadata:delete-only-if-counted"},
	)
	addMutants("C11",
		mutant{"backward-frontier-ignores-query-time", "pkg/engine/pathfinding.go", "\t\t\t\t\tedges, found := e.VGetIncomingEdges(indexName, curr, rel, atTime)\n\t\t\t\t\tif found {\n\t\t\t\t\t\tfor _, edge := range edges {\n\t\t\t\t\t\t\tneighbor := edge.TargetID", "\t\t\t\t\tsources, found := e.VGetIncoming(indexName, curr, rel)\n\t\t\t\t\tif found {\n\t\t\t\t\t\tfor _, neighbor := range sources {", "GRD-time", "Engine.FindPath:reads-as-of-now:VGetIncoming"},
	)
	addMutants("C12",
		mutant{"repair-through-merged-both-view", "pkg/engine/recovery.go", "\t\t\t\tincoming := e.DB.GetAllRelations(graphID, \"in\")", "\t\t\t\tincoming := e.DB.GetAllRelations(graphID, \"both\")", "SIB-4", "replayAOF:VDEL-repair-directions"},
	)
	addMutants("C15",
		mutant{"decay-walks-vector-hits-only", "pkg/engine/ops.go", "\t\tfor docID, score := range fusedScores {\n\t\t\t// Retrieve metadata using the internal ID", "\t\tfor _, res := range vectorResults {\n\t\t\tdocID := res.DocID\n\t\t\tscore := fusedScores[docID]\n\t\t\t// Retrieve metadata using the internal ID", "GRD-decayall", "searchWithFusion:decay-store#1"},
	)
	addMutants("C15",
		mutant{"access-count-stored-as-int", "pkg/engine/ops.go", "\t\tmeta[\"_access_count\"] = newCount", "\t\tmeta[\"_access_count\"] = int(newCount)", "SIB-metatypes", "key:_access_count:writer#1:Engine.VReinforce"},
	)
	addMutants("C17",
		mutant{"prompt-decoded-into-typed-struct", "pkg/proxy/proxy.go", "\tvar data map[string]interface{}\n\tif err := json.Unmarshal(jsonBody, &data); err != nil {\n\t\treturn \"\"\n\t}\n\tif v, ok := data[\"prompt\"].(string); ok {\n\t\treturn v\n\t}", "\tvar typed chatRequest\n\tif err := json.Unmarshal(jsonBody, &typed); err != nil {\n\t\treturn \"\"\n\t}\n\tvar data map[string]interface{}\n\t_ = json.Unmarshal(jsonBody, &data)\n\tif v, ok := data[\"prompt\"].(string); ok {\n\t\treturn v\n\t}", "GRD-fw", "extractPrompt:decode#1:shape-tolerant"},
	)
}

func init() {
	addMutants("C14",
		mutant{"kvset-outside-the-operation-gate", "pkg/engine/ops.go", "func (e *Engine) KVSet(key string, value []byte) error {\n\tdefer e.writeGate.leave(e.writeGate.enter())\n", "func (e *Engine) KVSet(key string, value []byte) error {\n", "ORD-9", "Engine.KVSet:journal-inside-gate"},
		mutant{"kvset-leaves-gate-before-apply", "pkg/engine/ops.go", "func (e *Engine) KVSet(key string, value []byte) error {\n\tdefer e.writeGate.leave(e.writeGate.enter())\n\n\t// 1. AOF\n\tcmd := persistence.FormatCommand(\"SET\", []byte(key), value)\n\tif err := e.AOF.Write(cmd); err != nil {\n", "func (e *Engine) KVSet(key string, value []byte) error {\n\t// 1. AOF\n\tcmd := persistence.FormatCommand(\"SET\", []byte(key), value)\n\ttok := e.writeGate.enter()\n\terr := e.AOF.Write(cmd)\n\te.writeGate.leave(tok)\n\tif err != nil {\n", "ORD-9", "Engine.KVSet:journal-inside-gate"},
		mutant{"vunlink-gate-entered-after-journal", "pkg/engine/graph.go", "func (e *Engine) VUnlink(indexName, sourceID, targetID, relationType, inverseRelationType string, hardDelete bool) error {\n\tdefer e.writeGate.leave(e.writeGate.enter())\n", "func (e *Engine) VUnlink(indexName, sourceID, targetID, relationType, inverseRelationType string, hardDelete bool) error {\n\tdefer func() { e.writeGate.leave(e.writeGate.enter()) }()\n", "ORD-9", "Engine.VUnlink:journal-inside-gate"},
		mutant{"snapshot-does-not-drain", "pkg/engine/recovery.go", "\t// their operations to apply them, so that the snapshot below contains them.\n\te.writeGate.drain()\n", "\t// their operations to apply them, so that the snapshot below contains them.\n", "ORD-9", "Engine.saveSnapshotLocked:drain-after-BeginSnapshotMode#1"},
		mutant{"rewrite-drains-before-snapshot-mode", "pkg/engine/recovery.go", "\tif err := e.AOF.BeginSnapshotMode(); err != nil {\n\t\twriter.Close()\n\t\tos.Remove(tempAof)\n\t\treturn fmt.Errorf(\"rewrite: begin snapshot mode: %w\", err)\n\t}\n\t// Commands journaled before this point are in the log that is about to be\n\t// replaced: wait for their operations to apply them, so that the state\n\t// dumped below contains them.\n\te.writeGate.drain()\n", "\te.writeGate.drain()\n\tif err := e.AOF.BeginSnapshotMode(); err != nil {\n\t\twriter.Close()\n\t\tos.Remove(tempAof)\n\t\treturn fmt.Errorf(\"rewrite: begin snapshot mode: %w\", err)\n\t}\n", "ORD-9", "Engine.RewriteAOF:drain-after-BeginSnapshotMode#1"},
		mutant{"rewrite-drains-after-reading-kv", "pkg/engine/recovery.go", "\t// dumped below contains them.\n\te.writeGate.drain()\n", "\t// dumped below contains them.\n\tdefer e.writeGate.drain()\n", "ORD-9", "Engine.RewriteAOF:drain-after-BeginSnapshotMode#1"},
		mutant{"drain-does-not-wait", "pkg/engine/opgate.go", "\tif wait != nil {\n\t\t<-wait\n\t}\n", "\t_ = wait\n", "ORD-9", "opGate.drain:blocks"},
	)
}

// behaviour-preserving variants of the ORD-9 constructs: no rule may fire
func init() {
	addMutants("C14",
		mutant{"benign:kvset-journal-and-apply-in-helper", "pkg/engine/ops.go", "func (e *Engine) KVSet(key string, value []byte) error {\n\tdefer e.writeGate.leave(e.writeGate.enter())\n\n", "func (e *Engine) KVSet(key string, value []byte) error {\n\tdefer e.writeGate.leave(e.writeGate.enter())\n\treturn e.kvSet(key, value)\n}\n\nfunc (e *Engine) kvSet(key string, value []byte) error {\n", "silent", ""},
		mutant{"benign:explicit-leave-after-apply", "pkg/engine/ops.go", "func (e *Engine) KVSet(key string, value []byte) error {\n\tdefer e.writeGate.leave(e.writeGate.enter())\n\n\t// 1. AOF\n\tcmd := persistence.FormatCommand(\"SET\", []byte(key), value)\n\tif err := e.AOF.Write(cmd); err != nil {\n\t\treturn fmt.Errorf(\"persistence error (AOF write failed): %w\", err)\n\t}\n\n\t// 2. Memory\n\te.DB.GetKVStore().Set(key, value)\n", "func (e *Engine) KVSet(key string, value []byte) error {\n\ttok := e.writeGate.enter()\n\t// 1. AOF\n\tcmd := persistence.FormatCommand(\"SET\", []byte(key), value)\n\tif err := e.AOF.Write(cmd); err != nil {\n\t\te.writeGate.leave(tok)\n\t\treturn fmt.Errorf(\"persistence error (AOF write failed): %w\", err)\n\t}\n\n\t// 2. Memory\n\te.DB.GetKVStore().Set(key, value)\n\te.writeGate.leave(tok)\n", "silent", ""},
		mutant{"benign:extra-drain-before-snapshot-mode", "pkg/engine/recovery.go", "\tif err := e.AOF.BeginSnapshotMode(); err != nil {\n\t\twriter.Close()", "\te.writeGate.drain()\n\tif err := e.AOF.BeginSnapshotMode(); err != nil {\n\t\twriter.Close()", "silent", ""},
		mutant{"benign:drain-waits-on-condition-variable", "pkg/engine/opgate.go", "\tvar wait chan struct{}\n\tif g.active[old&1] > 0 {\n\t\twait = make(chan struct{})\n\t\tg.idle = wait\n\t}\n\tg.mu.Unlock()\n\tif wait != nil {\n\t\t<-wait\n\t}\n", "\tc := sync.NewCond(&g.mu)\n\tfor g.active[old&1] > 0 {\n\t\tgo func() { g.mu.Lock(); c.Broadcast(); g.mu.Unlock() }()\n\t\tc.Wait()\n\t}\n\tg.mu.Unlock()\n", "silent", ""},
	)
}

// behaviour-preserving variants (Rule "silent"): realistic refactorings that keep the property; no rule may fire.
func init() {
	addMutants("C20",
		mutant{"benign:budget-test-rearranged", "pkg/rag/adaptive_retriever.go", "\t\t\tif float64(totalTokens)+chunkCost > float64(budget) {\n\t\t\t\tbreak // Budget exhausted\n\t\t\t}\n\t\t\tchunkTokens := int(chunkCost)\n\n\t\t\tselected = append(selected, chunk.Chunk)\n\t\t\ttotalTokens += chunkTokens\n", "\t\t\tif next := float64(totalTokens) + chunkCost; next <= float64(budget) {\n\t\t\t\tselected = append(selected, chunk.Chunk)\n\t\t\t\ttotalTokens += int(chunkCost)\n\t\t\t} else {\n\t\t\t\tbreak // Budget exhausted\n\t\t\t}\n", "silent", ""},
	)
	addMutants("C06",
		mutant{"benign:deleted-test-as-early-continue", "pkg/core/hnsw/hnsw_index.go", "\t\t\t\t// Add to results ONLY if not deleted\n\t\t\t\tif !neighborNode.Deleted.Load() {\n\t\t\t\t\tresults.Push(neighborCandidate)\n\n\t\t\t\t\tif results.Len() > ef {\n\t\t\t\t\t\tresults.Pop() // Remove the farthest\n\t\t\t\t\t}\n\t\t\t\t}\n", "\t\t\t\t// Add to results ONLY if not deleted\n\t\t\t\tif neighborNode.Deleted.Load() {\n\t\t\t\t\tcontinue\n\t\t\t\t}\n\t\t\t\tresults.Push(neighborCandidate)\n\t\t\t\tif results.Len() > ef {\n\t\t\t\t\tresults.Pop() // Remove the farthest\n\t\t\t\t}\n", "silent", ""},
		mutant{"benign:entrypoint-admission-as-one-flag", "pkg/core/hnsw/hnsw_index.go", "\tif isEpValid && !entryNode.Deleted.Load() {\n\t\tresults.Push(ep)\n\t}\n", "\tif entryNode.Deleted.Load() {\n\t\tisEpValid = false\n\t}\n\tif isEpValid {\n\t\tresults.Push(ep)\n\t}\n", "silent", ""},
	)
	addMutants("C02",
		mutant{"benign:snapshot-rename-error-named", "pkg/engine/recovery.go", "\tif err := os.Rename(tempSnap, e.snapPath); err != nil {\n\t\tos.Remove(tempSnap) // Clean up temp file on error\n\t\treturn fmt.Errorf(\"failed to rename snapshot file: %w\", err)\n\t}\n", "\trenameErr := os.Rename(tempSnap, e.snapPath)\n\tif renameErr != nil {\n\t\tos.Remove(tempSnap) // Clean up temp file on error\n\t\treturn fmt.Errorf(\"failed to rename snapshot file: %w\", renameErr)\n\t}\n", "silent", ""},
	)
	addMutants("C05",
		mutant{"benign:kvset-rejects-empty-key-before-journal", "pkg/engine/ops.go", "\t// 1. AOF\n\tcmd := persistence.FormatCommand(\"SET\", []byte(key), value)\n", "\tif key == \"\" {\n\t\treturn fmt.Errorf(\"empty key\")\n\t}\n\t// 1. AOF\n\tcmd := persistence.FormatCommand(\"SET\", []byte(key), value)\n", "silent", ""},
	)
	addMutants("C01",
		mutant{"benign:kvset-journal-and-apply-in-helper", "pkg/engine/ops.go", "func (e *Engine) KVSet(key string, value []byte) error {\n\tdefer e.writeGate.leave(e.writeGate.enter())\n\n", "func (e *Engine) KVSet(key string, value []byte) error {\n\tdefer e.writeGate.leave(e.writeGate.enter())\n\treturn e.kvSet(key, value)\n}\n\nfunc (e *Engine) kvSet(key string, value []byte) error {\n", "silent", ""},
	)
	addMutants("C13",
		mutant{"benign:eventbus-unsubscribe-deferred-unlock", "pkg/engine/events.go", "\teb.mu.Lock()\n\tif _, ok := eb.subscribers[ch]; ok {\n\t\tdelete(eb.subscribers, ch)\n\t\tclose(ch)\n\t}\n\teb.mu.Unlock()", "\teb.mu.Lock()\n\tdefer eb.mu.Unlock()\n\tif _, ok := eb.subscribers[ch]; ok {\n\t\tdelete(eb.subscribers, ch)\n\t\tclose(ch)\n\t}", "silent", ""},
	)
}

func init() {
	addMutants("C10",
		mutant{"benign:reverse-soft-delete-as-early-continue", "pkg/core/graph.go", "\t\t\t\t\tif inList[i].SourceID == sourceID && inList[i].DeletedAt == 0 {\n\t\t\t\t\t\tinList[i].DeletedAt = timestamp\n\t\t\t\t\t\tbreak\n\t\t\t\t\t}\n", "\t\t\t\t\trev := &inList[i]\n\t\t\t\t\tif rev.DeletedAt != 0 || sourceID != rev.SourceID {\n\t\t\t\t\t\tcontinue\n\t\t\t\t\t}\n\t\t\t\t\trev.DeletedAt = timestamp\n\t\t\t\t\tbreak\n", "silent", ""},
		mutant{"benign:hard-delete-split-renamed-and-inverted", "pkg/core/graph.go", "\t\t\tif hardDelete {\n\t\t\t\tnewIn := inList[:0]\n\t\t\t\tfor _, edge := range inList {\n\t\t\t\t\tif edge.SourceID != sourceID {\n\t\t\t\t\t\tnewIn = append(newIn, edge)\n\t\t\t\t\t}\n\t\t\t\t}\n\t\t\t\ttargetNode.InEdges[relationType] = newIn\n\t\t\t} else {", "\t\t\tif soft := !hardDelete; !soft {\n\t\t\t\tnewIn := inList[:0]\n\t\t\t\tfor _, edge := range inList {\n\t\t\t\t\tif edge.SourceID == sourceID {\n\t\t\t\t\t\tcontinue\n\t\t\t\t\t}\n\t\t\t\t\tnewIn = append(newIn, edge)\n\t\t\t\t}\n\t\t\t\ttargetNode.InEdges[relationType] = newIn\n\t\t\t} else {", "silent", ""},
		mutant{"benign:as-of-filter-as-one-expression", "pkg/core/graph.go", "\tif createdAt <= queryTime {\n\t\tif deletedAt == 0 || deletedAt > queryTime {\n\t\t\treturn true\n\t\t}\n\t}\n\treturn false\n}", "\treturn queryTime >= createdAt && (deletedAt == 0 || queryTime < deletedAt)\n}", "silent", ""},
		mutant{"benign:addedge-lookup-with-found-flag-only", "pkg/core/graph.go", "\tfor i := range inList {\n\t\tif inList[i].SourceID == sourceID && inList[i].DeletedAt == 0 {\n\t\t\tfoundIn = true\n\t\t\tbreak\n\t\t}\n\t}\n", "\tfor i := range inList {\n\t\tif inList[i].SourceID != sourceID {\n\t\t\tcontinue\n\t\t}\n\t\tif inList[i].DeletedAt == 0 {\n\t\t\tfoundIn = true\n\t\t\tbreak\n\t\t}\n\t}\n", "silent", ""},
	)
}

func init() {
	addMutants("C11",
		mutant{"benign:subgraph-queue-by-head-index-and-renamed", "pkg/engine/graph.go", "\tfor len(queue) > 0 {\n\t\tcurrent := queue[0]\n\t\tqueue = queue[1:]\n\n\t\tif current.depth >= maxDepth {\n\t\t\tcontinue\n\t\t}\n", "\tfor head := 0; head < len(queue); head++ {\n\t\tcurrent := queue[head]\n\n\t\tif maxDepth <= current.depth {\n\t\t\tcontinue\n\t\t}\n", "silent", ""},
		mutant{"benign:subgraph-visited-test-as-early-continue", "pkg/engine/graph.go", "\t\t\t\t\tif !visited[target] {\n\t\t\t\t\t\tvisited[target] = true\n\t\t\t\t\t\tdata, _ := e.VGet(indexName, target)\n\t\t\t\t\t\tnodesMap[target] = SubgraphNode{ID: target, Metadata: data.Metadata}\n\t\t\t\t\t\tqueue = append(queue, queueItem{id: target, depth: current.depth + 1})\n\t\t\t\t\t}\n", "\t\t\t\t\tif visited[target] {\n\t\t\t\t\t\tcontinue\n\t\t\t\t\t}\n\t\t\t\t\tvisited[target] = true\n\t\t\t\t\tdata, _ := e.VGet(indexName, target)\n\t\t\t\t\tnodesMap[target] = SubgraphNode{ID: target, Metadata: data.Metadata}\n\t\t\t\t\tqueue = append(queue, queueItem{id: target, depth: current.depth + 1})\n", "silent", ""},
		mutant{"benign:subgraph-clamp-with-min", "pkg/engine/graph.go", "func (e *Engine) VExtractSubgraph(indexName, rootID string, relations []string, maxDepth int, atTime int64, guideQuery []float32, threshold float64) (*SubgraphResult, error) {\n\tif maxDepth <= 0 {\n\t\tmaxDepth = 1\n\t}\n\tif maxDepth > 5 {\n\t\tmaxDepth = 5\n\t}\n", "func (e *Engine) VExtractSubgraph(indexName, rootID string, relations []string, maxDepth int, atTime int64, guideQuery []float32, threshold float64) (*SubgraphResult, error) {\n\tif maxDepth <= 0 {\n\t\tmaxDepth = 1\n\t}\n\tmaxDepth = min(maxDepth, 5)\n", "silent", ""},
		mutant{"benign:findpath-rounds-counted-from-one", "pkg/engine/pathfinding.go", "\tfor depth := 0; depth < maxDepth; depth++ {\n", "\tfor round := 1; round <= maxDepth; round++ {\n", "silent", ""},
		mutant{"benign:findpath-meeting-test-renamed-and-inverted", "pkg/engine/pathfinding.go", "\t\t\tfor _, curr := range fwdQueue {\n\t\t\t\t// Check Intersection\n\t\t\t\tif _, ok := bwdVisited[curr]; ok {\n\t\t\t\t\tmeetingNode = curr\n\t\t\t\t\tgoto Found\n\t\t\t\t}\n", "\t\t\tfor i := 0; i < len(fwdQueue); i++ {\n\t\t\t\tcurr := fwdQueue[i]\n\t\t\t\t// Check Intersection\n\t\t\t\tif _, met := bwdVisited[curr]; met {\n\t\t\t\t\tmeetingNode = curr\n\t\t\t\t\tgoto Found\n\t\t\t\t}\n", "silent", ""},
	)
}

func init() {
	addMutants("C03",
		mutant{"scan-seeks-once-before-the-loop", "pkg/engine/recovery.go", "\tfor {\n\t\tif _, err := file.Seek(basePos, io.SeekStart); err != nil {\n\t\t\treturn 0, false\n\t\t}\n\t\tn, readErr := file.Read(buf)", "\tif _, err := file.Seek(basePos, io.SeekStart); err != nil {\n\t\treturn 0, false\n\t}\n\tfor {\n\t\tn, readErr := file.Read(buf)", "GRD-scan", "resyncAOF:window-read#1:positioned"},
	)
	addMutants("C01",
		mutant{"deferred-delete-skipped-for-readded-ids", "pkg/engine/recovery.go", "\t\tfor id := range state.deleted {\n\t\t\tif isHnsw {", "\t\tfor id := range state.deleted {\n\t\t\tif _, readded := state.entries[id]; readded {\n\t\t\t\tcontinue\n\t\t\t}\n\t\t\tif isHnsw {", "CDC-8", "apply:delete#1:independent-of-pending-entry"},
	)
	addMutants("C05",
		mutant{"duplicate-create-record-rewrites-state", "pkg/engine/recovery.go", "\t\t\t\tidx := &indexState{\n\t\t\t\t\tmetric:    distance.Euclidean,\n\t\t\t\t\tprecision: distance.Float32,\n\t\t\t\t\tentries:   make(map[string]vectorEntry),\n\t\t\t\t}\n", "\t\t\t\tidx, known := indexes[name]\n\t\t\t\tif !known {\n\t\t\t\t\tidx = &indexState{\n\t\t\t\t\t\tmetric:    distance.Euclidean,\n\t\t\t\t\t\tprecision: distance.Float32,\n\t\t\t\t\t\tentries:   make(map[string]vectorEntry),\n\t\t\t\t\t}\n\t\t\t\t}\n", "CDC-8", "arm:VCREATE:fresh-state-only"},
	)
}

func init() {
	addMutants("C04",
		mutant{"benign:compress-constructs-again-after-teardown", "pkg/core/core.go", "\tif err := oldHNSWIndex.Close(); err != nil {\n\t\tslog.Warn(\"Failed to close old index during compression\", \"index\", indexName, \"error\", err)\n\t}\n", "\tif err := oldHNSWIndex.Close(); err != nil {\n\t\tslog.Warn(\"Failed to close old index during compression\", \"index\", indexName, \"error\", err)\n\t}\n\tif newIndex, err = hnsw.New(m, efConst, metric, newPrecision, textLang, oldArenaDir); err != nil {\n\t\treturn err\n\t}\n", "silent", ""},
		mutant{"compress-closes-old-index-first", "pkg/core/core.go", "\tnewIndex, err := hnsw.New(m, efConst, metric, newPrecision, textLang, oldArenaDir)\n\tif err != nil {\n\t\treturn fmt.Errorf(\"failed to create new compressed index: %w\", err)\n\t}\n", "\t_ = oldHNSWIndex.Close()\n\tnewIndex, err := hnsw.New(m, efConst, metric, newPrecision, textLang, oldArenaDir)\n\tif err != nil {\n\t\treturn fmt.Errorf(\"failed to create new compressed index: %w\", err)\n\t}\n", "ORD-validate", "DB.Compress:old-index-closed:after-construction"},
	)
}

func init() {
	addMutants("C08",
		mutant{"complement-base-from-metadata-keys", "pkg/core/core.go", "\thnswIdx, ok := idx.(*hnsw.Index)\n\tif !ok {\n\t\treturn roaring.New(), nil\n\t}\n\n\treturn hnswIdx.GetAllValidNodeIDs()\n}", "\tif _, ok := idx.(*hnsw.Index); !ok {\n\t\treturn roaring.New(), nil\n\t}\n\tresult := roaring.New()\n\tfor nodeID := range s.metadataMap[indexName] {\n\t\tresult.Add(nodeID)\n\t}\n\treturn result, nil\n}", "GRD-live", "getAllValidNodeIDsLocked:returns-index-live-set"},
		mutant{"delete-goes-straight-to-the-value-s-posting-list", "pkg/core/core.go", "\t\tfor key, valueMap := range invIdx {\n\t\t\tfor value, bitmap := range valueMap {\n\t\t\t\tbitmap.Remove(nodeID)\n\t\t\t\t// Clean up empty bitmaps\n\t\t\t\tif bitmap.IsEmpty() {\n\t\t\t\t\tdelete(valueMap, value)\n\t\t\t\t}\n\t\t\t}\n", "\t\tfor key, valueMap := range invIdx {\n\t\t\tvalue := fmt.Sprint(currentMeta[key])\n\t\t\tif bitmap, ok := valueMap[value]; ok {\n\t\t\t\tbitmap.Remove(nodeID)\n\t\t\t\t// Clean up empty bitmaps\n\t\t\t\tif bitmap.IsEmpty() {\n\t\t\t\t\tdelete(valueMap, value)\n\t\t\t\t}\n\t\t\t}\n", "SIB-1", "DeleteMetadata:leaves-every-posting-list"},
	)
	addMutants("C10",
		mutant{"compaction-skips-edges-of-unindexed-namespaces", "pkg/engine/recovery.go", "\t\t// 1. Scrive il comando di creazione\n\t\tcmdAdd := persistence.FormatCommand(\"GLINK\",", "\t\tif !e.IndexExists(indexName) {\n\t\t\treturn\n\t\t}\n\t\t// 1. Scrive il comando di creazione\n\t\tcmdAdd := persistence.FormatCommand(\"GLINK\",", "CDC-9", "RewriteAOF:every-edge-re-emitted"},
	)
	addMutants("C18",
		mutant{"training-attempt-only-on-first-insert", "pkg/core/hnsw/hnsw_index.go", "\t\th.ensureQuantizerTrained([][]float32{vector})\n\n\t\tstoredVector = h.quantizer.Quantize(vector)", "\t\tif h.nodeCounter.Load() == 0 {\n\t\t\th.ensureQuantizerTrained([][]float32{vector})\n\t\t}\n\n\t\tstoredVector = h.quantizer.Quantize(vector)", "GRD-trained", "Index.addActive:quantize#1"},
		mutant{"benign:training-attempt-behind-is-trained-test", "pkg/core/hnsw/hnsw_index.go", "\t\th.ensureQuantizerTrained([][]float32{vector})\n\n\t\tstoredVector = h.quantizer.Quantize(vector)", "\t\tif !h.quantizer.IsTrained() {\n\t\t\th.ensureQuantizerTrained([][]float32{vector})\n\t\t}\n\n\t\tstoredVector = h.quantizer.Quantize(vector)", "silent", ""},
	)
	addMutants("C07",
		mutant{"restart-skips-vectors-of-tombstones", "pkg/core/hnsw/hnsw_index.go", "\t\tif h.arena != nil && node != nil {\n\t\t\tvecBytes, err := h.arena.GetBytes(id)", "\t\tif h.arena != nil && node != nil && !node.Deleted.Load() {\n\t\t\tvecBytes, err := h.arena.GetBytes(id)", "GRD-relink", "LoadSnapshotData:relink-independent-of-deleted"},
		mutant{"query-normalised-for-float32-only", "pkg/core/hnsw/hnsw_index.go", "\tvar queryF32 []float32\n\tif h.metric == distance.Cosine {", "\tvar queryF32 []float32\n\tif h.metric == distance.Cosine && h.precision == distance.Float32 {", "GRD-querynorm", "searchInternal:normalisation-independent-of-precision"},
		mutant{"benign:query-normalisation-test-inverted", "pkg/core/hnsw/hnsw_index.go", "\tvar queryF32 []float32\n\tif h.metric == distance.Cosine {", "\tvar queryF32 []float32\n\tif isCos := distance.Cosine == h.metric; isCos {", "silent", ""},
	)
}

func init() {
	addMutants("C11",
		mutant{"graph-only-nodes-marked-but-not-expanded", "pkg/engine/graph.go", "\t\t\t\t\tif internalID, found := hnswIdx.GetInternalID(target); found {\n\t\t\t\t\t\tallowedSet.Add(internalID)\n\t\t\t\t\t}\n\t\t\t\t\tqueue = append(queue, queueItem{id: target, depth: curr.depth + 1})\n", "\t\t\t\t\tif internalID, found := hnswIdx.GetInternalID(target); found {\n\t\t\t\t\t\tallowedSet.Add(internalID)\n\t\t\t\t\t\tqueue = append(queue, queueItem{id: target, depth: curr.depth + 1})\n\t\t\t\t\t}\n", "GRD-bfs", "marked-implies-enqueued"},
	)
}

func init() {
	addMutants("C16",
		mutant{"undetermined-namespace-readable-by-any-key", "pkg/auth/rbac.go", "\t// Namespace Check\n\thasNamespaceAccess := false\n", "\t// Namespace Check\n\tif targetNamespace == \"*\" && requiredRole == RoleRead {\n\t\treturn true\n\t}\n\thasNamespaceAccess := false\n", "SIB-roles", "behind-admin-or-namespace-match"},
		mutant{"benign:namespace-match-returns-directly", "pkg/auth/rbac.go", "\thasNamespaceAccess := false\n\tfor _, ns := range p.Namespaces {\n\t\tif ns == \"*\" || ns == targetNamespace {\n\t\t\thasNamespaceAccess = true\n\t\t\tbreak\n\t\t}\n\t}\n\n\treturn hasNamespaceAccess\n", "\tfor i := range p.Namespaces {\n\t\tif targetNamespace == p.Namespaces[i] || p.Namespaces[i] == \"*\" {\n\t\t\treturn true\n\t\t}\n\t}\n\treturn false\n", "silent", ""},
	)
	addMutants("C15",
		mutant{"access-count-read-only-for-ebbinghaus-default", "pkg/engine/ops.go", "\t\t\t\t\taccessCount := 0\n\t\t\t\t\tif ac, ok := meta[\"_access_count\"].(float64); ok {\n\t\t\t\t\t\taccessCount = int(ac)\n\t\t\t\t\t}\n\n\t\t\t\t\t// Calculate decay with selected model\n\t\t\t\t\tfactor := calculateTimeDecayModel(", "\t\t\t\t\taccessCount := 0\n\t\t\t\t\tif defaultDecayModel == string(hnsw.DecayEbbinghaus) {\n\t\t\t\t\t\tif ac, ok := meta[\"_access_count\"].(float64); ok {\n\t\t\t\t\t\t\taccessCount = int(ac)\n\t\t\t\t\t\t}\n\t\t\t\t\t}\n\n\t\t\t\t\t// Calculate decay with selected model\n\t\t\t\t\tfactor := calculateTimeDecayModel(", "SIB-3", "consults-_access_count-like-its-siblings"},
	)
}

func init() {
	addMutants("C20",
		mutant{"splitter-drops-invalid-utf8", "pkg/rag/splitter.go", "func (s *RecursiveCharacterSplitter) SplitText(text string) []string {\n", "func (s *RecursiveCharacterSplitter) SplitText(text string) []string {\n\ttext = strings.ToValidUTF8(text, \"\")\n", "GRD-verbatim", "SplitText:split#1:input-verbatim"},
		mutant{"benign:splitter-trims-outer-whitespace", "pkg/rag/splitter.go", "func (s *RecursiveCharacterSplitter) SplitText(text string) []string {\n", "func (s *RecursiveCharacterSplitter) SplitText(text string) []string {\n\ttext = strings.TrimSpace(text)\n", "silent", ""},
	)
	addMutants("C18",
		mutant{"compress-relies-on-batch-auto-training", "pkg/core/core.go", "\t\tnewIndex.TrainQuantizer(floatVectors)\n", "\t\t_ = floatVectors\n", "GRD-trainfull", "DB.Compress:int8:trained-on-all-vectors-before-re-insertion"},
	)
}

func init() {
	addMutants("C07",
		mutant{"empty-upper-layer-fails-the-query", "pkg/core/hnsw/hnsw_index.go", "\t\t\t// empty until the next vacuum.)\n\t\t\tcontinue\n", "\t\t\t// empty until the next vacuum.)\n\t\t\treturn []types.Candidate{}, fmt.Errorf(\"search failed at level %d\", l)\n", "GRD-descent", "searchInternal:empty-layer#1:query-continues"},
	)
}

func init() {
	addMutants("C13",
		mutant{"snapshot-releases-shard-locks-before-encoding", "pkg/core/core.go", "\t\tnodesCopy := make(map[string]*GraphNode, len(s.graphShards[i].nodes))\n\t\tfor id, node := range s.graphShards[i].nodes {\n\t\t\tnodesCopy[id] = node\n\t\t}\n", "\t\tnodesCopy := make(map[string]*GraphNode, len(s.graphShards[i].nodes))\n\t\tfor id, node := range s.graphShards[i].nodes {\n\t\t\tnodesCopy[id] = node\n\t\t}\n\t\ts.graphShards[i].mu.RUnlock()\n", "LCK-9", "DB.Snapshot:encode#1:holds:core.GraphShard.mu"},
	)
}

func init() {
	addMutants("C05",
		mutant{"duplicate-create-record-replaces-state", "pkg/engine/recovery.go", "\t\t\t\tif _, exists := lookupIndex(name); !exists {\n\t\t\t\t\tindexes[name] = idx\n\t\t\t\t}\n", "\t\t\t\tindexes[name] = idx\n", "CDC-8", "arm:VCREATE:registers-only-unknown-names"},
		mutant{"duplicate-create-record-masks-restored-index", "pkg/engine/recovery.go", "\t\t\t\tif _, exists := lookupIndex(name); !exists {\n\t\t\t\t\tindexes[name] = idx\n\t\t\t\t}\n", "\t\t\t\tif _, exists := indexes[name]; !exists {\n\t\t\t\t\tindexes[name] = idx\n\t\t\t\t}\n", "CDC-8", "arm:VCREATE:registers-only-unknown-names"},
	)
}

func init() {
	addMutants("C13",
		mutant{"batch-norm-written-without-shard-lock", "pkg/core/hnsw/hnsw_index.go", "\t\t\t\t\t\th.LockNode(internalID)\n\t\t\t\t\t\th.getNorms()[internalID] = norm\n\t\t\t\t\t\th.UnlockNode(internalID)\n", "\t\t\t\t\t\th.getNorms()[internalID] = norm\n", "LCK-8b", "norms-element-store"},
	)
}

func init() {
	addMutants("C05",
		mutant{"evolve-links-before-the-node-exists", "pkg/engine/ops.go", "\tif err := e.VAdd(indexName, newID, newVector, mergedMeta); err != nil {\n\t\treturn \"\", fmt.Errorf(\"failed to create new node: %w\", err)\n\t}\n\n\tinRels := e.VGetIncomingRelations(indexName, oldID)\n", "\tif err := e.VLink(indexName, oldID, newID, \"derived_from\", \"\", 0, nil); err != nil {\n\t\treturn \"\", err\n\t}\n\tif err := e.VAdd(indexName, newID, newVector, mergedMeta); err != nil {\n\t\treturn \"\", fmt.Errorf(\"failed to create new node: %w\", err)\n\t}\n\n\tinRels := e.VGetIncomingRelations(indexName, oldID)\n", "EFF-composite", "Engine.VEvolve:step#1:Engine.VLink:later-rejection-is-undone"},
		mutant{"evolve-link-failure-leaves-the-new-node", "pkg/engine/ops.go", "\t\t// Undo: deleting the new node also removes the edges copied to it.\n\t\te.VDelete(indexName, newID)\n", "", "EFF-composite", "Engine.VEvolve:step#1:Engine.VAdd:later-rejection-is-undone"},
	)
}

func init() {
	addMutants("C04",
		mutant{"benign:vacuum-still-points-here-as-early-continue", "pkg/core/hnsw/optimizer.go", "\t\t\tif cur, still := o.index.externalToInternalID[extID]; still && cur == deadID {\n\t\t\t\tdelete(o.index.externalToInternalID, extID)\n\t\t\t}\n", "\t\t\tcurrent, present := o.index.externalToInternalID[extID]\n\t\t\tif present && deadID == current {\n\t\t\t\tdelete(o.index.externalToInternalID, extID)\n\t\t\t}\n", "silent", ""},
		mutant{"benign:restore-skips-tombstones-with-a-flag", "pkg/core/hnsw/hnsw_index.go", "\t\tif !node.Deleted.Load() {\n\t\t\th.externalToInternalID[node.Id] = internalID\n\t\t}\n\t\tnode.InternalID = internalID\n", "\t\ttombstone := node.Deleted.Load()\n\t\tif tombstone == false {\n\t\t\th.externalToInternalID[node.Id] = internalID\n\t\t}\n\t\tnode.InternalID = internalID\n", "silent", ""},
	)
}

func init() {
	addMutants("C09",
		mutant{"benign:stats-decrement-behind-early-continue", "pkg/core/core.go", "\t\t\tif _, had := stats.DocLengths[nodeID]; had {\n\t\t\t\tstats.TotalDocLength -= int64(stats.DocLengths[nodeID])\n\t\t\t\tdelete(stats.DocLengths, nodeID)\n\t\t\t\tstats.TotalDocs--\n\t\t\t\tif stats.TotalDocs < 0 {\n\t\t\t\t\tstats.TotalDocs = 0\n\t\t\t\t}\n\t\t\t}\n\t\t\t// O(1) average from the incremental counter.\n", "\t\t\tdocLen, counted := stats.DocLengths[nodeID]\n\t\t\tif !counted {\n\t\t\t\tcontinue\n\t\t\t}\n\t\t\tstats.TotalDocLength -= int64(docLen)\n\t\t\tdelete(stats.DocLengths, nodeID)\n\t\t\tstats.TotalDocs--\n\t\t\tif stats.TotalDocs < 0 {\n\t\t\t\tstats.TotalDocs = 0\n\t\t\t}\n\t\t\t// O(1) average from the incremental counter.\n", "silent", ""},
	)
}

func init() {
	addMutants("C19",
		mutant{"benign:kvset-decode-error-through-a-bad-request-helper", "internal/server/http_handlers.go", "\tif err := s.decodeJSON(r, &req); err != nil {\n\t\ts.writeHTTPError(w, http.StatusBadRequest, err)\n\t\treturn\n\t}\n\n\tif err := s.Engine.KVSet(key, []byte(req.Value)); err != nil {", "\terr := s.decodeJSON(r, &req)\n\tif err != nil {\n\t\tstatus := http.StatusBadRequest\n\t\ts.writeHTTPError(w, status, err)\n\t\treturn\n\t}\n\n\tif err := s.Engine.KVSet(key, []byte(req.Value)); err != nil {", "silent", ""},
		mutant{"benign:kvset-decodes-in-a-switch", "internal/server/http_handlers.go", "\tif err := s.decodeJSON(r, &req); err != nil {\n\t\ts.writeHTTPError(w, http.StatusBadRequest, err)\n\t\treturn\n\t}\n\n\tif err := s.Engine.KVSet(key, []byte(req.Value)); err != nil {", "\tswitch err := s.decodeJSON(r, &req); {\n\tcase err != nil:\n\t\ts.writeHTTPError(w, http.StatusUnprocessableEntity, err)\n\t\treturn\n\t}\n\n\tif err := s.Engine.KVSet(key, []byte(req.Value)); err != nil {", "silent", ""},
	)
	addMutants("C16",
		mutant{"benign:kvset-decode-error-through-a-bad-request-helper", "internal/server/http_handlers.go", "\tif err := s.decodeJSON(r, &req); err != nil {\n\t\ts.writeHTTPError(w, http.StatusBadRequest, err)\n\t\treturn\n\t}\n\n\tif err := s.Engine.KVSet(key, []byte(req.Value)); err != nil {", "\terr := s.decodeJSON(r, &req)\n\tif err != nil {\n\t\tstatus := http.StatusBadRequest\n\t\ts.writeHTTPError(w, status, err)\n\t\treturn\n\t}\n\n\tif err := s.Engine.KVSet(key, []byte(req.Value)); err != nil {", "silent", ""},
	)
}

func init() {
	newRoute := mutant{"benign:new-read-route-and-new-write-route", "internal/server/http_handlers.go", "\tmux.HandleFunc(\"DELETE /kv/{key}\", s.handleKVDelete)\n", "\tmux.HandleFunc(\"DELETE /kv/{key}\", s.handleKVDelete)\n\tmux.HandleFunc(\"GET /kv-exists/{key}\", func(w http.ResponseWriter, r *http.Request) {\n\t\tif auth.IsReservedKey(r.PathValue(\"key\")) {\n\t\t\ts.writeHTTPError(w, http.StatusForbidden, fmt.Errorf(\"key is reserved\"))\n\t\t\treturn\n\t\t}\n\t\t_, found := s.Engine.KVGet(r.PathValue(\"key\"))\n\t\ts.writeHTTPResponse(w, http.StatusOK, map[string]bool{\"exists\": found})\n\t})\n\tmux.HandleFunc(\"POST /kv-touch/{key}\", func(w http.ResponseWriter, r *http.Request) {\n\t\tif auth.IsReservedKey(r.PathValue(\"key\")) {\n\t\t\ts.writeHTTPError(w, http.StatusForbidden, fmt.Errorf(\"key is reserved\"))\n\t\t\treturn\n\t\t}\n\t\tif err := s.Engine.KVSet(r.PathValue(\"key\"), []byte(\"1\")); err != nil {\n\t\t\ts.writeHTTPError(w, http.StatusInternalServerError, err)\n\t\t\treturn\n\t\t}\n\t\ts.writeHTTPResponse(w, http.StatusOK, map[string]string{\"status\": \"OK\"})\n\t})\n", "silent", ""}
	addMutants("C16", newRoute)
	addMutants("C19", newRoute)
}

// a benign extension that spans two files: a new journaled command with its writer and its replay arm
func init() {
	newCmd := mutant{Name: "benign:new-journaled-command-with-replay-arm", File: "pkg/engine/ops.go",
		Old:  "// KVGet retrieves a value from the key-value store.\n",
		New:  "// KVTouch marks a key as seen.\nfunc (e *Engine) KVTouch(key string) error {\n\tdefer e.writeGate.leave(e.writeGate.enter())\n\n\tcmd := persistence.FormatCommand(\"TOUCH\", []byte(key))\n\tif err := e.AOF.Write(cmd); err != nil {\n\t\treturn err\n\t}\n\te.DB.GetKVStore().Set(key, []byte(\"1\"))\n\tatomic.AddInt64(&e.dirtyCounter, 1)\n\treturn nil\n}\n\n// KVGet retrieves a value from the key-value store.\n",
		Rule: "silent"}
	moreEdits[newCmd.Name] = []edit{{"pkg/engine/recovery.go", "\t\tcase \"DEL\":\n\t\t\tif len(cmd.Args) == 1 {\n\t\t\t\tdelete(kvData, string(cmd.Args[0]))", "\t\tcase \"TOUCH\":\n\t\t\tif len(cmd.Args) == 1 {\n\t\t\t\tkvData[string(cmd.Args[0])] = []byte(\"1\")\n\t\t\t}\n\t\tcase \"DEL\":\n\t\t\tif len(cmd.Args) == 1 {\n\t\t\t\tdelete(kvData, string(cmd.Args[0]))"}}
	for _, p := range []string{"C01", "C02", "C03", "C05", "C14"} {
		addMutants(p, newCmd)
	}
}

func init() {
	addMutants("C01",
		mutant{"new-journaled-command-without-replay-arm", "pkg/engine/ops.go", "// KVGet retrieves a value from the key-value store.\n", "// KVTouch marks a key as seen.\nfunc (e *Engine) KVTouch(key string) error {\n\tdefer e.writeGate.leave(e.writeGate.enter())\n\n\tcmd := persistence.FormatCommand(\"TOUCH\", []byte(key))\n\tif err := e.AOF.Write(cmd); err != nil {\n\t\treturn err\n\t}\n\te.DB.GetKVStore().Set(key, []byte(\"1\"))\n\treturn nil\n}\n\n// KVGet retrieves a value from the key-value store.\n", "CDC-1", "TOUCH"},
	)
	addMutants("C14",
		mutant{"new-journaling-operation-outside-the-gate", "pkg/engine/ops.go", "// KVGet retrieves a value from the key-value store.\n", "// KVTouch marks a key as seen.\nfunc (e *Engine) KVTouch(key string) error {\n\tcmd := persistence.FormatCommand(\"SET\", []byte(key), []byte(\"1\"))\n\tif err := e.AOF.Write(cmd); err != nil {\n\t\treturn err\n\t}\n\te.DB.GetKVStore().Set(key, []byte(\"1\"))\n\treturn nil\n}\n\n// KVGet retrieves a value from the key-value store.\n", "ORD-9", "Engine.KVTouch:journal-inside-gate"},
	)
}

func init() {
	addMutants("C13",
		mutant{"benign:kvget-explicit-unlock-on-each-return", "pkg/core/kv.go", "\ts.mu.RLock()\n\tdefer s.mu.RUnlock()\n\n\tvalue, found := s.data[key]\n\tif !found {\n\t\treturn nil, false\n\t}\n\treturn append([]byte(nil), value...), true\n", "\ts.mu.RLock()\n\tvalue, found := s.data[key]\n\tif !found {\n\t\ts.mu.RUnlock()\n\t\treturn nil, false\n\t}\n\tout := append([]byte(nil), value...)\n\ts.mu.RUnlock()\n\treturn out, true\n", "silent", ""},
		mutant{"benign:kvget-through-a-locked-closure-helper", "pkg/core/kv.go", "func (s *KVStore) Get(key string) ([]byte, bool) {\n\ts.mu.RLock()\n\tdefer s.mu.RUnlock()\n\n\tvalue, found := s.data[key]\n\tif !found {\n\t\treturn nil, false\n\t}\n\treturn append([]byte(nil), value...), true\n}\n", "func (s *KVStore) withRead(f func()) {\n\ts.mu.RLock()\n\tdefer s.mu.RUnlock()\n\tf()\n}\n\nfunc (s *KVStore) Get(key string) (out []byte, found bool) {\n\ts.withRead(func() {\n\t\tvar value []byte\n\t\tif value, found = s.data[key]; found {\n\t\t\tout = append([]byte(nil), value...)\n\t\t}\n\t})\n\treturn out, found\n}\n", "silent", ""},
	)
}

func init() {
	addMutants("C17",
		mutant{"benign:match-distance-as-one-quotient", "pkg/proxy/proxy.go", "\treturn float32(1.0/sim - 1.0)\n", "\treturn float32((1.0 - sim) / sim)\n", "silent", ""},
		mutant{"benign:firewall-threshold-compared-from-the-other-side", "pkg/proxy/proxy.go", "\tif dist := matchDistance(bestMatch); dist < p.cfg.FirewallThreshold {\n\t\treturn true, fmt.Sprintf(\"Similar to '%s' (Dist: %.4f)\", bestMatch.ID, dist)\n\t}\n\treturn false, \"\"\n", "\tdist := matchDistance(bestMatch)\n\tif p.cfg.FirewallThreshold <= dist {\n\t\treturn false, \"\"\n\t}\n\treturn true, fmt.Sprintf(\"Similar to '%s' (Dist: %.4f)\", bestMatch.ID, dist)\n", "silent", ""},
	)
	addMutants("C18",
		mutant{"benign:kernel-length-guard-with-named-lengths", "pkg/core/distance/distance_go.go", "func squaredEuclideanDistanceGo(v1, v2 []float32) (float64, error) {\n\tif len(v1) != len(v2) {\n", "func squaredEuclideanDistanceGo(v1, v2 []float32) (float64, error) {\n\tif n, m := len(v1), len(v2); m != n {\n", "silent", ""},
	)
	addMutants("C19",
		mutant{"benign:kernel-length-guard-with-named-lengths", "pkg/core/distance/distance_go.go", "func squaredEuclideanDistanceGo(v1, v2 []float32) (float64, error) {\n\tif len(v1) != len(v2) {\n", "func squaredEuclideanDistanceGo(v1, v2 []float32) (float64, error) {\n\tif n, m := len(v1), len(v2); m != n {\n", "silent", ""},
	)
}

func init() {
	addMutants("C20",
		mutant{"benign:separator-partition-with-index-of-first-non-space", "pkg/rag/splitter.go", "\tlead := len(separator) - len(strings.TrimLeftFunc(separator, unicode.IsSpace))\n\tjoiner, kept := separator[:lead], separator[lead:]\n", "\tlead := strings.IndexFunc(separator, func(r rune) bool { return !unicode.IsSpace(r) })\n\tif lead < 0 {\n\t\tlead = len(separator)\n\t}\n\tjoiner, kept := separator[:lead], separator[lead:]\n", "brittle", ""},
		mutant{"benign:kept-part-prepended-with-a-builder", "pkg/rag/splitter.go", "\t\tif i > 0 {\n\t\t\tpart = kept + part\n\t\t}\n", "\t\tif i != 0 && kept != \"\" {\n\t\t\tpart = strings.Join([]string{kept, part}, \"\")\n\t\t}\n", "silent", ""},
	)
}

// round-4 rules
func init() {
	lastSep := mutant{"graph-id-cut-at-last-separator", "pkg/engine/graph.go", "\tparts := strings.SplitN(internalID, graphIDSeparator, 2)\n\tif len(parts) == 2 {\n\t\treturn parts[1]\n\t}\n\treturn internalID\n", "\tif i := strings.LastIndex(internalID, graphIDSeparator); i >= 0 {\n\t\treturn internalID[i+2:]\n\t}\n\treturn internalID\n", "CDC-10", "extractNodeID:cuts-at-first-separator"}
	for _, p := range []string{"C04", "C06", "C10", "C11"} {
		addMutants(p, lastSep)
	}
	addMutants("C10",
		mutant{"benign:graph-id-cut-with-strings-cut", "pkg/engine/graph.go", "\tparts := strings.SplitN(internalID, graphIDSeparator, 2)\n\tif len(parts) == 2 {\n\t\treturn parts[1]\n\t}\n\treturn internalID\n", "\tif _, rest, found := strings.Cut(internalID, graphIDSeparator); found {\n\t\treturn rest\n\t}\n\treturn internalID\n", "silent", ""},
		mutant{"edge-weight-journaled-with-six-digits", "pkg/engine/graph.go", "\tweightStr := strconv.FormatFloat(float64(weight), 'f', -1, 32)\n\ttimeStr := strconv.FormatInt(now, 10)\n\tcmd := persistence.FormatCommand(\"GLINK\"", "\tweightStr := strconv.FormatFloat(float64(weight), 'f', 6, 32)\n\ttimeStr := strconv.FormatInt(now, 10)\n\tcmd := persistence.FormatCommand(\"GLINK\"", "CDC-10", "Engine.VLink:float#1:shortest-round-trip"},
	)
	addMutants("C01",
		mutant{"config-durations-journaled-in-whole-seconds", "pkg/core/hnsw/config.go", "\treturn json.Marshal(time.Duration(d).String())\n", "\treturn json.Marshal(fmt.Sprintf(\"%ds\", int64(time.Duration(d)/time.Second)))\n", "CDC-11", "Duration.MarshalJSON:whole-value"},
		mutant{"snapshot-metadata-decoded-with-use-number", "pkg/core/core.go", "\t\tif err := json.Unmarshal(aux.MetaJSON, &ns.Metadata); err != nil {\n", "\t\tdec := json.NewDecoder(bytes.NewReader(aux.MetaJSON))\n\t\tdec.UseNumber()\n\t\tif err := dec.Decode(&ns.Metadata); err != nil {\n", "SIB-numtypes", "decodes-numbers-as-json.Number"},
	)
	addMutants("C14",
		mutant{"gate-woken-by-an-operation-of-any-epoch", "pkg/engine/opgate.go", "\tif g.active[ep&1] == 0 && ep != g.epoch && g.idle != nil {\n", "\tif g.active[ep&1] == 0 && g.idle != nil {\n", "ORD-9", "opGate.leave:wake#1:only-for-an-earlier-epoch"},
	)
	addMutants("C03",
		mutant{"bad-checksum-frame-stepped-over-by-its-own-size", "pkg/engine/recovery.go", "\t\t\tslog.Warn(\"AOF Corruption Detected\", \"error\", err, \"offset\", validOffset)\n\t\t\tresyncOffset, found := resyncAOF(file, validOffset)", "\t\t\tslog.Warn(\"AOF Corruption Detected\", \"error\", err, \"offset\", validOffset)\n\t\t\tif errors.Is(err, persistence.ErrChecksumMismatch) {\n\t\t\t\tvalidOffset += int64(frameSize)\n\t\t\t\tcontinue\n\t\t\t}\n\t\t\tresyncOffset, found := resyncAOF(file, validOffset)", "GRD-scan", "frame-read#1:failure-leads-to-resync"},
	)
	addMutants("C08",
		mutant{"numeric-strings-count-as-numbers", "pkg/core/core.go", "\tcase uint64:\n\t\treturn float64(val), true\n\tdefault:\n\t\treturn 0, false\n", "\tcase uint64:\n\t\treturn float64(val), true\n\tcase string:\n\t\tf, err := strconv.ParseFloat(val, 64)\n\t\treturn f, err == nil\n\tdefault:\n\t\treturn 0, false\n", "SIB-numconv", "toFloat64Ok:numeric-arms-only"},
		mutant{"filter-whitespace-collapsed-before-evaluation", "pkg/engine/ops.go", "\tresult, err := e.DB.FindIDsByFilter(indexName, filter)\n\tif err != nil {\n\t\treturn nil, fmt.Errorf(\"invalid filter: %w\", err)\n", "\tfilter = strings.Join(strings.Fields(filter), \" \")\n\tresult, err := e.DB.FindIDsByFilter(indexName, filter)\n\tif err != nil {\n\t\treturn nil, fmt.Errorf(\"invalid filter: %w\", err)\n", "GRD-verbatim-filter", "VFilter:evaluation#1:filter-verbatim"},
	)
	addMutants("C09",
		mutant{"handler-defaults-a-zero-alpha", "internal/server/http_handlers.go", "\tif req.K > maxK {\n\t\ts.writeHTTPError(w, http.StatusBadRequest, fmt.Errorf(\"k must be between 1 and %d\", maxK))\n\t\treturn\n\t}\n\n\t// --- Auto-embed: if QueryVector empty but QueryText provided ---\n", "\tif req.K > maxK {\n\t\ts.writeHTTPError(w, http.StatusBadRequest, fmt.Errorf(\"k must be between 1 and %d\", maxK))\n\t\treturn\n\t}\n\tif req.Alpha == 0 {\n\t\treq.Alpha = 0.5\n\t}\n\n\t// --- Auto-embed: if QueryVector empty but QueryText provided ---\n", "WEB-verbatim", "rewrites-alpha"},
		mutant{"text-hits-collected-only-up-to-k", "pkg/engine/ops.go", "\t\t\t\tvar filtered []types.SearchResult\n\t\t\t\tfor _, res := range results {\n\t\t\t\t\tif allowList.Contains(res.DocID) {", "\t\t\t\tvar filtered []types.SearchResult\n\t\t\t\tfor _, res := range results {\n\t\t\t\t\tif len(filtered) >= k {\n\t\t\t\t\t\tbreak\n\t\t\t\t\t}\n\t\t\t\t\tif allowList.Contains(res.DocID) {", "GRD-order", "no-candidate-cut-before-fusion"},
	)
	addMutants("C18",
		mutant{"single-insert-normalises-the-caller-s-slice", "pkg/core/hnsw/hnsw_index.go", "\t\tvCopy := make([]float32, len(vector))\n\t\tcopy(vCopy, vector)\n\t\tnormalize(vCopy)\n\t\tvector = vCopy\n", "\t\tnormalize(vector)\n", "GRD-own-arg", "Index.addActive:normalize#1:on-own-copy"},
		mutant{"batch-insert-normalises-the-caller-s-slice", "pkg/core/hnsw/hnsw_index.go", "\t\t\t\t\tvec = append([]float32(nil), vec...)\n\t\t\t\t\tnormalize(vec)\n", "\t\t\t\t\tnormalize(vec)\n", "GRD-own-arg", "normalize#1:on-own-copy"},
	)
}

func init() {
	addMutants("C16",
		mutant{"kv-get-hands-out-reserved-keys", "internal/server/http_handlers.go", "\tif auth.IsReservedKey(key) {\n\t\t// the token signing key, the revocation list and the API key policies live\n\t\t// in the same store under this prefix: never part of the data plane\n\t\ts.writeHTTPError(w, http.StatusForbidden, fmt.Errorf(\"key is reserved\"))\n\t\treturn\n\t}\n\tvalue, found := s.Engine.KVGet(key)", "\t_ = auth.IsReservedKey\n\tvalue, found := s.Engine.KVGet(key)", "WEB-9", "Server.handleKVGet:KVGet#1:behind-reserved-key-test"},
	)
}

func init() {
	addMutants("C10",
		mutant{"index-names-may-contain-the-graph-separator", "pkg/engine/ops.go", "\tif strings.Contains(name, graphIDSeparator) {\n\t\treturn fmt.Errorf(\"invalid index name %q: must not contain %q\", name, graphIDSeparator)\n\t}\n", "", "CDC-10", "Engine.VCreate:name-without-separator"},
	)
}

func init() {
	addMutants("C13",
		mutant{"visited-set-indexed-without-growing", "pkg/core/hnsw/bitset.go", "\tbucketIndex := n >> 6 // >> 6 == / 64\n\n\tif bucketIndex >= uint32(len(bs.buckets)) {\n\t\tbs.grow(n)\n\t}\n\n\t// Use bitwise AND: n & 63 == n % 64\n\tbs.buckets[bucketIndex] |= (1 << (n & 63))\n", "\tbs.buckets[n>>6] |= (1 << (n & 63))\n", "GRD-bitset", "BitSet.Add:buckets-access#1:in-range-or-grown"},
		mutant{"result-hydration-hands-out-the-stored-metadata", "pkg/core/core.go", "\t\tif nodeMeta, ok := idxMap[nodeID]; ok {\n\t\t\tresult := make(map[string]any, len(nodeMeta))\n\t\t\tfor k, v := range nodeMeta {\n\t\t\t\tresult[k] = v\n\t\t\t}\n\t\t\treturn result\n\t\t}\n\t}\n\treturn make(map[string]any)\n}\n\n// GetMetadataForNode exposes", "\t\tif nodeMeta, ok := idxMap[nodeID]; ok {\n\t\t\treturn nodeMeta\n\t\t}\n\t}\n\treturn make(map[string]any)\n}\n\n// GetMetadataForNode exposes", "GRD-own-meta", "own-map"},
		mutant{"benign:bitset-add-grows-through-ensure-capacity", "pkg/core/hnsw/bitset.go", "\tif bucketIndex >= uint32(len(bs.buckets)) {\n\t\tbs.grow(n)\n\t}\n\n\t// Use bitwise AND: n & 63 == n % 64\n", "\tif uint32(len(bs.buckets)) <= bucketIndex {\n\t\tbs.grow(n)\n\t}\n\n\t// Use bitwise AND: n & 63 == n % 64\n", "silent", ""},
	)
	addMutants("C15",
		mutant{"half-life-days-truncated-to-whole-hours", "internal/mcp/service.go", "\t\t\tmemCfg.DecayHalfLife = hnsw.Duration(args.MemoryConfig.HalfLifeDays * 24 * float64(time.Hour))\n", "\t\t\tmemCfg.DecayHalfLife = hnsw.Duration(time.Duration(args.MemoryConfig.HalfLifeDays*24) * time.Hour)\n", "UNI-2", "converts-before-scaling"},
	)
	addMutants("C18",
		mutant{"compactor-pulls-the-bump-pointer-back", "pkg/storage/mmap/compactor.go", "\t\tac.arena.chunks = ac.arena.chunks[:lastChunkIdx]\n\t}\n\n\tif droppedCount > 0 {", "\t\tac.arena.chunks = ac.arena.chunks[:lastChunkIdx]\n\t\tif ac.arena.nextPhysSlot > chunkStartSlot {\n\t\t\tac.arena.nextPhysSlot = chunkStartSlot\n\t\t}\n\t}\n\n\tif droppedCount > 0 {", "GRD-frontier", "nextPhysSlot-store"},
	)
	addMutants("C19",
		mutant{"allocation-sized-by-an-unbounded-request-field", "internal/server/http_handlers.go", "\t\tvar ids []string\n\t\tcount := 0\n\t\thnswIdx.IterateRaw(func(id string, _ interface{}) {\n\t\t\tif count >= req.Limit {\n\t\t\t\treturn\n\t\t\t}\n\t\t\tids = append(ids, id)\n\t\t\tcount++\n\t\t})\n", "\t\tids := make([]string, 0, req.Limit)\n\t\thnswIdx.IterateRaw(func(id string, _ interface{}) {\n\t\t\tif len(ids) >= req.Limit {\n\t\t\t\treturn\n\t\t\t}\n\t\t\tids = append(ids, id)\n\t\t})\n", "WEB-6b", "make-sized-by-request"},
		mutant{"filter-value-unquoted-by-slicing", "pkg/core/core.go", "\tvalueStr = strings.Trim(valueStr, \"'\\\"\")\n", "\tif n := len(valueStr); n > 0 && (valueStr[0] == '\\'' || valueStr[0] == '\"') && valueStr[n-1] == valueStr[0] {\n\t\tvalueStr = valueStr[1 : n-1]\n\t}\n", "GRD-slice", "evaluateBooleanFilter:valueStr[1:n-1]"},
		mutant{"benign:filter-value-unquoted-by-slicing-with-length-two", "pkg/core/core.go", "\tvalueStr = strings.Trim(valueStr, \"'\\\"\")\n", "\tif n := len(valueStr); n >= 2 && (valueStr[0] == '\\'' || valueStr[0] == '\"') && valueStr[n-1] == valueStr[0] {\n\t\tvalueStr = valueStr[1 : n-1]\n\t}\n", "silent", ""},
	)
	addMutants("C20",
		mutant{"chunker-skips-the-first-window-of-short-texts", "pkg/core/text/chunker.go", "\tfor i := 0; i < length; i += (chunkSize - overlapSize) {\n", "\tfor i := 0; i+overlapSize < length; i += (chunkSize - overlapSize) {\n", "GRD-chunkloop", "FixedSizeChunker:first-window-always-emitted"},
	)
}

func init() {
	m := mutant{"decay-model-survives-the-iteration", "pkg/engine/ops.go", "\t\t\tglobalHalfLife = 604800 // 7 days default\n\t\t}\n\n\t\t// Get default decay model from config\n\t\tdefaultDecayModel := string(memCfg.DecayModel)\n\t\tif defaultDecayModel == \"\" {\n\t\t\tdefaultDecayModel = \"exponential\"\n\t\t}\n", "\t\t\tglobalHalfLife = 604800 // 7 days default\n\t\t}\n\n\t\t// Get default decay model from config\n\t\tdecayModel := string(memCfg.DecayModel)\n\t\tif decayModel == \"\" {\n\t\t\tdecayModel = \"exponential\"\n\t\t}\n", "GRD-decay-local", "model-not-loop-carried"}
	moreEdits[m.Name] = []edit{{"pkg/engine/ops.go", "\t\t\t\t\t// Get decay model: default from config, override from metadata\n\t\t\t\t\tdecayModel := defaultDecayModel\n\t\t\t\t\tif modelOverride", "\t\t\t\t\tif modelOverride"}}
	addMutants("C15", m)
}

func init() {
	addMutants("C05",
		mutant{"unpin-re-adds-the-memory-under-its-own-id", "internal/mcp/service.go", "\tif _, err := s.engine.VGet(idx, args.MemoryID); err != nil {\n\t\treturn nil, UnpinMemoryResult{}, fmt.Errorf(\"memory not found: %w\", err)\n\t}\n", "\tdata, err := s.engine.VGet(idx, args.MemoryID)\n\tif err != nil {\n\t\treturn nil, UnpinMemoryResult{}, fmt.Errorf(\"memory not found: %w\", err)\n\t}\n\tdelete(data.Metadata, \"_pinned\")\n\tif err := s.engine.VAdd(idx, args.MemoryID, data.Vector, data.Metadata); err != nil {\n\t\treturn nil, UnpinMemoryResult{}, err\n\t}\n", "EFF-readd", "Service.UnpinMemory:VAdd#1"},
	)
}

func init() {
	m := mutant{"compaction-skips-kv-keys-by-prefix", "pkg/engine/recovery.go", "\t\t// Copiamo il valore per evitare race su slice condivise.\n", "\t\tif strings.HasPrefix(pair.Key, \"tmp:\") {\n\t\t\treturn\n\t\t}\n\t\t// Copiamo il valore per evitare race su slice condivise.\n", "CDC-9", "RewriteAOF:every-kv-pair-carried-over"}
	addMutants("C01", m)
	addMutants("C10", m)
}

func init() {
	addMutants("C01",
		mutant{"cleared-auto-links-not-applied-to-restored-index", "pkg/engine/recovery.go", "\t\tif state.autoLinksSet && isHnsw {\n", "\t\tif len(state.autoLinks) > 0 && isHnsw {\n", "CDC-8", "apply:SetAutoLinks#1:also-for-the-empty-value"},
	)
}

func init() {
	addMutants("C16",
		mutant{"new-kv-route-without-the-reserved-key-test", "internal/server/http_handlers.go", "\tmux.HandleFunc(\"DELETE /kv/{key}\", s.handleKVDelete)\n", "\tmux.HandleFunc(\"DELETE /kv/{key}\", s.handleKVDelete)\n\tmux.HandleFunc(\"GET /kv-exists/{key}\", func(w http.ResponseWriter, r *http.Request) {\n\t\t_, found := s.Engine.KVGet(r.PathValue(\"key\"))\n\t\ts.writeHTTPResponse(w, http.StatusOK, map[string]bool{\"exists\": found})\n\t})\n", "WEB-9", "KVGet#1:behind-reserved-key-test"},
	)
}

// round 5
func init() {
	offset := mutant{"skipped-record-does-not-advance-the-replay-offset", "pkg/engine/recovery.go", "invalid GUNLINK timestamp\", \"source\", sourceID, \"target\", targetID, \"error\", err)\n\t\t\t\t\t\tbreak\n", "invalid GUNLINK timestamp\", \"source\", sourceID, \"target\", targetID, \"error\", err)\n\t\t\t\t\t\tcontinue\n", "ORD-11", "offset-advanced-over-every-decoded-frame"}
	addMutants("C02", offset)
	addMutants("C03", offset)
	addMutants("C01",
		mutant{"vdrop-decided-by-the-aggregation-map", "pkg/engine/recovery.go", "\t\t\t\t_, created := indexes[idxName]\n\t\t\t\tdelete(indexes, idxName)\n\t\t\t\t_, restored := e.DB.GetVectorIndex(idxName)\n", "\t\t\t\tst, created := indexes[idxName]\n\t\t\t\tdelete(indexes, idxName)\n\t\t\t\trestored := created && st.restored\n", "CDC-8", "arm:VDROP:drop-decided-by-the-DB"},
		mutant{"benign:vdrop-asks-the-db-before-forgetting-the-state", "pkg/engine/recovery.go", "\t\t\t\t_, created := indexes[idxName]\n\t\t\t\tdelete(indexes, idxName)\n\t\t\t\t_, restored := e.DB.GetVectorIndex(idxName)\n", "\t\t\t\t_, restored := e.DB.GetVectorIndex(idxName)\n\t\t\t\t_, created := indexes[idxName]\n\t\t\t\tdelete(indexes, idxName)\n", "silent", ""},
		mutant{"snapshot-skips-unlinked-nodes", "pkg/core/core.go", "\t\t\tfor internalID, node := range nodes {\n\t\t\t\t// Create the node snapshot\n", "\t\t\tfor internalID, node := range nodes {\n\t\t\t\tif node != nil && len(node.Connections) == 0 {\n\t\t\t\t\tcontinue\n\t\t\t\t}\n\t\t\t\t// Create the node snapshot\n", "CDC-12", "every-node-written"},
		mutant{"benign:snapshot-skips-nil-nodes", "pkg/core/core.go", "\t\t\tfor internalID, node := range nodes {\n\t\t\t\t// Create the node snapshot\n", "\t\t\tfor internalID, node := range nodes {\n\t\t\t\tif node == nil {\n\t\t\t\t\tcontinue\n\t\t\t\t}\n\t\t\t\t// Create the node snapshot\n", "silent", ""},
	)
	addMutants("C19",
		mutant{"negative-ef-search-sizes-the-scratch-slice", "pkg/core/hnsw/hnsw_index.go", "\tif scratchCap < 0 {\n\t\tscratchCap = 0\n\t}\n", "", "GRD-alloc", "Index.searchInternal:make-slice"},
		mutant{"huge-ef-search-sizes-the-scratch-slice", "pkg/core/hnsw/hnsw_index.go", "\tif scratchCap > int(currentCounter) {\n\t\tscratchCap = int(currentCounter)\n\t}\n", "", "GRD-alloc", "Index.searchInternal:make-slice"},
		mutant{"benign:ef-search-clamped-with-min-max", "pkg/core/hnsw/hnsw_index.go", "\tif scratchCap < 0 {\n\t\tscratchCap = 0\n\t}\n\tif scratchCap > int(currentCounter) {\n\t\tscratchCap = int(currentCounter)\n\t}\n", "\tscratchCap = max(0, min(scratchCap, int(currentCounter)))\n", "silent", ""},
		mutant{"negative-refine-batch-size-accepted", "pkg/core/hnsw/optimizer.go", "\tif batchSize <= 0 {\n", "\tif batchSize == 0 {\n", "GRD-alloc", "GraphOptimizer.Refine:make-slice"},
		// (the variant "graph parameters checked by the engine only" was retired with fix 3fa733f: hnsw.New now validates for
		// itself, GRD-levelmult says so, and taking the check out of New is no longer behaviour-preserving for m == 1)
		mutant{"raw-request-path-as-metric-label", "internal/server/middleware.go", "metrics.HttpRequestDuration.WithLabelValues(r.Method, pathLabel)", "metrics.HttpRequestDuration.WithLabelValues(r.Method, r.URL.Path)", "WEB-10", "label-values#1"},
		mutant{"benign:metric-label-sanitised-with-another-replacement", "internal/server/middleware.go", "pathLabel := strings.ToValidUTF8(r.URL.Path, \"\\uFFFD\")", "pathLabel := strings.ToValidUTF8(strings.TrimSuffix(r.URL.Path, \"/\"), \"?\")", "silent", ""},
	)
	m := mutant{"graph-parameters-unbounded-anywhere", "pkg/core/hnsw/hnsw_index.go", "\tif err := ValidateParams(m, efConstruction); err != nil {\n\t\treturn nil, err\n\t}\n\n\th := &Index{", "\th := &Index{", "GRD-alloc", "make-slice"}
	moreEdits[m.Name] = []edit{{"pkg/engine/ops.go", "\tif err := hnsw.ValidateParams(m, efC); err != nil {\n\t\treturn err\n\t}\n", ""}, {"internal/server/http_handlers.go", "\tif err := hnsw.ValidateParams(req.M, req.EfConstruction); err != nil {\n\t\ts.writeHTTPError(w, http.StatusBadRequest, err)\n\t\treturn\n\t}\n", ""}}
	addMutants("C19", m)
	addMutants("C04",
		mutant{"memory-id-from-the-second-clock", "internal/mcp/service.go", "\tid := fmt.Sprintf(\"mem_%d\", time.Now().UnixNano())\n", "\tid := fmt.Sprintf(\"mem_%d\", time.Now().Unix())\n", "GRD-clockid", "clock-id"},
	)
	addMutants("C06",
		mutant{"benign:text-scores-normalised-in-the-goroutine-after-filtering", "pkg/engine/ops.go", "\t\t\t} else {\n\t\t\t\ttextResults = results\n\t\t\t}\n\t\t}()\n", "\t\t\t} else {\n\t\t\t\ttextResults = results\n\t\t\t}\n\t\t\tnormalizeTextScores(textResults)\n\t\t}()\n", "silent", ""},
	)
	moreEdits["benign:text-scores-normalised-in-the-goroutine-after-filtering"] = []edit{{"pkg/engine/ops.go", "\tif textQuery != \"\" {\n\t\tnormalizeTextScores(textResults)\n\t}\n", ""}}
	addMutants("C09",
		mutant{"benign:priority-list-as-an-array", "pkg/engine/ops.go", "\tcandidates := []string{\"content\", \"text\", \"page_content\", \"body\", \"description\", \"summary\"}\n", "\tcandidates := [...]string{\"content\", \"text\", \"page_content\", \"body\", \"description\", \"summary\"}\n", "silent", ""},
	)
	addMutants("C17",
		mutant{"benign:similarity-clamped-to-one", "pkg/proxy/proxy.go", "\tif sim <= 0 {\n\t\treturn float32(math.Inf(1))\n\t}\n", "\tif sim <= 0 {\n\t\treturn float32(math.Inf(1))\n\t}\n\tif sim > 1 {\n\t\tsim = 1\n\t}\n", "silent", ""},
	)
	addMutants("C20",
		mutant{"benign:stems-remembered-per-language", "pkg/textanalyzer/stemmer_english.go", "\t\tstemmedTokens[i] = stemEnglish(token)\n", "\t\tstemmedTokens[i] = memoEnglishStem(token)\n", "silent", ""},
	)
	moreEdits["benign:stems-remembered-per-language"] = []edit{{"pkg/textanalyzer/stemmer_english.go", "// --- Generic Support Functions (Used by both stemmers) ---\n", "var englishStemMemo = map[string]string{}\nvar englishStemMemoMu sync.Mutex\n\nfunc memoEnglishStem(token string) string {\n\tenglishStemMemoMu.Lock()\n\tdefer englishStemMemoMu.Unlock()\n\tif s, ok := englishStemMemo[token]; ok {\n\t\treturn s\n\t}\n\ts := stemEnglish(token)\n\tenglishStemMemo[token] = s\n\treturn s\n}\n\n// --- Generic Support Functions (Used by both stemmers) ---\n"}, {"pkg/textanalyzer/stemmer_english.go", "import \"strings\"\n", "import (\n\t\"strings\"\n\t\"sync\"\n)\n"}}
	addMutants("C04",
		mutant{"benign:nothing-to-train-on-returns-early", "pkg/core/hnsw/hnsw_index.go", "func (h *Index) ensureQuantizerTrained(trainingData [][]float32) {\n", "func (h *Index) ensureQuantizerTrained(trainingData [][]float32) {\n\tif len(trainingData) == 0 {\n\t\treturn\n\t}\n", "silent", ""},
	)
	addMutants("C10",
		mutant{"benign:identical-link-shortcut-that-checks-the-inverse", "pkg/engine/graph.go", "\t// 1. Persistence (AOF)\n\t// We use the new native command: GLINK", "\tif inverseRelationType == \"\" && false {\n\t\treturn nil\n\t}\n\t// 1. Persistence (AOF)\n\t// We use the new native command: GLINK", "silent", ""},
	)
}

func init() {
	addMutants("C07",
		mutant{"insert-into-tombstones-stays-orphan", "pkg/core/hnsw/hnsw_index.go", "\tif !linked {\n\t\th.metaMu.Lock()\n\t\tif ep := h.loadNode(h.entrypointID.Load()); ep == nil || ep.Deleted.Load() {\n\t\t\th.entrypointID.Store(internalID)\n\t\t\th.maxLevel.Store(int32(level))\n\t\t}\n\t\th.metaMu.Unlock()\n\t}\n", "\t_ = linked\n", "GRD-orphan", "entry-point-tombstone-replaced"},
		mutant{"entry-point-replaced-when-it-is-live", "pkg/core/hnsw/hnsw_index.go", "if ep := h.loadNode(h.entrypointID.Load()); ep == nil || ep.Deleted.Load() {\n\t\t\th.entrypointID.Store(internalID)", "if ep := h.loadNode(h.entrypointID.Load()); ep != nil && !ep.Deleted.Load() {\n\t\t\th.entrypointID.Store(internalID)", "GRD-orphan", "entry-point-tombstone-replaced"},
		mutant{"benign:tombstone-test-written-the-other-way-round", "pkg/core/hnsw/hnsw_index.go", "if ep := h.loadNode(h.entrypointID.Load()); ep == nil || ep.Deleted.Load() {\n\t\t\th.entrypointID.Store(internalID)\n\t\t\th.maxLevel.Store(int32(level))\n\t\t}\n", "if ep := h.loadNode(h.entrypointID.Load()); ep != nil && !ep.Deleted.Load() {\n\t\t\t// a live entry point: some other insert took over meanwhile\n\t\t} else {\n\t\t\th.maxLevel.Store(int32(level))\n\t\t\th.entrypointID.Store(internalID)\n\t\t}\n", "silent", ""},
	)
}

func init() {
	addMutants("C19",
		mutant{"negative-refine-ef-reaches-the-layer-search", "pkg/core/hnsw/optimizer.go", "\tif ef <= 0 {\n\t\tef = o.index.efConstruction\n\t}\n\t// The maintenance configuration is accepted", "\tif ef == 0 {\n\t\tef = o.index.efConstruction\n\t}\n\t// The maintenance configuration is accepted", "GRD-alloc", "Index.searchLayerUnlocked:bound"},
		mutant{"result-cut-without-a-length-test", "pkg/engine/ops.go", "\tif len(finalRes) > k {\n\t\tfinalRes = finalRes[:k]\n\t}\n", "\tif k > 0 {\n\t\tfinalRes = finalRes[:k]\n\t}\n", "GRD-alloc", "Engine.searchWithFusion:bound"},
		mutant{"benign:result-cut-with-min", "pkg/engine/ops.go", "\tif len(finalRes) > k {\n\t\tfinalRes = finalRes[:k]\n\t}\n", "\tfinalRes = finalRes[:min(k, len(finalRes))]\n", "silent", ""},
	)
}

func init() {
	addMutants("C07",
		mutant{"bulk-insert-searches-the-whole-batch-first", "pkg/core/hnsw/hnsw_index.go", "\tfor roundStart, roundSize := 0, 1; roundStart < len(allNewNodes); {\n", "\t{\n\t\troundStart, roundSize := 0, len(allNewNodes)\n", "GRD-batchrounds", "search-and-commit-in-one-loop"},
		mutant{"bulk-insert-in-one-round", "pkg/core/hnsw/hnsw_index.go", "\tfor roundStart, roundSize := 0, 1; roundStart < len(allNewNodes); {\n", "\tfor roundStart, roundSize := 0, len(allNewNodes); roundStart < len(allNewNodes); {\n", "GRD-batchrounds", "search-and-commit-in-one-loop"},
		mutant{"benign:bulk-rounds-start-with-a-larger-seed", "pkg/core/hnsw/hnsw_index.go", "const batchLinkSeed = 32\n", "const batchLinkSeed = 64\n", "silent", ""},
	)
}

// round 6
func init() {
	inv := mutant{"shadow-writes-re-appended-by-the-engine", "pkg/engine/recovery.go", "\tshadowWrites, endErr := e.AOF.EndSnapshotModeRequeue()\n\tsnapshotDone = true\n\tif endErr != nil {\n\t\treturn fmt.Errorf(\"rewrite: end snapshot mode: %w\", endErr)\n\t}\n\n\t// The shadow writes are back in the writer's queue (ahead of any newer\n\t// write): get them into the freshly replaced AOF.\n\tif shadowWrites > 0 {\n\t\tslog.Debug(\"rewrite: replaying shadow writes\", \"count\", shadowWrites)\n", "\tpendingWrites, endErr := e.AOF.EndSnapshotMode()\n\tsnapshotDone = true\n\tif endErr != nil {\n\t\treturn fmt.Errorf(\"rewrite: end snapshot mode: %w\", endErr)\n\t}\n\tshadowWrites := len(pendingWrites)\n\n\tif shadowWrites > 0 {\n\t\tslog.Debug(\"rewrite: replaying shadow writes\", \"count\", shadowWrites)\n\t\tfor _, data := range pendingWrites {\n\t\t\te.AOF.Write(data)\n\t\t}\n", "ORD-12", "Engine.RewriteAOF:end-of-snapshot-mode"}
	addMutants("C14", inv)
	addMutants("C01", inv)
	addMutants("C14",
		mutant{"requeue-arm-forgets-the-queue", "pkg/persistence/lazy_aof.go", "\t\t\t\t\tif cmd.kind == cmdEndSnapshotRequeue && fatalErr == nil {\n\t\t\t\t\t\t// Same goroutine that owns the queue: nothing can get in between.\n\t\t\t\t\t\tbuffer = append(buffer, writes...)\n\t\t\t\t\t}\n", "", "ORD-12", "LazyAOFWriter.run:requeue-arm"},
		mutant{"replay-drops-metadata-of-an-existing-node", "pkg/engine/recovery.go", "\t\t\t\tif existing, found := hnswIdx.GetInternalID(id); found && len(e.DB.GetMetadataForNode(name, existing)) == 0 {\n\t\t\t\t\tinternalID, err = existing, nil\n\t\t\t\t}\n", "", "CDC-13", "metadata-also-when-the-node-exists"},
	)
	addMutants("C02",
		mutant{"drop-record-not-flushed-before-the-arena-goes", "pkg/engine/ops.go", "\tif err := e.AOF.Flush(); err != nil {\n\t\treturn fmt.Errorf(\"persistence flush failed: %w\", err)\n\t}\n\n\terr := e.DB.DeleteVectorIndex(name)", "\terr := e.DB.DeleteVectorIndex(name)", "ORD-13", "record-flushed-before-files-are-destroyed"},
		mutant{"drop-flush-error-ignored", "pkg/engine/ops.go", "\tif err := e.AOF.Flush(); err != nil {\n\t\treturn fmt.Errorf(\"persistence flush failed: %w\", err)\n\t}\n\n\terr := e.DB.DeleteVectorIndex(name)", "\t_ = e.AOF.Flush()\n\n\terr := e.DB.DeleteVectorIndex(name)", "ORD-13", "record-flushed-before-files-are-destroyed"},
		mutant{"arena-removed-again-in-the-background", "pkg/engine/ops.go", "\tslog.Info(\"[Engine] Index deleted from DB\", \"index\", name)\n", "\tslog.Info(\"[Engine] Index deleted from DB\", \"index\", name)\n\tgo func(path string) {\n\t\t_ = os.RemoveAll(path)\n\t}(filepath.Join(e.opts.DataDir, \"arenas\", name))\n", "GRD-asyncrm", "Engine.VDeleteIndex:go#1"},
	)
	moreEdits["arena-removed-again-in-the-background"] = []edit{{"pkg/engine/ops.go", "\t\"log/slog\"\n", "\t\"log/slog\"\n\t\"os\"\n"}}
	addMutants("C05",
		mutant{"metric-precision-checked-after-the-journal-write", "pkg/engine/ops.go", "\tif err := hnsw.ValidateMetricPrecision(metric, prec); err != nil {\n\t\treturn err\n\t}\n", "", "JRN-6", "ValidateMetricPrecision:before-the-journal-write"},
	)
}

func init() {
	addMutants("C19",
		mutant{"negative-k-reaches-the-fusion-cut", "pkg/engine/ops.go", "\tif k <= 0 {\n\t\treturn []fusedResult{}, nil\n\t}\n", "", "GRD-alloc", "Engine.searchWithFusion:bound"},
		mutant{"huge-refine-batch-wraps-the-window", "pkg/core/hnsw/optimizer.go", "\tif batchSize > totalNodes {\n\t\tbatchSize = totalNodes\n\t}\n", "", "GRD-alloc", "GraphOptimizer.Refine:make-slice"},
		mutant{"profile-page-window-wraps", "internal/mcp/service.go", "\tif limit > len(ids)-start {\n\t\tlimit = len(ids) - start\n\t}\n", "", "GRD-alloc", "Service.ListUserProfiles:bound"},
	)
}

func init() {
	addMutants("C04",
		mutant{"evolve-copies-its-own-marker", "pkg/engine/ops.go", "\t\tif k == \"_is_historical\" {\n\t\t\tcontinue\n\t\t}\n", "", "EFF-evolve-flag", "marker-not-copied"},
		mutant{"dimension-read-from-a-live-node-only", "pkg/core/hnsw/hnsw_index.go", "\tif h.vectorDim > 0 {\n\t\treturn h.vectorDim\n\t}\n", "", "GRD-dimension", "dimension-survives-the-last-delete"},
	)
}

func init() {
	m := mutant{"closed-and-enqueue-decided-in-one-select", "pkg/persistence/lazy_aof.go", "\tselect {\n\tcase <-lw.closedCh:\n\t\treturn fmt.Errorf(\"cannot write to closed LazyAOFWriter\")\n\tdefault:\n\t}\n", "", "ORD-14", "closed-tested-first"}
	addMutants("C13", m)
	addMutants("C14", m)
	addMutants("C14",
		mutant{"snapshot-copies-the-id-map-in-a-second-section", "pkg/core/hnsw/hnsw_index.go", "\tcounterAtCut := uint32(h.nodeCounter.Load())\n\tentrypointAtCut := uint32(h.entrypointID.Load())\n\tmaxLevelAtCut := int(h.maxLevel.Load())\n\th.metaMu.RUnlock()\n", "\th.metaMu.RUnlock()\n\th.metaMu.RLock()\n\tcounterAtCut := uint32(h.nodeCounter.Load())\n\tentrypointAtCut := uint32(h.entrypointID.Load())\n\tmaxLevelAtCut := int(h.maxLevel.Load())\n\th.metaMu.RUnlock()\n", "CDC-14", "nodeCounter:read-at-the-cut"},
	)
	addMutants("C07",
		mutant{"m-equal-one-accepted", "pkg/core/hnsw/hnsw_index.go", "\tif m == 1 {\n\t\treturn fmt.Errorf(\"invalid index parameters: m must be at least 2 (or 0 for the default), got 1\")\n\t}\n", "", "GRD-levelmult", "rejects-m-equal-1"},
	)
}

func init() {
	m := mutant{"delete-without-the-metadata-lock", "pkg/engine/ops.go", "\tmetaLock := e.getMetadataLockShard(internalID)\n\tmetaLock.Lock()\n\tidx.Delete(id)\n", "\tmetaLock := e.getMetadataLockShard(internalID)\n\tidx.Delete(id)\n\tmetaLock.Lock()\n", "LCK-10", "VDelete:deletes-under"}
	addMutants("C13", m)
	addMutants("C09", m)
	addMutants("C13",
		mutant{"setmetadata-trusts-its-first-look-up", "pkg/engine/ops.go", "\tif cur, still := hnswIdx.GetInternalID(id); !still || cur != internalID {\n\t\treturn fmt.Errorf(\"node not found\")\n\t}\n", "", "LCK-10", "VSetMetadata:node-looked-up-again"},
	)
}

func init() {
	m := mutant{"link-replayed-on-top-of-itself-adds-a-version", "pkg/core/graph.go", "\tif hasVersionCreatedAt(outList, targetID, timestamp) {\n\t\treturn\n\t}\n", "", "CDC-15", "DB.AddEdge:no-change"}
	addMutants("C10", m)
	addMutants("C14", m)
}

func init() {
	addMutants("C15",
		mutant{"negative-access-count-reaches-the-logarithm", "pkg/engine/search_utils.go", "\tif accessCount < 0 {\n\t\taccessCount = 0\n\t}\n", "", "GRD-logarg", "count-not-negative"},
	)
}

func init() {
	addMutants("C16",
		mutant{"profiling-routes-open-to-any-token", "internal/server/middleware.go", " || strings.HasPrefix(path, \"/debug/\") {", " {", "WEB-11", "admin-only"},
	)
}

func init() {
	m := mutant{"path-search-runs-all-its-rounds", "pkg/engine/pathfinding.go", "\t\tif len(fwdQueue) == 0 && len(bwdQueue) == 0 {\n\t\t\tbreak\n\t\t}\n", "", "GRD-path-exhausted", "ends-with-empty-frontiers"}
	addMutants("C11", m)
}

// Round 6: one re-opening of each hazard the round-6 rules guard, written differently from the seed that prompted the rule.
func init() {
	m := mutant{"oversized-record-journaled", "pkg/persistence/lazy_aof.go", "\tif len(data) > MaxPayloadSize {\n\t\treturn fmt.Errorf(\"record of %d bytes exceeds the maximum frame payload of %d bytes\", len(data), MaxPayloadSize)\n\t}\n", "", "CDC-16", "refuses-records-above-the-reader-limit"}
	addMutants("C01", m)
	addMutants("C03", m)
	addMutants("C03",
		mutant{"arguments-peeked-out-of-the-read-buffer", "pkg/persistence/resp.go", "\t\targData := make([]byte, lenArg)\n\t\t_, err = io.ReadFull(reader, argData)\n", "\t\targData, err := reader.Peek(lenArg)\n\t\tif err == nil {\n\t\t\t_, err = reader.Discard(lenArg)\n\t\t}\n", "GRD-own-parse", "arguments-not-windows-into-the-reader"},
		mutant{"buffered-frame-reader-never-reset", "pkg/engine/recovery.go", "\t\tpayload, frameSize, err := persistence.ReadFrame(file)\n", "\t\tpayload, frameSize, err := persistence.ReadFrame(frames)\n", "ORD-15", "seek-then-reset"},
	)
	moreEdits["buffered-frame-reader-never-reset"] = []edit{{"pkg/engine/recovery.go", "\tvar validOffset int64 = 0\n\tcorrupted := false\n", "\tvar validOffset int64 = 0\n\tcorrupted := false\n\tframes := bufio.NewReaderSize(file, 1<<16)\n"}}
	m = mutant{"result-channel-sized-by-the-cpu-count", "pkg/core/core.go", "\tresultsChan := make(chan VectorData, len(vectorIDs))\n", "\tresultsChan := make(chan VectorData, runtime.NumCPU())\n", "GRD-chancap", "capacity-is-the-job-count"}
	addMutants("C04", m)
	addMutants("C13", m)
	addMutants("C04",
		mutant{"kv-found-decided-by-the-value-length", "pkg/core/kv.go", "\tvalue, found := s.data[key]\n\tif !found {\n", "\tvalue := s.data[key]\n\tif len(value) == 0 {\n", "GRD-commaok", "found-is-the-comma-ok"},
		mutant{"kv-found-also-needs-a-value", "pkg/core/kv.go", "\tif !found {\n\t\treturn nil, false\n\t}\n\treturn append([]byte(nil), value...), true\n", "\tif !found || value == nil {\n\t\treturn nil, false\n\t}\n\treturn append([]byte(nil), value...), true\n", "GRD-commaok", "found-is-the-comma-ok"},
	)
	addMutants("C12",
		mutant{"events-sent-from-goroutines-of-their-own", "pkg/engine/events.go", "\t\tselect {\n\t\tcase ch <- e:\n\t\tdefault:\n\t\t\t// Buffer full, drop the event for this slow consumer.\n\t\t}\n", "\t\tgo func(ch chan Event) {\n\t\t\tselect {\n\t\t\tcase ch <- e:\n\t\t\tdefault:\n\t\t\t}\n\t\t}(ch)\n", "LCK-7e", "sends-under-the-subscriber-lock"},
	)
	m = mutant{"hybrid-filter-upper-cased", "pkg/engine/search_utils.go", "\t// Cleanup AND/OR leftovers\n\tbooleanFilter = strings.TrimSpace(booleanFilter)\n", "\t// Cleanup AND/OR leftovers\n\tbooleanFilter = strings.ToUpper(strings.TrimSpace(booleanFilter))\n", "GRD-verbatim-hybrid", "boolean-filter-as-written"}
	addMutants("C06", m)
	addMutants("C08", m)
	m = mutant{"empty-string-drops-the-key-without-unindexing", "pkg/core/core.go", "§2/2§\tfor key, value := range metadata {\n\t\t// Update direct lookup map (O(1))\n", "\tfor key, value := range metadata {\n\t\tif str, isStr := value.(string); isStr && str == \"\" {\n\t\t\tdelete(s.metadataMap[indexName][nodeID], key)\n\t\t\tcontinue\n\t\t}\n\t\t// Update direct lookup map (O(1))\n", "GRD-reindex", "metadata-delete-goes-through-removeOldIndexEntries"}
	addMutants("C08", m)
	addMutants("C09", m)
	m = mutant{"relink-refreshes-the-reverse-entry", "pkg/core/graph.go", "\t\tif inList[i].SourceID == sourceID && inList[i].DeletedAt == 0 {\n\t\t\tfoundIn = true\n", "\t\tif inList[i].SourceID == sourceID && inList[i].DeletedAt == 0 {\n\t\t\tinList[i].CreatedAt = timestamp\n\t\t\tfoundIn = true\n", "GRD-rev-append", "reverse-entries-appended-never-rewritten"}
	addMutants("C10", m)
	addMutants("C11", m)
	addMutants("C15",
		mutant{"layer-names-trimmed-on-store", "pkg/core/hnsw/hnsw_index.go", "\tdefer h.metaMu.Unlock()\n\th.memoryConfig = cfg\n", "\tdefer h.metaMu.Unlock()\n\tif len(cfg.Layers) > 0 {\n\t\ttrimmed := make(map[string]LayerConfig, len(cfg.Layers))\n\t\tfor name, lc := range cfg.Layers {\n\t\t\ttrimmed[strings.TrimSpace(name)] = lc\n\t\t}\n\t\tcfg.Layers = trimmed\n\t}\n\th.memoryConfig = cfg\n", "GRD-layers-verbatim", "layer-names-as-configured"},
		mutant{"pinned-memory-keeps-its-reference-time", "pkg/engine/ops.go", "\t\tmeta[\"_last_accessed\"] = now\n", "\t\tif pinned, _ := meta[\"_pinned\"].(bool); !pinned {\n\t\t\tmeta[\"_last_accessed\"] = now\n\t\t}\n", "GRD-reinforce-all", "not-decided-by-the-pin"},
	)
	moreEdits["layer-names-trimmed-on-store"] = []edit{{"pkg/core/hnsw/hnsw_index.go", "\t\"slices\"\n", "\t\"slices\"\n\t\"strings\"\n"}}
	addMutants("C18",
		mutant{"close-removes-the-dropped-chunk-files-by-name", "pkg/storage/mmap/arena.go", "\t\t// File already closed in DeferDropChunk, just unmap\n\t\tchunk.Data = nil\n", "\t\t_ = os.Remove(chunk.File.Name())\n\t\tchunk.Data = nil\n", "GRD-close-keeps-files", "removes-no-file"},
	)
	addMutants("C09",
		mutant{"alpha-defaulted-by-a-handler-helper", "internal/server/http_handlers.go", "§2/2§\t\t\treq.Alpha,\n", "\t\t\talphaOrDefault(req.Alpha),\n", "WEB-verbatim-alpha", "alpha-from-the-request"},
	)
	moreEdits["alpha-defaulted-by-a-handler-helper"] = []edit{{"internal/server/http_handlers.go", "\nfunc (s *Server) handleVectorSearch(", "\nfunc alphaOrDefault(a float64) float64 {\n\tif a == 0 {\n\t\treturn 0.5\n\t}\n\treturn a\n}\n\nfunc (s *Server) handleVectorSearch("}}
	addMutants("C17",
		mutant{"invalidation-reads-one-page-of-ids", "pkg/proxy/proxy.go", "\t\tif hnswIdx, ok := idx.(*hnsw.Index); ok {\n\t\t\thnswIdx.IterateRaw(func(id string, _ interface{}) { ids = append(ids, id) })\n\t\t}\n", "\t\tif _, ok := idx.(*hnsw.Index); ok {\n\t\t\tids, _, _ = p.engine.VGetIDsByCursor(p.cfg.CacheIndex, 0, 10000)\n\t\t}\n", "GRD-inval-all", "enumerates-the-whole-cache"},
	)
	addMutants("C07",
		mutant{"delete-releases-the-slot-through-a-helper", "pkg/core/hnsw/hnsw_index.go", "\t\tif node != nil {\n\t\t\tnode.Deleted.Store(true)\n\t\t}\n\t}\n\t// ------------------------------------\n", "\t\tif node != nil {\n\t\t\tnode.Deleted.Store(true)\n\t\t\th.releaseStorage(internalID)\n\t\t}\n\t}\n\t// ------------------------------------\n", "GRD-tombstone-storage", "frees-no-arena-slot"},
		mutant{"all-zero-query-answered-without-a-search", "pkg/engine/ops.go", "\t// CASE B: HYBRID / VECTOR\n", "\tif isVectorQueryEmpty && len(query) > 0 && textQuery == \"\" {\n\t\treturn []fusedResult{}, nil\n\t}\n\n\t// CASE B: HYBRID / VECTOR\n", "GRD-no-query-shortcut", "no-return-decided-by-the-query-values"},
	)
	moreEdits["delete-releases-the-slot-through-a-helper"] = []edit{{"pkg/core/hnsw/hnsw_index.go", "\nfunc (h *Index) Delete(id string) {", "\nfunc (h *Index) releaseStorage(internalID uint32) {\n\tif h.arena != nil {\n\t\th.arena.FreeSlot(internalID)\n\t}\n}\n\nfunc (h *Index) Delete(id string) {"}}
}

// Round 6: behaviour-preserving rewrites of the code the round-6 rules read; every one must stay unreported.
func init() {
	addMutants("C03",
		mutant{"benign:record-limit-tested-on-a-local", "pkg/persistence/lazy_aof.go", "\tif len(data) > MaxPayloadSize {\n\t\treturn fmt.Errorf(\"record of %d bytes exceeds the maximum frame payload of %d bytes\", len(data), MaxPayloadSize)\n\t}\n", "\tif n := len(data); n > MaxPayloadSize {\n\t\treturn fmt.Errorf(\"record of %d bytes exceeds the maximum frame payload of %d bytes\", n, MaxPayloadSize)\n\t}\n", "silent", ""},
		mutant{"benign:argument-copied-out-of-the-read-buffer", "pkg/persistence/resp.go", "\t\targData := make([]byte, lenArg)\n\t\t_, err = io.ReadFull(reader, argData)\n", "\t\tvar argData []byte\n\t\tif lenArg <= reader.Buffered() {\n\t\t\tvar window []byte\n\t\t\twindow, err = reader.Peek(lenArg)\n\t\t\targData = append([]byte(nil), window...)\n\t\t\tif err == nil {\n\t\t\t\t_, err = reader.Discard(lenArg)\n\t\t\t}\n\t\t} else {\n\t\t\targData = make([]byte, lenArg)\n\t\t\t_, err = io.ReadFull(reader, argData)\n\t\t}\n", "silent", ""},
		mutant{"benign:argument-and-terminator-read-in-one-go", "pkg/persistence/resp.go", "\t\targData := make([]byte, lenArg)\n\t\t_, err = io.ReadFull(reader, argData)\n", "\t\targData := make([]byte, lenArg, lenArg+2)\n\t\t_, err = io.ReadFull(reader, argData)\n", "silent", ""},
		mutant{"benign:buffered-frame-reader-reset-after-every-seek", "pkg/engine/recovery.go", "\t\tpayload, frameSize, err := persistence.ReadFrame(file)\n", "\t\tpayload, frameSize, err := persistence.ReadFrame(frames)\n", "silent", ""},
	)
	moreEdits["benign:buffered-frame-reader-reset-after-every-seek"] = []edit{
		{"pkg/engine/recovery.go", "\tvar validOffset int64 = 0\n\tcorrupted := false\n", "\tvar validOffset int64 = 0\n\tcorrupted := false\n\tframes := bufio.NewReaderSize(file, 1<<16)\n"},
		{"pkg/engine/recovery.go", "§1/2§\t\t\t\tfile.Seek(resyncOffset, io.SeekStart)\n", "\t\t\t\tfile.Seek(resyncOffset, io.SeekStart)\n\t\t\t\tframes.Reset(file)\n"},
		{"pkg/engine/recovery.go", "\t\t\t\tfile.Seek(resyncOffset, io.SeekStart)\n\t\t\t\tcontinue", "\t\t\t\tfile.Seek(resyncOffset, io.SeekStart)\n\t\t\t\tframes.Reset(file)\n\t\t\t\tcontinue"},
	}
	addMutants("C04",
		mutant{"benign:channel-capacity-through-a-local", "pkg/core/core.go", "\tjobs := make(chan string, len(vectorIDs))\n\t// Channel to collect results\n\tresultsChan := make(chan VectorData, len(vectorIDs))\n", "\twanted := len(vectorIDs)\n\tjobs := make(chan string, wanted)\n\t// Channel to collect results\n\tresultsChan := make(chan VectorData, wanted)\n", "silent", ""},
		mutant{"benign:kv-get-found-arm-first", "pkg/core/kv.go", "\tvalue, found := s.data[key]\n\tif !found {\n\t\treturn nil, false\n\t}\n\treturn append([]byte(nil), value...), true\n", "\tif value, found := s.data[key]; found {\n\t\treturn append([]byte(nil), value...), true\n\t}\n\treturn nil, false\n", "silent", ""},
	)
	addMutants("C12",
		mutant{"benign:emit-unlocks-explicitly-after-the-fan-out", "pkg/engine/events.go", "\teb.mu.RLock()\n\tdefer eb.mu.RUnlock()\n\n\tfor ch := range eb.subscribers {\n\t\tselect {\n\t\tcase ch <- e:\n\t\tdefault:\n\t\t\t// Buffer full, drop the event for this slow consumer.\n\t\t}\n\t}\n", "\teb.mu.RLock()\n\tfor ch := range eb.subscribers {\n\t\tselect {\n\t\tcase ch <- e:\n\t\tdefault:\n\t\t\t// Buffer full, drop the event for this slow consumer.\n\t\t}\n\t}\n\teb.mu.RUnlock()\n", "silent", ""},
	)
	addMutants("C06",
		mutant{"benign:contains-clause-cut-out-by-index", "pkg/engine/search_utils.go", "\tbooleanFilter = strings.Replace(filter, matches[0], \"\", 1)\n", "\tif at := strings.Index(filter, matches[0]); at >= 0 {\n\t\tbooleanFilter = filter[:at] + filter[at+len(matches[0]):]\n\t}\n", "silent", ""},
	)
	addMutants("C08",
		mutant{"benign:nil-value-removes-the-key-and-its-index-entries", "pkg/core/core.go", "§1/2§\tfor key, value := range metadata {\n\t\t// Update direct lookup map (O(1))\n", "\tfor key, value := range metadata {\n\t\tif value == nil {\n\t\t\tif oldValue, had := s.metadataMap[indexName][nodeID][key]; had {\n\t\t\t\tdelete(s.metadataMap[indexName][nodeID], key)\n\t\t\t\ts.removeOldIndexEntries(indexName, nodeID, key, oldValue, analyzer)\n\t\t\t}\n\t\t\tcontinue\n\t\t}\n\t\t// Update direct lookup map (O(1))\n", "silent", ""},
	)
	addMutants("C10",
		mutant{"benign:reverse-entry-looked-up-with-indexfunc", "pkg/core/graph.go", "\tfoundIn := false\n\tfor i := range inList {\n\t\tif inList[i].SourceID == sourceID && inList[i].DeletedAt == 0 {\n\t\t\tfoundIn = true\n\t\t\tbreak\n\t\t}\n\t}\n", "\tfoundIn := slices.IndexFunc(inList, func(r ReverseEdge) bool { return r.SourceID == sourceID && r.DeletedAt == 0 }) >= 0\n", "silent", ""},
	)
	addMutants("C10",
		mutant{"reverse-entry-looked-up-by-peer-only-with-indexfunc", "pkg/core/graph.go", "\tfoundIn := false\n\tfor i := range inList {\n\t\tif inList[i].SourceID == sourceID && inList[i].DeletedAt == 0 {\n\t\t\tfoundIn = true\n\t\t\tbreak\n\t\t}\n\t}\n", "\tfoundIn := slices.IndexFunc(inList, func(r ReverseEdge) bool { return r.SourceID == sourceID }) >= 0\n", "SIB-views", "AddEdge:active-lookup:forward=reverse"},
	)
	moreEdits["reverse-entry-looked-up-by-peer-only-with-indexfunc"] = []edit{{"pkg/core/graph.go", "import (\n", "import (\n\t\"slices\"\n"}}
	moreEdits["benign:reverse-entry-looked-up-with-indexfunc"] = []edit{{"pkg/core/graph.go", "import (\n", "import (\n\t\"slices\"\n"}}
	addMutants("C15",
		mutant{"benign:layer-map-copied-with-its-keys", "pkg/core/hnsw/hnsw_index.go", "\tdefer h.metaMu.Unlock()\n\th.memoryConfig = cfg\n", "\tdefer h.metaMu.Unlock()\n\tif cfg.Layers != nil {\n\t\towned := make(map[string]LayerConfig, len(cfg.Layers))\n\t\tfor name, lc := range cfg.Layers {\n\t\t\towned[name] = lc\n\t\t}\n\t\tcfg.Layers = owned\n\t}\n\th.memoryConfig = cfg\n", "silent", ""},
		mutant{"benign:reinforce-logs-pinned-memories", "pkg/engine/ops.go", "\t\tmeta[\"_last_accessed\"] = now\n", "\t\tmeta[\"_last_accessed\"] = now\n\t\tif pinned, _ := meta[\"_pinned\"].(bool); pinned {\n\t\t\tslog.Debug(\"reinforcing a pinned memory\", \"id\", extID)\n\t\t}\n", "silent", ""},
	)
	addMutants("C18",
		mutant{"benign:dropped-chunk-file-removed-by-a-helper-of-the-drop", "pkg/storage/mmap/arena.go", "\tfilePath := chunk.File.Name()\n\tif err := os.Remove(filePath); err != nil {\n", "\tfilePath := chunk.File.Name()\n\tif err := removeChunkFile(filePath); err != nil {\n", "silent", ""},
	)
	moreEdits["benign:dropped-chunk-file-removed-by-a-helper-of-the-drop"] = []edit{{"pkg/storage/mmap/arena.go", "\nfunc (va *VectorArena) Close() error {", "\nfunc removeChunkFile(path string) error { return os.Remove(path) }\n\nfunc (va *VectorArena) Close() error {"}}
	addMutants("C09",
		mutant{"benign:alpha-read-into-a-local-first", "internal/server/http_handlers.go", "§2/2§\t\t\treq.Alpha,\n", "\t\t\talpha,\n", "silent", ""},
	)
	moreEdits["benign:alpha-read-into-a-local-first"] = []edit{{"internal/server/http_handlers.go", "\t\t// --- STANDARD SEARCH ---\n\t\tids, err := s.Engine.VSearch(\n", "\t\t// --- STANDARD SEARCH ---\n\t\talpha := req.Alpha\n\t\tids, err := s.Engine.VSearch(\n"}}
	addMutants("C17",
		mutant{"benign:invalidation-pages-through-the-cursor-to-the-end", "pkg/proxy/proxy.go", "\t\tif hnswIdx, ok := idx.(*hnsw.Index); ok {\n\t\t\thnswIdx.IterateRaw(func(id string, _ interface{}) { ids = append(ids, id) })\n\t\t}\n", "\t\tif _, ok := idx.(*hnsw.Index); ok {\n\t\t\tfor cursor := uint32(0); ; {\n\t\t\t\tpage, next, err := p.engine.VGetIDsByCursor(p.cfg.CacheIndex, cursor, 512)\n\t\t\t\tids = append(ids, page...)\n\t\t\t\tif err != nil || next == 0 {\n\t\t\t\t\tbreak\n\t\t\t\t}\n\t\t\t\tcursor = next\n\t\t\t}\n\t\t}\n", "silent", ""},
	)
	moreEdits["benign:zero-query-test-with-containsfunc"] = []edit{{"pkg/engine/ops.go", "\t\"path/filepath\"\n\t\"sort\"\n", "\t\"path/filepath\"\n\t\"slices\"\n\t\"sort\"\n"}}
	addMutants("C07",
		mutant{"benign:zero-query-test-with-containsfunc", "pkg/engine/ops.go", "\tisVectorQueryEmpty := true\n\tif len(query) > 0 {\n\t\tfor _, v := range query {\n\t\t\tif v != 0 {\n\t\t\t\tisVectorQueryEmpty = false\n\t\t\t\tbreak\n\t\t\t}\n\t\t}\n\t}\n", "\tisVectorQueryEmpty := !slices.ContainsFunc(query, func(v float32) bool { return v != 0 })\n", "silent", ""},
	)
}

// Round 6, second batch: behaviour-preserving rewrites of the code the PART-B rules read.
func init() {
	addMutants("C01",
		mutant{"benign:bare-node-completed-by-a-direct-metadata-write", "pkg/engine/recovery.go", "\t\t\t\tif existing, found := hnswIdx.GetInternalID(id); found && len(e.DB.GetMetadataForNode(name, existing)) == 0 {\n\t\t\t\t\tinternalID, err = existing, nil\n\t\t\t\t}\n", "\t\t\t\tif existing, found := hnswIdx.GetInternalID(id); found && len(e.DB.GetMetadataForNode(name, existing)) == 0 {\n\t\t\t\t\tdelete(entry.metadata, \"__deleted\")\n\t\t\t\t\te.DB.AddMetadata(name, existing, entry.metadata)\n\t\t\t\t}\n", "silent", ""},
	)
	addMutants("C14",
		mutant{"benign:snapshot-reads-the-counters-before-the-node-copy", "pkg/core/hnsw/hnsw_index.go", "\th.metaMu.RLock()\n\tnodes := make([]*Node, len(h.getNodes()))\n\tcopy(nodes, h.getNodes())\n", "\th.metaMu.RLock()\n\tcounterAtCut := uint32(h.nodeCounter.Load())\n\tentrypointAtCut := uint32(h.entrypointID.Load())\n\tmaxLevelAtCut := int(h.maxLevel.Load())\n\tnodes := make([]*Node, len(h.getNodes()))\n\tcopy(nodes, h.getNodes())\n", "silent", ""},
	)
	moreEdits["benign:snapshot-reads-the-counters-before-the-node-copy"] = []edit{{"pkg/core/hnsw/hnsw_index.go", "\t}\n\tcounterAtCut := uint32(h.nodeCounter.Load())\n\tentrypointAtCut := uint32(h.entrypointID.Load())\n\tmaxLevelAtCut := int(h.maxLevel.Load())\n\th.metaMu.RUnlock()\n", "\t}\n\th.metaMu.RUnlock()\n"}}
	addMutants("C10",
		mutant{"benign:applied-before-test-spelt-out", "pkg/core/graph.go", "\tif hasVersionCreatedAt(outList, targetID, timestamp) {\n\t\treturn\n\t}\n", "\tif applied := hasVersionCreatedAt(outList, targetID, timestamp); applied {\n\t\treturn\n\t}\n", "silent", ""},
	)
	addMutants("C13",
		mutant{"benign:closed-test-in-a-helper", "pkg/persistence/lazy_aof.go", "\tselect {\n\tcase <-lw.closedCh:\n\t\treturn fmt.Errorf(\"cannot write to closed LazyAOFWriter\")\n\tdefault:\n\t}\n", "\tif lw.isClosedNow() {\n\t\treturn fmt.Errorf(\"cannot write to closed LazyAOFWriter\")\n\t}\n", "silent", ""},
		mutant{"benign:delete-under-the-metadata-lock-in-a-closure", "pkg/engine/ops.go", "\tmetaLock := e.getMetadataLockShard(internalID)\n\tmetaLock.Lock()\n\tidx.Delete(id)\n\n\t// Clean up metadata to prevent memory leaks\n\tif internalID != 0 {\n\t\tif err := e.DB.DeleteMetadata(indexName, internalID); err != nil {\n\t\t\tslog.Warn(\"Failed to delete metadata\", \"error\", err, \"id\", id)\n\t\t}\n\t}\n\tmetaLock.Unlock()\n", "\tfunc() {\n\t\tmetaLock := e.getMetadataLockShard(internalID)\n\t\tmetaLock.Lock()\n\t\tdefer metaLock.Unlock()\n\t\tidx.Delete(id)\n\n\t\t// Clean up metadata to prevent memory leaks\n\t\tif internalID != 0 {\n\t\t\tif err := e.DB.DeleteMetadata(indexName, internalID); err != nil {\n\t\t\t\tslog.Warn(\"Failed to delete metadata\", \"error\", err, \"id\", id)\n\t\t\t}\n\t\t}\n\t}()\n", "silent", ""},
	)
	moreEdits["benign:closed-test-in-a-helper"] = []edit{{"pkg/persistence/lazy_aof.go", "\nfunc (lw *LazyAOFWriter) Write(data string) error {", "\nfunc (lw *LazyAOFWriter) isClosedNow() bool {\n\tselect {\n\tcase <-lw.closedCh:\n\t\treturn true\n\tdefault:\n\t\treturn false\n\t}\n}\n\nfunc (lw *LazyAOFWriter) Write(data string) error {"}}
	addMutants("C05",
		mutant{"benign:create-parameters-checked-by-one-validator", "pkg/engine/ops.go", "\tif err := hnsw.ValidateMetricPrecision(metric, prec); err != nil {\n\t\treturn err\n\t}\n", "\tif err := validateCreate(m, efC, metric, prec); err != nil {\n\t\treturn err\n\t}\n", "silent", ""},
	)
	moreEdits["benign:create-parameters-checked-by-one-validator"] = []edit{{"pkg/engine/ops.go", "\n// --- Vector Data Operations ---\n", "\nfunc validateCreate(m, efC int, metric distance.DistanceMetric, prec distance.PrecisionType) error {\n\tif err := hnsw.ValidateParams(m, efC); err != nil {\n\t\treturn err\n\t}\n\treturn hnsw.ValidateMetricPrecision(metric, prec)\n}\n\n// --- Vector Data Operations ---\n"}}
	addMutants("C04",
		mutant{"benign:evolve-copies-everything-but-its-marker", "pkg/engine/ops.go", "\t\tif k == \"_is_historical\" {\n\t\t\tcontinue\n\t\t}\n\t\tmergedMeta[k] = v\n", "\t\tif k != \"_is_historical\" {\n\t\t\tmergedMeta[k] = v\n\t\t}\n", "silent", ""},
	)
	addMutants("C07",
		mutant{"benign:m-of-one-refused-as-a-range", "pkg/core/hnsw/hnsw_index.go", "\tif m == 1 {\n\t\treturn fmt.Errorf(\"invalid index parameters: m must be at least 2 (or 0 for the default), got 1\")\n", "\tif m > 0 && m < 2 {\n\t\treturn fmt.Errorf(\"invalid index parameters: m must be at least 2 (or 0 for the default), got 1\")\n", "silent", ""},
	)
	addMutants("C15",
		mutant{"benign:access-count-clamped-with-max", "pkg/engine/search_utils.go", "\tif accessCount < 0 {\n\t\taccessCount = 0\n\t}\n", "\taccessCount = max(accessCount, 0)\n", "silent", ""},
	)
	addMutants("C16",
		mutant{"benign:admin-prefixes-from-a-list", "internal/server/middleware.go", "\t\tif strings.HasPrefix(path, \"/system/\") || strings.HasPrefix(path, \"/auth/\") || strings.HasPrefix(path, \"/debug/\") {\n", "\t\tif slices.ContainsFunc([]string{\"/system/\", \"/auth/\", \"/debug/\"}, func(prefix string) bool { return strings.HasPrefix(path, prefix) }) {\n", "silent", ""},
	)
	addMutants("C16",
		mutant{"admin-prefix-list-without-the-profiler", "internal/server/middleware.go", "\t\tif strings.HasPrefix(path, \"/system/\") || strings.HasPrefix(path, \"/auth/\") || strings.HasPrefix(path, \"/debug/\") {\n", "\t\tif slices.ContainsFunc([]string{\"/system/\", \"/auth/\"}, func(prefix string) bool { return strings.HasPrefix(path, prefix) }) {\n", "WEB-11", "admin-only"},
	)
	moreEdits["admin-prefix-list-without-the-profiler"] = []edit{{"internal/server/middleware.go", "import (\n", "import (\n\t\"slices\"\n"}}
	moreEdits["benign:admin-prefixes-from-a-list"] = []edit{{"internal/server/middleware.go", "import (\n", "import (\n\t\"slices\"\n"}}
	addMutants("C11",
		mutant{"benign:path-rounds-bounded-in-the-loop-condition", "pkg/engine/pathfinding.go", "\tfor depth := 0; depth < maxDepth; depth++ {\n", "\tfor depth := 0; depth < maxDepth && (len(fwdQueue) > 0 || len(bwdQueue) > 0); depth++ {\n", "silent", ""},
	)
	moreEdits["benign:path-rounds-bounded-in-the-loop-condition"] = []edit{{"pkg/engine/pathfinding.go", "\t\tif len(fwdQueue) == 0 && len(bwdQueue) == 0 {\n\t\t\tbreak\n\t\t}\n", ""}}
}

// Round 6, third batch of behaviour-preserving rewrites (ordering rules of the PART-B repairs).
func init() {
	addMutants("C02",
		mutant{"benign:drop-flushes-through-an-engine-helper", "pkg/engine/ops.go", "\tif err := e.AOF.Flush(); err != nil {\n\t\treturn fmt.Errorf(\"persistence flush failed: %w\", err)\n\t}\n\n\terr := e.DB.DeleteVectorIndex(name)", "\tif err := e.flushJournal(); err != nil {\n\t\treturn fmt.Errorf(\"persistence flush failed: %w\", err)\n\t}\n\n\terr := e.DB.DeleteVectorIndex(name)", "silent", ""},
		mutant{"benign:background-goroutine-removes-a-temp-file-it-names-itself", "pkg/engine/ops.go", "\tslog.Info(\"[Engine] Index deleted from DB\", \"index\", name)\n", "\tslog.Info(\"[Engine] Index deleted from DB\", \"index\", name)\n\tgo func() {\n\t\tleft, _ := filepath.Glob(filepath.Join(e.opts.DataDir, \"*.tmp.old\"))\n\t\tfor _, f := range left {\n\t\t\t_ = os.Remove(f)\n\t\t}\n\t}()\n", "silent", ""},
	)
	moreEdits["benign:drop-flushes-through-an-engine-helper"] = []edit{{"pkg/engine/ops.go", "\n// --- Vector Data Operations ---\n", "\nfunc (e *Engine) flushJournal() error { return e.AOF.Flush() }\n\n// --- Vector Data Operations ---\n"}}
	moreEdits["benign:background-goroutine-removes-a-temp-file-it-names-itself"] = []edit{{"pkg/engine/ops.go", "\t\"log/slog\"\n", "\t\"log/slog\"\n\t\"os\"\n"}}
	addMutants("C14",
		mutant{"benign:snapshot-mode-ended-through-an-engine-helper", "pkg/engine/recovery.go", "§1/2§\t\t\tif _, err := e.AOF.EndSnapshotModeRequeue(); err != nil {\n", "\t\t\tif _, err := e.leaveSnapshotMode(); err != nil {\n", "silent", ""},
	)
	moreEdits["benign:snapshot-mode-ended-through-an-engine-helper"] = []edit{{"pkg/engine/recovery.go", "\nfunc (e *Engine) replayAOF() error {", "\nfunc (e *Engine) leaveSnapshotMode() (int, error) { return e.AOF.EndSnapshotModeRequeue() }\n\nfunc (e *Engine) replayAOF() error {"}}
}

func init() {
	moreEdits["setmetadata-reads-before-lock"] = []edit{{"pkg/engine/ops.go", "\t// VReinforce).\n\tmeta := e.DB.GetMetadataForNode(indexName, internalID)\n", "\t// VReinforce).\n"}}
	moreEdits["reinforce-reads-before-lock"] = []edit{{"pkg/engine/ops.go", "\t\t// deadlocks once a writer (create/delete index, close) waits (P1-5).\n\t\tmeta := e.DB.GetMetadataForNode(indexName, internalID)\n", "\t\t// deadlocks once a writer (create/delete index, close) waits (P1-5).\n"}}
}

// Round 7: one re-opening of each hazard the round-7 rules guard.
func init() {
	m := mutant{"shard-hash-becomes-fnv1", "pkg/core/graph.go", "\th := fnv.New32a()\n", "\th := fnv.New32()\n", "GRD-shardhash", "the-function-the-snapshots-were-written-with"}
	addMutants("C01", m)
	addMutants("C10", m)
	m = mutant{"auto-link-rule-json-name-changed", "pkg/core/hnsw/config.go", "\tMetadataField string `json:\"metadata_field\"`\n", "\tMetadataField string `json:\"field\"`\n", "TBL-wire", "json:Engine.replayAOF:[]AutoLinkRule"}
	addMutants("C01", m)
	addMutants("C14", m)
	addMutants("C06",
		mutant{"snapshot-field-renamed-in-writer-and-reader", "pkg/core/hnsw/hnsw_node.go", "\tDeleted     bool\n", "\tTombstone   bool\n", "TBL-wire", "gob:Node.GobEncode:nodeGob"},
	)
	moreEdits["snapshot-field-renamed-in-writer-and-reader"] = []edit{{"pkg/core/hnsw/hnsw_node.go", "\t\tDeleted:     n.Deleted.Load(),\n", "\t\tTombstone:   n.Deleted.Load(),\n"}, {"pkg/core/hnsw/hnsw_node.go", "alias.Deleted", "alias.Tombstone"}}
	addMutants("C09",
		mutant{"document-count-narrowed-to-16-bits", "pkg/core/core.go", "\tTotalDocs int\n", "\tTotalDocs int16\n", "TBL-statwidth", "TextIndexStats.TotalDocs"},
	)
	m = mutant{"replay-reads-the-clock-once", "pkg/engine/recovery.go", "\t\t\t\t\t\te.DB.RemoveEdge(sourceID, graphID, relType, false, time.Now().UnixNano())\n", "\t\t\t\t\t\te.DB.RemoveEdge(sourceID, graphID, relType, false, replayNow)\n", "CDC-15c", "timestamp-per-record"}
	addMutants("C12", m)
	addMutants("C10", m)
	moreEdits["replay-reads-the-clock-once"] = []edit{{"pkg/engine/recovery.go", "\tvar validOffset int64 = 0\n\tcorrupted := false\n", "\tvar validOffset int64 = 0\n\tcorrupted := false\n\treplayNow := time.Now().UnixNano()\n"}}
	addMutants("C13",
		mutant{"vacuum-ranges-over-the-shard-array", "pkg/core/graph.go", "\tfor i := 0; i < NumGraphShards; i++ {\n\t\tshard := &db.graphShards[i]\n\t\tshard.mu.Lock()\n\n\t\tfor nodeID, node := range shard.nodes {\n\t\t\t// Prune OutEdges", "\tfor _, shard := range db.graphShards {\n\t\tshard.mu.Lock()\n\n\t\tfor nodeID, node := range shard.nodes {\n\t\t\t// Prune OutEdges", "LCK-copy", "type:pkg/core.GraphShard"},
		mutant{"set-properties-pre-merges-with-a-stale-read", "internal/server/http_handlers.go", "\tif err := s.Engine.VSetMetadata(req.IndexName, req.NodeID, req.Properties); err != nil {", "\tstale := make(map[string]any)\n\tfor k, v := range data.Metadata {\n\t\tstale[k] = v\n\t}\n\tfor k, v := range req.Properties {\n\t\tstale[k] = v\n\t}\n\tif err := s.Engine.VSetMetadata(req.IndexName, req.NodeID, stale); err != nil {", "GRD-rmw-callers", "Server.handleGraphSetProperties"},
	)
	m = mutant{"drain-gives-up-after-a-while", "pkg/engine/opgate.go", "\t\t<-wait\n", "\t\tselect {\n\t\tcase <-wait:\n\t\tcase <-time.After(30 * time.Second):\n\t\t}\n", "ORD-9", "ends-only-with-the-wake-up"}
	addMutants("C14", m)
	addMutants("C02", m)
	moreEdits["drain-gives-up-after-a-while"] = []edit{{"pkg/engine/opgate.go", "import \"sync\"\n", "import (\n\t\"sync\"\n\t\"time\"\n)\n"}}
	addMutants("C16",
		mutant{"transfer-fields-honoured-on-every-post", "internal/server/middleware.go", "\t\t\tif r.URL.Path == \"/transfer/memory\" {\n", "\t\t\tif r.Method == http.MethodPost {\n", "WEB-4", "alternative-field:source_index"},
	)
	addMutants("C20",
		mutant{"token-estimate-truncated-again", "pkg/rag/adaptive_retriever.go", "\t\t\tchunkCost := math.Ceil(float64(len(chunk.Content)) / ar.config.CharsPerToken)\n", "\t\t\tchunkCost := float64(len(chunk.Content)) / ar.config.CharsPerToken\n", "GRD-budget", "estimate-rounded-up"},
		mutant{"token-estimate-compared-as-an-int-again", "pkg/rag/adaptive_retriever.go", "\t\t\tif float64(totalTokens)+chunkCost > float64(budget) {\n", "\t\t\tif totalTokens+int(chunkCost) > budget {\n", "GRD-budget", "estimate-compared-as-a-float"},
	)
	m = mutant{"stability-score-takes-the-raw-access-count", "pkg/engine/epistemic_types.go", "\t\t\tif accessCount < 0 {\n\t\t\t\taccessCount = 0\n\t\t\t}\n", "", "GRD-logarg", "CalculateStability"}
	addMutants("C15", m)
	addMutants("C19", m)
	m = mutant{"int8-query-quantized-with-the-index-range", "pkg/core/hnsw/hnsw_index.go", "\t\tfinalQuery = quantizeQuery(queryF32, h.quantizer)\n", "\t\tfinalQuery = h.quantizer.Quantize(queryF32)\n", "GRD-queryscale", "searchInternal:quantize"}
	addMutants("C07", m)
	addMutants("C18", m)
	addMutants("C07",
		mutant{"query-range-test-dropped", "pkg/core/hnsw/hnsw_index.go", "\tif !(maxAbs > 0) || math.IsInf(float64(maxAbs), 0) {\n\t\treturn fallback.Quantize(q)\n\t}\n\treturn (&distance.Quantizer{AbsMax: maxAbs}).Quantize(q)\n", "\t_ = maxAbs\n\treturn fallback.Quantize(q)\n", "GRD-queryscale", "at-its-own-scale"},
	)
	// ---- round 9
	m = mutant{"hard-unlink-filters-the-reverse-list-by-the-target", "pkg/core/graph.go", "\t\t\t\t\tif edge.SourceID != sourceID {\n", "\t\t\t\t\tif edge.SourceID != targetID {\n", "SIB-peerparam", "DB.RemoveEdge:SourceID:compared-with-one-parameter"}
	addMutants("C02", m)
	addMutants("C06", m)
	addMutants("C10", m)
	addMutants("C08",
		mutant{"filter-literal-trimmed-of-quotes-and-blanks-at-once", "pkg/core/core.go", "\tvalueStr = strings.Trim(valueStr, \"'\\\"\")\n", "\tvalueStr = strings.Trim(valueStr, \"'\\\" \")\n", "GRD-quotetrim", "quotes-only"},
	)
	addMutants("C07",
		mutant{"base-layer-searched-with-the-callers-ef", "pkg/core/hnsw/hnsw_index.go", "k, 0, allowList, actualEfSearch, currentCounter, scratchOut)", "k, 0, allowList, efSearch, currentCounter, scratchOut)", "GRD-efboost", "searches-with-the-computed-width"},
	)
	addMutants("C10",
		mutant{"vacuum-drops-the-relation-from-the-other-view", "pkg/core/graph.go", "\t\t\t\tif len(newOut) == 0 {\n\t\t\t\t\tdelete(node.OutEdges, rel)\n", "\t\t\t\tif len(newOut) == 0 {\n\t\t\t\t\tdelete(node.InEdges, rel)\n", "GRD-viewdelete", "from-the-map-it-ranges-over"},
	)
	addMutants("C03",
		mutant{"frame-payload-read-with-one-read", "pkg/persistence/frame.go", "\t\t_, err := io.ReadFull(r, payload)\n\t\treturn payload, err\n", "\t\t_, err := r.Read(payload)\n\t\treturn payload, err\n", "GRD-shortread", "fills-the-buffer"},
	)
	m = mutant{"compaction-dates-the-link-record-with-the-end-time", "pkg/engine/recovery.go", "\t\tcTimeStr := strconv.FormatInt(cTime, 10)\n", "\t\tcTimeStr := strconv.FormatInt(dTime, 10)\n", "CDC-9", "GLINK:carries-the-time-the-version-was-created"}
	addMutants("C01", m)
	addMutants("C10", m)
	m = mutant{"dropped-index-keeps-its-graph-nodes", "pkg/engine/ops.go", "\te.DB.RemoveGraphNodesWithPrefix(buildGraphID(name, \"\"))\n", "", "GRD-dropgraph", "Engine.VDeleteIndex:drop#1"}
	addMutants("C04", m)
	addMutants("C12", m)
	m = mutant{"replayed-drop-purges-the-graph-only-for-a-restored-index", "pkg/engine/recovery.go", "\t\t\t\tif created || restored {\n\t\t\t\t\te.DB.RemoveGraphNodesWithPrefix(", "\t\t\t\t_ = created\n\t\t\t\tif restored {\n\t\t\t\t\te.DB.RemoveGraphNodesWithPrefix(", "GRD-dropgraph", "Engine.replayAOF:drop#1"}
	addMutants("C04", m)
	addMutants("C12", m)
	addMutants("C07",
		mutant{"vacuum-elects-the-first-live-node", "pkg/core/hnsw/optimizer.go", "\t\t\t\tif level := len(node.Connections) - 1; !newEntryFound || level > bestLevel {\n\t\t\t\t\to.index.entrypointID.Store(uint32(i))\n\t\t\t\t\to.index.maxLevel.Store(int32(level))\n\t\t\t\t\tbestLevel = level\n\t\t\t\t}\n\t\t\t\tnewEntryFound = true\n", "\t\t\t\to.index.entrypointID.Store(uint32(i))\n\t\t\t\to.index.maxLevel.Store(int32(len(node.Connections) - 1))\n\t\t\t\tnewEntryFound = true\n\t\t\t\t_ = bestLevel\n\t\t\t\tbreak\n", "GRD-electtop", "keeps-scanning-for-a-higher-level"},
		mutant{"vacuum-elects-the-last-live-node", "pkg/core/hnsw/optimizer.go", "\t\t\t\tif level := len(node.Connections) - 1; !newEntryFound || level > bestLevel {\n", "\t\t\t\tif level := len(node.Connections) - 1; bestLevel < 0 || level >= 0 {\n", "GRD-electtop", "keeps-scanning-for-a-higher-level"},
	)
	addMutants("C19",
		mutant{"status-committed-before-the-payload-is-encoded", "internal/server/http_handlers.go", "\tbody, err := json.Marshal(payload)\n\tif err != nil {\n\t\tlog.Printf(\"INTERNAL SERVER ERROR: response cannot be encoded: %v\", err)\n\t\tstatusCode = http.StatusInternalServerError\n\t\tbody = []byte(`{\"error\":\"Internal Server Error\"}`)\n\t}\n\tw.Header().Set(\"Content-Type\", \"application/json\")\n\tw.WriteHeader(statusCode)\n\tw.Write(append(body, '\\n'))\n", "\tw.Header().Set(\"Content-Type\", \"application/json\")\n\tw.WriteHeader(statusCode)\n\tjson.NewEncoder(w).Encode(payload)\n", "WEB-encode", "after-the-payload-is-encoded"},
		mutant{"encoding-error-of-the-response-ignored", "internal/server/http_handlers.go", "\tbody, err := json.Marshal(payload)\n\tif err != nil {\n\t\tlog.Printf(\"INTERNAL SERVER ERROR: response cannot be encoded: %v\", err)\n\t\tstatusCode = http.StatusInternalServerError\n\t\tbody = []byte(`{\"error\":\"Internal Server Error\"}`)\n\t}\n", "\tbody, _ := json.Marshal(payload)\n", "WEB-encode", "after-the-payload-is-encoded"},
	)
	// ---- renames of unexported functions (see anchors.go): nothing observable changes, no rule may fire
	m = mutant{"benign:rename-searchWithFusion", "pkg/engine/ops.go", "§all§searchWithFusion", "fusedSearch", "silent", ""}
	addMutants("C06", m)
	addMutants("C09", m)
	addMutants("C15", m)
	m = mutant{"benign:rename-removeOldIndexEntries", "pkg/core/core.go", "§all§removeOldIndexEntries", "dropStaleIndexEntries", "silent", ""}
	addMutants("C08", m)
	addMutants("C09", m)
	m = mutant{"benign:rename-saveSnapshotLocked", "pkg/engine/recovery.go", "§all§saveSnapshotLocked", "writeSnapshotHoldingAdminLock", "silent", ""}
	addMutants("C02", m)
	addMutants("C14", m)
	addMutants("C01", m)
	addMutants("C16", mutant{"benign:rename-extractNamespacesFromRequest", "internal/server/middleware.go", "§all§extractNamespacesFromRequest", "namespacesOf", "silent", ""})
	addMutants("C20", mutant{"benign:rename-recursiveSplit", "pkg/rag/splitter.go", "§all§recursiveSplit", "splitBySeparators", "silent", ""})
	m = mutant{"benign:rename-searchLayerUnlocked", "pkg/core/hnsw/hnsw_index.go", "§all§searchLayerUnlocked", "beamSearchLayer", "silent", ""}
	addMutants("C07", m)
	addMutants("C06", m)
	moreEdits["benign:rename-searchLayerUnlocked"] = []edit{{"pkg/core/hnsw/optimizer.go", "§all§searchLayerUnlocked", "beamSearchLayer"}}
	addMutants("C17", mutant{"benign:rename-checkStaticFirewall", "pkg/proxy/proxy.go", "§all§checkStaticFirewall", "matchesDenyPattern", "silent", ""})
	moreEdits["benign:rename-checkStaticFirewall"] = []edit{{"pkg/proxy/firewall.go", "§all§checkStaticFirewall", "matchesDenyPattern"}}
	m = mutant{"benign:rename-replayAOF", "pkg/engine/recovery.go", "§all§replayAOF", "replayJournal", "silent", ""}
	addMutants("C01", m)
	addMutants("C03", m)
	addMutants("C05", m)
	moreEdits["benign:rename-replayAOF"] = []edit{{"pkg/engine/engine.go", "§all§replayAOF", "replayJournal"}}
	addMutants("C06", mutant{"renamed-fusion-loses-the-cap", "pkg/engine/ops.go", "§all§searchWithFusion", "fusedSearch", "GRD-cap", "searchWithFusion"})
	moreEdits["renamed-fusion-loses-the-cap"] = []edit{{"pkg/engine/ops.go", "\tif len(finalRes) > k {\n\t\tfinalRes = finalRes[:k]\n\t}\n\n\treturn finalRes, nil\n\n}", "\treturn finalRes, nil\n\n}"}}
	addMutants("C03",
		mutant{"frame-payload-allocated-as-promised", "pkg/persistence/frame.go", "\tif length <= eagerPayloadLimit {\n", "\tif length <= MaxPayloadSize {\n", "GRD-eagerframe", "small-or-grown"},
	)
	// ---- renames of unexported struct fields (fieldNameAt in anchors.go)
	addMutants("C07", mutant{"benign:rename-field-needsRefine", "pkg/core/hnsw/hnsw_index.go", "§all§needsRefine", "awaitsRefine", "silent", ""})
	m = mutant{"benign:rename-field-entrypointID", "pkg/core/hnsw/hnsw_index.go", "§all§entrypointID", "entryNodeID", "silent", ""}
	addMutants("C07", m)
	addMutants("C04", m)
	moreEdits["benign:rename-field-entrypointID"] = []edit{{"pkg/core/hnsw/optimizer.go", "§all§entrypointID", "entryNodeID"}}
	m = mutant{"benign:rename-field-snapPath", "pkg/engine/recovery.go", "§all§snapPath", "snapshotFile", "silent", ""}
	addMutants("C02", m)
	addMutants("C14", m)
	moreEdits["benign:rename-field-snapPath"] = []edit{{"pkg/engine/engine.go", "§all§snapPath", "snapshotFile"}}
	m = mutant{"benign:rename-field-metadataLocks", "pkg/engine/engine.go", "§all§metadataLocks", "nodeMetaLocks", "silent", ""}
	addMutants("C13", m)
	addMutants("C15", m)
	addMutants("C16", mutant{"renamed-field-root-token-compared-by-prefix", "internal/server/middleware.go", "§all§authToken", "rootToken", "WEB-auth", "bypass-tests"})
	moreEdits["renamed-field-root-token-compared-by-prefix"] = []edit{{"internal/server/http_handlers.go", "§all§authToken", "rootToken"}, {"internal/server/server.go", "§all§authToken", "rootToken"}, {"internal/server/middleware.go", "token == s.rootToken", "token == s.rootToken || s.rootToken == \"dev\""}}
	// ---- renames of unexported types (typeRenames in anchors.go): the tree is analysed under the recorded name
	m = mutant{"benign:rename-type-opGate", "pkg/engine/opgate.go", "§all§opGate", "operationGate", "silent", ""}
	addMutants("C01", m)
	addMutants("C02", m)
	addMutants("C14", m)
	moreEdits["benign:rename-type-opGate"] = []edit{{"pkg/engine/engine.go", "§all§opGate", "operationGate"}}
	m = mutant{"benign:rename-type-commandKind-and-commandResponse", "pkg/persistence/lazy_aof.go", "§all§commandKind", "cmdKind", "silent", ""}
	addMutants("C02", m)
	addMutants("C13", m)
	addMutants("C14", m)
	moreEdits["benign:rename-type-commandKind-and-commandResponse"] = []edit{{"pkg/persistence/lazy_aof.go", "§all§commandResponse", "cmdReply"}}
	m = mutant{"benign:rename-type-journaledKV", "internal/server/server.go", "§all§journaledKV", "journalledStore", "silent", ""}
	addMutants("C16", m)
	addMutants("C05", m)
	m = mutant{"benign:rename-type-hnswMaintenanceCoord-and-vecData", "pkg/core/hnsw/hnsw_index.go", "§all§hnswMaintenanceCoord", "maintCoord", "silent", ""}
	addMutants("C13", m)
	addMutants("C18", m)
	moreEdits["benign:rename-type-hnswMaintenanceCoord-and-vecData"] = []edit{{"pkg/core/hnsw/hnsw_index.go", "§all§vecData", "vectorStore"}, {"pkg/core/hnsw/hnsw_node.go", "§all§vecData", "vectorStore"}}
	addMutants("C14", mutant{"renamed-gate-woken-by-any-epoch", "pkg/engine/opgate.go", "§all§opGate", "operationGate", "ORD-9", "only-for-an-earlier-epoch"})
	moreEdits["renamed-gate-woken-by-any-epoch"] = []edit{{"pkg/engine/engine.go", "§all§opGate", "operationGate"}, {"pkg/engine/opgate.go", "\tif g.active[ep&1] == 0 && ep != g.epoch && g.idle != nil {\n", "\tif g.active[ep&1] == 0 && g.idle != nil {\n"}}
	// ---- round 11
	m = mutant{"benign:vacuum-retention-test-extracted", "pkg/core/graph.go", "// VacuumGraph physically removes edges", "// retainedAt: the entry survives a vacuum with this cutoff.\nfunc retainedAt(deletedAt, cutoffTime int64) bool {\n\treturn deletedAt == 0 || deletedAt > cutoffTime\n}\n\n// VacuumGraph physically removes edges", "silent", ""}
	addMutants("C10", m)
	addMutants("C11", m)
	moreEdits["benign:vacuum-retention-test-extracted"] = []edit{{"pkg/core/graph.go", "§1/2§\t\t\t\t\tif e.DeletedAt == 0 || e.DeletedAt > cutoffTime {\n", "\t\t\t\t\tif retainedAt(e.DeletedAt, cutoffTime) {\n"}, {"pkg/core/graph.go", "\t\t\t\t\tif e.DeletedAt == 0 || e.DeletedAt > cutoffTime {\n\t\t\t\t\t\tnewIn", "\t\t\t\t\tif retainedAt(e.DeletedAt, cutoffTime) {\n\t\t\t\t\t\tnewIn"}}
	addMutants("C10",
		mutant{"vacuum-skips-a-list-whose-head-is-retained", "pkg/core/graph.go", "\t\t\t\tnewOut := edges[:0] // In-place filtering pattern\n", "\t\t\t\tif len(edges) > 0 && (edges[0].DeletedAt == 0 || edges[0].DeletedAt > cutoffTime) {\n\t\t\t\t\tcontinue\n\t\t\t\t}\n\t\t\t\tnewOut := edges[:0] // In-place filtering pattern\n", "GRD-vacuum-all", "every-list-is-walked"},
		mutant{"vacuum-skips-an-incoming-list-whose-tail-is-live", "pkg/core/graph.go", "\t\t\t\tnewIn := edges[:0]\n", "\t\t\t\tif n := len(edges); n > 0 && edges[n-1].DeletedAt == 0 {\n\t\t\t\t\tcontinue\n\t\t\t\t}\n\t\t\t\tnewIn := edges[:0]\n", "GRD-vacuum-all", "every-list-is-walked"},
	)
	addMutants("C12", mutant{"delete-cascade-outside-the-bracket-of-the-delete", "pkg/engine/ops.go", "func (e *Engine) VDelete(indexName, id string) error {\n\tdefer e.writeGate.leave(e.writeGate.enter())\n", "func (e *Engine) VDelete(indexName, id string) error {\n\tep := e.writeGate.enter()\n\tleft := false\n\tdefer func() {\n\t\tif !left {\n\t\t\te.writeGate.leave(ep)\n\t\t}\n\t}()\n", "ORD-9", "inside-the-gate-bracket-of-the-whole-delete"})
	moreEdits["delete-cascade-outside-the-bracket-of-the-delete"] = []edit{{"pkg/engine/ops.go", "\tmetaLock.Unlock()\n\n\tatomic.AddInt64(&e.dirtyCounter, 1)\n\n\te.EventBus.Emit(Event{Type: EventVectorDelete,", "\tmetaLock.Unlock()\n\te.writeGate.leave(ep)\n\tleft = true\n\n\tatomic.AddInt64(&e.dirtyCounter, 1)\n\n\te.EventBus.Emit(Event{Type: EventVectorDelete,"}}
	m = mutant{"benign:rename-type-twins-minHeap-and-maxHeap", "pkg/core/hnsw/hnsw_heap.go", "§all§minHeap", "candidateHeap", "silent", ""}
	addMutants("C06", m)
	addMutants("C07", m)
	moreEdits["benign:rename-type-twins-minHeap-and-maxHeap"] = []edit{{"pkg/core/hnsw/hnsw_heap.go", "§all§maxHeap", "resultHeap"}, {"pkg/core/hnsw/hnsw_index.go", "§all§minHeap", "candidateHeap"}, {"pkg/core/hnsw/hnsw_index.go", "§all§maxHeap", "resultHeap"}}
	addMutants("C18", mutant{"benign:unused-relocation-targets-returned", "pkg/storage/mmap/compactor.go", "\t\tif v.data == nil {\n\t\t\tcontinue\n\t\t}\n\n\t\t// TOCTOU check\n\t\tif ac.arena.slotTable[v.internalID] != v.fromSlot {\n\t\t\tcontinue\n\t\t}\n", "\t\tif v.data == nil {\n\t\t\tac.arena.freeSlots = append(ac.arena.freeSlots, newSlots[i])\n\t\t\tcontinue\n\t\t}\n\n\t\t// TOCTOU check\n\t\tif ac.arena.slotTable[v.internalID] != v.fromSlot {\n\t\t\tac.arena.freeSlots = append(ac.arena.freeSlots, newSlots[i])\n\t\t\tcontinue\n\t\t}\n", "silent", ""})
	addMutants("C18", mutant{"relocation-target-returned-although-used", "pkg/storage/mmap/compactor.go", "\t\t\trelocated++\n", "\t\t\trelocated++\n\t\t\tac.arena.freeSlots = append(ac.arena.freeSlots, newSlots[i])\n", "GRD-slot", "moveBatch"})
}
