package main

// rules_r6.go — rules added after the sixth round of seeded changes (the guards of the round's repairs are in
// rules_r5.go next to the analyses they use).

import (
	"fmt"
	"go/token"
	"go/types"
	"sort"
	"strings"

	"golang.org/x/tools/go/ssa"
)

// CDC-16: the write path refuses what the read path refuses.
func ruleCDC16(w *World, r *Report) {
	r.Doc("CDC-16", "LazyAOFWriter.Write compares the length of the record with persistence.MaxPayloadSize — the limit ReadFrame and ParseCommand enforce — and returns an error beyond it before the record is queued: a record that the next start would treat as corruption is refused while the caller can still be told", 1)
	fi := w.Func("pkg/persistence", "LazyAOFWriter.Write")
	if fi == nil {
		r.Und("CDC-16", "anchor:LazyAOFWriter.Write", "", "anchor lost")
		return
	}
	fn := w.SSAFunc(fi.Obj)
	// the limit the reader uses
	limit := int64(-1)
	if rf := w.Func("pkg/persistence", "ReadFrame"); rf != nil {
		for _, b := range w.SSAFunc(rf.Obj).Blocks {
			if bo, _, ok := condOf(b); ok && (bo.Op == token.GTR || bo.Op == token.GEQ) {
				if c, ok := constInt(bo.Y); ok && c > 1<<20 {
					limit = c
				}
			}
		}
	}
	if limit < 0 {
		r.Und("CDC-16", "ReadFrame:limit", w.Pos(fi.Decl.Pos()), "the payload limit of ReadFrame was not found (shape not recognised)")
		return
	}
	ok := false
	var wit []ssa.Instruction
	for _, b := range fn.Blocks {
		bo, neg, isC := condOf(b)
		if !isC {
			continue
		}
		c, isK := constInt(bo.Y)
		lc, isLen := bo.X.(*ssa.Call)
		if !isK || !isLen || c > limit || (bo.Op != token.GTR && bo.Op != token.GEQ) {
			continue
		}
		if _, l := isBuiltinCall(lc, "len"); !l {
			continue
		}
		// on the "too long" edge no send / no nil return
		for si := range b.Succs {
			if ((si == 0) != neg) != true {
				continue
			}
			bad := func(in ssa.Instruction) bool {
				if _, isSel := in.(*ssa.Select); isSel {
					return true
				}
				if _, isSend := in.(*ssa.Send); isSend {
					return true
				}
				rt, isRt := in.(*ssa.Return)
				return isRt && len(rt.Results) == 1 && isNilConst(retVal(rt, 0))
			}
			if f, wt := (pathQuery{fn: fn, target: bad}).find(ipos{b.Succs[si], -1}); f {
				wit = wt
			} else {
				ok = true
			}
		}
	}
	r.Cond(ok, "CDC-16", "LazyAOFWriter.Write:refuses-records-above-the-reader-limit", w.Pos(fi.Decl.Pos()), fmt.Sprintf("records longer than %d bytes are refused before they are queued", limit), fmt.Sprintf("the write path queues a record of any size while ReadFrame/ParseCommand refuse payloads above %d bytes: a larger record is acknowledged, readable until the restart, and then skipped as corruption by the resync — an acknowledged write silently lost", limit), w.witness(wit)...)
}

// GRD-own-args: the arguments ParseCommand hands out are its own.
func ruleGRDownParse(w *World, r *Report) {
	r.Doc("GRD-own-parse", "persistence.ParseCommand never stores a slice obtained from (*bufio.Reader).Peek (a window into the reader's buffer, overwritten by the next refill) into the argument list it returns: every argument is read into memory of its own", 1)
	fi := w.Func("pkg/persistence", "ParseCommand")
	if fi == nil {
		r.Und("GRD-own-parse", "anchor:ParseCommand", "", "anchor lost")
		return
	}
	fn := w.SSAFunc(fi.Obj)
	bad := false
	var at token.Pos
	n := 0
	for _, b := range fn.Blocks {
		for _, in := range b.Instrs {
			st, ok := in.(*ssa.Store)
			if !ok || !strings.HasSuffix(st.Val.Type().String(), "[]byte") {
				continue
			}
			if _, isIdx := st.Addr.(*ssa.IndexAddr); !isIdx {
				continue
			}
			n++
			for _, rt := range append(valueRoots(st.Val), st.Val) {
				var src ssa.Value = rt
				if sl, ok := rt.(*ssa.Slice); ok {
					src = sl.X
				}
				for _, r2 := range append(valueRoots(src), src) {
					if ex, ok := r2.(*ssa.Extract); ok {
						r2 = ex.Tuple
					}
					if c, ok := r2.(*ssa.Call); ok && isCallTo(c, "bufio", "Reader.Peek") {
						bad, at = true, st.Pos()
					}
				}
			}
		}
	}
	if n == 0 {
		r.Und("GRD-own-parse", "ParseCommand:argument-stores", w.Pos(fi.Decl.Pos()), "no store into the argument list found (shape not recognised)")
		return
	}
	pos := w.Pos(fi.Decl.Pos())
	if bad {
		pos = w.Pos(at)
	}
	r.Cond(!bad, "GRD-own-parse", "ParseCommand:arguments-not-windows-into-the-reader", pos, fmt.Sprintf("none of the %d argument stores takes a Peek window", n), "ParseCommand stores a slice returned by Reader.Peek into the argument list: the slice is a window into the reader's buffer and goes stale at the next refill — for a payload over 4 KiB the command name and the early arguments are overwritten with later payload bytes, and after a restart the command is dropped or applied under a garbled name or key")
}

// ORD-15: a buffered reader over the log is reset after every seek.
func ruleORD15(w *World, r *Report) {
	r.Doc("ORD-15", "if Engine.replayAOF reads frames through a bufio.Reader over the log file, every Seek on the file is followed by a Reset of that reader before the next ReadFrame (a stale read-ahead makes the next resync start past an intact frame); when frames are read from the file itself there is nothing to reset", 1)
	fi := w.Func("pkg/engine", "Engine.replayAOF")
	if fi == nil {
		r.Und("ORD-15", "anchor:Engine.replayAOF", "", "anchor lost")
		return
	}
	fn := w.SSAFunc(fi.Obj)
	reads := findInstrs(fn, func(in ssa.Instruction) bool { return isCallTo(in, modPath+"/pkg/persistence", "ReadFrame") })
	buffered := false
	for _, rd := range reads {
		for _, rt := range append(valueRoots(rd.(*ssa.Call).Call.Args[0]), rd.(*ssa.Call).Call.Args[0]) {
			if mi, ok := rt.(*ssa.MakeInterface); ok {
				if strings.HasSuffix(mi.X.Type().String(), "bufio.Reader") {
					buffered = true
				}
			}
		}
	}
	if !buffered {
		r.Ok("ORD-15", "Engine.replayAOF:seek-then-reset", w.Pos(fi.Decl.Pos()), "frames are read from the file itself: no read-ahead to invalidate")
		return
	}
	isSeek := func(in ssa.Instruction) bool { return isCallTo(in, "os", "File.Seek") }
	isReset := func(in ssa.Instruction) bool { return isCallTo(in, "bufio", "Reader.Reset") }
	isRead := func(in ssa.Instruction) bool { return isCallTo(in, modPath+"/pkg/persistence", "ReadFrame") }
	ok := true
	var wit []ssa.Instruction
	for _, sk := range findInstrs(fn, isSeek) {
		if f, wt := (pathQuery{fn: fn, target: isRead, avoid: isReset}).find(posOf(sk)); f {
			ok, wit = false, wt
		}
	}
	r.Cond(ok, "ORD-15", "Engine.replayAOF:seek-then-reset", w.Pos(fi.Decl.Pos()), "every Seek is followed by Reset before the next ReadFrame", "replayAOF reads frames through a buffered reader but re-positions the file without resetting it on some path: the reader goes on with its stale read-ahead, the next resync starts one byte past the intact frame just found, and the first intact command after a damaged region is lost (or truncated off the file)", w.witness(wit)...)
}

// GRD-chancap: results drained after Wait need room for every job.
func ruleGRDchancap(w *World, r *Report) {
	r.Doc("GRD-chancap", "in DB.GetVectors the job and result channels are made with the number of ids as capacity (not a constant, not min(…)): the workers' results are received only after wg.Wait, so a smaller channel blocks the workers for good — while DB.mu is read-locked, which then freezes the next exclusive locker and with it the engine", 2)
	fi := w.Func("pkg/core", "DB.GetVectors")
	if fi == nil {
		r.Und("GRD-chancap", "anchor:DB.GetVectors", "", "anchor lost")
		return
	}
	fn := w.SSAFunc(fi.Obj)
	n := 0
	for _, in := range findInstrs(fn, func(in ssa.Instruction) bool { _, ok := in.(*ssa.MakeChan); return ok }) {
		mc := in.(*ssa.MakeChan)
		n++
		isLen := false
		if lc, ok := mc.Size.(*ssa.Call); ok {
			if _, l := isBuiltinCall(lc, "len"); l {
				isLen = true
			}
		}
		r.Cond(isLen, "GRD-chancap", fmt.Sprintf("DB.GetVectors:make-chan#%d:capacity-is-the-job-count", n), w.Pos(mc.Pos()), "capacity = len(ids)", "a channel of DB.GetVectors has a capacity other than the number of ids: results are received only after wg.Wait(), so with more existing ids than capacity (+ workers) every worker blocks on its send, Wait never returns, and the call hangs while holding DB.mu.RLock — the next VCreate / VCompress / Close then freezes every other caller too")
	}
	if n == 0 {
		r.Und("GRD-chancap", "DB.GetVectors:channels", w.Pos(fi.Decl.Pos()), "no channel found in DB.GetVectors (shape not recognised)")
	}
}

// GRD-commaok: presence in the KV store is the map's answer, not the value's.
func ruleGRDcommaok(w *World, r *Report) {
	r.Doc("GRD-commaok", "KVStore.Get decides 'found' from the comma-ok result of the map look-up, never from the value (an empty value is stored as nil: a test `value != nil` reports a key that was set to \"\" as missing)", 1)
	fi := w.Func("pkg/core", "KVStore.Get")
	if fi == nil {
		r.Und("GRD-commaok", "anchor:KVStore.Get", "", "anchor lost")
		return
	}
	fn := w.SSAFunc(fi.Obj)
	ok := true
	found := false
	for _, b := range fn.Blocks {
		rt, isR := b.Instrs[len(b.Instrs)-1].(*ssa.Return)
		if !isR || len(rt.Results) != 2 {
			continue
		}
		for _, leaf := range arithLeaves(retVal(rt, 1), 0) {
			switch x := leaf.(type) {
			case *ssa.Const:
			case *ssa.Extract:
				if lk, isL := x.Tuple.(*ssa.Lookup); isL && lk.CommaOk && x.Index == 1 {
					found = true
				} else {
					ok = false
				}
			default:
				ok = false
			}
		}
	}
	// constants are fine only when the branch they sit on is decided by the comma-ok
	for _, b := range fn.Blocks {
		bo, _, isC := condOf(b)
		if isC && (isNilConst(bo.X) || isNilConst(bo.Y)) {
			other := bo.X
			if isNilConst(other) {
				other = bo.Y
			}
			for _, rt := range append(valueRoots(other), other) {
				switch x := rt.(type) {
				case *ssa.Lookup:
					ok = false // a nil test of the looked-up value decides something
				case *ssa.Extract:
					if _, isL := x.Tuple.(*ssa.Lookup); isL && x.Index == 0 {
						ok = false
					}
				}
			}
		}
		if iff, isIf := b.Instrs[len(b.Instrs)-1].(*ssa.If); isIf {
			cond := iff.Cond
			if u, isU := cond.(*ssa.UnOp); isU && u.Op == token.NOT {
				cond = u.X
			}
			if ex, isEx := cond.(*ssa.Extract); isEx {
				if lk, isL := ex.Tuple.(*ssa.Lookup); isL && lk.CommaOk && ex.Index == 1 {
					found = true
				}
			}
		}
	}
	r.Cond(ok && found, "GRD-commaok", "KVStore.Get:found-is-the-comma-ok", w.Pos(fi.Decl.Pos()), "presence comes from the map look-up's second result", "KVStore.Get derives 'found' from the value (a nil test) instead of the map's comma-ok: KVStore.Set stores an empty value as nil, so a key set to \"\" or []byte{} is reported as missing although it is listed, snapshotted and rewritten into the log")
}

func phiLeavesOf(v ssa.Value) []ssa.Value {
	seen := map[ssa.Value]bool{}
	var out []ssa.Value
	var rec func(x ssa.Value)
	rec = func(x ssa.Value) {
		if seen[x] {
			return
		}
		seen[x] = true
		if p, ok := x.(*ssa.Phi); ok {
			for _, e := range p.Edges {
				rec(e)
			}
			return
		}
		out = append(out, x)
	}
	rec(v)
	return out
}

var _ = types.Identical

// LCK-7 (Emit only): the fan-out sends while it holds the subscriber lock.
func ruleLCK7emit(w *World, r *Report) {
	r.Doc("LCK-7e", "EventBus.Emit performs every channel send between RLock and RUnlock of the subscriber lock (Unsubscribe and Close close the channels under the write lock: a send after the unlock can hit a closed channel and panic in the writer that emitted — in VDelete, before its cascade ran)", 1)
	fi := w.Func("pkg/engine", "EventBus.Emit")
	if fi == nil {
		r.Und("LCK-7e", "anchor:EventBus.Emit", "", "anchor lost")
		return
	}
	fn := w.SSAFunc(fi.Obj)
	rawSend := func(in ssa.Instruction) bool {
		switch x := in.(type) {
		case *ssa.Send:
			return true
		case *ssa.Select:
			for _, st := range x.States {
				if st.Dir == types.SendOnly {
					return true
				}
			}
		}
		return false
	}
	// a closure of Emit that sends: called in place it is a send of Emit, started with `go` it sends without the lock
	var closureSends func(f *ssa.Function) bool
	closureSends = func(f *ssa.Function) bool {
		if len(findInstrs(f, rawSend)) > 0 {
			return true
		}
		for _, a := range f.AnonFuncs {
			if closureSends(a) {
				return true
			}
		}
		return false
	}
	sendingClosure := func(c *ssa.CallCommon) bool {
		if c == nil || c.IsInvoke() {
			return false
		}
		v := c.Value
		if mc, ok := v.(*ssa.MakeClosure); ok {
			v = mc.Fn
		}
		f, ok := v.(*ssa.Function)
		return ok && f.Parent() != nil && closureSends(f)
	}
	isSend := func(in ssa.Instruction) bool {
		if rawSend(in) {
			return true
		}
		switch x := in.(type) {
		case *ssa.Call:
			return sendingClosure(&x.Call)
		case *ssa.Defer:
			return sendingClosure(&x.Call)
		}
		return false
	}
	for _, g := range findInstrs(fn, func(in ssa.Instruction) bool { g, ok := in.(*ssa.Go); return ok && sendingClosure(&g.Call) }) {
		r.Bad("LCK-7e", "EventBus.Emit:sends-under-the-subscriber-lock", w.Pos(g.Pos()), "EventBus.Emit hands the send to a goroutine of its own: that goroutine runs after Emit has released the subscriber lock, an Unsubscribe or Close in between closes the channel and the send panics", w.witness([]ssa.Instruction{g})...)
		return
	}
	isUnlock := func(in ssa.Instruction) bool {
		return isCallTo(in, "sync", "RWMutex.RUnlock") || isCallTo(in, "sync", "RWMutex.Unlock")
	}
	isLock := func(in ssa.Instruction) bool {
		return isCallTo(in, "sync", "RWMutex.RLock") || isCallTo(in, "sync", "RWMutex.Lock")
	}
	sends := findInstrs(fn, isSend)
	if len(sends) == 0 {
		r.Und("LCK-7e", "EventBus.Emit:sends", w.Pos(fi.Decl.Pos()), "no channel send found in Emit (shape not recognised)")
		return
	}
	ok := true
	var wit []ssa.Instruction
	if f, wt := (pathQuery{fn: fn, target: isSend, avoid: isLock}).find(entryPos(fn)); f {
		ok, wit = false, wt
	}
	for _, u := range findInstrs(fn, isUnlock) {
		if f, wt := (pathQuery{fn: fn, target: isSend, avoid: isLock}).find(posOf(u)); f {
			ok, wit = false, wt
		}
	}
	r.Cond(ok, "LCK-7e", "EventBus.Emit:sends-under-the-subscriber-lock", w.Pos(fi.Decl.Pos()), "no send is reachable before the lock is taken or after it is released", "EventBus.Emit sends to a subscriber channel without holding the subscriber lock: an Unsubscribe or Close between the copy of the list and the send closes the channel, the send panics in the operation that emitted — VDelete emits before its cascade, so every edge of the deleted node stays live", w.witness(wit)...)
}

// noCallOnFlow: does a call of one of the named functions lie on the value flow from `from` to `to`? (operands, through
// phis, conversions, slices, calls' arguments and memory-resident locals)
func flowsThrough(v ssa.Value, names map[string]bool, seen map[ssa.Value]bool, depth int) string {
	if v == nil || seen[v] || depth > 24 {
		return ""
	}
	seen[v] = true
	if c, ok := v.(*ssa.Call); ok {
		if o := calleeObj(&c.Call); o != nil && o.Pkg() != nil && names[o.Pkg().Path()+"."+o.Name()] {
			return o.Pkg().Path() + "." + o.Name()
		}
	}
	if u, ok := v.(*ssa.UnOp); ok && u.Op == token.MUL {
		for _, st := range cellStores(u.X) {
			if s := flowsThrough(st.Val, names, seen, depth+1); s != "" {
				return s
			}
		}
	}
	if in, ok := v.(ssa.Instruction); ok {
		for _, op := range in.Operands(nil) {
			if *op != nil {
				if s := flowsThrough(*op, names, seen, depth+1); s != "" {
					return s
				}
			}
		}
	}
	return ""
}

// GRD-verbatim-hybrid: parseHybridFilter cuts the CONTAINS clause out and leaves the rest of the filter as written.
func ruleGRDverbatimHybrid(w *World, r *Report) {
	r.Doc("GRD-verbatim-hybrid", "the boolean filter that parseHybridFilter returns is computed from its input without strings.Fields / strings.Join / case mapping / regexp replacement applied to the whole text: outside the CONTAINS clause it cuts out, every byte — in particular the inside of quoted values — reaches the filter evaluator as written", 1)
	fi := w.Func("pkg/engine", "parseHybridFilter")
	if fi == nil {
		r.Und("GRD-verbatim-hybrid", "anchor:parseHybridFilter", "", "anchor lost")
		return
	}
	fn := w.SSAFunc(fi.Obj)
	forbidden := map[string]bool{"strings.Fields": true, "strings.Join": true, "strings.ToLower": true, "strings.ToUpper": true, "strings.Map": true, "regexp.ReplaceAllString": true, "regexp.ReplaceAllLiteralString": true, "strings.Title": true}
	bad := ""
	n := 0
	for _, b := range fn.Blocks {
		rt, ok := b.Instrs[len(b.Instrs)-1].(*ssa.Return)
		if !ok || len(rt.Results) == 0 {
			continue
		}
		n++
		if s := flowsThrough(retVal(rt, 0), forbidden, map[ssa.Value]bool{}, 0); s != "" {
			bad = s
		}
	}
	if n == 0 {
		r.Und("GRD-verbatim-hybrid", "parseHybridFilter:returns", w.Pos(fi.Decl.Pos()), "no return found (shape not recognised)")
		return
	}
	r.Cond(bad == "", "GRD-verbatim-hybrid", "parseHybridFilter:boolean-filter-as-written", w.Pos(fi.Decl.Pos()), "no whole-text rewriting call on the flow to the returned filter", "parseHybridFilter passes the whole filter through "+bad+" before it returns it: the rewriting also reaches the inside of quoted values, so `code='AB  12'` is evaluated as `code='AB 12'` — documents that do not satisfy the filter are returned and the one that does is missed")
}

// GRD-reindex: every change of a node's metadata entry goes through the index maintenance.
func ruleGRDreindex(w *World, r *Report) {
	r.Doc("GRD-reindex", "in DB.AddMetadata and DB.AddMetadataUnlocked no iteration of the per-key loop deletes from, or stores a new value into, the node's metadata map and goes on to the next key without removeOldIndexEntries (the unchanged-value shortcut aside): the inverted, numeric and text indexes (and the BM25 statistics) never keep the entries of a value the node no longer has", 4)
	rm := w.FuncObj("pkg/core", "DB.removeOldIndexEntries")
	if rm == nil {
		r.Und("GRD-reindex", "anchor:DB.removeOldIndexEntries", "", "anchor lost")
		return
	}
	for _, name := range []string{"DB.AddMetadata", "DB.AddMetadataUnlocked"} {
		fi := w.Func("pkg/core", name)
		if fi == nil {
			r.Und("GRD-reindex", "anchor:"+name, "", "anchor lost")
			continue
		}
		fn := w.SSAFunc(fi.Obj)
		ok := true
		var wit []ssa.Instruction
		for _, in := range findInstrs(fn, func(in ssa.Instruction) bool {
			c, isC := in.(*ssa.Call)
			if !isC {
				return false
			}
			bi, isB := c.Call.Value.(*ssa.Builtin)
			return isB && bi.Name() == "delete" && len(c.Call.Args) == 2 && strings.HasSuffix(c.Call.Args[0].Type().String(), "map[string]any") || isB && bi.Name() == "delete" && len(c.Call.Args) == 2 && strings.HasSuffix(c.Call.Args[0].Type().String(), "map[string]interface{}")
		}) {
			h := innermostLoop(fn, in.Block())
			if h == nil {
				continue
			}
			body := naturalLoop(h)
			blk := map[edgeKey]bool{}
			for b := range body {
				for si, sc := range b.Succs {
					if !body[sc] {
						blk[edgeKey{b, si}] = true
					}
				}
			}
			if f, wt := (pathQuery{fn: fn, target: func(x ssa.Instruction) bool { return x == h.Instrs[0] }, avoid: callsTo(rm), blocked: blk}).find(posOf(in)); f {
				ok, wit = false, wt
			}
		}
		// … and the same for a key whose value is REPLACED: from the store into the node's metadata map the next key is
		// reached only past removeOldIndexEntries — or over the "value unchanged" shortcut (the true edge of the
		// same-value test), the one case in which there is nothing to remove
		same := w.FuncObj("pkg/core", "isSameAnyValue")
		okSet := true
		var witSet []ssa.Instruction
		nSets := 0
		for _, in := range findInstrs(fn, func(in ssa.Instruction) bool {
			mu, isMu := in.(*ssa.MapUpdate)
			if !isMu {
				return false
			}
			ts := mu.Map.Type().String()
			return strings.HasSuffix(ts, "map[string]any") || strings.HasSuffix(ts, "map[string]interface{}")
		}) {
			mu := in.(*ssa.MapUpdate)
			// the node's map: looked up in the store's metadata (not a fresh local map)
			fromStore := false
			for _, rt := range append(valueRoots(mu.Map), mu.Map) {
				if lk, isLk := rt.(*ssa.Lookup); isLk {
					_ = lk
					fromStore = true
				}
			}
			h := innermostLoop(fn, in.Block())
			if !fromStore || h == nil {
				continue
			}
			nSets++
			body := naturalLoop(h)
			blk := map[edgeKey]bool{}
			for b := range body {
				for si, sc := range b.Succs {
					if !body[sc] {
						blk[edgeKey{b, si}] = true
					}
				}
			}
			if same != nil {
				for _, sc := range findInstrs(fn, callsTo(same)) {
					t, _ := condEdges(sc.(ssa.Value))
					for _, e := range t {
						blk[e] = true
					}
				}
			}
			if f, wt := (pathQuery{fn: fn, target: func(x ssa.Instruction) bool { return x == h.Instrs[0] }, avoid: callsTo(rm), blocked: blk}).find(posOf(in)); f {
				okSet, witSet = false, wt
			}
		}
		if nSets > 0 {
			r.Cond(okSet, "GRD-reindex", name+":metadata-overwrite-goes-through-removeOldIndexEntries", w.Pos(fi.Decl.Pos()), "a replaced value's index entries are removed on every path to the next key (the unchanged-value shortcut aside)", name+" stores a key's new value and goes on to the next key without removeOldIndexEntries (an early `continue` for values of a type that is not indexed): the entries of the OLD value stay in the inverted, numeric and text indexes — a field overwritten by null, an object or a number keeps matching filters on its former value, and VFilter disagrees with VGet until a restart", w.witness(witSet)...)
		} else {
			r.Und("GRD-reindex", name+":metadata-overwrite", w.Pos(fi.Decl.Pos()), "the store of the new value into the node's metadata map was not found (shape not recognised)")
		}
		r.Cond(ok, "GRD-reindex", name+":metadata-delete-goes-through-removeOldIndexEntries", w.Pos(fi.Decl.Pos()), "no key is dropped from the node's metadata on a path that skips the index maintenance", name+" drops a key from the node's metadata map and continues with the next key without removeOldIndexEntries (a 'null clears the property' shortcut): the node's postings and its entry in the BM25 statistics stay behind — VGet shows no text, text search still returns the document, and every other score uses a stale document count and average length", w.witness(wit)...)
	}
}

// GRD-rev-append: AddEdge adds reverse entries, it never rewrites one.
func ruleGRDrevAppend(w *World, r *Report) {
	r.Doc("GRD-rev-append", "DB.AddEdge never stores into an existing element of a node's incoming list (no store through an index into the InEdges slice): a re-link or weight update leaves the reverse entry — and the time from which the edge is visible in the incoming view — as it was", 1)
	fi := w.Func("pkg/core", "DB.AddEdge")
	if fi == nil {
		r.Und("GRD-rev-append", "anchor:DB.AddEdge", "", "anchor lost")
		return
	}
	fn := w.SSAFunc(fi.Obj)
	bad := false
	var at token.Pos
	for _, b := range fn.Blocks {
		for _, in := range b.Instrs {
			st, ok := in.(*ssa.Store)
			if !ok {
				continue
			}
			var ia *ssa.IndexAddr
			switch a := st.Addr.(type) {
			case *ssa.IndexAddr:
				ia = a
			case *ssa.FieldAddr:
				ia, _ = a.X.(*ssa.IndexAddr)
			}
			if ia == nil || !strings.HasSuffix(ia.X.Type().String(), "ReverseEdge") {
				continue
			}
			// a store into the freshly appended slot (append lowers to such a store on a new array) is fine: only
			// stores into a slice that was LOADED from the node (looked up from the InEdges map)
			for _, rt := range append(valueRoots(ia.X), ia.X) {
				if _, isLk := rt.(*ssa.Lookup); isLk {
					bad, at = true, st.Pos()
				}
			}
		}
	}
	pos := w.Pos(fi.Decl.Pos())
	if bad {
		pos = w.Pos(at)
	}
	r.Cond(!bad, "GRD-rev-append", "DB.AddEdge:reverse-entries-appended-never-rewritten", pos, "no store into an element of a looked-up incoming list", "DB.AddEdge overwrites an existing reverse entry (an upsert): a repeated identical link or a weight update moves the entry's CreatedAt forward while the forward edge keeps its history — for any instant between the original link and the re-link the incoming view says the edge did not exist yet, FindPath at that instant loses its backward frontier and VGetIncomingEdges returns nothing")
}

// GRD-layers-verbatim: the layer table is kept under the names it was configured with.
func ruleGRDlayersVerbatim(w *World, r *Report) {
	r.Doc("GRD-layers-verbatim", "Index.SetMemoryConfig stores the configuration it is given without mapping the layer names (no strings.ToLower/TrimSpace/… on the flow into h.memoryConfig): the engine looks a memory's layer up under the memory_layer value as written", 1)
	fi := w.Func(hnswPkg, "Index.SetMemoryConfig")
	if fi == nil {
		r.Und("GRD-layers-verbatim", "anchor:Index.SetMemoryConfig", "", "anchor lost")
		return
	}
	fn := w.SSAFunc(fi.Obj)
	forbidden := map[string]bool{"strings.ToLower": true, "strings.ToUpper": true, "strings.TrimSpace": true, "strings.Trim": true, "strings.Title": true, "strings.Map": true}
	n := 0
	bad := ""
	for _, b := range fn.Blocks {
		for _, in := range b.Instrs {
			switch x := in.(type) {
			case *ssa.Store:
				if fa, ok := x.Addr.(*ssa.FieldAddr); ok {
					if _, f := structFieldName(fa.X.Type(), fa.Field); f == "memoryConfig" {
						n++
						if s := flowsThrough(x.Val, forbidden, map[ssa.Value]bool{}, 0); s != "" {
							bad = s
						}
					}
				}
			case *ssa.MapUpdate:
				if s := flowsThrough(x.Key, forbidden, map[ssa.Value]bool{}, 0); s != "" && strings.HasSuffix(x.Map.Type().String(), "LayerConfig") {
					bad = s
				}
			}
		}
	}
	if n == 0 {
		r.Und("GRD-layers-verbatim", "Index.SetMemoryConfig:store", w.Pos(fi.Decl.Pos()), "no store into memoryConfig found (shape not recognised)")
		return
	}
	r.Cond(bad == "", "GRD-layers-verbatim", "Index.SetMemoryConfig:layer-names-as-configured", w.Pos(fi.Decl.Pos()), "no name mapping on the flow into the stored configuration", "SetMemoryConfig stores the layer table under names passed through "+bad+" while VAdd and the two search paths look a memory's layer up under its memory_layer value verbatim: a layer configured as \"Playbook\" with half-life 0 is never found, its memories fall back to the global half-life — a layer configured without decay decays")
}

// GRD-reinforce-all: reinforcing counts for every memory, pinned or not.
func ruleGRDreinforceAll(w *World, r *Report) {
	r.Doc("GRD-reinforce-all", "no branch of Engine.VReinforce that is decided by the _pinned flag of the memory has an effect: the two arms of such a branch differ at most in logging — no store, no map update, no call besides log/slog, no way out of the iteration — so reinforcing a pinned memory counts the access and moves its reference time like for any other memory (the pin only switches decay off while it is set)", 1)
	fi := w.Func("pkg/engine", "Engine.VReinforce")
	if fi == nil {
		r.Und("GRD-reinforce-all", "anchor:Engine.VReinforce", "", "anchor lost")
		return
	}
	fn := w.SSAFunc(fi.Obj)
	// values computed from the flag
	derived := map[ssa.Value]bool{}
	var work []ssa.Value
	for _, b := range fn.Blocks {
		for _, in := range b.Instrs {
			if lk, ok := in.(*ssa.Lookup); ok {
				if k, ok := constString(lk.Index); ok && k == "_pinned" {
					derived[lk] = true
					work = append(work, lk)
				}
			}
		}
	}
	for len(work) > 0 {
		v := work[0]
		work = work[1:]
		refs := v.Referrers()
		if refs == nil {
			continue
		}
		for _, ref := range *refs {
			switch x := ref.(type) {
			case *ssa.Extract, *ssa.TypeAssert, *ssa.UnOp, *ssa.BinOp, *ssa.Phi, *ssa.ChangeType, *ssa.Convert, *ssa.MakeInterface, *ssa.ChangeInterface:
				if val := x.(ssa.Value); !derived[val] {
					derived[val] = true
					work = append(work, val)
				}
			case *ssa.Store: // spilled into a local: its loads carry the flag
				if x.Val != v {
					continue
				}
				if al, ok := x.Addr.(*ssa.Alloc); ok {
					for _, lr := range *al.Referrers() {
						if ld, ok := lr.(*ssa.UnOp); ok && ld.Op == token.MUL && !derived[ld] {
							derived[ld] = true
							work = append(work, ld)
						}
					}
				}
			}
		}
	}
	quiet := func(in ssa.Instruction) bool { // may an arm contain this and still be "logging only"?
		switch x := in.(type) {
		case *ssa.Store: // filling the argument array of a variadic (log) call made in the same block
			a := x.Addr
			for {
				if ia, ok := a.(*ssa.IndexAddr); ok {
					a = ia.X
				} else if fa, ok := a.(*ssa.FieldAddr); ok {
					a = fa.X
				} else {
					break
				}
			}
			al, ok := a.(*ssa.Alloc)
			return ok && al.Block() == x.Block()
		case *ssa.MapUpdate, *ssa.Send, *ssa.Go, *ssa.Defer, *ssa.Return, *ssa.Panic, *ssa.RunDefers:
			return false
		case *ssa.Call:
			o := calleeObj(&x.Call)
			if o == nil || o.Pkg() == nil {
				return false
			}
			switch o.Pkg().Path() {
			case "log", "log/slog", "fmt":
				return true
			}
			return false
		}
		return true
	}
	bad := ""
	var at token.Pos
	for _, b := range fn.Blocks {
		iff, ok := b.Instrs[len(b.Instrs)-1].(*ssa.If)
		if !ok || !derived[iff.Cond] {
			continue
		}
		// the region only one arm runs, and where the arms meet again
		exits := map[*ssa.BasicBlock]bool{}
		for _, s := range b.Succs {
			if len(s.Preds) != 1 {
				exits[s] = true // the arm is empty: this is already the join
				continue
			}
			for _, rb := range fn.Blocks {
				if !s.Dominates(rb) {
					continue
				}
				for _, in := range rb.Instrs {
					if !quiet(in) && bad == "" {
						bad, at = "an arm of the branch does more than log ("+strings.TrimSpace(in.String())+")", in.Pos()
						if at == token.NoPos {
							at = iff.Cond.Pos()
						}
					}
				}
				for _, out := range rb.Succs {
					if !s.Dominates(out) {
						exits[out] = true
					}
				}
			}
		}
		if len(exits) != 1 && bad == "" {
			bad, at = "the two arms of the branch do not meet again in one place (one of them leaves the iteration or the function)", iff.Cond.Pos()
		}
	}
	pos := w.Pos(fi.Decl.Pos())
	if bad != "" {
		pos = w.Pos(at)
	}
	r.Cond(bad == "", "GRD-reinforce-all", "Engine.VReinforce:not-decided-by-the-pin", pos, "no effect of VReinforce depends on _pinned", "VReinforce treats pinned memories differently — "+bad+": leaving _access_count or _last_accessed untouched although the call reports success means that, once the pin is removed, the memory is scored from an older reference time or with fewer recorded accesses")
}

// GRD-close-keeps-files: closing an arena deletes nothing.
func ruleGRDcloseKeepsFiles(w *World, r *Report) {
	r.Doc("GRD-close-keeps-files", "VectorArena.Close and ForceClose (and what they call inside pkg/storage/mmap) delete no file: a chunk file is removed when its chunk is dropped, by the code that holds the chunk — a removal by path name at Close would hit a chunk that was re-created under the same name since", 2)
	for _, name := range []string{"VectorArena.Close", "VectorArena.ForceClose"} {
		fi := w.Func(mmapPkg, name)
		if fi == nil {
			r.Und("GRD-close-keeps-files", "anchor:"+name, "", "anchor lost")
			continue
		}
		fn := w.SSAFunc(fi.Obj)
		bad := destroysFiles(w, fn, 0, map[*ssa.Function]bool{})
		r.Cond(!bad, "GRD-close-keeps-files", name+":removes-no-file", w.Pos(fi.Decl.Pos()), "no os.Remove / os.RemoveAll reachable", name+" removes files: a dropped chunk's file deleted at Close by its name is, by then, the file of a chunk that later inserts re-created under the same path (the bump pointer is not rewound after a drop) — after reopen the vectors of that chunk read back as zeros")
	}
}

// WEB-verbatim (argument form): the alpha a hybrid search runs with is the request's, not a handler default.
func ruleWEBverbatimAlpha(w *World, r *Report) {
	r.Doc("WEB-verbatim-alpha", "the alpha argument that internal/server hands to Engine.VSearch / VSearchGraph is the request's field as decoded — no constant is mixed in by the handler (a handler-side default changes what `alpha` omitted or 0 means for the clients that rely on the engine's reading of it)", 2)
	n := 0
	for _, name := range []string{"Engine.VSearch", "Engine.VSearchGraph"} {
		target := w.FuncObj("pkg/engine", name)
		if target == nil {
			r.Und("WEB-verbatim-alpha", "anchor:"+name, "", "anchor lost")
			continue
		}
		sig := target.Type().(*types.Signature)
		ai := -1
		for i := 0; i < sig.Params().Len(); i++ {
			if sig.Params().At(i).Name() == "alpha" {
				ai = i + 1 // receiver first
			}
		}
		if ai < 0 { // by type: the one float64 parameter of the search entry points
			for i := 0; i < sig.Params().Len(); i++ {
				if basicKind(sig.Params().At(i).Type()) == types.Float64 {
					ai = i + 1
				}
			}
		}
		if ai < 0 {
			continue
		}
		for _, fn := range w.pkgSSAFuncs("internal/server") {
			k := 0
			for _, in := range findInstrs(fn, callsTo(target)) {
				c := in.(*ssa.Call)
				if ai >= len(c.Call.Args) {
					continue
				}
				n++
				k++
				hasConst := false
				fromReq := false
				for _, leaf := range arithLeaves(c.Call.Args[ai], 0) {
					switch x := leaf.(type) {
					case *ssa.Const:
						hasConst = true
					case *ssa.UnOp:
						if _, ok := x.X.(*ssa.FieldAddr); ok {
							fromReq = true
						}
					}
				}
				r.Cond(fromReq && !hasConst, "WEB-verbatim-alpha", fmt.Sprintf("%s:%s#%d:alpha-from-the-request", shortFn(fn), name, k), w.Pos(c.Pos()), "alpha is the decoded request field", shortFn(fn)+" passes an alpha that mixes a handler-side constant with the request's value: a request without alpha then means something else than for the engine — with the Go client (which sends alpha only when it is non-zero) a caller asking for alpha = 0, pure text order, silently gets the 0.5 fusion")
			}
		}
	}
	if n == 0 {
		r.Und("WEB-verbatim-alpha", "sites", "", "no call of Engine.VSearch/VSearchGraph found in internal/server (analysis lost its anchors)")
	}
}

// GRD-inval-all: cache invalidation looks at every entry of the cache index.
func ruleGRDinvalAll(w *World, r *Report) {
	r.Doc("GRD-inval-all", "handleCacheInvalidate enumerates the cache index through a full iteration (Index.IterateRaw / Iterate), not through one page of a cursor whose size is a configuration value: with max_cache_items = 0 (no cap) or a cap lowered after the cache grew, a page lists nothing or not everything and stale answers keep coming back as HIT", 1)
	fi := w.Func("pkg/proxy", "AIProxy.handleCacheInvalidate")
	if fi == nil {
		r.Und("GRD-inval-all", "anchor:AIProxy.handleCacheInvalidate", "", "anchor lost")
		return
	}
	fn := w.SSAFunc(fi.Obj)
	full, paged := false, false
	for _, f := range append([]*ssa.Function{fn}, closuresOf(fn)...) {
		for _, b := range f.Blocks {
			for _, in := range b.Instrs {
				c, ok := in.(*ssa.Call)
				if !ok {
					continue
				}
				o := calleeObj(&c.Call)
				if o == nil {
					continue
				}
				switch shortName(o) {
				case "Index.IterateRaw", "Index.Iterate":
					full = true
				case "Engine.VGetIDsByCursor", "Index.GetIDsByCursor":
					if pagedToTheEnd(f, c) {
						full = true
					} else {
						paged = true
					}
				}
			}
		}
	}
	r.Cond(full && !paged, "GRD-inval-all", "AIProxy.handleCacheInvalidate:enumerates-the-whole-cache", w.Pos(fi.Decl.Pos()), "the cache index is iterated in full", "handleCacheInvalidate lists the cache entries through one cursor page sized by max_cache_items: with the documented 'no cap' setting 0 the page is empty, and after the cap was lowered (or concurrent saves overshot it) entries past the page are missed — /cache/invalidate answers deleted: 0 and the stale answers keep coming back as HIT")
}

// pagedToTheEnd: a cursor call that is repeated until the index says it is done — the call lies in a loop, its cursor
// argument is carried round that loop from the cursor the call itself returned, the page size is a positive constant,
// and the loop is left on a test of the returned cursor (the index answers 0 when it has reached the end).
func pagedToTheEnd(fn *ssa.Function, c *ssa.Call) bool {
	h := innermostLoop(fn, c.Block())
	if h == nil {
		return false
	}
	loop := naturalLoop(h)
	args := c.Call.Args
	if len(args) < 3 {
		return false
	}
	cursorArg, limitArg := args[len(args)-2], args[len(args)-1]
	if k, ok := limitArg.(*ssa.Const); !ok || k.Value == nil || k.Int64() <= 0 {
		return false
	}
	var next ssa.Value // the returned cursor
	for _, ref := range *c.Referrers() {
		if e, ok := ref.(*ssa.Extract); ok && e.Index == 1 {
			next = e
		}
	}
	if next == nil {
		return false
	}
	carried := false
	for _, l := range phiLeavesOf(cursorArg) {
		if l == next {
			carried = true
		}
	}
	if !carried {
		return false
	}
	for b := range loop {
		iff, ok := b.Instrs[len(b.Instrs)-1].(*ssa.If)
		if !ok || (loop[b.Succs[0]] && loop[b.Succs[1]]) {
			continue
		}
		for _, l := range arithLeaves(iff.Cond, 4) {
			if l == next {
				return true
			}
		}
	}
	return false
}

// GRD-tombstone-storage: a soft delete keeps the vector.
func ruleGRDtombstoneStorage(w *World, r *Report) {
	r.Doc("GRD-tombstone-storage", "Index.Delete releases no arena slot (no call that reaches VectorArena.FreeSlot): a tombstone keeps routing searches — it may be the entry point — and after a snapshot + restart its vector must still be attachable", 1)
	fi := w.Func(hnswPkg, "Index.Delete")
	free := w.FuncObj(mmapPkg, "VectorArena.FreeSlot")
	if fi == nil || free == nil {
		r.Und("GRD-tombstone-storage", "anchor:Index.Delete/VectorArena.FreeSlot", "", "anchor lost")
		return
	}
	var reaches func(fn *ssa.Function, depth int, seen map[*ssa.Function]bool) bool
	reaches = func(fn *ssa.Function, depth int, seen map[*ssa.Function]bool) bool {
		if fn == nil || seen[fn] || depth > 3 || len(fn.Blocks) == 0 {
			return false
		}
		seen[fn] = true
		for _, f := range append([]*ssa.Function{fn}, closuresOf(fn)...) {
			for _, b := range f.Blocks {
				for _, in := range b.Instrs {
					c := callCommon(in)
					if c == nil {
						continue
					}
					if calleeObj(c) == free {
						return true
					}
					if g := c.StaticCallee(); g != nil && inModule(g) && reaches(g, depth+1, seen) {
						return true
					}
				}
			}
		}
		return false
	}
	bad := reaches(w.SSAFunc(fi.Obj), 0, map[*ssa.Function]bool{})
	r.Cond(!bad, "GRD-tombstone-storage", "Index.Delete:frees-no-arena-slot", w.Pos(fi.Decl.Pos()), "FreeSlot is not reachable from the soft delete", "the soft delete releases the vector's arena slot: the tombstone still routes searches and may be the entry point; after a snapshot and a restart the restored slot table has no slot for it, LoadSnapshotData cannot attach a vector, and every search errors internally and returns nothing although VGet still returns every live vector")
}

// GRD-no-query-shortcut: the vector search runs for every query vector.
func ruleGRDnoQueryShortcut(w *World, r *Report) {
	r.Doc("GRD-no-query-shortcut", "in Engine.searchWithFusion no branch decided by the contents of the query vector leads to a success return without a search having run (the vector search goroutine, or the text search of the text-only mode): an all-zero query is a valid point of a Euclidean index, and a stored zero vector must be found by its own value", 1)
	fi := w.Func("pkg/engine", "Engine.searchWithFusion")
	if fi == nil {
		r.Und("GRD-no-query-shortcut", "anchor:Engine.searchWithFusion", "", "anchor lost")
		return
	}
	fn := w.SSAFunc(fi.Obj)
	var kParam, qParam *ssa.Parameter
	for _, p := range fn.Params {
		if p.Name() == "k" {
			kParam = p
		}
		if kParam == nil && basicKind(p.Type()) == types.Int {
			kParam = p // the first int parameter, whatever it is called
		}
		if strings.HasSuffix(p.Type().String(), "[]float32") {
			qParam = p
		}
	}
	// the arguments may travel in a parameter record (`p fusionParams`): its []float32 field is the query vector
	queryField := ""
	if qParam == nil {
		for _, p := range fn.Params {
			t := p.Type()
			if pt, ok := t.Underlying().(*types.Pointer); ok {
				t = pt.Elem()
			}
			if st, ok := t.Underlying().(*types.Struct); ok {
				hasK := false
				for i := 0; i < st.NumFields(); i++ {
					if strings.HasSuffix(st.Field(i).Type().String(), "[]float32") {
						queryField = st.Field(i).Name()
					}
					if st.Field(i).Name() == "k" {
						hasK = true
					}
				}
				if queryField != "" && hasK {
					kParam, qParam = p, p
				}
			}
		}
	}
	if kParam == nil || qParam == nil {
		r.Und("GRD-no-query-shortcut", "Engine.searchWithFusion:parameters", w.Pos(fi.Decl.Pos()), "the k / query parameters were not found (shape not recognised)")
		return
	}
	// branches decided by the elements of the query vector
	var dependsOnQuery func(v ssa.Value, depth int) bool
	dependsOnQuery = func(v ssa.Value, depth int) bool {
		if depth > 12 {
			return false
		}
		switch x := v.(type) {
		case *ssa.UnOp:
			if x.Op == token.MUL {
				if ia, ok := x.X.(*ssa.IndexAddr); ok {
					for _, rt := range append(valueRoots(ia.X), ia.X) {
						if rt == ssa.Value(qParam) && queryField == "" {
							return true
						}
						if queryField != "" && paramFieldRead(rt, queryField) {
							return true
						}
					}
				}
				for _, st := range cellStores(x.X) {
					if dependsOnQuery(st.Val, depth+1) {
						return true
					}
				}
				return false
			}
		case *ssa.Call:
			return false
		}
		in, ok := v.(ssa.Instruction)
		if !ok {
			return false
		}
		for _, op := range in.Operands(nil) {
			if *op != nil && dependsOnQuery(*op, depth+1) {
				return true
			}
		}
		return false
	}
	bad := false
	var at token.Pos
	nres := fn.Signature.Results().Len()
	okRet := func(in ssa.Instruction) bool {
		rt, ok := in.(*ssa.Return)
		return ok && len(rt.Results) == nres && isNilConst(retVal(rt, nres-1))
	}
	textSearch := w.FuncObj("pkg/core", "DB.FindIDsByTextSearch")
	// "a search ran": the vector search goroutine was started, or the text index was searched (text-only mode)
	isGo := func(in ssa.Instruction) bool {
		if _, ok := in.(*ssa.Go); ok {
			return true
		}
		return textSearch != nil && callsTo(textSearch)(in)
	}
	for _, b := range fn.Blocks {
		iff, ok := b.Instrs[len(b.Instrs)-1].(*ssa.If)
		if !ok || !dependsOnQuery(iff.Cond, 0) {
			continue
		}
		for si := range b.Succs {
			if f, _ := (pathQuery{fn: fn, target: okRet, avoid: isGo}).find(ipos{b.Succs[si], -1}); f {
				// and the branch itself is reachable before the search starts
				if pre, _ := (pathQuery{fn: fn, target: func(in ssa.Instruction) bool { return in == ssa.Instruction(iff) }, avoid: isGo}).find(entryPos(fn)); pre {
					bad, at = true, iff.Cond.Pos()
				}
			}
		}
	}
	pos := w.Pos(fi.Decl.Pos())
	if bad {
		pos = w.Pos(at)
	}
	r.Cond(!bad, "GRD-no-query-shortcut", "Engine.searchWithFusion:no-return-decided-by-the-query-values", pos, "no success return before the vector search depends on the elements of the query vector", "searchWithFusion returns without searching on a branch decided by the values of the query vector (an 'all zeros means nothing to search' shortcut): a k-NN query at the origin of a Euclidean index, or the retrieval of a stored zero vector by its own value, returns nothing through VSearch and VSearchGraph")
}

// ---------------------------------------------------------------------------------------------------------------
// GRD-shardhash: the shard of a graph node is part of the snapshot layout.
// DB.LoadFromSnapshot puts shard i of the file back into shard i; look-ups go to GetShardIndex(id). A build whose
// GetShardIndex differs from the one that wrote the snapshot looks for every node in the wrong shard: the whole graph
// of an existing data directory is invisible after the upgrade, and re-linking creates second copies. (A constant of
// the persisted format, like the BM25 constants and the precision table: two accepted spellings of one function.)
// ---------------------------------------------------------------------------------------------------------------
func ruleGRDshardhash(w *World, r *Report) {
	r.Doc("GRD-shardhash", "unless DB.LoadFromSnapshot re-places the restored graph nodes by GetShardIndex, GetShardIndex is 32-bit FNV-1a over the BYTES of the id, reduced to the shard count: hash/fnv's New32a fed with []byte(id), or the explicit loop — offset basis 2166136261 and, per byte (a uint8 value, not a rune), xor first, then multiply by 16777619", 1)
	fi := w.Func("pkg/core", "GetShardIndex")
	restore := w.Func("pkg/core", "DB.LoadFromSnapshot")
	if fi == nil || restore == nil {
		r.Und("GRD-shardhash", "anchor:GetShardIndex/DB.LoadFromSnapshot", "", "anchor lost")
		return
	}
	fn := w.SSAFunc(fi.Obj)
	rfn := w.SSAFunc(restore.Obj)
	for _, f := range append(append([]*ssa.Function{rfn}, closuresOf(rfn)...), w.extractedHelpers(rfn)...) {
		if len(findInstrs(f, callsTo(fi.Obj))) > 0 {
			r.Ok("GRD-shardhash", "GetShardIndex:the-function-the-snapshots-were-written-with", w.Pos(fi.Decl.Pos()), "LoadFromSnapshot places restored nodes by GetShardIndex: the layout of the file does not depend on the hash")
			return
		}
	}
	why := ""
	// form A: hash/fnv
	usesLib, libOK := false, false
	for _, b := range fn.Blocks {
		for _, in := range b.Instrs {
			c, ok := in.(*ssa.Call)
			if !ok {
				continue
			}
			if o := calleeObj(&c.Call); o != nil && o.Pkg() != nil && strings.HasPrefix(o.Pkg().Path(), "hash/") {
				usesLib = true
				if o.Pkg().Path() == "hash/fnv" && o.Name() == "New32a" {
					libOK = true
				} else if o.Pkg().Path() != "hash/fnv" || strings.HasPrefix(o.Name(), "New") {
					why = "the hash is " + o.Pkg().Path() + "." + o.Name() + ", not fnv.New32a"
				}
			}
			if c.Call.IsInvoke() && c.Call.Method.Name() == "Write" && len(c.Call.Args) == 1 {
				cv, ok := c.Call.Args[0].(*ssa.Convert)
				if _, isParam := func() (ssa.Value, bool) {
					if !ok {
						return nil, false
					}
					p, isP := cv.X.(*ssa.Parameter)
					return p, isP
				}(); !isParam {
					why = "the hasher is not fed with []byte(id)"
				}
			}
		}
	}
	ok := false
	if usesLib {
		ok = libOK && why == ""
	} else {
		// form B: h = phi(basis, (h ^ uint32(byte)) * prime)
		why = "no FNV-1a accumulator found (a phi that starts at 2166136261 and is updated as (h ^ byte) * 16777619)"
		for _, b := range fn.Blocks {
			for _, in := range b.Instrs {
				p, isPhi := in.(*ssa.Phi)
				if !isPhi {
					continue
				}
				basis := false
				var upd ssa.Value
				for _, e := range p.Edges {
					if k, isK := constInt(stripConv(e)); isK && k == 2166136261 {
						basis = true
					} else {
						upd = e
					}
				}
				if !basis || upd == nil {
					continue
				}
				mul, isMul := upd.(*ssa.BinOp)
				if !isMul || mul.Op != token.MUL {
					why = "the accumulator is not updated by a multiplication as its LAST step (FNV-1a xors the byte in first and multiplies afterwards; multiply-then-xor is FNV-1, another function)"
					continue
				}
				x, k := mul.X, mul.Y
				if _, isK := constInt(stripConv(x)); isK {
					x, k = k, x
				}
				if kv, isK := constInt(stripConv(k)); !isK || kv != 16777619 {
					why = "the multiplier is not the 32-bit FNV prime 16777619"
					continue
				}
				xor, isXor := x.(*ssa.BinOp)
				if !isXor || xor.Op != token.XOR {
					why = "the value multiplied by the prime is not (h ^ byte)"
					continue
				}
				other := xor.Y
				if xor.Y == ssa.Value(p) {
					other = xor.X
				} else if xor.X != ssa.Value(p) {
					why = "the xor does not combine the accumulator with the next byte"
					continue
				}
				src := stripConv(other)
				bt, isBasic := src.Type().Underlying().(*types.Basic)
				if !isBasic || bt.Kind() != types.Uint8 {
					why = "the value xored in is a " + src.Type().String() + ", not a byte: ranging over the string yields runes, so every id that is not pure ASCII (or not valid UTF-8) hashes differently from hash/fnv"
					continue
				}
				ok, why = true, ""
			}
		}
	}
	r.Cond(ok, "GRD-shardhash", "GetShardIndex:the-function-the-snapshots-were-written-with", w.Pos(fi.Decl.Pos()), "32-bit FNV-1a over the bytes of the id", "GetShardIndex is no longer the FNV-1a-over-bytes function existing snapshots were written with ("+why+"), and DB.LoadFromSnapshot restores graph shards by position: after an upgrade the nodes of an existing data directory sit in shards nobody looks in — their edges, weights, properties and history are invisible, and linking them again creates second copies")
}

// ---------------------------------------------------------------------------------------------------------------
// CDC-15 (clause): the timestamp is the identity of a link/unlink record (that is what makes replay idempotent), so the
// replay must not date two different records alike: a timestamp it has to make up is made up per record.
// ---------------------------------------------------------------------------------------------------------------
func ruleCDC15c(w *World, r *Report) {
	r.Doc("CDC-15c", "every timestamp that Engine.replayAOF (or a helper extracted from it) hands to DB.AddEdge / DB.RemoveEdge is either taken from the record, or a clock reading made inside the frame loop — per record. DB.AddEdge / DB.RemoveEdge treat an edge version created/ended at exactly the given timestamp as 'this record has been applied already': one clock reading for the whole replay makes the repair of a second VDEL of the same id (delete, re-add, re-link, delete) look like a re-application, and the deleted node keeps its edges", 2)
	fi := w.Func("pkg/engine", "Engine.replayAOF")
	add, rem := w.FuncObj("pkg/core", "DB.AddEdge"), w.FuncObj("pkg/core", "DB.RemoveEdge")
	if fi == nil || add == nil || rem == nil {
		r.Und("CDC-15c", "anchor:Engine.replayAOF/DB.AddEdge/DB.RemoveEdge", "", "anchor lost")
		return
	}
	top := w.SSAFunc(fi.Obj)
	isClock := func(v ssa.Value) (*ssa.Call, bool) {
		c, ok := v.(*ssa.Call)
		if !ok {
			return nil, false
		}
		o := calleeObj(&c.Call)
		if o == nil || o.Pkg() == nil || o.Pkg().Path() != "time" {
			return nil, false
		}
		return c, true
	}
	n := 0
	for _, f := range append(append([]*ssa.Function{top}, closuresOf(top)...), w.extractedHelpers(top)...) {
		k := 0
		for _, in := range findInstrs(f, callsTo(add, rem)) {
			c := in.(*ssa.Call)
			ts := c.Call.Args[len(c.Call.Args)-1]
			n++
			k++
			bad := ""
			var at ssa.Instruction
			for _, leaf := range arithLeaves(ts, 0) {
				cl, ok := isClock(leaf)
				if !ok {
					continue // parsed from the record, a constant 0, a parameter of a helper (called per record)
				}
				if cl.Parent() == top && innermostLoop(top, cl.Block()) == nil {
					bad = "the clock is read once, outside the frame loop"
					at = cl
				}
			}
			wit := []ssa.Instruction{}
			if at != nil {
				wit = append(wit, at)
			}
			r.Cond(bad == "", "CDC-15c", fmt.Sprintf("%s:%s#%d:timestamp-per-record", fnKey(f), shortName(calleeObj(&c.Call)), k), w.Pos(c.Pos()), "the timestamp comes from the record or from a clock reading inside the loop", "replay dates this edge change with a timestamp shared by the whole replay ("+bad+"): the edge store takes a version that already ends (or begins) at exactly that timestamp for this very record having been applied before, and skips the change — after delete, re-add, re-link, delete of one id, a restart that has to repair the second delete leaves the node's edges alive in both directions", w.witness(wit)...)
		}
	}
	if n == 0 {
		r.Und("CDC-15c", "sites", "", "replayAOF no longer calls DB.AddEdge / DB.RemoveEdge (analysis lost its anchors)")
	}
}

// ---------------------------------------------------------------------------------------------------------------
// GRD-queryscale: an int8 query is quantized at its own scale.
// The int8 cosine distance divides by both norms, so the magnitude of the query is irrelevant — but quantized with the
// INDEX's range (learnt from the stored vectors at whatever magnitude they came in) a query keeps its resolution only
// if it happens to have that magnitude.
// ---------------------------------------------------------------------------------------------------------------
func ruleGRDqueryscale(w *World, r *Report) {
	r.Doc("GRD-queryscale", "on the query paths of the index (searchInternal, ComputeDistanceToVector and the helpers extracted from them) the query is quantized by a Quantizer whose range is computed from the query itself; the index's own quantizer quantizes a query only behind a test of that range (the all-zero / non-finite fallback): with the index's range a unit-length query against raw embeddings rounds to the zero vector (every distance 1.0, arbitrary results) and a raw query against a compressed index saturates", 2)
	quant := w.FuncObj("pkg/core/distance", "Quantizer.Quantize")
	if quant == nil {
		r.Und("GRD-queryscale", "anchor:Quantizer.Quantize", "", "anchor lost")
		return
	}
	n := 0
	for _, name := range []string{"Index.searchInternal", "Index.ComputeDistanceToVector"} {
		fi := w.Func(hnswPkg, name)
		if fi == nil {
			r.Und("GRD-queryscale", "anchor:"+name, "", "anchor lost")
			continue
		}
		top := w.SSAFunc(fi.Obj)
		// the function, and the functions of the package it hands the query and a quantizer to
		scope := []*ssa.Function{top}
		for _, b := range top.Blocks {
			for _, in := range b.Instrs {
				c, ok := in.(*ssa.Call)
				if !ok {
					continue
				}
				g := c.Call.StaticCallee()
				if g == nil || g.Pkg != top.Pkg || len(g.Blocks) == 0 {
					continue
				}
				for _, p := range g.Params {
					if strings.HasSuffix(p.Type().String(), "distance.Quantizer") {
						scope = append(scope, g)
					}
				}
			}
		}
		k := 0
		for _, f := range scope {
			// values computed from the elements of a []float32 parameter of f (the query): its range
			fromQuery := func(v ssa.Value) bool {
				for _, l := range arithLeaves(v, 0) {
					ld, ok := l.(*ssa.UnOp)
					if !ok || ld.Op != token.MUL {
						continue
					}
					if ia, ok := ld.X.(*ssa.IndexAddr); ok {
						for _, rt := range append(valueRoots(ia.X), ia.X) {
							if p, ok := rt.(*ssa.Parameter); ok && strings.HasPrefix(p.Type().String(), "[]float32") {
								return true
							}
						}
					}
				}
				return false
			}
			rangeTest := func(in ssa.Instruction) bool {
				bo, ok := in.(*ssa.BinOp)
				if !ok {
					return false
				}
				switch bo.Op {
				case token.GTR, token.GEQ, token.LSS, token.LEQ, token.EQL, token.NEQ:
				default:
					return false
				}
				if _, isIf := firstIf(bo); !isIf {
					return false
				}
				return (fromQuery(bo.X) && !isInduction(bo.X)) || (fromQuery(bo.Y) && !isInduction(bo.Y))
			}
			for _, in := range findInstrs(f, callsTo(quant)) {
				c := in.(*ssa.Call)
				recv := c.Call.Args[0]
				own := false // a Quantizer made here, its range stored from the query's
				if al, ok := recv.(*ssa.Alloc); ok {
					for _, st := range cellStores(al) {
						if fa, ok := st.Addr.(*ssa.FieldAddr); ok {
							if _, fld := structFieldName(fa.X.Type(), fa.Field); fld == "AbsMax" && fromQuery(st.Val) {
								own = true
							}
						}
					}
				}
				n++
				k++
				key := fmt.Sprintf("%s:quantize#%d:at-its-own-scale", strings.TrimPrefix(name, "Index."), k)
				if own {
					r.Ok("GRD-queryscale", key, w.Pos(c.Pos()), "quantized by a Quantizer whose range is the query's maximum")
					continue
				}
				cI := ssa.Instruction(c)
				unguarded, wit := (pathQuery{fn: f, target: func(x ssa.Instruction) bool { return x == cI }, avoid: rangeTest}).find(entryPos(f))
				r.Cond(!unguarded, "GRD-queryscale", key, w.Pos(c.Pos()), "the index's quantizer is used only behind a test of the query's range", "the query is quantized with the index's own range ("+shortFn(f)+"): that range was learnt from the stored vectors at the magnitude they were inserted with, the query arrives at another one (searchInternal normalises it to unit length) — against raw embeddings with components around 100 every component of the query rounds to 0, every int8 distance is exactly 1.0 and the search returns arbitrary nodes; against an index compressed from float32 a raw query saturates at ±127", w.witness(wit)...)
			}
		}
	}
	if n == 0 {
		r.Und("GRD-queryscale", "sites", "", "no Quantize call on the query paths (analysis lost its anchors, or the index no longer has an int8 precision)")
	}
}

// ---------------------------------------------------------------------------------------------------------------
// GRD-rmw (callers): nobody above the engine sends VSetMetadata a map it filled from a read of the same store.
// VSetMetadata merges the keys it is given into the current metadata under the node's lock. A caller that reads the node
// first (VGet), copies what it read into the map and adds its own keys turns that into a read-modify-write WITHOUT the
// lock: every key it read goes back in time.
// ---------------------------------------------------------------------------------------------------------------
func ruleGRDrmwCallers(w *World, r *Report) {
	r.Doc("GRD-rmw-callers", "outside pkg/engine, the property map handed to Engine.VSetMetadata is not filled from the result of Engine.VGet / VGetMany (no map update whose value comes out of an iteration over, or a look-up in, metadata that was read before the call): VSetMetadata merges under the node's lock, a pre-merged map carries every key the caller read — _access_count included — back in time, in memory and in the journal", 6)
	set := w.FuncObj("pkg/engine", "Engine.VSetMetadata")
	if set == nil {
		r.Und("GRD-rmw-callers", "anchor:Engine.VSetMetadata", "", "anchor lost")
		return
	}
	reads := map[string]bool{"Engine.VGet": true, "Engine.VGetMany": true, "Engine.VGetConnections": true}
	var fromRead func(v ssa.Value, depth int, seen map[ssa.Value]bool) bool
	fromRead = func(v ssa.Value, depth int, seen map[ssa.Value]bool) bool {
		if v == nil || depth > 14 || seen[v] {
			return false
		}
		seen[v] = true
		switch x := v.(type) {
		case *ssa.Call:
			if o := calleeObj(&x.Call); o != nil && relPkg(o) == "pkg/engine" && reads[shortName(o)] {
				return true
			}
		case *ssa.Extract:
			return fromRead(x.Tuple, depth+1, seen)
		case *ssa.Next:
			return fromRead(x.Iter, depth+1, seen)
		case *ssa.Range:
			return fromRead(x.X, depth+1, seen)
		case *ssa.Lookup:
			return fromRead(x.X, depth+1, seen)
		case *ssa.Field:
			return fromRead(x.X, depth+1, seen)
		case *ssa.FieldAddr:
			return fromRead(x.X, depth+1, seen)
		case *ssa.IndexAddr:
			return fromRead(x.X, depth+1, seen)
		case *ssa.Index:
			return fromRead(x.X, depth+1, seen)
		case *ssa.UnOp:
			if x.Op == token.MUL {
				base := x.X
				for {
					if fa, ok := base.(*ssa.FieldAddr); ok {
						base = fa.X
					} else if ia, ok := base.(*ssa.IndexAddr); ok {
						base = ia.X
					} else {
						break
					}
				}
				if al, ok := cellRoot(base).(*ssa.Alloc); ok { // a local (or a field of a local struct) that lives in memory
					for _, st := range cellStores(al) {
						if fromRead(st.Val, depth+1, seen) {
							return true
						}
					}
					return false
				}
			}
			return fromRead(x.X, depth+1, seen)
		case *ssa.Phi:
			for _, e := range x.Edges {
				if fromRead(e, depth+1, seen) {
					return true
				}
			}
		case *ssa.MakeInterface:
			return fromRead(x.X, depth+1, seen)
		case *ssa.ChangeType:
			return fromRead(x.X, depth+1, seen)
		case *ssa.TypeAssert:
			return fromRead(x.X, depth+1, seen)
		}
		return false
	}
	n := 0
	for _, fi := range w.ModuleFuncs() {
		if relPkg(fi.Obj) == "pkg/engine" || strings.HasPrefix(relPkg(fi.Obj), "pkg/core") {
			continue
		}
		top := w.SSAFunc(fi.Obj)
		if top == nil {
			continue
		}
		k := 0
		for _, f := range append([]*ssa.Function{top}, closuresOf(top)...) {
			for _, in := range findInstrs(f, callsTo(set)) {
				c := in.(*ssa.Call)
				n++
				k++
				m := c.Call.Args[len(c.Call.Args)-1]
				bad := fromRead(m, 0, map[ssa.Value]bool{}) // the map that was read is sent back as it is
				var at ssa.Instruction
				for _, root := range append(phiLeavesOf(m), m) {
					refs := root.Referrers()
					if refs == nil {
						continue
					}
					for _, ref := range *refs {
						if mu, ok := ref.(*ssa.MapUpdate); ok && mu.Map == root && fromRead(mu.Value, 0, map[ssa.Value]bool{}) {
							bad, at = true, mu
						}
					}
				}
				wit := []ssa.Instruction{}
				if at != nil {
					wit = append(wit, at)
				}
				r.Cond(!bad, "GRD-rmw-callers", fmt.Sprintf("%s:VSetMetadata#%d:sends-its-own-keys-only", fnKey(top), k), w.Pos(c.Pos()), "the map holds the caller's own keys", fnKey(top)+" fills the map it hands to VSetMetadata with what it read from the node before (VGet, outside the node's metadata lock): a VReinforce or another update acknowledged between that read and the write is overwritten with the older values — N acknowledged reinforcements leave _access_count below N, in memory and in the journal", w.witness(wit)...)
			}
		}
	}
	if n == 0 {
		r.Und("GRD-rmw-callers", "sites", "", "no call of Engine.VSetMetadata outside the engine (analysis lost its anchors)")
	}
}

// ---------------------------------------------------------------------------------------------------------------
// GRD-writeback: a struct taken OUT of a map is a copy.
// `entry := m[k]; entry.field = …` changes the copy; unless it is stored back (`m[k] = entry`) the map keeps the old
// value. (It often seems to work anyway, because a map or slice FIELD of the copy is shared with the stored struct —
// until that field was nil and the assignment creates it.)
// ---------------------------------------------------------------------------------------------------------------
func ruleGRDwriteback(w *World, r *Report) {
	r.Doc("GRD-writeback", "in pkg/engine, a struct value read out of a map (v := m[k]) one of whose fields is then assigned is stored back into that map (m[k] = v) on every path from the assignment to the end of the function or to the next look-up: a map of structs hands out copies, and a replayed VMETA merged into the copy of an entry whose metadata map was still nil is lost with the copy", 1)
	n := 0
	for _, top := range w.pkgSSAFuncs("pkg/engine") {
		if top.Parent() != nil {
			continue
		}
		for _, fn := range append([]*ssa.Function{top}, closuresOf(top)...) {
			k := 0
			for _, b := range fn.Blocks {
				for _, in := range b.Instrs {
					al, ok := in.(*ssa.Alloc)
					if !ok {
						continue
					}
					if _, isStruct := al.Type().(*types.Pointer).Elem().Underlying().(*types.Struct); !isStruct {
						continue
					}
					// filled from a map look-up?
					var lk *ssa.Lookup
					var fieldStores []*ssa.Store
					for _, ref := range *al.Referrers() {
						switch x := ref.(type) {
						case *ssa.Store:
							if x.Addr != ssa.Value(al) {
								continue
							}
							v := x.Val
							if ex, ok := v.(*ssa.Extract); ok {
								v = ex.Tuple
							}
							if l, ok := v.(*ssa.Lookup); ok {
								if _, isMap := l.X.Type().Underlying().(*types.Map); isMap {
									lk = l
								}
							}
						case *ssa.FieldAddr:
							for _, r2 := range *x.Referrers() {
								if st, ok := r2.(*ssa.Store); ok && st.Addr == ssa.Value(x) {
									fieldStores = append(fieldStores, st)
								}
							}
						}
					}
					if lk == nil || len(fieldStores) == 0 {
						continue
					}
					n++
					k++
					stored := func(x ssa.Instruction) bool {
						mu, ok := x.(*ssa.MapUpdate)
						if !ok || !sameVal(mu.Map, lk.X) {
							return false
						}
						ld, ok := mu.Value.(*ssa.UnOp)
						return ok && ld.Op == token.MUL && ld.X == ssa.Value(al)
					}
					bad := false
					var wit []ssa.Instruction
					lkI := ssa.Instruction(lk)
					for _, st := range fieldStores {
						leaves := func(x ssa.Instruction) bool {
							if _, isRet := x.(*ssa.Return); isRet {
								return true
							}
							return x == lkI // the next record: the copy is overwritten
						}
						if f, wt := (pathQuery{fn: fn, target: leaves, avoid: stored}).find(posOf(st)); f {
							bad, wit = true, wt
						}
					}
					name := al.Comment
					if name == "" {
						name = "value"
					}
					r.Cond(!bad, "GRD-writeback", fmt.Sprintf("%s:%s#%d:stored-back", fnKey(top), name, k), w.Pos(al.Pos()), "the modified copy is stored back into the map on every path", fnKey(top)+" assigns a field of `"+name+"`, a struct it read out of a map, and can go on without storing the struct back: the map still holds the old value — a replayed VMETA for a vector that was added without metadata is merged into a metadata map that exists only on the copy, and the vector comes back from the restart without the metadata VSetMetadata / VReinforce had acknowledged", w.witness(wit)...)
				}
			}
		}
	}
	// a map of POINTERS to structs hands out the stored struct itself: a field assigned through the pointer needs no
	// store-back (the shape the code takes if the entries are changed to pointers — still one instance of the question)
	for _, top := range w.pkgSSAFuncs("pkg/engine") {
		if top.Parent() != nil {
			continue
		}
		k := 0
		for _, fn := range append([]*ssa.Function{top}, closuresOf(top)...) {
			for _, b := range fn.Blocks {
				for _, in := range b.Instrs {
					st, ok := in.(*ssa.Store)
					if !ok {
						continue
					}
					fa, ok := st.Addr.(*ssa.FieldAddr)
					if !ok {
						continue
					}
					for _, rt := range append(valueRoots(fa.X), fa.X) {
						if ex, ok := rt.(*ssa.Extract); ok {
							rt = ex.Tuple
						}
						lk, ok := rt.(*ssa.Lookup)
						if !ok {
							continue
						}
						if mt, isMap := lk.X.Type().Underlying().(*types.Map); isMap {
							if pt, isPtr := mt.Elem().Underlying().(*types.Pointer); isPtr {
								if _, isStruct := pt.Elem().Underlying().(*types.Struct); isStruct {
									n++
									k++
									r.Ok("GRD-writeback", fmt.Sprintf("%s:entry-by-pointer#%d:modified-in-place", fnKey(top), k), w.Pos(st.Pos()), "the map holds pointers: the assignment changes the stored struct")
								}
							}
						}
					}
				}
			}
		}
	}
	if n == 0 {
		r.Und("GRD-writeback", "sites", "", "no struct read out of a map and modified in pkg/engine (analysis lost its anchors)")
	}
}

// ---------------------------------------------------------------------------------------------------------------
// GRD-zerocapture: a function literal does not read a variable that nobody ever writes.
// Hoisting a closure out of a loop needs a variable of the outer scope for what used to be the loop variable; if the
// loop keeps its own `x := …` the closure reads the outer one, which stays at its zero value for ever — the depth of a
// breadth-first expansion is then always 0 and the depth limit never triggers.
// ---------------------------------------------------------------------------------------------------------------
func ruleGRDzerocapture(w *World, r *Report) {
	badCount := 0
	r.Doc("GRD-zerocapture", "in the query and traversal code (pkg/engine, pkg/rag, pkg/core) no function literal reads a captured variable that is declared without a value and never assigned or handed out by address anywhere: such a variable is its zero value for ever (a hoisted closure that still means the loop's own `curr := queue[0]` reads depth 0 on every node, and max_depth bounds nothing)", 1)
	n := 0
	for _, rel := range []string{"pkg/engine", "pkg/rag", "pkg/core"} {
		for _, top := range w.pkgSSAFuncs(rel) {
			if top.Parent() != nil {
				continue
			}
			for _, fn := range append([]*ssa.Function{top}, closuresOf(top)...) {
				for _, b := range fn.Blocks {
					for _, in := range b.Instrs {
						mc, ok := in.(*ssa.MakeClosure)
						if !ok {
							continue
						}
						cl, _ := mc.Fn.(*ssa.Function)
						for bi, bind := range mc.Bindings {
							al, ok := bind.(*ssa.Alloc)
							if !ok || cl == nil || bi >= len(cl.FreeVars) {
								continue
							}
							n++
							// every use of the cell, here and in the function literals that capture it
							written := false
							var visit func(addr ssa.Value, depth int)
							visit = func(addr ssa.Value, depth int) {
								if depth > 4 || addr.Referrers() == nil || written {
									return
								}
								for _, ref := range *addr.Referrers() {
									switch x := ref.(type) {
									case *ssa.Store:
										if x.Addr == addr {
											written = true
										} else {
											written = true // the address itself is stored somewhere
										}
									case *ssa.UnOp: // a load
									case *ssa.FieldAddr:
										visit(x, depth+1)
									case *ssa.IndexAddr:
										visit(x, depth+1)
									case *ssa.MakeClosure:
										if g, ok := x.Fn.(*ssa.Function); ok {
											for i, bb := range x.Bindings {
												if bb == addr && i < len(g.FreeVars) {
													visit(g.FreeVars[i], depth+1)
												}
											}
										}
									case *ssa.DebugRef:
									default:
										written = true // passed to a call, sent, converted…: may be written through
									}
								}
							}
							visit(al, 0)
							if written {
								continue
							}
							// read in the literal?
							read := false
							fv := cl.FreeVars[bi]
							if fv.Referrers() != nil {
								for _, ref := range *fv.Referrers() {
									switch ref.(type) {
									case *ssa.UnOp, *ssa.FieldAddr, *ssa.IndexAddr:
										read = true
									}
								}
							}
							if !read {
								continue
							}
							name := al.Comment
							r.Bad("GRD-zerocapture", fmt.Sprintf("%s:captured:%s:assigned-somewhere", fnKey(top), name), w.Pos(al.Pos()), "the function literal in "+fnKey(top)+" reads the captured variable `"+name+"`, which is declared without a value and never assigned (a variable of the same name declared inside the loop shadows it): the literal sees the zero value on every call — in a breadth-first expansion the depth it computes from is always 0, every node is enqueued at depth 1, and max_depth never stops the walk: a scoped search returns ids outside its scope")
							badCount++
						}
					}
				}
			}
		}
	}
	r.Count("captured_variables_checked", n)
	if n == 0 {
		r.Und("GRD-zerocapture", "sites", "", "no captured variable found (analysis lost its anchors)")
	} else if badCount == 0 {
		r.Ok("GRD-zerocapture", "captured-variables:all-assigned-somewhere", "", fmt.Sprintf("%d captured variables, each assigned, initialised or handed out by address somewhere", n))
	}
}

// ---------------------------------------------------------------------------------------------------------------
// GRD-newid: a rebuilt index numbers its nodes anew.
// DB.Compress (and every other rebuild) inserts the live vectors into a fresh index; internal ids are assigned by the
// new index, and they equal the old ones only while the old id space had no holes. Metadata is keyed by internal id.
// ---------------------------------------------------------------------------------------------------------------
func ruleGRDnewid(w *World, r *Report) {
	r.Doc("GRD-newid", "in DB.Compress the internal id under which a record's metadata is re-attached (AddMetadata / AddMetadataUnlocked) is asked of the NEW index — the result of a GetInternalID / Add on the index built in this call —, never carried over from the old one: after any delete the two numberings differ, and metadata filed under the old number belongs to another record (VGet returns somebody else's metadata, or none)", 1)
	fi := w.Func("pkg/core", "DB.Compress")
	if fi == nil {
		r.Und("GRD-newid", "anchor:DB.Compress", "", "anchor lost")
		return
	}
	top := w.SSAFunc(fi.Obj)
	am, amu := w.FuncObj("pkg/core", "DB.AddMetadata"), w.FuncObj("pkg/core", "DB.AddMetadataUnlocked")
	newObj := w.FuncObj(hnswPkg, "New")
	n := 0
	for _, f := range append(append([]*ssa.Function{top}, closuresOf(top)...), w.extractedHelpers(top)...) {
		for _, in := range findInstrs(f, callsTo(am, amu)) {
			c := in.(*ssa.Call)
			n++
			id := c.Call.Args[2]
			fromNew := false
			for _, rt := range append(arithLeaves(id, 0), id) {
				if ex, ok := rt.(*ssa.Extract); ok {
					rt = ex.Tuple
				}
				lc, ok := rt.(*ssa.Call)
				if !ok {
					continue
				}
				o := calleeObj(&lc.Call)
				if o == nil || relPkg(o) != hnswPkg || (o.Name() != "GetInternalID" && o.Name() != "Add") {
					continue
				}
				// the receiver is the index constructed here
				recv := lc.Call.Args[0]
				for _, rr := range append(valueRoots(recv), recv) {
					if ex, ok := rr.(*ssa.Extract); ok {
						rr = ex.Tuple
					}
					if nc, ok := rr.(*ssa.Call); ok && calleeObj(&nc.Call) == newObj {
						fromNew = true
					}
					if ld, ok := rr.(*ssa.UnOp); ok && ld.Op == token.MUL { // captured by a worker closure
						if p := cellRoot(ld.X); p != nil {
							for _, st := range cellStores(p) {
								v := st.Val
								if ex, ok := v.(*ssa.Extract); ok {
									v = ex.Tuple
								}
								if nc, ok := v.(*ssa.Call); ok && calleeObj(&nc.Call) == newObj {
									fromNew = true
								}
							}
						}
					}
				}
			}
			r.Cond(fromNew, "GRD-newid", fmt.Sprintf("DB.Compress:metadata#%d:filed-under-the-new-index-id", n), w.Pos(c.Pos()), "the id comes from a look-up in the index built by this call", "DB.Compress re-attaches a record's metadata under an internal id that was not obtained from the rebuilt index (an id remembered from the old index): the new index numbers its nodes from 1 without the holes deletes had left, so after any VDelete every later record's metadata is filed under the wrong node — VGet returns another record's metadata or none, and VCompress snapshots that state", w.witness([]ssa.Instruction{c})...)
		}
	}
	if n == 0 {
		r.Und("GRD-newid", "sites", w.Pos(fi.Decl.Pos()), "DB.Compress no longer re-attaches metadata through AddMetadata (shape not recognised)")
	}
}

// ---------------------------------------------------------------------------------------------------------------
// GRD-frozenset: the set of nodes a vacuum removes is complete before the pass that consults it.
// Vacuum collects the tombstones (phase 1), then scans every live node for links into that set and repairs them (phase
// 2), then frees the nodes of the set. A node that enters the set DURING the scan is freed like the others, but the
// live nodes scanned before it were checked against a set that did not contain it: their links now dangle.
// ---------------------------------------------------------------------------------------------------------------
func ruleGRDfrozenset(w *World, r *Report) {
	r.Doc("GRD-frozenset", "in GraphOptimizer.Vacuum (and the helpers extracted from it) no loop both consults and grows the same set (a map with empty-struct or bool values): the set of nodes to remove is complete before the repair scan looks anything up in it — a tombstone added to it while the scan is under way is freed although the nodes scanned earlier still link to it, and the part of the graph behind those links becomes unreachable", 1)
	fi := w.Func(hnswPkg, "GraphOptimizer.Vacuum")
	if fi == nil {
		r.Und("GRD-frozenset", "anchor:GraphOptimizer.Vacuum", "", "anchor lost")
		return
	}
	top := w.SSAFunc(fi.Obj)
	n := 0
	for _, f := range append(append([]*ssa.Function{top}, closuresOf(top)...), w.extractedHelpers(top)...) {
		// the sets of f: maps whose values carry no information
		isSet := func(t types.Type) bool {
			m, ok := t.Underlying().(*types.Map)
			if !ok {
				return false
			}
			if st, ok := m.Elem().Underlying().(*types.Struct); ok && st.NumFields() == 0 {
				return true
			}
			return isBoolType(m.Elem())
		}
		type use struct {
			looks, grows []ssa.Instruction
		}
		sets := map[ssa.Value]*use{}
		root := func(v ssa.Value) ssa.Value {
			for _, rt := range valueRoots(v) {
				if _, ok := rt.(*ssa.MakeMap); ok {
					return rt
				}
			}
			if ld, ok := v.(*ssa.UnOp); ok && ld.Op == token.MUL {
				return cellRoot(ld.X)
			}
			return v
		}
		for _, b := range f.Blocks {
			for _, in := range b.Instrs {
				switch x := in.(type) {
				case *ssa.Lookup:
					if isSet(x.X.Type()) {
						k := root(x.X)
						if sets[k] == nil {
							sets[k] = &use{}
						}
						sets[k].looks = append(sets[k].looks, in)
					}
				case *ssa.MapUpdate:
					if isSet(x.Map.Type()) {
						k := root(x.Map)
						if sets[k] == nil {
							sets[k] = &use{}
						}
						sets[k].grows = append(sets[k].grows, in)
					}
				}
			}
		}
		var order []*use
		for _, u := range sets { // every set this function consults (it may have been filled elsewhere)
			if len(u.looks) > 0 {
				order = append(order, u)
			}
		}
		sort.Slice(order, func(i, j int) bool { return order[i].looks[0].Pos() < order[j].looks[0].Pos() })
		for _, u := range order {
			n++
			bad := false
			var wit []ssa.Instruction
			for _, g := range u.grows {
				for h := innermostLoop(f, g.Block()); h != nil; {
					body := naturalLoop(h)
					// a set made inside this loop is a new set in every round: what one round adds, no other round consults
					if mk, ok := root(g.(*ssa.MapUpdate).Map).(*ssa.MakeMap); ok && mk.Parent() == f && body[mk.Block()] {
						break
					}
					for _, l := range u.looks {
						if body[l.Block()] {
							// (a loop that looks up only the very element it then adds — "seen before? else remember it" — keeps a
							// duplicate filter, not a frozen set: nothing else was checked against the set while it grew)
							if lk, ok := l.(*ssa.Lookup); ok && (lk.Index == g.(*ssa.MapUpdate).Key || sameVal(lk.Index, g.(*ssa.MapUpdate).Key)) {
								continue
							}
							bad, wit = true, []ssa.Instruction{l, g}
						}
					}
					// the enclosing loop, if any
					var outer *ssa.BasicBlock
					for _, hb := range f.Blocks {
						if hb != h && naturalLoop(hb)[h] && len(naturalLoop(hb)) > len(body) {
							isHeader := false
							for _, p := range hb.Preds {
								if hb.Dominates(p) {
									isHeader = true
								}
							}
							if isHeader && (outer == nil || len(naturalLoop(hb)) < len(naturalLoop(outer))) {
								outer = hb
							}
						}
					}
					h = outer
				}
			}
			r.Cond(!bad, "GRD-frozenset", fmt.Sprintf("%s:set#%d:complete-before-it-is-consulted", fnKey(f), n), w.Pos(u.looks[0].Pos()), "no loop both looks the set up and adds to it", fnKey(f)+" adds to the set of nodes it is about to remove inside the very scan that looks links up in that set: a node deleted after the collection phase is picked up when the scan reaches it, but the live nodes with smaller ids were already checked against the set without it — they are not re-linked, the node is freed, their links dangle and the part of the base layer behind them can no longer be reached from the entry point", w.witness(wit)...)
		}
	}
	if n == 0 {
		r.Und("GRD-frozenset", "sites", w.Pos(fi.Decl.Pos()), "Vacuum no longer keeps a set of nodes that is both filled and consulted (shape not recognised)")
	}
}

// LCK-1 for one family of locks (the shard locks of the edge store): the functions that take them release them on every
// path. The whole-program rule is C13's; this is the part of it C10 depends on — an edge operation that returns with its
// two shard locks held (an early return added in front of a hand-written unlock) freezes every later look-up of those
// shards, forward and reverse.
func ruleLCK1graph(w *World, r *Report) {
	r.Doc("LCK-1g", "every function of pkg/core that takes a graph shard lock (GraphShard.mu, directly or through LockTwoShards) releases it on every path — explicitly or by defer: no return with a shard still locked", 4)
	lr := w.lockAnalysis()
	n := 0
	seen := map[string]bool{}
	for _, fn := range lr.funcs {
		if fn.Pkg == nil || fn.Pkg.Pkg == nil || !strings.HasSuffix(fn.Pkg.Pkg.Path(), "/pkg/core") {
			continue
		}
		s := lr.sum[fn]
		takes := false
		for k := range s.acquires {
			if strings.Contains(k.class, "GraphShard.mu") {
				takes = true
			}
		}
		if !takes || seen[fnName(fn)] {
			continue
		}
		seen[fnName(fn)] = true
		n++
		bad := ""
		var at token.Pos
		for id, pos := range lr.unpairedAt {
			if strings.HasPrefix(id, fnName(fn)+":") && strings.Contains(id, "GraphShard.mu") {
				bad, at = strings.TrimPrefix(id, fnName(fn)+":"), pos
			}
		}
		pos := w.Pos(fn.Pos())
		if bad != "" {
			pos = w.Pos(at)
		}
		r.Cond(bad == "", "LCK-1g", "releases-its-shard-locks:"+shortQ(fnName(fn)), pos, "every acquisition of a shard lock is released on every path", shortQ(fnName(fn))+" can return while still holding "+bad+": the next operation on a node of that shard — a link, an unlink, a look-up in either view, the snapshot — blocks for ever")
	}
	if n == 0 {
		r.Und("LCK-1g", "sites", "", "no function of pkg/core takes a graph shard lock (analysis lost its anchors)")
	}
}

// ---------------------------------------------------------------------------------------------------------------
// LCK-deferloop: a lock taken per iteration is released per iteration.
// `defer mu.Unlock()` inside a loop body does not run at the end of the iteration but when the FUNCTION returns: every
// lock the loop takes stays held. With sharded locks (one mutex per id modulo 256) the second id that falls into an
// already held shard blocks on a mutex its own goroutine holds — for ever, inside the write gate.
// ---------------------------------------------------------------------------------------------------------------
func ruleLCKdeferloop(w *World, r *Report) {
	r.Doc("LCK-deferloop", "no function of the module defers the release of a sync.Mutex / sync.RWMutex inside a loop (a deferred call runs at function return, not at the end of the iteration): a lock acquired in a loop body is released by an explicit Unlock on every path of the iteration, or the iteration is a function literal of its own. (Locking every element of an array by its index and releasing them all at return is not this: each iteration takes another instance.)", 1)
	n, bad := 0, 0
	for _, fi := range w.ModuleFuncs() {
		top := w.SSAFunc(fi.Obj)
		if top == nil {
			continue
		}
		for _, f := range append([]*ssa.Function{top}, closuresOf(top)...) {
			for _, b := range f.Blocks {
				for _, in := range b.Instrs {
					d, ok := in.(*ssa.Defer)
					if !ok {
						continue
					}
					o := calleeObj(&d.Call)
					if o == nil || o.Pkg() == nil || o.Pkg().Path() != "sync" {
						continue
					}
					switch shortName(o) {
					case "Mutex.Unlock", "RWMutex.Unlock", "RWMutex.RUnlock":
					default:
						continue
					}
					n++
					if innermostLoop(f, b) == nil {
						continue
					}
					// "lock them all, release them all at return": the lock is the element of an array or slice selected by
					// the loop counter itself — a different instance on every iteration, held on purpose
					if len(d.Call.Args) > 0 {
						a := d.Call.Args[0]
						for {
							if fa, ok := a.(*ssa.FieldAddr); ok {
								a = fa.X
								continue
							}
							break
						}
						if ia, ok := a.(*ssa.IndexAddr); ok && isInduction(ia.Index) {
							continue
						}
					}
					bad++
					r.Bad("LCK-deferloop", fmt.Sprintf("%s:deferred-unlock-in-a-loop", fnKey(top)), w.Pos(d.Pos()), fnKey(top)+" defers an unlock inside a loop: the deferred call runs when the function returns, so every lock the loop takes stays held until then — a later iteration (or a concurrent call walking the ids in another order) that needs a lock of the same shard blocks for ever, and with it every snapshot that waits for this operation to leave the write gate", w.witness([]ssa.Instruction{d})...)
				}
			}
		}
	}
	r.Count("deferred_unlocks_checked", n)
	if n == 0 {
		r.Und("LCK-deferloop", "sites", "", "no deferred unlock in the module (analysis lost its anchors)")
	} else if bad == 0 {
		r.Ok("LCK-deferloop", "deferred-unlocks:none-inside-a-loop", "", fmt.Sprintf("%d deferred unlocks, none inside a loop", n))
	}
}

// ---------------------------------------------------------------------------------------------------------------
// GRD-dimcheck: the index itself refuses a vector of another dimension.
// The arena slot size is fixed by the first insertion; the copy into a slot writes exactly that many components.
// ---------------------------------------------------------------------------------------------------------------
func ruleGRDdimcheck(w *World, r *Report) {
	r.Doc("GRD-dimcheck", "Index.initArenaIfNeeded — which every insertion path calls under the index lock before it takes a slot — compares the incoming dimension with the one the first insertion fixed and returns an error when they differ; its callers test that error: a vector of another length is never copied into a slot (cut, or padded with the slot's old bytes). The engine's own comparison is a separate step and is off while the index is empty, so first insertions racing into a fresh index all pass it", 3)
	fi := w.Func(hnswPkg, "Index.initArenaIfNeeded")
	if fi == nil {
		r.Und("GRD-dimcheck", "anchor:Index.initArenaIfNeeded", "", "anchor lost")
		return
	}
	fn := w.SSAFunc(fi.Obj)
	isDimField := func(v ssa.Value) bool { return isFieldLoad(v, "vectorDim") }
	var cmps []*ssa.BinOp
	for _, b := range fn.Blocks {
		for _, in := range b.Instrs {
			bo, ok := in.(*ssa.BinOp)
			if !ok || (bo.Op != token.NEQ && bo.Op != token.EQL) {
				continue
			}
			_, px := bo.X.(*ssa.Parameter)
			_, py := bo.Y.(*ssa.Parameter)
			if (px && isDimField(bo.Y)) || (py && isDimField(bo.X)) {
				cmps = append(cmps, bo)
			}
		}
	}
	ok := len(cmps) > 0
	var wit []ssa.Instruction
	for _, c := range cmps {
		t, f := condEdges(c)
		differs := t
		if c.Op == token.EQL {
			differs = f
		}
		nilRet := func(in ssa.Instruction) bool {
			rt, isRet := in.(*ssa.Return)
			return isRet && isNilConst(retVal(rt, 0))
		}
		for _, e := range differs {
			if fd, wt := (pathQuery{fn: fn, target: nilRet}).find(ipos{e.from.Succs[e.succ], -1}); fd {
				ok, wit = false, wt
			}
		}
	}
	r.Cond(ok, "GRD-dimcheck", "Index.initArenaIfNeeded:refuses-another-dimension", w.Pos(fi.Decl.Pos()), "a dimension that differs from the index's own is answered with an error", "Index.initArenaIfNeeded accepts any dimension once the index has one: Add / AddBatch then copy exactly vectorDim components into the slot — a longer vector is cut, a shorter one padded — and VAdd acknowledges a vector that VGet returns mutilated (4 concurrent first inserts of another length into a fresh index pass the engine's guard, which is off while GetDimension is 0)", w.witness(wit)...)
	// the insertion paths ask, and look at the answer
	for _, name := range []string{"Index.addActive", "Index.addBatchInternal"} {
		cf := w.Func(hnswPkg, name)
		if cf == nil {
			r.Und("GRD-dimcheck", "anchor:"+name, "", "anchor lost")
			continue
		}
		cfn := w.SSAFunc(cf.Obj)
		asked := false
		for _, f := range append(append([]*ssa.Function{cfn}, closuresOf(cfn)...), w.extractedHelpers(cfn)...) {
			for _, in := range findInstrs(f, callsTo(fi.Obj)) {
				if len(failureEdges(f, in.(*ssa.Call))) > 0 {
					asked = true
				}
			}
		}
		r.Cond(asked, "GRD-dimcheck", name+":asks-before-it-stores", w.Pos(cf.Decl.Pos()), "calls initArenaIfNeeded and tests its error", name+" no longer calls initArenaIfNeeded (or ignores its error): nothing compares the vector's length with the slot size before the copy")
	}
}
