package main

// report.go — obligations, verdict, evidence, known findings, replay records.

import (
	"crypto/sha1"
	"encoding/json"
	"fmt"
	"os"
	"path/filepath"
	"sort"
	"strings"
	"time"
)

type Verdict string

const (
	OK        Verdict = "ok"
	Violation Verdict = "violation"
	Undecided Verdict = "undecided"
)

// Ob is one obligation decided by a rule on one construct of the current tree.
type Ob struct {
	Rule      string   `json:"rule"`
	Construct string   `json:"construct"` // stable key: function / callee / field — never a line
	Pos       string   `json:"site,omitempty"`
	Verdict   Verdict  `json:"verdict"`
	Detail    string   `json:"detail,omitempty"`
	Witness   []string `json:"witness,omitempty"`
}

type Report struct {
	Property   string
	Obs        []Ob
	Floors     map[string]int    // rule -> minimum number of instances
	RuleDoc    map[string]string // rule -> one-line doc
	Exceptions []string
	Analysed   map[string]int
	Notes      []string
}

func NewReport(prop string) *Report {
	return &Report{Property: prop, Floors: map[string]int{}, RuleDoc: map[string]string{}, Analysed: map[string]int{}}
}

func (r *Report) Doc(rule, doc string, floor int) {
	r.RuleDoc[rule] = doc
	if floor > r.Floors[rule] {
		r.Floors[rule] = floor
	}
}
func (r *Report) add(rule, construct, pos string, v Verdict, detail string, witness ...string) {
	r.Obs = append(r.Obs, Ob{Rule: rule, Construct: construct, Pos: pos, Verdict: v, Detail: detail, Witness: witness})
}
func (r *Report) Ok(rule, construct, pos, detail string) { r.add(rule, construct, pos, OK, detail) }
func (r *Report) Bad(rule, construct, pos, detail string, witness ...string) {
	r.add(rule, construct, pos, Violation, detail, witness...)
}
func (r *Report) Und(rule, construct, pos, detail string) {
	r.add(rule, construct, pos, Undecided, detail)
}
func (r *Report) Cond(cond bool, rule, construct, pos, okDetail, badDetail string, witness ...string) {
	if cond {
		r.Ok(rule, construct, pos, okDetail)
	} else {
		r.Bad(rule, construct, pos, badDetail, witness...)
	}
}
func (r *Report) Count(k string, n int) { r.Analysed[k] += n }
func (r *Report) Except(s string)       { r.Exceptions = append(r.Exceptions, s) }

// ---------- known findings ----------

type KnownFinding struct {
	Property  string `json:"property"`
	Rule      string `json:"rule"`
	Construct string `json:"construct"`
	WhatFails string `json:"what_fails"`
	Repro     string `json:"repro,omitempty"`
}
type FixedFinding struct {
	Property   string `json:"property"`
	Commit     string `json:"commit"`
	Rule       string `json:"rule,omitempty"`
	Construct  string `json:"construct,omitempty"`
	WhatFailed string `json:"what_failed"`
}
type KnownFile struct {
	Known []KnownFinding `json:"known"`
	Fixed []FixedFinding `json:"fixed"`
}

func loadKnown(path string) (*KnownFile, error) {
	kf := &KnownFile{}
	b, err := os.ReadFile(path)
	if err != nil {
		if os.IsNotExist(err) {
			return kf, nil
		}
		return nil, err
	}
	if err := json.Unmarshal(b, kf); err != nil {
		return nil, fmt.Errorf("%s: %w", path, err)
	}
	return kf, nil
}

// ---------- finishing a run ----------

type runOpts struct {
	verifDir string
	tier     string
	seed     int
	started  time.Time
	noWrite  bool
	selftest map[string]any
	tagsRuns []string
}

// Finish prints the verdict lines, writes evidence and replay records, and returns the exit code.
func (r *Report) Finish(o runOpts) int {
	kf, err := loadKnown(filepath.Join(o.verifDir, "known_findings.json"))
	if err != nil {
		fmt.Printf("VIOLATION property=%s replay=%s\n", r.Property, "known_findings.json-unreadable")
		fmt.Println("error:", err)
		return 1
	}
	known := map[string]KnownFinding{}
	for _, k := range kf.Known {
		if k.Property == r.Property {
			known[k.Rule+"|"+k.Construct] = k
		}
	}

	// instance floors
	perRule := map[string]int{}
	for _, ob := range r.Obs {
		perRule[ob.Rule]++
	}
	rules := make([]string, 0, len(r.RuleDoc))
	for k := range r.RuleDoc {
		rules = append(rules, k)
	}
	sort.Strings(rules)
	for _, rule := range rules {
		if perRule[rule] < r.Floors[rule] {
			r.Bad(rule, "instance-floor", "", fmt.Sprintf("rule matched %d instances, fewer than the %d confirmed by hand: anchors lost or rule gone vacuous", perRule[rule], r.Floors[rule]))
		}
	}

	sort.SliceStable(r.Obs, func(i, j int) bool {
		if r.Obs[i].Rule != r.Obs[j].Rule {
			return r.Obs[i].Rule < r.Obs[j].Rule
		}
		return r.Obs[i].Construct < r.Obs[j].Construct
	})

	var nOK, nKnown, nViol, nUnd int
	usedKnown := map[string]bool{}
	seenViol := map[string]bool{}
	outDir := filepath.Join(o.verifDir, "out")
	var violRecs []Ob
	var knownRecs []Ob
	for _, ob := range r.Obs {
		switch ob.Verdict {
		case OK:
			nOK++
			continue
		}
		key := ob.Rule + "|" + ob.Construct
		if k, ok := known[key]; ok && ob.Verdict == Violation {
			nKnown++
			knownRecs = append(knownRecs, ob)
			if !usedKnown[key] {
				usedKnown[key] = true
				fmt.Printf("KNOWN-FINDING: property=%s %s %s — %s\n", r.Property, ob.Rule, ob.Construct, k.WhatFails)
			}
			continue
		}
		if ob.Verdict == Undecided {
			nUnd++
		} else {
			nViol++
		}
		violRecs = append(violRecs, ob)
		if seenViol[key] {
			continue
		}
		seenViol[key] = true
		h := sha1.Sum([]byte(key))
		name := fmt.Sprintf("%s-%s-%x.json", r.Property, sanitize(ob.Rule), h[:4])
		replay := filepath.Join(outDir, name)
		if !o.noWrite {
			os.MkdirAll(outDir, 0o755)
			rec := map[string]any{"property": r.Property, "rule": ob.Rule, "rule_doc": r.RuleDoc[ob.Rule], "construct": ob.Construct,
				"site": ob.Pos, "verdict": ob.Verdict, "detail": ob.Detail, "witness": ob.Witness}
			b, _ := json.MarshalIndent(rec, "", " ")
			os.WriteFile(replay, b, 0o644)
		}
		fmt.Printf("VIOLATION property=%s replay=%s\n", r.Property, replay)
		fmt.Printf("  rule=%s verdict=%s construct=%s site=%s\n  %s\n", ob.Rule, ob.Verdict, ob.Construct, ob.Pos, ob.Detail)
		for _, wl := range ob.Witness {
			fmt.Printf("    via %s\n", wl)
		}
	}
	for key, k := range known {
		if !usedKnown[key] {
			fmt.Printf("note: known finding no longer reported (repaired or anchor moved): %s %s\n", k.Rule, k.Construct)
		}
	}

	// evidence
	samples := []Ob{}
	perRuleSample := map[string]int{}
	for _, ob := range r.Obs {
		if perRuleSample[ob.Rule] < 3 {
			samples = append(samples, ob)
			perRuleSample[ob.Rule]++
		}
	}
	ruleSummary := map[string]any{}
	for _, rule := range rules {
		ruleSummary[rule] = map[string]any{"doc": r.RuleDoc[rule], "instances": perRule[rule], "floor": r.Floors[rule]}
	}
	expl := &strings.Builder{}
	fmt.Fprintf(expl, "Static decision of structural necessary conditions of %s on the type-checked current tree of %s. ", r.Property, "/repo")
	fmt.Fprintf(expl, "Rules applied: ")
	for i, rule := range rules {
		if i > 0 {
			expl.WriteString("; ")
		}
		fmt.Fprintf(expl, "%s — %s", rule, r.RuleDoc[rule])
	}
	fmt.Fprintf(expl, ". Every obligation is one (rule, construct) pair decided on all paths of the named function(s); the behaviour itself (values, schedules, crash outcomes) is NOT decided.")
	cov := map[string]any{
		"explanation":         expl.String(),
		"obligations":         len(r.Obs),
		"discharged":          nOK,
		"known_findings":      nKnown,
		"violations_unlisted": nViol,
		"undecided":           nUnd,
		"rules":               ruleSummary,
		"analysed":            r.Analysed,
		"samples":             samples,
		"exceptions":          r.Exceptions,
		"open":                append(append([]Ob{}, violRecs...), knownRecs...),
		"exhaustive":          true,
		"notes":               r.Notes,
	}
	if o.selftest != nil {
		cov["checker_selftest"] = o.selftest
	}
	if len(o.tagsRuns) > 0 {
		cov["build_configurations"] = o.tagsRuns
	}
	ev := map[string]any{
		"property_id": r.Property,
		"tier":        o.tier,
		"seed":        o.seed,
		"level":       "other",
		"coverage":    cov,
		"assumptions": []string{
			"go/types, go/ssa and the VTA/CHA call graph of golang.org/x/tools v0.50.0 model the program faithfully (no reflection/unsafe/cgo flows are followed)",
			"the rule is a necessary condition of the property, not the property: numeric results, schedules and crash outcomes are not decided",
			"build configuration analysed: default tags on linux/amd64 (thorough adds the listed extra configurations)",
		},
		"wall_s":     time.Since(o.started).Seconds(),
		"violations": nViol + nUnd,
	}
	if !o.noWrite {
		os.MkdirAll(filepath.Join(o.verifDir, "evidence"), 0o755)
		b, _ := json.MarshalIndent(ev, "", " ")
		if err := os.WriteFile(filepath.Join(o.verifDir, "evidence", r.Property+".json"), b, 0o644); err != nil {
			fmt.Println("error writing evidence:", err)
			return 1
		}
	}
	fmt.Printf("%s tier=%s obligations=%d ok=%d known=%d violations=%d undecided=%d wall=%.1fs\n", r.Property, o.tier, len(r.Obs), nOK, nKnown, nViol, nUnd, time.Since(o.started).Seconds())
	if nViol+nUnd > 0 {
		return 1
	}
	return 0
}

func sanitize(s string) string {
	return strings.Map(func(r rune) rune {
		if r >= 'a' && r <= 'z' || r >= 'A' && r <= 'Z' || r >= '0' && r <= '9' || r == '-' {
			return r
		}
		return '_'
	}, s)
}
