package main

// rules_r4.go — rules added for the fourth round of seeded changes (shared helpers, unit conversions, boundary values).

import (
	"fmt"
	"go/token"
	"go/types"
	"strings"

	"golang.org/x/tools/go/ssa"
)

// ruleGRDbitset: the visited set of a search is sized from the node counter read at the START of the search; inserts
// that run meanwhile link higher ids into the neighbourhood being walked. BitSet.Add must therefore never index past
// its buckets: the store is reached only after a grow, or on the in-range edge of a comparison with the bucket count.
func ruleGRDbitset(w *World, r *Report) {
	r.Doc("GRD-bitset", "every element access of BitSet.buckets with a computed index is reached only after bs.grow, or on the in-range edge of a comparison of that index with len(bs.buckets)", 2)
	n := 0
	for _, fn := range w.pkgSSAFuncs(hnswPkg) {
		sig := fn.Signature
		if sig.Recv() == nil || typeLabelShort(sig.Recv().Type()) != "BitSet" || fn.Name() == "grow" {
			continue
		}
		isGrow := func(in ssa.Instruction) bool { return isModCall(in, hnswPkg, "BitSet.grow") }
		k := 0
		for _, b := range fn.Blocks {
			for _, in := range b.Instrs {
				ia, ok := in.(*ssa.IndexAddr)
				if !ok || mapFieldOfSlice(ia.X) != "buckets" {
					continue
				}
				if _, isConst := ia.Index.(*ssa.Const); isConst || isIncrementing(ia.Index) {
					continue // range loops and constants are in bounds by construction
				}
				n++
				k++
				idx := ia.Index
				inRange := func(x ssa.Instruction) bool {
					bo, ok := x.(*ssa.BinOp)
					if !ok {
						return false
					}
					isLen := func(v ssa.Value) bool {
						for _, leaf := range valueRoots(v) {
							if c, ok := leaf.(*ssa.Call); ok {
								if lc, isL := isBuiltinCall(c, "len"); isL && mapFieldOfSlice(lc.Call.Args[0]) == "buckets" {
									return true
								}
							}
						}
						return false
					}
					return (sameVal(bo.X, idx) && isLen(bo.Y)) || (sameVal(bo.Y, idx) && isLen(bo.X))
				}
				ii := ssa.Instruction(ia)
				tgt := func(x ssa.Instruction) bool { return x == ii }
				// accepted: grow precedes on the out-of-range edge — i.e. no path to the access that passed the
				// out-of-range edge without grow; simplest exact statement: from every out-of-range edge, the access is
				// reached only through grow
				okAll := len(findInstrs(fn, inRange)) > 0
				var wit []ssa.Instruction
				for _, cmp := range findInstrs(fn, inRange) {
					bo := cmp.(*ssa.BinOp)
					t, f := condEdges(bo)
					var outEdges []edgeKey
					idxLeft := sameVal(bo.X, idx)
					switch {
					case bo.Op == token.GEQ && idxLeft, bo.Op == token.LEQ && !idxLeft:
						outEdges = t
					case bo.Op == token.LSS && idxLeft, bo.Op == token.GTR && !idxLeft:
						outEdges = f
					default:
						okAll = false
					}
					for _, e := range outEdges {
						if found, wv := (pathQuery{fn: fn, target: tgt, avoid: isGrow}).find(ipos{e.from.Succs[e.succ], -1}); found {
							okAll, wit = false, wv
						}
					}
				}
				if okAll {
					// and no path to the access that avoids the comparison altogether
					if found, wv := (pathQuery{fn: fn, target: tgt, avoid: func(x ssa.Instruction) bool { return inRange(x) || isGrow(x) }}).find(entryPos(fn)); found {
						okAll, wit = false, wv
					}
				}
				r.Cond(okAll, "GRD-bitset", fmt.Sprintf("BitSet.%s:buckets-access#%d:in-range-or-grown", fn.Name(), k), w.Pos(ia.Pos()), "the bucket is accessed only in range, or after grow", "BitSet."+fn.Name()+" indexes its buckets without making sure the index is in range: the visited set of a search is sized once from the node counter read at its start, and ids inserted meanwhile lie beyond it — a search that runs concurrently with inserts panics (index out of range) instead of returning", w.witness(wit)...)
			}
		}
	}
	if n == 0 {
		r.Und("GRD-bitset", "anchor:BitSet", "", "no computed access of BitSet.buckets found")
	}
}

// mapFieldOfSlice: v is (a load of) a slice stored in a struct field; returns the field name.
func mapFieldOfSlice(v ssa.Value) string {
	for _, leaf := range valueRoots(v) {
		ld, ok := leaf.(*ssa.UnOp)
		if !ok || ld.Op != token.MUL {
			continue
		}
		if fa, ok := ld.X.(*ssa.FieldAddr); ok {
			_, f := structFieldName(fa.X.Type(), fa.Field)
			return f
		}
	}
	return ""
}

// ruleGRDownmeta: nobody outside pkg/core gets the stored metadata map of a node. Every function of pkg/core that
// returns a map[string]any hands out a map it made itself (or nil), never the value found in DB.metadataMap: readers
// serialise the result without any lock while writers update the stored map.
func ruleGRDownmeta(w *World, r *Report) {
	r.Doc("GRD-own-meta", "every pkg/core function that looks a node's metadata up in DB.metadataMap and returns a map[string]any returns a map allocated in that function (or nil), never the stored map", 1)
	n := 0
	for _, fn := range w.pkgSSAFuncs("pkg/core") {
		if fn.Parent() != nil {
			continue
		}
		res := fn.Signature.Results()
		mi := -1
		for i := 0; i < res.Len(); i++ {
			if mt, ok := res.At(i).Type().Underlying().(*types.Map); ok && isStringType(mt.Key()) {
				if _, isIface := mt.Elem().Underlying().(*types.Interface); isIface {
					mi = i
				}
			}
		}
		if mi < 0 {
			continue
		}
		// does it read DB.metadataMap?
		reads := false
		for _, b := range fn.Blocks {
			for _, in := range b.Instrs {
				if lk, ok := in.(*ssa.Lookup); ok {
					for _, leaf := range valueRoots(lk.X) {
						v := leaf
						if ex, ok := v.(*ssa.Extract); ok {
							v = ex.Tuple
						}
						if l2, ok := v.(*ssa.Lookup); ok && mapFieldOf(l2.X) == "metadataMap" {
							reads = true
						}
					}
					if mapFieldOf(lk.X) == "metadataMap" {
						reads = true
					}
				}
			}
		}
		if !reads {
			continue
		}
		k := 0
		for _, b := range fn.Blocks {
			rt, ok := b.Instrs[len(b.Instrs)-1].(*ssa.Return)
			if !ok || len(rt.Results) <= mi {
				continue
			}
			for _, leaf := range valueRoots(retVal(rt, mi)) {
				if isNilConst(leaf) {
					continue
				}
				n++
				k++
				_, fresh := leaf.(*ssa.MakeMap)
				if c, ok := leaf.(*ssa.Call); ok {
					// a helper of the same package that itself satisfies the rule is checked at its own definition
					if g := c.Call.StaticCallee(); g != nil && relPkgOfFn(g) == "pkg/core" {
						fresh = true
					}
				}
				r.Cond(fresh, "GRD-own-meta", fmt.Sprintf("%s:return#%d:own-map", shortFn(fn), k), w.Pos(rt.Pos()), "returns a map made in this function", shortFn(fn)+" returns the metadata map that is stored in the database instead of a copy: result hydration (VGet, VGetMany, search results) hands live internal state to clients, which read and serialise it without a lock while VSetMetadata/VReinforce write to it — a fatal 'concurrent map iteration and map write', and results a client already holds change under it")
			}
		}
	}
	if n == 0 {
		r.Und("GRD-own-meta", "anchor:metadata-getters", "", "no pkg/core function returns a node's metadata map")
	}
}

func relPkgOfFn(fn *ssa.Function) string {
	if o, ok := fn.Object().(*types.Func); ok {
		return relPkg(o)
	}
	return ""
}

// ruleGRDdecaylocal: the decay model of one memory does not leak into the next. The model handed to
// calculateTimeDecayModel is the index default or THIS memory's _decay_model override: on the way back from the call
// argument no loop-carried variable (a phi at a loop header) may be fed by a _decay_model look-up.
func ruleGRDdecaylocal(w *World, r *Report) {
	r.Doc("GRD-decay-local", "in every caller of calculateTimeDecayModel the model argument is not a loop-carried variable fed by a _decay_model look-up: a per-memory override applies to that memory only", 2)
	dm := w.FuncObj("pkg/engine", "calculateTimeDecayModel")
	if dm == nil {
		r.Und("GRD-decay-local", "anchor:calculateTimeDecayModel", "", "anchor lost")
		return
	}
	n := 0
	for _, fi := range w.ModuleFuncs() {
		if relPkg(fi.Obj) != "pkg/engine" {
			continue
		}
		root := w.SSAFunc(fi.Obj)
		if root == nil {
			continue
		}
		for _, f := range append([]*ssa.Function{root}, closuresOf(root)...) {
			for i, c := range findInstrs(f, callsTo(dm)) {
				call := c.(*ssa.Call)
				// the model parameter: the string-typed one
				var arg ssa.Value
				for _, a := range call.Call.Args {
					if isStringType(a.Type()) {
						arg = a
					}
				}
				if arg == nil {
					continue
				}
				n++
				fromOverride := func(v ssa.Value) bool {
					for _, leaf := range valueRoots(v) {
						x := leaf
						if ex, ok := x.(*ssa.Extract); ok {
							x = ex.Tuple
						}
						if ta, ok := x.(*ssa.TypeAssert); ok {
							x = ta.X
						}
						if lk, ok := x.(*ssa.Lookup); ok {
							if s, ok := constString(lk.Index); ok && s == "_decay_model" {
								return true
							}
						}
					}
					return false
				}
				bad := false
				seen := map[ssa.Value]bool{}
				var walk func(v ssa.Value)
				walk = func(v ssa.Value) {
					if seen[v] {
						return
					}
					seen[v] = true
					p, ok := v.(*ssa.Phi)
					if !ok {
						return
					}
					for k, e := range p.Edges {
						pred := p.Block().Preds[k]
						if p.Block().Dominates(pred) && fromOverride(e) { // back edge of a loop whose header holds p
							bad = true
						}
						walk(e)
					}
				}
				walk(arg)
				r.Cond(!bad, "GRD-decay-local", fmt.Sprintf("%s:decay#%d:model-not-loop-carried", shortName(fi.Obj), i+1), w.Pos(call.Pos()), "the model is the default or this memory's own override", shortName(fi.Obj)+" keeps the decay model in a variable that survives the iteration: once one result carries a _decay_model override, every result visited after it is decayed with that memory's model instead of the index default")
			}
		}
	}
	if n == 0 {
		r.Und("GRD-decay-local", "anchor:decay-sites", "", "no caller of calculateTimeDecayModel found")
	}
}

// ruleUNI2: a real-valued quantity is converted to an integer duration LAST. Converting first and scaling afterwards
// (time.Duration(days*24) * time.Hour) truncates to whole units of the scale: a 0.03-day half-life becomes 0 —
// "no decay" — and 2.4 h becomes 2 h.
func ruleUNI2(w *World, r *Report) {
	r.Doc("UNI-2", "no float→integer conversion in the API and engine layers is followed by a multiplication with a time unit (a constant ≥ 1e6): real-valued durations (half_life_days …) are scaled as floats and truncated once, to nanoseconds", 1)
	n := 0
	for _, fi := range w.ModuleFuncs() {
		rp := relPkg(fi.Obj)
		if !(rp == "internal/mcp" || rp == "internal/server" || rp == "pkg/engine" || strings.HasPrefix(rp, "pkg/core")) {
			continue
		}
		root := w.SSAFunc(fi.Obj)
		if root == nil {
			continue
		}
		for _, f := range append([]*ssa.Function{root}, closuresOf(root)...) {
			for _, b := range f.Blocks {
				for _, in := range b.Instrs {
					cv, ok := in.(*ssa.Convert)
					if !ok || !isFloat(cv.X.Type()) {
						continue
					}
					bt, ok := cv.Type().Underlying().(*types.Basic)
					if !ok || bt.Info()&types.IsInteger == 0 {
						continue
					}
					for _, ref := range *cv.Referrers() {
						bo, ok := ref.(*ssa.BinOp)
						if !ok || bo.Op != token.MUL {
							continue
						}
						other := bo.Y
						if other == ssa.Value(cv) {
							other = bo.X
						}
						if c, ok := constInt(other); ok && c >= 1_000_000 {
							n++
							r.Bad("UNI-2", shortName(fi.Obj)+":converts-before-scaling", w.Pos(cv.Pos()), shortName(fi.Obj)+" converts a real value to an integer and multiplies by a time unit afterwards: the value is truncated to whole units of that scale — a sub-unit half-life becomes 0 (which the engine reads as 'no decay'), 2.4 h becomes 2 h")
						}
					}
				}
			}
		}
	}
	if n == 0 {
		r.Ok("UNI-2", "real-valued-durations-scaled-before-conversion", "", "no float→integer conversion is scaled by a time unit afterwards")
	}
}

// ruleGRDfrontier: the arena's bump pointer only moves forward. Slots below nextPhysSlot may have been handed out
// (also in chunks that are not materialised yet, which the compactor's emptiness check cannot see); setting the
// pointer back makes later allocations walk over them again — two live ids share one slot.
func ruleGRDfrontier(w *World, r *Report) {
	r.Doc("GRD-frontier", "every store to VectorArena.nextPhysSlot outside the constructor and the state restore is an increment of its own value", 3)
	n := 0
	for _, fn := range w.pkgSSAFuncs("pkg/storage/mmap") {
		root := fn
		for root.Parent() != nil {
			root = root.Parent()
		}
		switch root.Name() {
		case "NewVectorArena", "SetState", "LoadState", "RestoreState":
			continue
		}
		k := 0
		for _, b := range fn.Blocks {
			for _, in := range b.Instrs {
				st, ok := in.(*ssa.Store)
				if !ok {
					continue
				}
				fa, ok := st.Addr.(*ssa.FieldAddr)
				if !ok {
					continue
				}
				if _, f := structFieldName(fa.X.Type(), fa.Field); f != "nextPhysSlot" {
					continue
				}
				if baseIsLocalAlloc(fa.X, 0) {
					continue
				}
				n++
				k++
				inc := false
				if bo, ok := st.Val.(*ssa.BinOp); ok && bo.Op == token.ADD {
					if c, ok := constInt(bo.Y); ok && c > 0 {
						if ld, ok := bo.X.(*ssa.UnOp); ok && ld.Op == token.MUL {
							if fa2, ok := ld.X.(*ssa.FieldAddr); ok {
								if _, f2 := structFieldName(fa2.X.Type(), fa2.Field); f2 == "nextPhysSlot" {
									inc = true
								}
							}
						}
					}
				}
				r.Cond(inc, "GRD-frontier", fmt.Sprintf("%s:nextPhysSlot-store#%d:increment", shortFn(root), k), w.Pos(st.Pos()), "the bump pointer is incremented", shortFn(root)+" stores something other than nextPhysSlot+k into the arena's bump pointer: a slot that was already handed out (possibly in a chunk that is not materialised yet) is handed out again, two live ids share one physical slot and each reads the other's bytes")
			}
		}
	}
	if n == 0 {
		r.Und("GRD-frontier", "anchor:nextPhysSlot", "", "no store to VectorArena.nextPhysSlot found")
	}
}

// ruleWEB6b: no handler sizes an allocation by a request field that has no upper bound.
func ruleWEB6b(w *World, r *Report) {
	r.Doc("WEB-6b", "every make([]T, len, cap) in an HTTP handler whose length or capacity comes from a decoded request field has a finite upper bound on the path (a comparison with a constant, or min())", 1)
	n, bad := 0, 0
	for _, fi := range serverHandlers(w, r, "WEB-6b") {
		root := w.SSAFunc(fi.Obj)
		if root == nil {
			continue
		}
		for _, f := range append([]*ssa.Function{root}, closuresOf(root)...) {
			for _, b := range f.Blocks {
				for _, in := range b.Instrs {
					mk, ok := in.(*ssa.MakeSlice)
					if !ok {
						continue
					}
					for _, sz := range []ssa.Value{mk.Len, mk.Cap} {
						fromReq := false
						for _, leaf := range valueRoots(sz) {
							if ld, ok := leaf.(*ssa.UnOp); ok && ld.Op == token.MUL {
								if fa, ok := ld.X.(*ssa.FieldAddr); ok && baseIsLocalAlloc(fa.X, 0) {
									fromReq = true // a field of the locally declared request struct
								}
							}
						}
						if !fromReq {
							continue
						}
						n++
						// upper bound at the make: refine along the single-predecessor chain into this block
						ub := boundInf
						if len(mk.Block().Preds) == 1 {
							ub = intBound(sz, mk.Block().Preds[0], mk.Block(), true, 0)
						} else {
							ub = intBound(sz, nil, nil, true, 0)
						}
						if ub >= boundInf {
							bad++
							r.Bad("WEB-6b", fmt.Sprintf("%s:make-sized-by-request", canonName(fi.Obj)), w.Pos(mk.Pos()), canonName(fi.Obj)+" allocates a slice whose size comes from a request field without an upper bound: a huge value panics (makeslice: cap out of range → answered through the panic-recovery path) or exhausts memory")
						}
					}
				}
			}
		}
	}
	if bad == 0 {
		r.Ok("WEB-6b", "request-sized-allocations-are-bounded", "", fmt.Sprintf("%d request-sized allocation(s), all bounded", n))
	}
}

// ruleGRDchunkloop: FixedSizeChunker emits a first window for every non-empty text, and its callers never reach its
// "invalid parameters → one chunk with the whole text" fallback with a valid size.
func ruleGRDchunkloop(w *World, r *Report) {
	r.Doc("GRD-chunkloop", "FixedSizeChunker's loop is guarded by the bare window start compared with the length (so the window at 0 is emitted for every non-empty text); every caller in pkg/rag passes an overlap that a dominating comparison shows to be smaller than the size", 1)
	fi := w.Func(textPkg, "FixedSizeChunker")
	if fi == nil {
		r.Und("GRD-chunkloop", "anchor:FixedSizeChunker", "", "anchor lost")
		return
	}
	fn := w.SSAFunc(fi.Obj)
	okLoop, found := false, false
	for _, b := range fn.Blocks {
		isHeader := false
		for _, p := range b.Preds {
			if b.Dominates(p) {
				isHeader = true
			}
		}
		if !isHeader || len(b.Instrs) == 0 {
			continue
		}
		iff, ok := b.Instrs[len(b.Instrs)-1].(*ssa.If)
		if !ok {
			continue
		}
		bo, ok := iff.Cond.(*ssa.BinOp)
		if !ok {
			continue
		}
		found = true
		if bo.Op == token.LSS || bo.Op == token.NEQ {
			if p, ok := bo.X.(*ssa.Phi); ok && p.Block() == b {
				okLoop = true
			}
		}
		if bo.Op == token.GTR {
			if p, ok := bo.Y.(*ssa.Phi); ok && p.Block() == b {
				okLoop = true
			}
		}
	}
	if !found {
		r.Und("GRD-chunkloop", "FixedSizeChunker:loop-guard", w.Pos(fi.Decl.Pos()), "no loop found in FixedSizeChunker")
	} else {
		r.Cond(okLoop, "GRD-chunkloop", "FixedSizeChunker:first-window-always-emitted", w.Pos(fi.Decl.Pos()), "the loop guard compares the window start itself with the length", "FixedSizeChunker's loop guard is not `start < length` on the bare window start: the window at 0 is skipped for some non-empty texts (for instance those no longer than the overlap), which then yield no chunk at all — the document is silently dropped")
	}
	// callers in pkg/rag
	for _, cf := range w.pkgSSAFuncs(ragPkg) {
		for i, c := range findInstrs(cf, callsTo(fi.Obj)) {
			call := c.(*ssa.Call)
			size, ov := call.Call.Args[1], call.Call.Args[2]
			isCmp := func(in ssa.Instruction) bool {
				bo, ok := in.(*ssa.BinOp)
				if !ok {
					return false
				}
				return (sameVal(bo.X, ov) && sameVal(bo.Y, size)) || (sameVal(bo.X, size) && sameVal(bo.Y, ov))
			}
			okc := false
			for _, cmp := range findInstrs(cf, isCmp) {
				bo := cmp.(*ssa.BinOp)
				want := false
				switch {
				case sameVal(bo.X, ov) && bo.Op == token.LSS, sameVal(bo.X, size) && bo.Op == token.GTR:
					want = true
				case sameVal(bo.X, ov) && bo.Op == token.GEQ, sameVal(bo.X, size) && bo.Op == token.LEQ:
					want = false
				default:
					continue
				}
				cc := ssa.Instruction(call)
				if g, _ := mustPassGuard(cf, func(x ssa.Instruction) bool { return x == cc }, func(x ssa.Instruction) bool { return x == cmp }, func(x ssa.Instruction) ssa.Value { return x.(*ssa.BinOp) }, want, nil); g {
					okc = true
				}
			}
			r.Cond(okc, "GRD-chunkloop", fmt.Sprintf("%s:FixedSizeChunker#%d:overlap-below-size", shortFn(cf), i+1), w.Pos(call.Pos()), "called only where overlap < size was established", shortFn(cf)+" calls FixedSizeChunker without having established overlap < size: the chunker treats overlap ≥ size as invalid parameters and returns the WHOLE text as one chunk — far above size + overlap")
		}
	}
}
