package main

// rules_idmap.go — C04: bookkeeping invariants of the HNSW index whose breach makes reads wrong after
// particular histories (id allocation, the two id maps, tombstones, rebuild sites, batch atomicity).

import (
	"fmt"
	"go/ast"
	"go/token"
	"go/types"
	"strings"

	"golang.org/x/tools/go/ssa"
	"golang.org/x/tools/go/types/typeutil"
)

// ---------- GRD-idalloc ----------

func ruleGRDidalloc(w *World, r *Report) {
	r.Doc("GRD-idalloc", "every allocation of internal ids from Index.nodeCounter uses the same convention (first id = old counter + 1): the single-insert and the batch path must reserve disjoint ids", 2)
	n := 0
	offsets := map[string]int64{}
	for _, fi := range w.ModuleFuncs() {
		if relPkg(fi.Obj) != "pkg/core/hnsw" {
			continue
		}
		fn := w.SSAFunc(fi.Obj)
		if fn == nil {
			continue
		}
		for _, f := range append([]*ssa.Function{fn}, closuresOf(fn)...) {
			for _, b := range f.Blocks {
				for _, in := range b.Instrs {
					c, ok := in.(*ssa.Call)
					if !ok {
						continue
					}
					o := calleeObj(&c.Call)
					if o == nil || o.Pkg() == nil || o.Pkg().Path() != "sync/atomic" || shortName(o) != "Uint64.Add" || !recvIsField(c, "nodeCounter") {
						continue
					}
					n++
					delta := c.Call.Args[1]
					// how is the first allocated id derived from the result?  id = res - delta + k  →  offset k (+delta when nothing is subtracted and delta==1)
					off, ok2 := allocOffset(c, delta)
					key := fmt.Sprintf("%s#%d", shortName(fi.Obj), n)
					if !ok2 {
						r.Und("GRD-idalloc", "alloc@"+key, w.Pos(c.Pos()), "cannot see how ids are derived from nodeCounter.Add's result")
						continue
					}
					offsets[key] = off
					r.Cond(off == 1, "GRD-idalloc", "alloc@"+shortName(fi.Obj), w.Pos(c.Pos()), "first allocated id = old counter + 1",
						fmt.Sprintf("%s allocates ids starting at old counter + %d while the other paths start at old counter + 1: after an insert through the other path the first id handed out here is the id of the most recently added node, whose slot, vector and reverse mapping are overwritten", shortName(fi.Obj), off))
				}
			}
		}
	}
	if n == 0 {
		r.Und("GRD-idalloc", "anchor:nodeCounter.Add", "", "no id allocation from Index.nodeCounter found")
	}
}

// allocOffset: the allocated first id expressed as old+offset, where res = old+delta.
func allocOffset(c *ssa.Call, delta ssa.Value) (int64, bool) {
	dconst, isConst := constInt(delta)
	// follow the single arithmetic chain from the result
	var walk func(v ssa.Value, minusDelta bool, add int64, depth int) (int64, bool)
	walk = func(v ssa.Value, minusDelta bool, add int64, depth int) (int64, bool) {
		if depth > 6 {
			return 0, false
		}
		refs := v.Referrers()
		if refs == nil {
			return 0, false
		}
		var res int64
		found := false
		for _, ref := range *refs {
			switch x := ref.(type) {
			case *ssa.BinOp:
				switch {
				case x.Op == token.SUB && x.X == v && sameValue(stripConv(x.Y), stripConv(delta)):
					if o, ok := walk(x, true, add, depth+1); ok {
						return o, true
					}
				case x.Op == token.ADD && x.X == v:
					if k, ok := constInt(x.Y); ok {
						if o, ok := walk(x, minusDelta, add+k, depth+1); ok {
							return o, true
						}
					}
					// id = start + i  (loop index): terminal use
					found = true
				case x.Op == token.SUB && x.X == v:
					if k, ok := constInt(x.Y); ok {
						if o, ok := walk(x, minusDelta, add-k, depth+1); ok {
							return o, true
						}
					}
				}
			case *ssa.Convert:
				if o, ok := walk(x, minusDelta, add, depth+1); ok {
					return o, true
				}
				found = true
			default:
				found = true
			}
		}
		if found {
			if minusDelta {
				res = add
			} else if isConst {
				res = dconst + add
			} else {
				return 0, false
			}
			return res, true
		}
		return 0, false
	}
	return walk(c, false, 0, 0)
}

// ---------- GRD-list: listings and counts use the tombstone flag ----------

func ruleGRDlist(w *World, r *Report) {
	r.Doc("GRD-list", "every read path that enumerates nodes (cursor listing, iteration, live-id set) admits a node only through the not-Deleted test of that node", 3)
	for _, nm := range []string{"Index.GetIDsByCursor", "Index.Iterate", "Index.IterateRaw", "Index.GetAllValidNodeIDs"} {
		fi := w.Func("pkg/core/hnsw", nm)
		if fi == nil {
			r.Und("GRD-list", "anchor:"+nm, "", "anchor lost")
			continue
		}
		fn := w.SSAFunc(fi.Obj)
		deletedLoad := func(in ssa.Instruction) bool {
			c, ok := in.(*ssa.Call)
			if !ok {
				return false
			}
			o := calleeObj(&c.Call)
			return o != nil && o.Pkg() != nil && o.Pkg().Path() == "sync/atomic" && shortName(o) == "Bool.Load" && recvIsField(c, "Deleted")
		}
		// the "emit" of a node: append of node.Id, bitmap Add, or a call of the callback parameter
		emit := func(in ssa.Instruction) bool {
			c, ok := in.(*ssa.Call)
			if !ok {
				return false
			}
			if b, ok := c.Call.Value.(*ssa.Builtin); ok && b.Name() == "append" {
				return true
			}
			if isMethodCall(in, "RoaringBitmap/roaring", "Bitmap.Add") {
				return true
			}
			if _, ok := c.Call.Value.(*ssa.Parameter); ok {
				return true
			}
			return false
		}
		emits := findInstrs(fn, emit)
		if len(emits) == 0 {
			r.Und("GRD-list", nm+":emit", w.Pos(fi.Decl.Pos()), "cannot find where nodes are emitted")
			continue
		}
		for i, e := range emits {
			ee := e
			ok, wit := mustPassGuard(fn, func(in ssa.Instruction) bool { return in == ee }, deletedLoad, callValue, false, nil)
			r.Cond(ok, "GRD-list", fmt.Sprintf("%s:emit#%d:not-deleted", nm, i+1), w.Pos(e.Pos()), "emitted only through the Deleted==false edge",
				nm+" can emit a node without passing its not-Deleted test (for example by using presence in an id map instead): a deleted id is listed, or a re-added id is listed twice", w.witness(wit)...)
		}
	}
}

// ---------- SIB-2: rebuild sites carry the configuration over ----------

func ruleSIB2(w *World, r *Report) {
	r.Doc("SIB-2", "every site that (re)builds an index installs the same configuration on it: auto-link rules, memory (decay) config and maintenance config", 9)
	setters := []string{"Index.SetAutoLinks", "Index.SetMemoryConfig", "Index.UpdateMaintenanceConfig"}
	sites := []struct{ pkg, fn string }{{"pkg/core", "DB.LoadFromSnapshot"}, {"pkg/engine", "Engine.replayAOF"}, {"pkg/core", "DB.Compress"}}
	for _, s := range sites {
		fi := w.Func(s.pkg, s.fn)
		if fi == nil {
			r.Und("SIB-2", "anchor:"+s.fn, "", "anchor lost")
			continue
		}
		called := map[*types.Func]bool{}
		for _, d := range append([]*FuncInfo{fi}, w.helperDecls(fi)...) { // (a phase of the rebuild may be a function of its own)
			info := d.Pkg.TypesInfo
			ast.Inspect(d.Decl.Body, func(n ast.Node) bool {
				if c, ok := n.(*ast.CallExpr); ok {
					if f := typeutil.StaticCallee(info, c); f != nil {
						called[f.Origin()] = true
					}
				}
				return true
			})
		}
		for _, st := range setters {
			o := w.FuncObj("pkg/core/hnsw", st)
			if o == nil {
				r.Und("SIB-2", "anchor:"+st, "", "anchor lost")
				continue
			}
			r.Cond(called[o], "SIB-2", s.fn+":"+st, w.Pos(fi.Decl.Pos()), "configuration is carried over", s.fn+" rebuilds an index without "+st+": after this path (restore / replay / compression) the index silently runs with default settings")
		}
	}
}

// ---------- SIB-5: batches validate before they mutate ----------

func ruleSIB5(w *World, r *Report) {
	r.Doc("SIB-5", "every batch insertion path checks all ids (already present, repeated inside the batch) before its first mutation", 2)
	fi := w.Func("pkg/core/hnsw", "Index.addBatchInternal")
	if fi == nil {
		r.Und("SIB-5", "anchor:Index.addBatchInternal", "", "anchor lost")
		return
	}
	fn := w.SSAFunc(fi.Obj)
	// validation = a lookup in externalToInternalID (directly or via a helper that does nothing else than look up)
	isLookup := func(f *ssa.Function) func(ssa.Instruction) bool {
		return func(in ssa.Instruction) bool {
			lk, ok := in.(*ssa.Lookup)
			if !ok {
				return false
			}
			if ld, ok := lk.X.(*ssa.UnOp); ok {
				if fa, ok := ld.X.(*ssa.FieldAddr); ok && fieldName(fa) == "externalToInternalID" {
					return true
				}
			}
			return false
		}
	}
	validates := func(in ssa.Instruction) bool {
		if isLookup(fn)(in) {
			return true
		}
		if c, ok := in.(*ssa.Call); ok {
			if cf := c.Call.StaticCallee(); cf != nil && inModule(cf) && len(cf.Blocks) > 0 {
				if len(findInstrs(cf, isLookup(cf))) > 0 && len(findInstrs(cf, func(x ssa.Instruction) bool { _, ok := x.(*ssa.MapUpdate); return ok })) <= 1 {
					// helper that looks ids up (it may fill a local 'seen' set) and returns an error
					sig := cf.Signature
					if sig.Results().Len() == 1 && isErrorType(sig.Results().At(0).Type()) {
						return true
					}
				}
			}
		}
		return false
	}
	mutates := func(in ssa.Instruction) bool {
		if mu, ok := in.(*ssa.MapUpdate); ok {
			if ld, ok := mu.Map.(*ssa.UnOp); ok {
				if fa, ok := ld.X.(*ssa.FieldAddr); ok && (fieldName(fa) == "externalToInternalID" || fieldName(fa) == "internalToExternalID") {
					return true
				}
			}
		}
		if c, ok := in.(*ssa.Call); ok {
			if o := calleeObj(&c.Call); o != nil && relPkg(o) == "pkg/core/hnsw" {
				switch shortName(o) {
				case "Index.Add", "Index.addActive":
					return true
				}
			}
		}
		return false
	}
	muts := findInstrs(fn, mutates)
	if len(muts) == 0 {
		r.Und("SIB-5", "addBatchInternal:mutations", w.Pos(fi.Decl.Pos()), "cannot find the insertion steps")
		return
	}
	for i, m := range muts {
		mm := m
		found, wit := (pathQuery{fn: fn, target: func(in ssa.Instruction) bool { return in == mm }, avoid: validates, blocked: zeroIterEdges(fn, validates)}).find(entryPos(fn))
		r.Cond(!found, "SIB-5", fmt.Sprintf("addBatchInternal:validate-before-mutation#%d", i+1), w.Pos(m.Pos()), "an id check over the batch precedes this mutation on every path",
			"addBatchInternal can start inserting before the ids of the batch were checked: a batch rejected at item k leaves items 0..k-1 behind (the caller was told the batch failed)", w.witness(wit)...)
	}
	// the validation is complete before the first mutation: once an id was registered or a node inserted, no id
	// check that could still reject the batch may follow (check-then-register in one loop leaves items 0..k-1 behind)
	for i, m := range muts {
		found, wit := (pathQuery{fn: fn, target: validates}).find(posOf(m))
		r.Cond(!found, "SIB-5", fmt.Sprintf("addBatchInternal:no-validation-after-mutation#%d", i+1), w.Pos(m.Pos()), "no id check follows this mutation",
			"addBatchInternal checks ids while it is already registering/inserting items (an id lookup is reachable after this mutation): when item k is rejected, items 0..k-1 stay registered — the rejected batch has changed the index", w.witness(wit)...)
	}
	// intra-batch duplicates: the validation must also consult a set local to the call
	hasSeen := false
	for _, f := range append([]*ssa.Function{fn}, calledStatic(fn)...) {
		for _, in := range findInstrs(f, func(x ssa.Instruction) bool { _, ok := x.(*ssa.MakeMap); return ok }) {
			mm := in.(*ssa.MakeMap)
			if mt, ok := mm.Type().Underlying().(*types.Map); ok {
				if b, ok := mt.Key().Underlying().(*types.Basic); ok && b.Kind() == types.String {
					if _, ok := mt.Elem().Underlying().(*types.Struct); ok {
						hasSeen = true
					}
				}
			}
		}
	}
	r.Cond(hasSeen, "SIB-5", "addBatchInternal:intra-batch-duplicates", w.Pos(fi.Decl.Pos()), "ids repeated inside one batch are detected with a local set", "addBatchInternal only checks ids against the index, not against the rest of the batch: the same id twice registers two nodes under one external id (a counted, listed, unreachable zombie)")
}

func calledStatic(fn *ssa.Function) []*ssa.Function {
	var out []*ssa.Function
	for _, b := range fn.Blocks {
		for _, in := range b.Instrs {
			if c, ok := in.(*ssa.Call); ok {
				if cf := c.Call.StaticCallee(); cf != nil && inModule(cf) && len(cf.Blocks) > 0 {
					out = append(out, cf)
				}
			}
		}
	}
	return out
}

// ruleGRDdupcheck: check-then-register is atomic.
func ruleGRDdupcheck(w *World, r *Report) {
	r.Doc("GRD-dupcheck", "every registration of an external id (externalToInternalID[id] = n) in the insertion paths is preceded, inside the same exclusive hold of metaMu, by a lookup of that map: a duplicate test made under an earlier (read) hold lets two concurrent inserts of one id both pass and create two live nodes", 1)
	n := 0
	for _, name := range []string{"Index.addActive", "Index.addBatchInternal"} {
		fi := w.Func("pkg/core/hnsw", name)
		if fi == nil {
			r.Und("GRD-dupcheck", "anchor:"+name, "", "anchor lost")
			continue
		}
		fn := w.SSAFunc(fi.Obj)
		isMapOf := func(v ssa.Value) bool {
			ld, ok := v.(*ssa.UnOp)
			if !ok {
				return false
			}
			fa, ok := ld.X.(*ssa.FieldAddr)
			return ok && fieldName(fa) == "externalToInternalID"
		}
		isLookup := func(in ssa.Instruction) bool {
			lk, ok := in.(*ssa.Lookup)
			return ok && isMapOf(lk.X)
		}
		isCheck := func(in ssa.Instruction) bool {
			if isLookup(in) {
				return true
			}
			// a helper that only looks ids up and returns an error (checkBatchIDs takes its own read lock: it does
			// NOT count — the test must be made under the exclusive hold)
			return false
		}
		isWLock := func(in ssa.Instruction) bool {
			c, ok := in.(*ssa.Call)
			if !ok {
				return false
			}
			o := calleeObj(&c.Call)
			return o != nil && o.Pkg() != nil && o.Pkg().Path() == "sync" && shortName(o) == "RWMutex.Lock" && recvIsField(c, "metaMu")
		}
		locks := findInstrs(fn, isWLock)
		per := 0
		for _, b := range fn.Blocks {
			for _, in := range b.Instrs {
				mu, ok := in.(*ssa.MapUpdate)
				if !ok || !isMapOf(mu.Map) {
					continue
				}
				n++
				per++
				mm := ssa.Instruction(mu)
				bad := len(locks) == 0
				var wit []ssa.Instruction
				for _, l := range locks {
					if found, wt := (pathQuery{fn: fn, target: func(x ssa.Instruction) bool { return x == mm }, avoid: isCheck, blocked: zeroIterEdges(fn, isCheck)}).find(posOf(l)); found {
						bad, wit = true, append([]ssa.Instruction{l}, wt...)
					}
				}
				r.Cond(!bad, "GRD-dupcheck", fmt.Sprintf("%s:register#%d", name, per), w.Pos(mu.Pos()), "the id map is consulted after metaMu was write-locked and before the id is registered", name+" registers an external id under metaMu.Lock without having looked the id up since that lock was taken (the duplicate test, if any, ran under an earlier hold): two concurrent inserts of the same id both pass and both create a live node — searches return the id twice and one node can never be deleted", w.witness(wit)...)
			}
		}
	}
	if n < 2 {
		r.Und("GRD-dupcheck", "anchor:registrations", "", fmt.Sprintf("expected the id registrations of addActive and addBatchInternal, found %d", n))
	}
}

// ---------- ORD-validate: a request is validated before anything is torn down ----------

// ruleORDvalidate: DB.Compress replaces an index by a rebuilt one. The one step that can reject the request for a
// reason of the request itself — constructing the replacement (hnsw.New refuses unsupported metric/precision pairs)
// — must have succeeded before the first destructive step (closing the old index, moving or removing its arena
// directory, resetting the secondary indexes): a rejected compression must leave the index as it was.
func ruleORDvalidate(w *World, r *Report) {
	r.Doc("ORD-validate", "DB.Compress constructs (and thereby validates) the replacement index successfully before its first destructive step: closing the old index, renaming/removing its arena directory, resetting the secondary-index maps", 3)
	fi := w.Func("pkg/core", "DB.Compress")
	ctor := w.FuncObj("pkg/core/hnsw", "New")
	if fi == nil || ctor == nil {
		r.Und("ORD-validate", "anchor:DB.Compress/hnsw.New", "", "anchor lost")
		return
	}
	fn := w.SSAFunc(fi.Obj)
	isCtor := callsTo(ctor)
	if len(findInstrs(fn, isCtor)) == 0 {
		r.Und("ORD-validate", "DB.Compress:constructs-replacement", w.Pos(fi.Decl.Pos()), "DB.Compress no longer constructs the replacement index with hnsw.New (shape not recognised)")
		return
	}
	type step struct {
		name string
		pred func(ssa.Instruction) bool
	}
	steps := []step{
		{"old-index-closed", func(in ssa.Instruction) bool { return isModCall(in, "pkg/core/hnsw", "Index.Close") }},
		{"arena-directory-moved", func(in ssa.Instruction) bool {
			return isCallTo(in, "os", "Rename") || isCallTo(in, "os", "RemoveAll") || isCallTo(in, "os", "Remove")
		}},
		{"secondary-indexes-reset", func(in ssa.Instruction) bool {
			mu, ok := in.(*ssa.MapUpdate)
			if !ok {
				return false
			}
			ld, ok := mu.Map.(*ssa.UnOp)
			if !ok {
				return false
			}
			fa, ok := ld.X.(*ssa.FieldAddr)
			if !ok {
				return false
			}
			owner, _ := structFieldName(fa.X.Type(), fa.Field)
			return strings.HasSuffix(owner, "core.DB")
		}},
	}
	for _, st := range steps {
		sites := findInstrs(fn, st.pred)
		if len(sites) == 0 {
			r.Ok("ORD-validate", "DB.Compress:"+st.name+":after-construction", w.Pos(fi.Decl.Pos()), "step absent")
			continue
		}
		ok, wit := precedesWithSuccess(fn, isCtor, st.pred)
		r.Cond(ok, "ORD-validate", "DB.Compress:"+st.name+":after-construction", w.Pos(sites[0].Pos()), "reached only after hnsw.New succeeded", "DB.Compress can reach the step '"+st.name+"' before the replacement index was constructed successfully: an unsupported metric/precision pair (or a misspelt precision) is rejected only after the live index was closed / its files moved / its secondary indexes emptied — the rejected request destroys the index it was meant to leave untouched", w.witness(wit)...)
	}
}
