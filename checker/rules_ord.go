package main

// rules_ord.go — ORD: protocol ordering / typestate rules (snapshot, compaction, lazy writer, shutdown).

import (
	"fmt"
	"go/constant"
	"go/token"
	"go/types"
	"sort"
	"strings"

	"golang.org/x/tools/go/ssa"
)

type step struct {
	name string
	pred func(ssa.Instruction) bool
}

// precedesWithSuccess: every path that reaches an instruction matching b has executed a before,
// and did not leave a through its failure edge. Returns ok + witness.
func precedesWithSuccess(fn *ssa.Function, a, b func(ssa.Instruction) bool) (bool, []ssa.Instruction) {
	// 1. no path entry -> b avoiding a
	if found, wit := (pathQuery{fn: fn, target: b, avoid: a}).find(entryPos(fn)); found {
		return false, wit
	}
	// 2. from each a, through its failure edges, b is not reachable (without another a)
	for _, ai := range findInstrs(fn, a) {
		c, ok := ai.(*ssa.Call)
		if !ok {
			continue
		}
		// a later `a` that is itself always preceded by an earlier one does not carry the obligation
		others := func(in ssa.Instruction) bool { return in != ai && a(in) }
		if f0, _ := (pathQuery{fn: fn, target: func(in ssa.Instruction) bool { return in == ai }, avoid: others}).find(entryPos(fn)); !f0 {
			continue
		}
		for e := range failureEdges(fn, c) {
			start := ipos{e.from.Succs[e.succ], -1}
			if found, wit := (pathQuery{fn: fn, target: b, avoid: a}).find(start); found {
				return false, append([]ssa.Instruction{ai}, wit...)
			}
		}
	}
	return true, nil
}

func methodPred(w *World, rel, name string) func(ssa.Instruction) bool {
	return callsTo(w.FuncObj(rel, name))
}

// endSnapshotPred: the step that ends snapshot mode — EndSnapshotMode (the caller re-appends what it returns) or
// EndSnapshotModeRequeue (the writer puts the shadow writes back into its own queue in the same step).
func endSnapshotPred(w *World) func(ssa.Instruction) bool {
	var fs []*types.Func
	for _, n := range []string{"LazyAOFWriter.EndSnapshotMode", "LazyAOFWriter.EndSnapshotModeRequeue"} {
		if f := w.FuncObj("pkg/persistence", n); f != nil {
			fs = append(fs, f)
			fs = append(fs, w.forwardersOf(f)...)
		}
	}
	return callsTo(fs...)
}

// forwardersOf: the functions of the module that do nothing but call f and return what it returns (one block, one call):
// `func (e *Engine) leaveSnapshotMode() (int, error) { return e.AOF.EndSnapshotModeRequeue() }`. A call of a forwarder is a
// call of f for every ordering rule.
func (w *World) forwardersOf(f *types.Func) []*types.Func {
	if f == nil {
		return nil
	}
	var out []*types.Func
	for _, fi := range w.ModuleFuncs() {
		fn := w.SSAFunc(fi.Obj)
		if fn == nil || len(fn.Blocks) != 1 || fi.Obj == f {
			continue
		}
		var call *ssa.Call
		n := 0
		for _, in := range fn.Blocks[0].Instrs {
			if c, ok := in.(*ssa.Call); ok {
				n++
				call = c
			}
		}
		if n != 1 || calleeObj(&call.Call) != f {
			continue
		}
		ret, ok := fn.Blocks[0].Instrs[len(fn.Blocks[0].Instrs)-1].(*ssa.Return)
		if !ok || len(ret.Results) == 0 {
			continue
		}
		all := true
		for _, rv := range ret.Results {
			if rv == ssa.Value(call) {
				continue
			}
			if ex, ok := rv.(*ssa.Extract); ok && ex.Tuple == ssa.Value(call) {
				continue
			}
			all = false
		}
		if all {
			out = append(out, fi.Obj)
		}
	}
	return out
}

// shadowToLogPred: the step that gets the shadow writes into the log file after snapshot mode ended: the re-append
// loop of the caller (Write) — or, when the function ends the mode through EndSnapshotModeRequeue, the Flush/Sync that
// pushes the writer's queue out.
func shadowToLogPred(w *World, fn *ssa.Function) func(ssa.Instruction) bool {
	return shadowToLogPredIn(w, []*ssa.Function{fn})
}

func shadowToLogPredIn(w *World, fns []*ssa.Function) func(ssa.Instruction) bool {
	write := w.FuncObj("pkg/persistence", "LazyAOFWriter.Write")
	rq := w.FuncObj("pkg/persistence", "LazyAOFWriter.EndSnapshotModeRequeue")
	requeues := false
	for _, fn := range fns {
		if rq != nil && len(findInstrs(fn, callsTo(append([]*types.Func{rq}, w.forwardersOf(rq)...)...))) > 0 {
			requeues = true
		}
	}
	if requeues {
		return callsTo(w.FuncObj("pkg/persistence", "LazyAOFWriter.Flush"), w.FuncObj("pkg/persistence", "LazyAOFWriter.Sync"))
	}
	return callsTo(write)
}

// fieldLoad reports whether v is (a load of) the named field of a struct.
func isFieldLoad(v ssa.Value, field string) bool {
	u, ok := v.(*ssa.UnOp)
	if !ok || u.Op != token.MUL {
		return false
	}
	fa, ok := u.X.(*ssa.FieldAddr)
	if !ok {
		return false
	}
	st, ok := fa.X.Type().Underlying().(*types.Pointer)
	if !ok {
		return false
	}
	_, ok = st.Elem().Underlying().(*types.Struct)
	return ok && fieldNameAt(st.Elem(), fa.Field) == field
}

// findByRole: the function of pkg rel whose SSA contains an instruction matching pred.
func (w *World) funcsByRole(rel string, pred func(ssa.Instruction) bool) []*FuncInfo {
	var out []*FuncInfo
	for _, fi := range w.ModuleFuncs() {
		if relPkg(fi.Obj) != rel {
			continue
		}
		fn := w.SSAFunc(fi.Obj)
		if fn == nil {
			continue
		}
		if len(findInstrs(fn, pred)) > 0 {
			out = append(out, fi)
		}
	}
	return out
}

func checkChain(w *World, r *Report, rule, where string, fn *ssa.Function, pos string, steps []step) {
	checkChainMay(w, r, rule, where, fn, pos, steps, nil)
}

// checkChainMay: may[name] is an optional, weaker form of a step's predicate — "the step may happen here" (a call of a
// helper that contains it) —, used where the step is the LATER one of a pair and for its presence.
func checkChainMay(w *World, r *Report, rule, where string, fn *ssa.Function, pos string, steps []step, may map[string]func(ssa.Instruction) bool) {
	for _, s := range steps {
		p := s.pred
		if may[s.name] != nil {
			p = may[s.name]
		}
		if len(findInstrs(fn, p)) == 0 {
			r.Bad(rule, where+":has:"+s.name, pos, "protocol step `"+s.name+"` is missing from "+where)
			return
		}
	}
	for i := 0; i+1 < len(steps); i++ {
		a, b := steps[i], steps[i+1]
		bp := b.pred
		if may[b.name] != nil {
			bp = may[b.name]
		}
		ok, wit := precedesWithSuccess(fn, a.pred, bp)
		r.Cond(ok, rule, fmt.Sprintf("%s:%s<%s", where, a.name, b.name), pos,
			a.name+" (succeeded) precedes "+b.name+" on every path",
			fmt.Sprintf("in %s a path reaches `%s` without a preceding successful `%s`", where, b.name, a.name), w.witness(wit)...)
	}
}

// alwaysPerforms: every way through g to a return passes an instruction matching p, other than leaving over the failure
// edge of a call (g reports that failure to its caller, which must test it).
func alwaysPerforms(g *ssa.Function, p func(ssa.Instruction) bool) bool {
	if g == nil || len(g.Blocks) == 0 || len(findInstrs(g, p)) == 0 {
		return false
	}
	failed := map[edgeKey]bool{}
	for _, oc := range findInstrs(g, func(x ssa.Instruction) bool { _, ok := x.(*ssa.Call); return ok }) {
		for e := range failureEdges(g, oc.(*ssa.Call)) {
			failed[e] = true
		}
	}
	skip, _ := (pathQuery{fn: g, target: func(x ssa.Instruction) bool { _, ok := x.(*ssa.Return); return ok }, avoid: p, blocked: failed}).find(entryPos(g))
	return !skip
}

// ---------- ORD-1 snapshot order ----------

func ruleORD1(w *World, r *Report) {
	r.Doc("ORD-1", "snapshot protocol: BeginSnapshotMode < DB.Snapshot < successful Rename onto the snapshot path < AOF.Truncate < EndSnapshotMode < re-append; the snapshot is written to a different path than the live snapshot", 6)
	renameOntoSnap := func(in ssa.Instruction) bool {
		if !isCallTo(in, "os", "Rename") {
			return false
		}
		return isFieldLoad(in.(*ssa.Call).Call.Args[1], "snapPath")
	}
	fis := w.funcsByRole("pkg/engine", renameOntoSnap)
	if len(fis) == 0 {
		r.Und("ORD-1", "anchor:rename-onto-snapPath", "", "anchor lost: no function in pkg/engine renames a file onto Engine.snapPath")
		return
	}
	for _, fi := range fis {
		fn := w.SSAFunc(fi.Obj)
		begin := methodPred(w, "pkg/persistence", "LazyAOFWriter.BeginSnapshotMode")
		// the file-writing steps moved into a helper of their own: the protocol function is the helper's only caller, and a
		// call of the helper stands for the steps it always performs. The order inside the helper is checked there.
		var inner *ssa.Function
		if len(findInstrs(fn, begin)) == 0 && !fi.Obj.Exported() {
			var outer *ssa.Function
			n := 0
			for c := range w.staticCallersOf(fn) {
				for c.Parent() != nil {
					c = c.Parent()
				}
				if c != outer {
					outer = c
					n++
				}
			}
			if n == 1 && outer != nil {
				if oo, _ := outer.Object().(*types.Func); oo != nil && w.Decl(oo) != nil {
					inner, fn, fi = fn, outer, w.Decl(oo)
				}
			}
		}
		// … or several phases became helpers of their own, called in sequence: a call of a helper stands for the steps it
		// always performs (leaving over a failure edge aside: the helper reports that, and the caller's test of the result
		// is the "succeeded" of the chain)
		helpers := w.extractedHelpers(fn)
		if inner != nil {
			helpers = append(helpers, inner)
		}
		lift := func(p func(ssa.Instruction) bool) func(ssa.Instruction) bool {
			if len(helpers) == 0 {
				return p
			}
			return func(in ssa.Instruction) bool {
				if p(in) {
					return true
				}
				c, ok := in.(*ssa.Call)
				if !ok || c.Call.StaticCallee() == nil {
					return false
				}
				for _, h := range helpers {
					if c.Call.StaticCallee() == h && alwaysPerforms(h, p) {
						return true
					}
				}
				return false
			}
		}
		liftMay := func(p func(ssa.Instruction) bool) func(ssa.Instruction) bool {
			if len(helpers) == 0 {
				return nil
			}
			return func(in ssa.Instruction) bool {
				if p(in) {
					return true
				}
				c, ok := in.(*ssa.Call)
				if !ok || c.Call.StaticCallee() == nil {
					return false
				}
				for _, h := range helpers {
					if c.Call.StaticCallee() == h && len(findInstrs(h, p)) > 0 {
						return true
					}
				}
				return false
			}
		}
		where := shortName(fi.Obj)
		pos := w.Pos(fi.Decl.Pos())
		may := map[string]func(ssa.Instruction) bool{}
		mk := func(name string, p func(ssa.Instruction) bool) step {
			may[name] = liftMay(p)
			return step{name, lift(p)}
		}
		steps := []step{
			{"BeginSnapshotMode", begin},
			mk("DB.Snapshot", methodPred(w, "pkg/core", "DB.Snapshot")),
			mk("Rename(tmp,snapPath)", renameOntoSnap),
			mk("AOF.Truncate", methodPred(w, "pkg/persistence", "LazyAOFWriter.Truncate")),
			mk("EndSnapshotMode", endSnapshotPred(w)),
			mk("AOF.Write(shadow)", shadowToLogPredIn(w, append([]*ssa.Function{fn}, helpers...))),
		}
		checkChainMay(w, r, "ORD-1", where, fn, pos, steps, may)
		for _, h := range helpers {
			var sub []step
			for _, st := range []step{{"DB.Snapshot", methodPred(w, "pkg/core", "DB.Snapshot")}, {"Rename(tmp,snapPath)", renameOntoSnap}, {"AOF.Truncate", methodPred(w, "pkg/persistence", "LazyAOFWriter.Truncate")}, {"EndSnapshotMode", endSnapshotPred(w)}} {
				if len(findInstrs(h, st.pred)) > 0 {
					sub = append(sub, st)
				}
			}
			if len(sub) > 1 {
				checkChain(w, r, "ORD-1", where, h, pos, sub)
			}
			if len(findInstrs(h, renameOntoSnap)) > 0 {
				fn = h // the file-level clauses below are about the function that handles the files
			}
		}
		// the file handed to DB.Snapshot must not be opened on snapPath itself
		for _, in := range findInstrs(fn, func(in ssa.Instruction) bool {
			return isCallTo(in, "os", "Create") || isCallTo(in, "os", "OpenFile")
		}) {
			c := in.(*ssa.Call)
			r.Cond(!isFieldLoad(c.Call.Args[0], "snapPath"), "ORD-1", where+":snapshot-written-to-temp", w.Pos(c.Pos()),
				"snapshot file is created on a derived (temporary) path", "the snapshot is written directly onto the live snapshot path: a crash while writing leaves a truncated snapshot and the log has no copy of the data")
		}
		// Rename source is the created temp path
		for _, in := range findInstrs(fn, renameOntoSnap) {
			c := in.(*ssa.Call)
			src := c.Call.Args[0]
			same := false
			for _, cr := range findInstrs(fn, func(in ssa.Instruction) bool { return isCallTo(in, "os", "Create") }) {
				if cr.(*ssa.Call).Call.Args[0] == src {
					same = true
				}
			}
			r.Cond(same, "ORD-1", where+":rename-source-is-created-temp", w.Pos(c.Pos()), "rename source is the path given to os.Create", "the file renamed onto the snapshot path is not the one the snapshot was written to")
		}
		// success of the re-append: Flush after writes
		writes := findInstrs(fn, methodPred(w, "pkg/persistence", "LazyAOFWriter.Write"))
		for _, wr := range writes {
			ok, wit := mustFollow(fn, wr, methodPred(w, "pkg/persistence", "LazyAOFWriter.Flush"), failureEdges(fn, wr.(*ssa.Call)))
			r.Cond(ok, "ORD-1", where+":flush-after-reappend", w.Pos(wr.Pos()), "shadow writes are flushed before return", "re-appended shadow writes are not flushed before the snapshot reports success", w.witness(wit)...)
		}
	}
}

// ---------- ORD-2 compaction order ----------

// ruleORD2c: a compacted log supersedes the snapshot.
func ruleORD2c(w *World, r *Report) {
	r.Doc("ORD-2c", "log compaction writes a complete-state log without delete records, so an older snapshot must not survive it: after a successful AOF.ReplaceWith every path to a successful return of the compaction removes the snapshot file (or saves a new one)", 1)
	replacePred := methodPred(w, "pkg/persistence", "LazyAOFWriter.ReplaceWith")
	fis := w.funcsByRole("pkg/engine", replacePred)
	if len(fis) == 0 {
		r.Und("ORD-2c", "anchor:ReplaceWith-caller", "", "anchor lost: no function in pkg/engine calls LazyAOFWriter.ReplaceWith")
		return
	}
	for _, fi := range fis {
		fn := w.SSAFunc(fi.Obj)
		where := shortName(fi.Obj)
		retires := func(in ssa.Instruction) bool {
			c, ok := in.(*ssa.Call)
			if !ok {
				return false
			}
			if o := calleeObj(&c.Call); o != nil && o.Pkg() != nil && o.Pkg().Path() == "os" && (o.Name() == "Remove" || o.Name() == "Rename") && len(c.Call.Args) > 0 && isFieldLoad(c.Call.Args[0], "snapPath") {
				return true
			}
			return isModCall(in, "pkg/engine", "Engine.SaveSnapshot") || isModCall(in, "pkg/engine", "Engine.saveSnapshotLocked")
		}
		for _, rp := range findInstrs(fn, replacePred) {
			c := rp.(*ssa.Call)
			okRet := func(in ssa.Instruction) bool {
				rt, ok := in.(*ssa.Return)
				if !ok {
					return false
				}
				n := len(rt.Results)
				return n > 0 && isNilConst(retVal(rt, n-1))
			}
			found, wit := (pathQuery{fn: fn, target: okRet, avoid: retires, blocked: failureEdges(fn, c)}).find(posOf(rp))
			r.Cond(!found, "ORD-2c", where+":snapshot-retired-after-ReplaceWith", w.Pos(rp.Pos()), "the superseded snapshot is removed (or replaced) before success is reported", where+" can report success after replacing the log with its compacted form while an older snapshot stays on disk: the next start loads that snapshot underneath a log that has no delete records, and every vector, key or index deleted since the snapshot comes back", w.witness(wit)...)
		}
	}
}

func ruleORD2(w *World, r *Report) {
	r.Doc("ORD-2", "compaction protocol: BeginSnapshotMode < state capture < successful temp Flush < AOF.ReplaceWith < EndSnapshotMode < re-append+Sync; AOFWriter.ReplaceWith: flush < close < rename < reopen", 9)
	replacePred := methodPred(w, "pkg/persistence", "LazyAOFWriter.ReplaceWith")
	fis := w.funcsByRole("pkg/engine", replacePred)
	if len(fis) == 0 {
		r.Und("ORD-2", "anchor:ReplaceWith-caller", "", "anchor lost: no function in pkg/engine calls LazyAOFWriter.ReplaceWith")
		return
	}
	for _, fi := range fis {
		fn := w.SSAFunc(fi.Obj)
		where := shortName(fi.Obj)
		pos := w.Pos(fi.Decl.Pos())
		capture := func(in ssa.Instruction) bool {
			return callsTo(w.FuncObj("pkg/core", "DB.IterateKVUnlocked"), w.FuncObj("pkg/core", "DB.IterateGraphEdges"), w.FuncObj("pkg/core/hnsw", "Index.Iterate"))(in)
		}
		steps := []step{
			{"BeginSnapshotMode", methodPred(w, "pkg/persistence", "LazyAOFWriter.BeginSnapshotMode")},
			{"state-capture", capture},
			{"temp.Flush", methodPred(w, "pkg/persistence", "AOFWriter.Flush")},
			{"AOF.ReplaceWith", replacePred},
			{"EndSnapshotMode", endSnapshotPred(w)},
			{"AOF.Write(shadow)", shadowToLogPred(w, fn)},
		}
		checkChain(w, r, "ORD-2", where, fn, pos, steps)
		// every capture call comes after Begin (not just the first)
		for _, nm := range []string{"DB.IterateKVUnlocked", "DB.IterateGraphEdges"} {
			ok, wit := precedesWithSuccess(fn, steps[0].pred, methodPred(w, "pkg/core", nm))
			r.Cond(ok, "ORD-2", where+":Begin<"+nm, pos, "capture after BeginSnapshotMode", "state is captured by "+nm+" before snapshot mode is active: writes journaled in between are neither in the rewritten log nor in the shadow buffer", w.witness(wit)...)
		}
		ok, wit := precedesWithSuccess(fn, steps[0].pred, methodPred(w, "pkg/core/hnsw", "Index.Iterate"))
		r.Cond(ok, "ORD-2", where+":Begin<Index.Iterate", pos, "capture after BeginSnapshotMode", "vectors are captured before snapshot mode is active", w.witness(wit)...)
		// all writes to the temp writer precede its Flush
		ok, wit = precedesWithSuccess(fn, methodPred(w, "pkg/persistence", "AOFWriter.Flush"), replacePred)
		_ = ok
		_ = wit
		// shadow re-append is synced
		for _, wr := range findInstrs(fn, methodPred(w, "pkg/persistence", "LazyAOFWriter.Write")) {
			ok, wit := mustFollow(fn, wr, callsTo(w.FuncObj("pkg/persistence", "LazyAOFWriter.Sync"), w.FuncObj("pkg/persistence", "LazyAOFWriter.Flush")), nil)
			r.Cond(ok, "ORD-2", where+":sync-after-reappend", w.Pos(wr.Pos()), "shadow writes are synced/flushed before return", "re-appended shadow writes are not flushed before compaction returns", w.witness(wit)...)
		}
	}
	// AOFWriter.ReplaceWith internal order
	rw := w.Func("pkg/persistence", "AOFWriter.ReplaceWith")
	if rw == nil {
		r.Und("ORD-2", "anchor:AOFWriter.ReplaceWith", "", "anchor lost")
		return
	}
	fn := w.SSAFunc(rw.Obj)
	steps := []step{
		{"buf.Flush", func(in ssa.Instruction) bool { return isCallTo(in, "bufio", "Writer.Flush") }},
		{"file.Close", func(in ssa.Instruction) bool { return isCallTo(in, "os", "File.Close") }},
		{"os.Rename", func(in ssa.Instruction) bool { return isCallTo(in, "os", "Rename") }},
		{"os.OpenFile", func(in ssa.Instruction) bool { return isCallTo(in, "os", "OpenFile") }},
	}
	// Close's failure is tolerated by the code (logged), so only Flush and Rename need success.
	for i := 0; i+1 < len(steps); i++ {
		a, b := steps[i], steps[i+1]
		var ok bool
		var wit []ssa.Instruction
		if a.name == "file.Close" {
			found, wt := (pathQuery{fn: fn, target: b.pred, avoid: a.pred}).find(entryPos(fn))
			ok, wit = !found, wt
		} else {
			ok, wit = precedesWithSuccess(fn, a.pred, b.pred)
		}
		r.Cond(ok, "ORD-2", "AOFWriter.ReplaceWith:"+a.name+"<"+b.name, w.Pos(rw.Decl.Pos()), a.name+" precedes "+b.name, "AOFWriter.ReplaceWith can reach "+b.name+" without a preceding (successful) "+a.name, w.witness(wit)...)
	}
	// rename target is a.path and the reopened file is a.path
	for _, in := range findInstrs(fn, steps[2].pred) {
		c := in.(*ssa.Call)
		r.Cond(isFieldLoad(c.Call.Args[1], "path"), "ORD-2", "AOFWriter.ReplaceWith:rename-target", w.Pos(c.Pos()), "renames onto the writer's own path", "ReplaceWith renames onto something other than the log path")
	}
	for _, in := range findInstrs(fn, steps[3].pred) {
		c := in.(*ssa.Call)
		r.Cond(isFieldLoad(c.Call.Args[0], "path"), "ORD-2", "AOFWriter.ReplaceWith:reopen-target", w.Pos(c.Pos()), "reopens the writer's own path", "ReplaceWith reopens a different file than the one it renamed into place")
		if fl, ok := constInt(c.Call.Args[1]); ok {
			r.Cond(fl&0x400 != 0 && fl&0x200 == 0, "ORD-2", "AOFWriter.ReplaceWith:reopen-flags", w.Pos(c.Pos()), "O_APPEND without O_TRUNC", fmt.Sprintf("log reopened with flags %#x: must append and must not truncate the freshly compacted log", fl))
		}
	}
}

// ---------- ORD-3 temp-file freshness ----------

const (
	oAPPEND = 0x400
	oTRUNC  = 0x200
	oEXCL   = 0x80
)

func ruleORD3(w *World, r *Report) {
	r.Doc("ORD-3", "a file that is later renamed over a durable file is opened truncating/exclusive or removed first on every path", 1)
	// instances: in pkg/engine, any value passed as the source of os.Rename / ReplaceWith
	n := 0
	for _, fi := range w.ModuleFuncs() {
		if relPkg(fi.Obj) != "pkg/engine" {
			continue
		}
		fn := w.SSAFunc(fi.Obj)
		if fn == nil {
			continue
		}
		for _, b := range fn.Blocks {
			for _, in := range b.Instrs {
				c, ok := in.(*ssa.Call)
				if !ok {
					continue
				}
				var src ssa.Value
				if isCallTo(in, "os", "Rename") {
					src = c.Call.Args[0]
				} else if o := calleeObj(&c.Call); o != nil && o == w.FuncObj("pkg/persistence", "LazyAOFWriter.ReplaceWith") {
					src = c.Call.Args[1]
				}
				if src == nil {
					continue
				}
				n++
				key := "tempfile:" + shortName(fi.Obj) + ":" + shortName(calleeObj(&c.Call))
				// find openers of the same path value in this function
				openers := findInstrs(fn, func(in ssa.Instruction) bool {
					oc, ok := in.(*ssa.Call)
					if !ok || len(oc.Call.Args) == 0 {
						return false
					}
					if !sameValue(oc.Call.Args[0], src) {
						return false
					}
					o := calleeObj(&oc.Call)
					if o == nil {
						return false
					}
					return w.opensForWrite(o) != ""
				})
				if len(openers) == 0 {
					r.Und("ORD-3", key, w.Pos(c.Pos()), "cannot find where the renamed file is opened in this function")
					continue
				}
				for _, op := range openers {
					oc := op.(*ssa.Call)
					mode := w.opensForWrite(calleeObj(&oc.Call))
					if mode == "os.OpenFile" {
						if fl, ok := constInt(oc.Call.Args[1]); ok {
							if fl&(oTRUNC|oEXCL) != 0 {
								mode = "fresh"
							} else {
								mode = "append"
							}
						} else {
							mode = "append"
						}
					}
					if mode == "fresh" {
						r.Ok("ORD-3", key, w.Pos(op.Pos()), "opened truncating/exclusive")
						continue
					}
					// must be preceded on every path by os.Remove(src) / os.Truncate(src,0)
					rm := func(in ssa.Instruction) bool {
						if !(isCallTo(in, "os", "Remove") || isCallTo(in, "os", "RemoveAll") || isCallTo(in, "os", "Truncate")) {
							return false
						}
						return sameValue(in.(*ssa.Call).Call.Args[0], src)
					}
					found, wit := (pathQuery{fn: fn, target: func(x ssa.Instruction) bool { return x == op }, avoid: rm}).find(entryPos(fn))
					r.Cond(!found, "ORD-3", key, w.Pos(op.Pos()), "stale file removed before reuse",
						"the temporary file is opened without O_TRUNC/O_EXCL and is not removed first: content left behind by a crashed run is prepended to the new file and replayed as if it had been written (deleted items reappear)", w.witness(wit)...)
				}
			}
		}
	}
	r.Count("rename_sources", n)
}

// opensForWrite classifies an opener: "fresh" (truncating), "append" (keeps old content), "os.OpenFile" (flags decide), "" (not an opener).
func (w *World) opensForWrite(o *types.Func) string {
	if o == nil || o.Pkg() == nil {
		return ""
	}
	if o.Pkg().Path() == "os" {
		switch o.Name() {
		case "Create":
			return "fresh"
		case "OpenFile":
			return "os.OpenFile"
		}
		return ""
	}
	if !strings.HasPrefix(o.Pkg().Path(), modPath) {
		return ""
	}
	// module function that opens its first argument: inspect its body
	fn := w.SSAFunc(o)
	if fn == nil || len(fn.Params) == 0 {
		return ""
	}
	res := ""
	for _, b := range fn.Blocks {
		for _, in := range b.Instrs {
			c, ok := in.(*ssa.Call)
			if !ok || len(c.Call.Args) == 0 {
				continue
			}
			isParam := false
			for _, p := range fn.Params {
				if c.Call.Args[0] == p {
					isParam = true
				}
			}
			if !isParam {
				continue
			}
			if isCallTo(in, "os", "Create") {
				res = "fresh"
			}
			if isCallTo(in, "os", "OpenFile") {
				if fl, ok := constInt(c.Call.Args[1]); ok && fl&(oTRUNC|oEXCL) != 0 {
					res = "fresh"
				} else {
					return "append"
				}
			}
		}
	}
	return res
}

// ---------- ORD-7 repair made durable ----------

func ruleORD7(w *World, r *Report) {
	r.Doc("ORD-7", "in replayAOF a successful Truncate(validOffset) of the damaged log is followed by Sync before any return", 1)
	fi := w.Func("pkg/engine", "Engine.replayAOF")
	if fi == nil {
		r.Und("ORD-7", "anchor:Engine.replayAOF", "", "anchor lost")
		return
	}
	fn := w.SSAFunc(fi.Obj)
	tr := findInstrs(fn, func(in ssa.Instruction) bool { return isCallTo(in, "os", "File.Truncate") })
	if len(tr) == 0 {
		r.Bad("ORD-7", "replayAOF:truncate", w.Pos(fi.Decl.Pos()), "replayAOF no longer truncates the damaged tail: garbage after the last valid frame stays in the log and later appends land behind it")
		return
	}
	for _, t := range tr {
		ok, wit := mustFollow(fn, t, func(in ssa.Instruction) bool { return isCallTo(in, "os", "File.Sync") }, failureEdges(fn, t.(*ssa.Call)))
		r.Cond(ok, "ORD-7", "replayAOF:truncate-then-sync", w.Pos(t.Pos()), "Sync follows a successful Truncate on every path", "the repaired (truncated) log is not fsynced before replay continues: a second crash can resurrect the damaged tail", w.witness(wit)...)
		// truncate only on the corrupted path and to validOffset (a value that is advanced only after a full frame was parsed)
	}
}

// ---------- ORD-4 shadow writes never dropped ----------

func ruleORD4(w *World, r *Report) {
	r.Doc("ORD-4", "every successful BeginSnapshotMode is followed on every path by EndSnapshotMode, and the writes EndSnapshotMode returns are re-journaled (never discarded)", 4)
	begin := w.FuncObj("pkg/persistence", "LazyAOFWriter.BeginSnapshotMode")
	end := w.FuncObj("pkg/persistence", "LazyAOFWriter.EndSnapshotMode")
	requeue := w.FuncObj("pkg/persistence", "LazyAOFWriter.EndSnapshotModeRequeue") // nil on a tree that does not have it
	write := w.FuncObj("pkg/persistence", "LazyAOFWriter.Write")
	if begin == nil || end == nil || write == nil {
		r.Und("ORD-4", "anchor:snapshot-mode-api", "", "anchor lost")
		return
	}
	for _, fi := range w.ModuleFuncs() {
		if relPkg(fi.Obj) == "pkg/persistence" {
			continue
		}
		fn := w.SSAFunc(fi.Obj)
		if fn == nil {
			continue
		}
		begins := findInstrs(fn, callsTo(begin))
		all := append([]*ssa.Function{fn}, closuresOf(fn)...)
		// (a) every End call site: result #0 must flow into a range loop that calls Write
		for _, f := range all {
			for _, ei := range findInstrs(f, callsTo(end)) {
				c := ei.(*ssa.Call)
				key := "EndSnapshotMode@" + fnName(f)
				used := false
				for _, ref := range *c.Referrers() {
					ex, ok := ref.(*ssa.Extract)
					if !ok || ex.Index != 0 {
						continue
					}
					if flowsToWriteLoop(ex, write) {
						used = true
					}
				}
				r.Cond(used, "ORD-4", key, w.Pos(c.Pos()), "returned writes are re-journaled in a loop",
					"the writes returned by EndSnapshotMode are discarded here: every write acknowledged while snapshot mode was active is dropped from the log and lost on restart")
			}
			// an end through EndSnapshotModeRequeue needs no loop: the writer re-queues the shadow writes itself (ORD-12)
			if requeue != nil {
				for _, ei := range findInstrs(f, callsTo(requeue)) {
					r.Ok("ORD-4", "EndSnapshotMode@"+fnName(f), w.Pos(ei.Pos()), "snapshot mode is ended through EndSnapshotModeRequeue: the writer puts the shadow writes back into its queue")
				}
			}
		}
		// (b) after a successful Begin every exit passes an End (directly or via a deferred closure that calls it)
		for _, bi := range begins {
			isEnd := callsTo(append(append([]*types.Func{end, requeue}, w.forwardersOf(end)...), w.forwardersOf(requeue)...)...)
			endsOrDefer := func(in ssa.Instruction) bool {
				if isEnd(in) {
					return true
				}
				// a defer registered AFTER begin does not help paths before it; defers registered are run at every exit
				if d, ok := in.(*ssa.Defer); ok {
					if mc, ok := d.Call.Value.(*ssa.MakeClosure); ok {
						if cf, ok := mc.Fn.(*ssa.Function); ok && len(findInstrs(cf, isEnd)) > 0 {
							return true
						}
					}
				}
				return false
			}
			ok, wit := mustFollow(fn, bi, endsOrDefer, failureEdges(fn, bi.(*ssa.Call)))
			why := "a path returns after BeginSnapshotMode without EndSnapshotMode: the writer stays in snapshot mode and every later write is buffered in memory only"
			if !ok {
				// The clean-up was registered BEFORE snapshot mode was entered — one deferred function for every way out. It runs
				// at every exit after the Begin as well, which is fine; it also runs when the Begin FAILED (another snapshot or
				// compaction holds the mode), and must not end THAT operation's snapshot mode: the End inside it has to hang on a
				// flag that is still in its initial state on the failure path and is flipped only once the Begin has succeeded.
				for _, d := range findInstrs(fn, func(in ssa.Instruction) bool { _, isD := in.(*ssa.Defer); return isD && endsOrDefer(in) }) {
					db, bb := d.Block(), bi.Block()
					before := false
					if db == bb {
						for _, in := range bb.Instrs {
							if in == d {
								before = true
							}
							if in == bi {
								break
							}
						}
					} else if db.Dominates(bb) {
						before = true
					}
					if !before {
						continue
					}
					mc, _ := d.(*ssa.Defer).Call.Value.(*ssa.MakeClosure)
					if mc == nil {
						continue
					}
					cf, _ := mc.Fn.(*ssa.Function)
					if cf == nil {
						continue
					}
					guarded := false
					// a captured bool cell whose load guards every End of the closure, on one polarity
					for _, fv := range cf.FreeVars {
						pt, isPtr := fv.Type().Underlying().(*types.Pointer)
						if !isPtr || !isBoolType(pt.Elem()) {
							continue
						}
						cell := cellRoot(fv)
						isLoad := func(in ssa.Instruction) bool {
							ld, ok := in.(*ssa.UnOp)
							return ok && ld.Op == token.MUL && cellRoot(ld.X) == cell
						}
						val := func(in ssa.Instruction) ssa.Value { return in.(ssa.Value) }
						for _, want := range []bool{true, false} {
							if gOK, _ := mustPassGuard(cf, isEnd, isLoad, val, want, nil); !gOK {
								continue
							}
							// the flag's value while the Begin has not succeeded: every store that can reach the Begin (none: the zero
							// value) must be the other constant; and some store after the Begin's success sets the guarding value
							safe, set := true, false
							nStores := 0
							for _, st := range cellStores(cell) {
								if st.Parent() != fn {
									continue
								}
								k, isK := st.Val.(*ssa.Const)
								reaches, _ := (pathQuery{fn: fn, target: func(in ssa.Instruction) bool { return in == bi }}).find(posOf(st))
								if reaches {
									nStores++
									if !isK || k.Value == nil || constant.BoolVal(k.Value) == want {
										safe = false
									}
								}
								if isK && k.Value != nil && constant.BoolVal(k.Value) == want {
									if after, _ := precedesWithSuccess(fn, func(in ssa.Instruction) bool { return in == bi }, func(in ssa.Instruction) bool { return in == ssa.Instruction(st) }); after {
										set = true
									} else {
										safe = false // the guarding value can be set without a successful Begin
									}
								}
							}
							if nStores == 0 && !want {
								safe = false // the zero value false already lets the End run
							}
							if safe && set {
								guarded = true
							}
						}
					}
					if guarded {
						ok = true
					} else {
						why = "the deferred clean-up that ends snapshot mode is registered before BeginSnapshotMode and its End does not hang on a flag that is set only after the Begin has succeeded: when the Begin is refused because a snapshot or compaction is already under way, this function's exit ends THAT operation's snapshot mode — its shadow-buffered writes are re-queued or dropped while it still relies on the log being quiet, and acknowledged writes are lost or the compacted log misses them"
					}
				}
			}
			r.Cond(ok, "ORD-4", "Begin-then-End@"+shortName(fi.Obj), w.Pos(bi.Pos()), "EndSnapshotMode on every exit after BeginSnapshotMode", why, w.witness(wit)...)
		}
	}
}

// flowsToWriteLoop: slice value v is ranged over (index loop) and each element is passed to Write.
func flowsToWriteLoop(v ssa.Value, write *types.Func) bool {
	seen := map[ssa.Value]bool{}
	var rec func(x ssa.Value, depth int) bool
	rec = func(x ssa.Value, depth int) bool {
		if depth > 6 || seen[x] {
			return false
		}
		seen[x] = true
		refs := x.Referrers()
		if refs == nil {
			return false
		}
		for _, ref := range *refs {
			switch y := ref.(type) {
			case *ssa.IndexAddr:
				for _, r2 := range *y.Referrers() {
					if ld, ok := r2.(*ssa.UnOp); ok {
						for _, r3 := range *ld.Referrers() {
							if c, ok := r3.(*ssa.Call); ok && calleeObj(&c.Call) == write {
								return true
							}
						}
					}
				}
			case *ssa.Phi:
				if rec(y, depth+1) {
					return true
				}
			case *ssa.Store:
				// spilled into a variable captured by a closure: follow loads of the address
				if y.Val == x {
					for _, r2 := range *y.Addr.Referrers() {
						if ld, ok := r2.(*ssa.UnOp); ok && ld.Op == token.MUL {
							if rec(ld, depth+1) {
								return true
							}
						}
					}
				}
			case *ssa.Call:
				// append(dst, v...) or passing to a module helper that loops: follow result of append
				if b, ok := y.Call.Value.(*ssa.Builtin); ok && b.Name() == "append" {
					if rec(y, depth+1) {
						return true
					}
				}
			}
		}
		return false
	}
	return rec(v, 0)
}

// ---------- ORD-5 drain before a durability promise ----------

func ruleORD5(w *World, r *Report) {
	r.Doc("ORD-5", "in LazyAOFWriter.run the control arms that promise durability (Flush, Sync, Close, EndSnapshotMode) drain writeCh completely (non-blocking select until empty) before their effect", 3)
	fi := w.Func("pkg/persistence", "LazyAOFWriter.run")
	if fi == nil {
		r.Und("ORD-5", "anchor:LazyAOFWriter.run", "", "anchor lost")
		return
	}
	fn := w.SSAFunc(fi.Obj)
	// constants of the command kinds
	kinds := map[string]int64{}
	for _, nm := range []string{"cmdFlush", "cmdSync", "cmdClose", "cmdEndSnapshot"} {
		c, _ := fi.Pkg.Types.Scope().Lookup(nm).(*types.Const)
		if c == nil {
			r.Und("ORD-5", "anchor:"+nm, "", "anchor lost: constant "+nm)
			return
		}
		v, _ := constant.Int64Val(c.Val())
		kinds[nm] = v
	}
	isDrainSelect := func(in ssa.Instruction) bool {
		s, ok := in.(*ssa.Select)
		if !ok || s.Blocking || len(s.States) != 1 {
			return false
		}
		return s.States[0].Dir == types.RecvOnly && isFieldLoad(s.States[0].Chan, "writeCh")
	}
	// completeDrain(f, from): from position `from`, every path to `target` passes a drain select and
	// leaves it only through the default edge.
	recvEdges := func(f *ssa.Function) map[edgeKey]bool {
		out := map[edgeKey]bool{}
		for _, si := range findInstrs(f, isDrainSelect) {
			for _, ref := range *si.(*ssa.Select).Referrers() {
				ex, ok := ref.(*ssa.Extract)
				if !ok || ex.Index != 0 {
					continue
				}
				for _, r2 := range *ex.Referrers() {
					bo, ok := r2.(*ssa.BinOp)
					if !ok || bo.Op != token.EQL {
						continue
					}
					if v, ok := constInt(bo.Y); !ok || v != 0 {
						continue
					}
					for _, r3 := range *bo.Referrers() {
						if iff, ok := r3.(*ssa.If); ok {
							out[edgeKey{iff.Block(), 0}] = true
						}
					}
				}
			}
		}
		return out
	}
	// closures that are complete drains: every return is reached only after a drain select, and
	// from the recv edge no return is reachable without passing the select again.
	drainClosures := map[*ssa.Function]bool{}
	for _, cf := range closuresOf(fn) {
		if len(findInstrs(cf, isDrainSelect)) == 0 {
			continue
		}
		found, _ := (pathQuery{fn: cf, target: isExit, avoid: isDrainSelect}).find(entryPos(cf))
		if found {
			continue
		}
		complete := true
		for e := range recvEdges(cf) {
			if f2, _ := (pathQuery{fn: cf, target: isExit, avoid: isDrainSelect}).find(ipos{e.from.Succs[e.succ], -1}); f2 {
				complete = false
			}
		}
		if complete {
			drainClosures[cf] = true
		}
	}
	isDrain := func(in ssa.Instruction) bool {
		if isDrainSelect(in) {
			return true
		}
		if c, ok := in.(*ssa.Call); ok {
			if cf := closureCallee(c); cf != nil && drainClosures[cf] {
				return true
			}
		}
		return false
	}
	closureNamed := func(in ssa.Instruction, names ...string) bool {
		c, ok := in.(*ssa.Call)
		if !ok {
			return false
		}
		cf := closureCallee(c)
		if cf == nil {
			return false
		}
		src := closureVarName(c)
		for _, n := range names {
			if src == n {
				return true
			}
		}
		return false
	}
	_ = closureNamed
	// effects per arm: the first call to a local closure or underlying.* method, or the reply send
	underlying := func(in ssa.Instruction) bool {
		c, ok := in.(*ssa.Call)
		if !ok {
			return false
		}
		if o := calleeObj(&c.Call); o != nil && relPkg(o) == "pkg/persistence" && strings.HasPrefix(shortName(o), "AOFWriter.") {
			return true
		}
		if cf := closureCallee(c); cf != nil && !drainClosures[cf] {
			// a local closure that reaches underlying.* (flush, syncNow, closeWriter)
			for _, f2 := range append([]*ssa.Function{cf}, calledClosures(cf)...) {
				for _, b := range f2.Blocks {
					for _, i2 := range b.Instrs {
						if c2, ok := i2.(*ssa.Call); ok {
							if o := calleeObj(&c2.Call); o != nil && relPkg(o) == "pkg/persistence" && strings.HasPrefix(shortName(o), "AOFWriter.") {
								return true
							}
						}
					}
				}
			}
		}
		return false
	}
	replySend := func(in ssa.Instruction) bool {
		s, ok := in.(*ssa.Send)
		return ok && strings.Contains(s.Chan.Type().String(), "commandResponse")
	}
	// locate arm entries: If(kind == const)
	for nm, kv := range kinds {
		var armEntry *ssa.BasicBlock
		for _, b := range fn.Blocks {
			for _, in := range b.Instrs {
				bo, ok := in.(*ssa.BinOp)
				if !ok || bo.Op != token.EQL {
					continue
				}
				v, ok := constInt(bo.Y)
				if !ok || v != kv || !strings.HasSuffix(bo.Y.Type().String(), "commandKind") {
					continue
				}
				for _, ref := range *bo.Referrers() {
					if iff, ok := ref.(*ssa.If); ok {
						armEntry = iff.Block().Succs[0]
					}
				}
			}
		}
		key := "arm:" + nm
		if armEntry == nil {
			r.Und("ORD-5", key, w.Pos(fi.Decl.Pos()), "cannot locate the control arm for "+nm)
			continue
		}
		// Is a drain guaranteed before reaching the arm (dominating drain in the cmd case)?
		pre, _ := (pathQuery{fn: fn, target: func(in ssa.Instruction) bool { return in.Block() == armEntry }, avoid: isDrain}).find(afterCmdRecv(fn))
		if !pre {
			r.Ok("ORD-5", key, w.Pos(armEntry.Instrs[0].Pos()), "writeCh is drained before the command dispatch")
			continue
		}
		effect := underlying
		avoid := isDrain
		if nm == "cmdEndSnapshot" {
			effect = replySend
			// paths that answer with an error (a non-nil store into a commandResponse.err field) promise nothing
			avoid = func(in ssa.Instruction) bool {
				if isDrain(in) {
					return true
				}
				if st, ok := in.(*ssa.Store); ok && !isNilConst(st.Val) {
					if fa, ok := st.Addr.(*ssa.FieldAddr); ok {
						if pt, ok := fa.X.Type().Underlying().(*types.Pointer); ok {
							if stt, ok := pt.Elem().Underlying().(*types.Struct); ok && stt.Field(fa.Field).Name() == "err" {
								return true
							}
						}
					}
				}
				return false
			}
		}
		blocked := recvEdges(fn)
		// path from arm entry to effect avoiding any drain → violation
		found, wit := (pathQuery{fn: fn, target: effect, avoid: avoid}).find(ipos{armEntry, -1})
		if found {
			what := map[string]string{
				"cmdFlush":       "Flush() can return while a write acknowledged before it is still queued in writeCh (select picks randomly between ready channels): the write is not in the file although Flush reported success",
				"cmdSync":        "Sync() can return while a write acknowledged before it is still queued in writeCh: a crash right after Sync loses an acknowledged write",
				"cmdClose":       "Close() does not drain writeCh before closing the file: writes acknowledged before Close are dropped",
				"cmdEndSnapshot": "EndSnapshotMode does not drain writeCh: writes acknowledged during the snapshot are missing from the returned shadow buffer and are appended before truncation/replacement is complete",
			}[nm]
			r.Bad("ORD-5", key, w.Pos(armEntry.Instrs[0].Pos()), what, w.witness(wit)...)
			continue
		}
		// completeness: from a recv edge the effect is not reachable without passing the select again
		complete := true
		for e := range blocked {
			if f2, _ := (pathQuery{fn: fn, target: effect, avoid: isDrain}).find(ipos{e.from.Succs[e.succ], -1}); f2 {
				complete = false
			}
		}
		r.Cond(complete, "ORD-5", key, w.Pos(armEntry.Instrs[0].Pos()), "complete non-blocking drain of writeCh precedes the effect", "the drain loop can be left after receiving one entry: the queue is not emptied before the effect")
	}
}

// afterCmdRecv: position right after the receive from cmdCh in run's main select (approximated by
// function entry when not found).
func afterCmdRecv(fn *ssa.Function) ipos {
	for _, b := range fn.Blocks {
		for i, in := range b.Instrs {
			if s, ok := in.(*ssa.Select); ok && s.Blocking {
				for _, st := range s.States {
					if isFieldLoad(st.Chan, "cmdCh") {
						return ipos{b, i}
					}
				}
			}
		}
	}
	return entryPos(fn)
}

func closureCallee(c *ssa.Call) *ssa.Function {
	switch v := c.Call.Value.(type) {
	case *ssa.MakeClosure:
		f, _ := v.Fn.(*ssa.Function)
		return f
	case *ssa.Function:
		if v.Parent() != nil {
			return v
		}
	case *ssa.UnOp:
		// load of a local variable holding the closure: find the unique store
		if al, ok := v.X.(*ssa.Alloc); ok {
			var f *ssa.Function
			n := 0
			for _, ref := range *al.Referrers() {
				if st, ok := ref.(*ssa.Store); ok && st.Addr == al {
					n++
					if mc, ok := st.Val.(*ssa.MakeClosure); ok {
						f, _ = mc.Fn.(*ssa.Function)
					}
				}
			}
			if n == 1 {
				return f
			}
		}
		if fv, ok := v.X.(*ssa.FreeVar); ok {
			// closure variable captured from the parent: resolve through parent's bindings
			return resolveFreeVarClosure(c.Parent(), fv)
		}
	}
	return nil
}

func resolveFreeVarClosure(fn *ssa.Function, fv *ssa.FreeVar) *ssa.Function {
	parent := fn.Parent()
	if parent == nil {
		return nil
	}
	idx := -1
	for i, f := range fn.FreeVars {
		if f == fv {
			idx = i
		}
	}
	if idx < 0 {
		return nil
	}
	for _, b := range parent.Blocks {
		for _, in := range b.Instrs {
			mc, ok := in.(*ssa.MakeClosure)
			if !ok || mc.Fn != fn || idx >= len(mc.Bindings) {
				continue
			}
			if al, ok := mc.Bindings[idx].(*ssa.Alloc); ok {
				var f *ssa.Function
				n := 0
				for _, ref := range *al.Referrers() {
					if st, ok := ref.(*ssa.Store); ok && st.Addr == al {
						n++
						if m2, ok := st.Val.(*ssa.MakeClosure); ok {
							f, _ = m2.Fn.(*ssa.Function)
						}
					}
				}
				if n == 1 {
					return f
				}
			}
		}
	}
	return nil
}

func closureVarName(c *ssa.Call) string { return "" }

func calledClosures(f *ssa.Function) []*ssa.Function {
	var out []*ssa.Function
	seen := map[*ssa.Function]bool{f: true}
	var rec func(g *ssa.Function)
	rec = func(g *ssa.Function) {
		for _, b := range g.Blocks {
			for _, in := range b.Instrs {
				if c, ok := in.(*ssa.Call); ok {
					if cf := closureCallee(c); cf != nil && !seen[cf] {
						seen[cf] = true
						out = append(out, cf)
						rec(cf)
					}
				}
			}
		}
	}
	rec(f)
	return out
}

// ---------- ORD-6 closed-aware channel operations ----------

func ruleORD6(w *World, r *Report) {
	r.Doc("ORD-6", "every send on writeCh/cmdCh from a LazyAOFWriter method sits in a select that also receives from closedCh (calls after Close fail cleanly instead of blocking forever)", 2)
	for _, fi := range w.ModuleFuncs() {
		if relPkg(fi.Obj) != "pkg/persistence" {
			continue
		}
		fn := w.SSAFunc(fi.Obj)
		if fn == nil {
			continue
		}
		for _, f := range append([]*ssa.Function{fn}, closuresOf(fn)...) {
			for _, b := range f.Blocks {
				for _, in := range b.Instrs {
					switch x := in.(type) {
					case *ssa.Send:
						if isFieldLoad(x.Chan, "writeCh") || isFieldLoad(x.Chan, "cmdCh") {
							r.Bad("ORD-6", "send@"+fnName(f), w.Pos(x.Pos()), "bare send on the writer's channel outside a select with closedCh: after Close the run goroutine is gone and the caller blocks forever")
						}
					case *ssa.Select:
						sendsOn := ""
						hasClosed := false
						for _, st := range x.States {
							if st.Dir == types.SendOnly && (isFieldLoad(st.Chan, "writeCh") || isFieldLoad(st.Chan, "cmdCh")) {
								sendsOn = "x"
							}
							if st.Dir == types.RecvOnly && isFieldLoad(st.Chan, "closedCh") {
								hasClosed = true
							}
						}
						if sendsOn != "" {
							r.Cond(hasClosed || !x.Blocking, "ORD-6", "select-send@"+fnName(f), w.Pos(x.Pos()), "select also watches closedCh", "select sends to the run goroutine without watching closedCh: a call after Close blocks forever")
						}
					}
				}
			}
		}
	}
	// run closes closedCh on exit
	run := w.Func("pkg/persistence", "LazyAOFWriter.run")
	if run == nil {
		r.Und("ORD-6", "anchor:run", "", "anchor lost")
		return
	}
	fn := w.SSAFunc(run.Obj)
	hasDeferClose := false
	for _, in := range findInstrs(fn, func(in ssa.Instruction) bool { _, ok := in.(*ssa.Defer); return ok }) {
		d := in.(*ssa.Defer)
		if b, ok := d.Call.Value.(*ssa.Builtin); ok && b.Name() == "close" && isFieldLoad(d.Call.Args[0], "closedCh") {
			hasDeferClose = true
		}
	}
	r.Cond(hasDeferClose, "ORD-6", "run:defer-close(closedCh)", w.Pos(run.Decl.Pos()), "closedCh is closed when run exits", "run no longer closes closedCh on exit: callers after Close block forever")
}

// ---------- ORD-8 shutdown order ----------

// ruleORD8b: Index.Close unmaps the arena only after everything that may still read it was drained or stopped.
func ruleORD8b(w *World, r *Report) {
	r.Doc("ORD-8b", "Index.Close closes (unmaps) the arena only after it set the closed flag, obtained activeMu and metaMu exclusively, and stopped and awaited the arena compactor (the compactor's pointer updates are the one reader that holds neither lock)", 4)
	fi := w.Func("pkg/core/hnsw", "Index.Close")
	if fi == nil {
		r.Und("ORD-8b", "anchor:Index.Close", "", "anchor lost")
		return
	}
	fn := w.SSAFunc(fi.Obj)
	isArenaClose := func(in ssa.Instruction) bool { return isModCall(in, "pkg/storage/mmap", "VectorArena.Close") }
	closes := findInstrs(fn, isArenaClose)
	if len(closes) == 0 {
		r.Und("ORD-8b", "anchor:Index.Close:arena.Close", w.Pos(fi.Decl.Pos()), "Index.Close no longer closes the arena")
		return
	}
	lockOf := func(field string) func(ssa.Instruction) bool {
		return func(in ssa.Instruction) bool {
			c, ok := in.(*ssa.Call)
			if !ok {
				return false
			}
			o := calleeObj(&c.Call)
			return o != nil && o.Pkg() != nil && o.Pkg().Path() == "sync" && shortName(o) == "RWMutex.Lock" && recvIsField(c, field)
		}
	}
	steps := []struct {
		name string
		pred func(ssa.Instruction) bool
		bad  string
	}{
		{"closed-flag", func(in ssa.Instruction) bool {
			c, ok := in.(*ssa.Call)
			if !ok {
				return false
			}
			o := calleeObj(&c.Call)
			return o != nil && o.Pkg() != nil && o.Pkg().Path() == "sync/atomic" && shortName(o) == "Bool.Store" && recvIsField(c, "closed")
		}, "new operations can still start while the arena is being unmapped"},
		{"metaMu.Lock", lockOf("metaMu"), "readers that hold metaMu (VGet, iteration, vacuum) can still be reading vectors when the arena is unmapped: SIGSEGV"},
		{"StopCompactor", func(in ssa.Instruction) bool { return isModCall(in, "pkg/storage/mmap", "VectorArena.StopCompactor") }, "the compactor can still relocate vectors and update node pointers while the arena is being unmapped"},
		{"WaitForStopped", func(in ssa.Instruction) bool { return isModCall(in, "pkg/storage/mmap", "VectorArena.WaitForStopped") }, "the compactor was told to stop but may still be inside a relocation when the arena is unmapped"},
	}
	for _, st := range steps {
		ok, wit := mustPrecede(fn, st.pred, isArenaClose, nil)
		r.Cond(ok && len(findInstrs(fn, st.pred)) > 0, "ORD-8b", "Index.Close:"+st.name+"<arena.Close", w.Pos(closes[0].Pos()), st.name+" precedes the unmapping on every path", "Index.Close can unmap the arena without "+st.name+" first: "+st.bad, w.witness(wit)...)
	}
	// activeMu is taken in a helper goroutine and awaited through a channel: the unmapping must lie behind the receive
	// from that channel (the timeout arm must not reach it)
	drained := false
	for _, b := range fn.Blocks {
		for _, in := range b.Instrs {
			sel, ok := in.(*ssa.Select)
			if !ok {
				continue
			}
			// states: recv drainDone, recv time.After
			for si, stt := range sel.States {
				if stt.Dir != types.RecvOnly {
					continue
				}
				if c, ok := stt.Chan.(*ssa.Call); ok {
					if o := calleeObj(&c.Call); o != nil && o.Pkg() != nil && o.Pkg().Path() == "time" && o.Name() == "After" {
						// the timeout arm: from its edge no path to arena.Close
						idx := extractOfValue(sel, 0)
						if idx == nil {
							continue
						}
						for _, ref := range *idx.Referrers() {
							bo, ok := ref.(*ssa.BinOp)
							if !ok || bo.Op != token.EQL {
								continue
							}
							if k, ok := constInt(bo.Y); !ok || int(k) != si {
								continue
							}
							t, _ := condEdges(bo)
							okT := len(t) > 0
							for _, e := range t {
								if found, _ := (pathQuery{fn: fn, target: isArenaClose}).find(ipos{e.from.Succs[e.succ], -1}); found {
									okT = false
								}
							}
							if okT {
								drained = true
							}
						}
					}
				}
			}
		}
	}
	hasActive := false
	for _, c := range closuresOf(fn) {
		if len(findInstrs(c, lockOf("activeMu"))) > 0 {
			hasActive = true
		}
	}
	if len(findInstrs(fn, lockOf("activeMu"))) > 0 {
		hasActive, drained = true, true
	}
	r.Cond(hasActive && drained, "ORD-8b", "Index.Close:activeMu-drained<arena.Close", w.Pos(closes[0].Pos()), "activeMu is taken exclusively and the timeout arm never reaches the unmapping", "Index.Close can unmap the arena without having drained the in-flight operations (activeMu not taken, or the drain-timeout path goes on to unmap): a search or insert that is still running reads unmapped memory")
}

func ruleORD8(w *World, r *Report) {
	r.Doc("ORD-8", "Engine.Close: cancel < wg.Wait < AOF.Close < DB.Close, inside closeOnce.Do", 4)
	fi := w.Func("pkg/engine", "Engine.Close")
	if fi == nil {
		r.Und("ORD-8", "anchor:Engine.Close", "", "anchor lost")
		return
	}
	fn := w.SSAFunc(fi.Obj)
	// find the closure passed to closeOnce.Do
	var body *ssa.Function
	for _, in := range findInstrs(fn, func(in ssa.Instruction) bool { return isCallTo(in, "sync", "Once.Do") }) {
		c := in.(*ssa.Call)
		if mc, ok := c.Call.Args[1].(*ssa.MakeClosure); ok {
			body, _ = mc.Fn.(*ssa.Function)
		} else if len(c.Call.Args) > 1 {
			if f, ok := c.Call.Args[1].(*ssa.Function); ok {
				body = f
			}
		}
	}
	if body == nil {
		r.Bad("ORD-8", "Engine.Close:once", w.Pos(fi.Decl.Pos()), "Engine.Close does not run its shutdown sequence inside closeOnce.Do: a second Close double-closes the log")
		return
	}
	cancel := func(in ssa.Instruction) bool {
		c, ok := in.(*ssa.Call)
		if !ok || c.Call.IsInvoke() {
			return false
		}
		return isFieldLoad(c.Call.Value, "cancel")
	}
	steps := []step{
		{"cancel()", cancel},
		{"wg.Wait", func(in ssa.Instruction) bool { return isCallTo(in, "sync", "WaitGroup.Wait") }},
		{"AOF.Close", methodPred(w, "pkg/persistence", "LazyAOFWriter.Close")},
		{"DB.Close", methodPred(w, "pkg/core", "DB.Close")},
	}
	for _, s := range steps {
		if len(findInstrs(body, s.pred)) == 0 {
			r.Bad("ORD-8", "Engine.Close:has:"+s.name, w.Pos(fi.Decl.Pos()), "shutdown step "+s.name+" is missing from Engine.Close")
			return
		}
	}
	for i := 0; i+1 < len(steps); i++ {
		a, b := steps[i], steps[i+1]
		// steps are nil-guarded in the source, so "a on every path before b" is too strong; the order
		// is decided as: a never executes after b.
		found := false
		var wit []ssa.Instruction
		for _, bi := range findInstrs(body, b.pred) {
			if f2, w2 := (pathQuery{fn: body, target: a.pred}).find(posOf(bi)); f2 {
				found, wit = true, append([]ssa.Instruction{bi}, w2...)
			}
		}
		r.Cond(!found, "ORD-8", "Engine.Close:"+a.name+"<"+b.name, w.Pos(fi.Decl.Pos()), a.name+" precedes "+b.name, "Engine.Close runs "+b.name+" before "+a.name+": background work still journals while the log is being closed, or the log is closed / arenas are unmapped under running work", w.witness(wit)...)
	}
	r.Ok("ORD-8", "Engine.Close:inside-closeOnce", w.Pos(fi.Decl.Pos()), "shutdown sequence runs inside closeOnce.Do")
}

// sameValue: identical SSA values, or loads of the same single-assignment local (variables captured
// by closures are spilled to an Alloc and every use is a separate load).
func sameValue(a, b ssa.Value) bool {
	if a == b {
		return true
	}
	la, ok1 := a.(*ssa.UnOp)
	lb, ok2 := b.(*ssa.UnOp)
	if ok1 && ok2 && la.Op == token.MUL && lb.Op == token.MUL && la.X == lb.X {
		if al, ok := la.X.(*ssa.Alloc); ok {
			n := 0
			for _, ref := range *al.Referrers() {
				if st, ok := ref.(*ssa.Store); ok && st.Addr == al {
					n++
				}
			}
			return n == 1
		}
	}
	// a is the stored value and b a load of the alloc it was stored to (or vice versa)
	for _, pr := range [][2]ssa.Value{{a, b}, {b, a}} {
		if ld, ok := pr[1].(*ssa.UnOp); ok && ld.Op == token.MUL {
			if al, ok := ld.X.(*ssa.Alloc); ok {
				n := 0
				match := false
				for _, ref := range *al.Referrers() {
					if st, ok := ref.(*ssa.Store); ok && st.Addr == al {
						n++
						if st.Val == pr[0] {
							match = true
						}
					}
				}
				if n == 1 && match {
					return true
				}
			}
		}
	}
	return false
}

// ---------- ORD-7b: only io.EOF is a clean end of the log ----------

func ruleORD7b(w *World, r *Report) {
	r.Doc("ORD-7b", "in replayAOF a ReadFrame error other than io.EOF never ends replay quietly: every path from such an error to the function's return passes the repair (Truncate) or resumes the scan", 1)
	fi := w.Func("pkg/engine", "Engine.replayAOF")
	rf := w.FuncObj("pkg/persistence", "ReadFrame")
	if fi == nil || rf == nil {
		r.Und("ORD-7b", "anchor:replayAOF/ReadFrame", "", "anchor lost")
		return
	}
	fn := w.SSAFunc(fi.Obj)
	for _, in := range findInstrs(fn, callsTo(rf)) {
		c := in.(*ssa.Call)
		fail, succ := succFailEdges(fn, c)
		_ = fail
		blocked := map[edgeKey]bool{}
		for k := range succ {
			blocked[k] = true
		}
		// the io.EOF equality edge
		nEOF := 0
		for _, ev := range errValues(c) {
			for _, ref := range *ev.Referrers() {
				bo, ok := ref.(*ssa.BinOp)
				if !ok || (bo.Op != token.EQL && bo.Op != token.NEQ) {
					continue
				}
				other := bo.Y
				if other == ev {
					other = bo.X
				}
				u, ok := other.(*ssa.UnOp)
				if !ok {
					continue
				}
				g, ok := u.X.(*ssa.Global)
				if !ok || g.Name() != "EOF" || g.Pkg.Pkg.Path() != "io" {
					continue
				}
				if iff, ok := firstIf(bo); ok {
					nEOF++
					eq := 0
					if bo.Op == token.NEQ {
						eq = 1
					}
					blocked[edgeKey{iff.Block(), eq}] = true
				}
			}
		}
		if nEOF == 0 {
			r.Und("ORD-7b", "replayAOF:eof-test", w.Pos(c.Pos()), "no `err == io.EOF` test on the ReadFrame error")
			continue
		}
		repair := func(x ssa.Instruction) bool {
			return isCallTo(x, "os", "File.Truncate") || x == in
		}
		found, wit := (pathQuery{fn: fn, target: isExit, avoid: repair, blocked: blocked}).find(posOf(in))
		// exits that return a non-nil error (refusal to start, CDC-6) are not quiet ends
		if found {
			if rt, ok := wit[len(wit)-1].(*ssa.Return); ok && len(rt.Results) == 1 && definitelyError(retVal(rt, 0)) {
				found2, wit2 := (pathQuery{fn: fn, target: func(x ssa.Instruction) bool {
					rt, ok := x.(*ssa.Return)
					return ok && !(len(rt.Results) == 1 && definitelyError(retVal(rt, 0)))
				}, avoid: repair, blocked: blocked}).find(posOf(in))
				found, wit = found2, wit2
			}
		}
		r.Cond(!found, "ORD-7b", "replayAOF:non-EOF-error-is-repaired", w.Pos(c.Pos()), "every non-EOF read error leads to resync or truncate+sync",
			"a ReadFrame error other than io.EOF can end replay without repairing the file (torn tail left in place): frames appended later land behind the torn header and are swallowed on the next start", w.witness(wit)...)
	}
}

// ---------- ORD-1b: a snapshot that reports success has written and installed the snapshot ----------

func ruleORD1b(w *World, r *Report) {
	r.Doc("ORD-1b", "SaveSnapshot reports success only after saveSnapshotLocked ran, and that only after the snapshot was renamed into place (callers such as VImportCommit rely on it as their only durability step)", 1)
	ss := w.Func("pkg/engine", "Engine.SaveSnapshot")
	if ss == nil {
		r.Und("ORD-1b", "anchor:Engine.SaveSnapshot", "", "anchor lost")
		return
	}
	maySucceed := func(x ssa.Instruction) bool {
		rt, ok := x.(*ssa.Return)
		return ok && len(rt.Results) >= 1 && !definitelyError(retVal(rt, len(rt.Results)-1))
	}
	// chain: SaveSnapshot -> ... -> function renaming onto snapPath
	renameOntoSnap := func(in ssa.Instruction) bool {
		return isCallTo(in, "os", "Rename") && isFieldLoad(in.(*ssa.Call).Call.Args[1], "snapPath")
	}
	cur := ss
	for depth := 0; depth < 4; depth++ {
		fn := w.SSAFunc(cur.Obj)
		if len(findInstrs(fn, renameOntoSnap)) > 0 {
			// success only after a successful rename
			blocked := map[edgeKey]bool{}
			for _, rn := range findInstrs(fn, renameOntoSnap) {
				for k := range failureEdges(fn, rn.(*ssa.Call)) {
					blocked[k] = true
				}
			}
			found, wit := (pathQuery{fn: fn, target: func(x ssa.Instruction) bool {
				rt, ok := x.(*ssa.Return)
				return ok && len(rt.Results) == 1 && isNilConst(retVal(rt, 0))
			}, avoid: renameOntoSnap}).find(entryPos(fn))
			r.Cond(!found, "ORD-1b", shortName(cur.Obj)+":success-implies-rename", w.Pos(cur.Decl.Pos()), "nil is returned only after the rename onto the snapshot path", shortName(cur.Obj)+" can return nil without having installed a snapshot", w.witness(wit)...)
			return
		}
		// find the unique module callee in pkg/engine that leads on
		var next *FuncInfo
		var nextPred func(ssa.Instruction) bool
		for _, in := range findInstrs(fn, func(in ssa.Instruction) bool { _, ok := in.(*ssa.Call); return ok }) {
			o := calleeObj(&in.(*ssa.Call).Call)
			if o == nil || relPkg(o) != "pkg/engine" {
				continue
			}
			if d := w.Decl(o); d != nil && w.reachesRename(d, renameOntoSnap, 3) {
				next = d
				nextPred = callsTo(o)
			}
		}
		if next == nil {
			r.Bad("ORD-1b", shortName(cur.Obj)+":reaches-snapshot-writer", w.Pos(cur.Decl.Pos()), shortName(cur.Obj)+" no longer reaches the function that installs the snapshot file")
			return
		}
		found, wit := (pathQuery{fn: fn, target: maySucceed, avoid: nextPred}).find(entryPos(fn))
		r.Cond(!found, "ORD-1b", shortName(cur.Obj)+":success-implies-"+shortName(next.Obj), w.Pos(cur.Decl.Pos()), "every successful return passed "+shortName(next.Obj),
			shortName(cur.Obj)+" can report success on a path that skips "+shortName(next.Obj)+" (a fast path): callers that rely on the snapshot as their only durability step (VImportCommit, whose imports bypass the log) acknowledge data that is on no disk", w.witness(wit)...)
		cur = next
	}
}

func (w *World) reachesRename(fi *FuncInfo, pred func(ssa.Instruction) bool, depth int) bool {
	fn := w.SSAFunc(fi.Obj)
	if fn == nil {
		return false
	}
	if len(findInstrs(fn, pred)) > 0 {
		return true
	}
	if depth == 0 {
		return false
	}
	for _, in := range findInstrs(fn, func(in ssa.Instruction) bool { _, ok := in.(*ssa.Call); return ok }) {
		o := calleeObj(&in.(*ssa.Call).Call)
		if o == nil || relPkg(o) != "pkg/engine" || o == fi.Obj {
			continue
		}
		if d := w.Decl(o); d != nil && w.reachesRename(d, pred, depth-1) {
			return true
		}
	}
	return false
}

// ruleORD4b: the shadow writes handed to the caller of EndSnapshotMode must be the caller's own.
func ruleORD4b(w *World, r *Report) {
	r.Doc("ORD-4b", "a slice that the lazy writer's goroutine hands out in a command response (the shadow writes returned by EndSnapshotMode) does not share its backing array with a buffer the goroutine goes on using: it is a fresh copy, or the goroutine's variable is re-pointed at a fresh array before it is used again", 1)
	fi := w.Func("pkg/persistence", "LazyAOFWriter.run")
	if fi == nil {
		r.Und("ORD-4b", "anchor:LazyAOFWriter.run", "", "anchor lost")
		return
	}
	root := w.SSAFunc(fi.Obj)
	fns := append([]*ssa.Function{root}, closuresOf(root)...)
	n := 0
	// allocs of local []string buffers
	derivedFromAlloc := func(v ssa.Value) *ssa.Alloc {
		seen := map[ssa.Value]bool{}
		var rec func(v ssa.Value) *ssa.Alloc
		rec = func(v ssa.Value) *ssa.Alloc {
			if v == nil || seen[v] {
				return nil
			}
			seen[v] = true
			switch x := v.(type) {
			case *ssa.UnOp:
				if x.Op == token.MUL {
					if al, ok := x.X.(*ssa.Alloc); ok {
						return al
					}
					if fv, ok := x.X.(*ssa.FreeVar); ok {
						_ = fv
					}
				}
			case *ssa.Slice:
				return rec(x.X)
			case *ssa.Phi:
				for _, e := range x.Edges {
					if a := rec(e); a != nil {
						return a
					}
				}
			case *ssa.Call:
				if c, ok := isBuiltinCall(x, "append"); ok && len(c.Call.Args) > 0 {
					return rec(c.Call.Args[0])
				}
			}
			return nil
		}
		return rec(v)
	}
	for _, fn := range fns {
		for _, b := range fn.Blocks {
			for _, in := range b.Instrs {
				st, ok := in.(*ssa.Store)
				if !ok {
					continue
				}
				fa, ok := st.Addr.(*ssa.FieldAddr)
				if !ok {
					continue
				}
				if _, f := structFieldName(fa.X.Type(), fa.Field); f != "writes" {
					continue
				}
				if _, isSl := st.Val.Type().Underlying().(*types.Slice); !isSl {
					continue
				}
				n++
				key := fmt.Sprintf("run:handout#%d", n)
				al := derivedFromAlloc(st.Val)
				if al == nil {
					r.Ok("ORD-4b", key, w.Pos(st.Pos()), "the response carries a freshly allocated slice")
					continue
				}
				// the goroutine's buffer must be re-pointed at a fresh array before any further use
				keeps := func(x ssa.Instruction) bool {
					s2, ok := x.(*ssa.Store)
					return ok && s2.Addr == ssa.Value(al) && derivedFromAlloc(s2.Val) == al
				}
				fresh := func(x ssa.Instruction) bool {
					s2, ok := x.(*ssa.Store)
					return ok && s2.Addr == ssa.Value(al) && derivedFromAlloc(s2.Val) == nil
				}
				found, wit := (pathQuery{fn: fn, target: keeps, avoid: fresh}).find(posOf(st))
				r.Cond(!found, "ORD-4b", key, w.Pos(st.Pos()), "the buffer variable is re-pointed at a fresh array after the hand-out", "run() hands its own shadow buffer to the caller of EndSnapshotMode and then keeps appending into the same backing array (buffer = buffer[:0]): writes of the next snapshot/compaction window overwrite entries the first caller has not re-journaled yet — acknowledged writes vanish from the log", w.witness(wit)...)
			}
		}
	}
	if n == 0 {
		r.Und("ORD-4b", "anchor:run:writes-handout", w.Pos(fi.Decl.Pos()), "no response carrying a `writes` slice found in the writer goroutine")
	}
}

// ruleORDdel: the internal id of a vector is resolved BEFORE the index forgets it.
func ruleORDdel(w *World, r *Report) {
	r.Doc("ORD-del", "wherever the engine deletes a vector from an index and then drops its metadata (live VDelete, and the replay of deletions onto a snapshot-restored index), the internal id is resolved before Index.Delete — which removes the external→internal mapping — and DeleteMetadata follows on the path where the id was found; the GRD-scan clause for the caller: resyncAOF is always started at the last valid offset itself", 1)
	del := w.FuncObj("pkg/core/hnsw", "Index.Delete")
	n := 0
	for _, fi := range w.ModuleFuncs() {
		if relPkg(fi.Obj) != "pkg/engine" {
			continue
		}
		fn := w.SSAFunc(fi.Obj)
		if fn == nil {
			continue
		}
		isDelete := func(in ssa.Instruction) bool {
			c, ok := in.(*ssa.Call)
			if !ok {
				return false
			}
			if c.Call.IsInvoke() {
				return c.Call.Method.Name() == "Delete" && strings.HasSuffix(c.Call.Value.Type().String(), "core.VectorIndex")
			}
			return del != nil && calleeObj(&c.Call) == del
		}
		isResolve := func(in ssa.Instruction) bool { return isModCall(in, "pkg/core/hnsw", "Index.GetInternalID") }
		isDropMeta := func(in ssa.Instruction) bool { return isModCall(in, "pkg/core", "DB.DeleteMetadata") }
		dels := findInstrs(fn, isDelete)
		if len(dels) == 0 || len(findInstrs(fn, isDropMeta)) == 0 {
			continue
		}
		for i, d := range dels {
			// only deletions that are followed by a metadata drop
			if found, _ := (pathQuery{fn: fn, target: isDropMeta}).find(posOf(d)); !found {
				continue
			}
			n++
			// no resolution of the id after the delete on the way to the metadata drop
			found, wit := (pathQuery{fn: fn, target: isResolve, avoid: func(x ssa.Instruction) bool { return x != d && isDelete(x) }}).find(posOf(d))
			late := false
			if found {
				// is that resolve on a path to DeleteMetadata without another delete? (a loop may resolve the NEXT id)
				if f2, _ := (pathQuery{fn: fn, target: isDropMeta, avoid: isDelete}).find(posOf(wit[len(wit)-1])); f2 {
					late = true
				}
			}
			r.Cond(!late, "ORD-del", fmt.Sprintf("%s:delete#%d:id-resolved-first", shortName(fi.Obj), i+1), w.Pos(d.Pos()), "the internal id is resolved before the index delete", shortName(fi.Obj)+" resolves the internal id AFTER Index.Delete removed the external→internal mapping: the lookup never succeeds, DeleteMetadata is skipped, and the deleted vector keeps its metadata, filter bitmaps and BM25 postings — text, hybrid and filter queries return an id that VGet says does not exist", w.witness(wit)...)
		}
	}
	if n < 2 {
		r.Und("ORD-del", "anchor:delete-then-drop-metadata", "", fmt.Sprintf("expected the live VDelete and the replay apply loop, found %d sites", n))
	}
}

// ---------- ORD-9: no write is between journal and apply when the log before snapshot mode is discarded ----------

// journalingOps: the pkg/engine functions that journal a command themselves (the administrative protocols and the
// recovery code excluded), sorted.
func (w *World) journalingOps() []*FuncInfo {
	jw := w.journalObj()
	var ops []*FuncInfo
	for _, fi := range w.ModuleFuncs() {
		if relPkg(fi.Obj) != "pkg/engine" || w.isReplayOrRestore(fi.Obj) {
			continue
		}
		switch shortName(fi.Obj) {
		case "Engine.saveSnapshotLocked", "Engine.RewriteAOF", "Engine.SaveSnapshot":
			continue
		}
		fn := w.SSAFunc(fi.Obj)
		if fn == nil {
			continue
		}
		n := 0
		for _, f := range append([]*ssa.Function{fn}, closuresOf(fn)...) {
			n += len(findInstrs(f, callsTo(jw)))
		}
		if n > 0 {
			ops = append(ops, fi)
		}
	}
	sort.Slice(ops, func(i, j int) bool { return qname(ops[i].Obj) < qname(ops[j].Obj) })
	return ops
}

// ruleORD9: SaveSnapshot and RewriteAOF serialise the in-memory state and then discard the log written before
// BeginSnapshotMode. A command journaled before BeginSnapshotMode and applied after the state was read is in neither.
// The code's own protocol against that is the engine's operation gate:
//
//	(a) every journaling operation is inside gate.enter … gate.leave from before its journal write until after the
//	    last change it makes to memory (deferred leave, or an explicit leave that no memory change follows);
//	(b) each protocol calls gate.drain after BeginSnapshotMode succeeded and before it reads any state of pkg/core;
//	(c) drain can block (it has a wait), enter and drain touch the same counters under the gate's lock.
func ruleORD9(w *World, r *Report) {
	r.Doc("ORD-9", "no acknowledged write falls between snapshot and log: every journaling operation runs journal+apply inside the engine's operation gate, and SaveSnapshot/RewriteAOF drain that gate after BeginSnapshotMode succeeded and before reading any pkg/core state", 12)
	jw := w.journalObj()
	begin := w.FuncObj("pkg/persistence", "LazyAOFWriter.BeginSnapshotMode")
	enter, leave, drain := w.FuncObj("pkg/engine", "opGate.enter"), w.FuncObj("pkg/engine", "opGate.leave"), w.FuncObj("pkg/engine", "opGate.drain")
	if jw == nil || begin == nil {
		r.Und("ORD-9", "anchor:LazyAOFWriter.Write/BeginSnapshotMode", "", "anchor lost")
		return
	}
	if enter == nil || leave == nil || drain == nil {
		r.Bad("ORD-9", "anchor:opGate", "", "the engine has no operation gate (opGate.enter/leave/drain): nothing makes SaveSnapshot/RewriteAOF wait for a write that was journaled before BeginSnapshotMode and is not applied yet; its command is truncated with the old log and is missing from the snapshot")
		return
	}
	isEnter := callsTo(enter)
	isLeaveCall := callsTo(leave)
	isLeaveDefer := func(in ssa.Instruction) bool {
		d, ok := in.(*ssa.Defer)
		return ok && calleeObj(&d.Call) == leave
	}
	touchesCore := func(in ssa.Instruction) bool {
		c, ok := in.(*ssa.Call)
		if !ok {
			return false
		}
		o := calleeObj(&c.Call)
		return o != nil && strings.HasPrefix(relPkg(o), "pkg/core")
	}
	// insideGate: every instruction of host matching `at` executes between enter and leave, and no pkg/core call
	// follows the leave; an unexported helper may instead be called only from inside the gate.
	g := w.VTA()
	var insideGate func(host *ssa.Function, at func(ssa.Instruction) bool, depth int) (bool, string, []ssa.Instruction)
	insideGate = func(host *ssa.Function, at func(ssa.Instruction) bool, depth int) (bool, string, []ssa.Instruction) {
		entered, wit := mustPrecede(host, isEnter, at, nil)
		if !entered || len(findInstrs(host, isEnter)) == 0 {
			obj, _ := host.Object().(*types.Func)
			if obj != nil && !obj.Exported() && depth < 3 && g.Nodes[host] != nil {
				n := 0
				for _, e := range g.Nodes[host].In {
					if e.Caller == nil || e.Caller.Func == nil || e.Site == nil || !inModule(e.Caller.Func) || isTestFile(w.Fset, e.Caller.Func.Pos()) {
						continue
					}
					site := e.Site.(ssa.Instruction)
					n++
					if ok, why, wit2 := insideGate(e.Caller.Func, func(in ssa.Instruction) bool { return in == site }, depth+1); !ok {
						return false, "is called by " + shortFn(e.Caller.Func) + ", which " + why, wit2
					}
				}
				if n > 0 {
					return true, "unexported helper, every caller is inside the operation gate", nil
				}
			}
			return false, "journals its command without having entered the operation gate", wit
		}
		if f1, w1 := (pathQuery{fn: host, target: at}).findVia(entryPos(host), isLeaveCall); f1 {
			return false, "leaves the operation gate before it journals", w1
		}
		if okDefer, _ := mustPrecede(host, isLeaveDefer, at, nil); okDefer && len(findInstrs(host, isLeaveDefer)) > 0 {
			return true, "gate entered before the journal write, left by a deferred call", nil
		}
		for _, j := range findInstrs(host, at) {
			if f2, w2 := (pathQuery{fn: host, target: touchesCore}).findVia(posOf(j), isLeaveCall); f2 {
				return false, "leaves the operation gate before it finished changing memory", w2
			}
		}
		return true, "gate entered before the journal write and left only after the last pkg/core call", nil
	}
	// (a)
	ops := w.journalingOps()
	r.Count("journaling_operations", len(ops))
	for _, fi := range ops {
		fn := w.SSAFunc(fi.Obj)
		q := shortName(fi.Obj)
		for _, f := range append([]*ssa.Function{fn}, closuresOf(fn)...) {
			js := findInstrs(f, callsTo(jw))
			if len(js) == 0 {
				continue
			}
			key := q + ":journal-inside-gate"
			if f != fn {
				key = q + ":closure:journal-inside-gate"
			}
			host := f
			isJ := callsTo(jw)
			if f != fn {
				// a closure journals: the gate must be entered in the operation before the closure is created
				host = fn
				isJ = func(in ssa.Instruction) bool {
					mc, ok := in.(*ssa.MakeClosure)
					return ok && mc.Fn == f
				}
				if len(findInstrs(host, isJ)) == 0 {
					r.Und("ORD-9", key, w.Pos(js[0].Pos()), "a nested closure of "+q+" journals a command; its creation site is not in the operation itself")
					continue
				}
			}
			ok, why, wit := insideGate(host, isJ, 0)
			r.Cond(ok, "ORD-9", key, w.Pos(js[0].Pos()), why, q+" "+why+": a SaveSnapshot/RewriteAOF that begins between the journal write and the change to memory truncates the command and does not see its effect — the acknowledged write is lost on restart", w.witness(wit)...)
		}
	}
	// (d) a composite operation is one gated operation: VDelete removes the node and then unlinks its edges, each unlink
	// a journaling operation with a gate bracket of its own. The bracket of VDelete itself has to span the node delete AND the
	// cascade: with one bracket per step, a snapshot that drains between two steps captures the node deleted with its edges
	// alive and truncates the VDEL record — a crash before the cascade ends then restores a deleted node with live edges.
	if vd, unlink := w.Func("pkg/engine", "Engine.VDelete"), w.FuncObj("pkg/engine", "Engine.VUnlink"); vd != nil && unlink != nil {
		isDel := func(in ssa.Instruction) bool {
			c, ok := in.(*ssa.Call)
			return ok && c.Call.IsInvoke() && c.Call.Method.Name() == "Delete"
		}
		var reaches func(f *ssa.Function, pred func(ssa.Instruction) bool, depth int) bool
		reaches = func(f *ssa.Function, pred func(ssa.Instruction) bool, depth int) bool {
			if f == nil || depth > 4 {
				return false
			}
			for _, g := range append([]*ssa.Function{f}, closuresOf(f)...) {
				for _, b := range g.Blocks {
					for _, in := range b.Instrs {
						if pred(in) {
							return true
						}
						if c, ok := in.(ssa.CallInstruction); ok {
							if cal := c.Common().StaticCallee(); cal != nil && cal != f && inModule(cal) {
								if o, _ := cal.Object().(*types.Func); o != nil && relPkg(o) == "pkg/engine" && !o.Exported() && reaches(cal, pred, depth+1) {
									return true
								}
							}
						}
					}
				}
			}
			return false
		}
		leadsTo := func(pred func(ssa.Instruction) bool) func(ssa.Instruction) bool {
			return func(in ssa.Instruction) bool {
				if pred(in) {
					return true
				}
				if mc, ok := in.(*ssa.MakeClosure); ok {
					if f, _ := mc.Fn.(*ssa.Function); f != nil {
						return reaches(f, pred, 1)
					}
				}
				if c, ok := in.(ssa.CallInstruction); ok {
					if cal := c.Common().StaticCallee(); cal != nil && inModule(cal) {
						if o, _ := cal.Object().(*types.Func); o != nil && relPkg(o) == "pkg/engine" && !o.Exported() {
							return reaches(cal, pred, 1)
						}
					}
				}
				return false
			}
		}
		root := w.SSAFunc(vd.Obj)
		toDel, toCascade := leadsTo(isDel), leadsTo(callsTo(unlink))
		// a VDelete that only forwards to the function doing the work: that function is the operation
		for hop := 0; hop < 3 && root != nil && len(findInstrs(root, isEnter)) == 0; hop++ {
			both := findInstrs(root, func(in ssa.Instruction) bool { return toDel(in) && toCascade(in) })
			if len(both) != 1 {
				break
			}
			next := both[0].(ssa.CallInstruction).Common().StaticCallee()
			if next == nil {
				break
			}
			root = next
		}
		if root == nil || len(findInstrs(root, toDel)) == 0 || len(findInstrs(root, toCascade)) == 0 {
			r.Und("ORD-9", "Engine.VDelete:composite", w.Pos(vd.Decl.Pos()), "the node delete or the cascade of VUnlink calls was not found in Engine.VDelete and its helpers (shape not recognised)")
		} else {
			for _, part := range []struct {
				name string
				at   func(ssa.Instruction) bool
			}{{"node-delete", toDel}, {"cascade", toCascade}} {
				ok, why, wit := insideGate(root, part.at, 0)
				site := findInstrs(root, part.at)[0]
				r.Cond(ok, "ORD-9", "Engine.VDelete:"+part.name+":inside-the-gate-bracket-of-the-whole-delete", w.Pos(site.Pos()), "the bracket of the delete operation spans this step ("+why+")", "the "+part.name+" step of Engine.VDelete is not inside a gate bracket that spans the whole delete (the operation "+why+"): with a bracket per step, SaveSnapshot/RewriteAOF can drain between the node delete and the end of the cascade, serialise the node as deleted with its edges alive and truncate the VDEL record; after a crash before the cascade ends the deleted node keeps live edges", w.witness(wit)...)
			}
		}
	}
	// (b)
	nb := 0
	for _, fi := range w.ModuleFuncs() {
		if relPkg(fi.Obj) == "pkg/persistence" {
			continue
		}
		fn := w.SSAFunc(fi.Obj)
		if fn == nil {
			continue
		}
		for _, f := range append([]*ssa.Function{fn}, closuresOf(fn)...) {
			for i, b := range findInstrs(f, callsTo(begin)) {
				nb++
				key := fmt.Sprintf("%s:drain-after-BeginSnapshotMode#%d", shortName(fi.Obj), i+1)
				found, wit := pathQuery{fn: f, target: touchesCore, avoid: callsTo(drain), blocked: failureEdges(f, b.(*ssa.Call))}.find(posOf(b))
				r.Cond(!found, "ORD-9", key, w.Pos(b.Pos()), "the gate is drained between BeginSnapshotMode and the first pkg/core call", shortName(fi.Obj)+" reads the in-memory state after BeginSnapshotMode without draining the operation gate: a write journaled before BeginSnapshotMode may not be applied yet, so it is missing from the serialised state while its log record is discarded", w.witness(wit)...)
				// and not before: a drain placed before BeginSnapshotMode waits for the wrong set of operations
				if len(findInstrs(f, callsTo(drain))) == 0 {
					continue
				}
			}
		}
	}
	if nb < 2 {
		r.Und("ORD-9", "anchor:BeginSnapshotMode-callers", "", fmt.Sprintf("expected the two snapshot protocols to call BeginSnapshotMode, found %d call(s)", nb))
	}
	// (c) the gate itself: drain can block; enter, leave and drain all work under the gate's own mutex
	for _, gf := range []*types.Func{enter, leave, drain} {
		fn := w.SSAFunc(gf)
		if fn == nil {
			r.Und("ORD-9", "anchor:"+shortName(gf), "", "no body")
			continue
		}
		locks := findInstrs(fn, func(in ssa.Instruction) bool { return isCallTo(in, "sync", "Mutex.Lock") })
		r.Cond(len(locks) > 0, "ORD-9", shortName(gf)+":under-gate-mutex", w.Pos(fn.Pos()), "works under the gate's mutex", shortName(gf)+" no longer takes the gate's mutex: the in-flight counters race and drain can miss an operation")
	}
	// leave wakes the waiting drain only for an operation of an EARLIER epoch: an operation that entered after the
	// drain began (its command went to the shadow buffer) leaving must not end the wait for the older ones
	if fn := w.SSAFunc(leave); fn != nil && len(fn.Params) >= 2 {
		tok := fn.Params[len(fn.Params)-1]
		isWake := func(in ssa.Instruction) bool {
			if c, ok := isBuiltinCall(in, "close"); ok && c != nil {
				return true
			}
			if _, ok := in.(*ssa.Send); ok {
				return true
			}
			return isCallTo(in, "sync", "Cond.Broadcast") || isCallTo(in, "sync", "Cond.Signal")
		}
		isEpochCmp := func(in ssa.Instruction) bool {
			bo, ok := in.(*ssa.BinOp)
			if !ok || (bo.Op != token.NEQ && bo.Op != token.EQL && bo.Op != token.LSS && bo.Op != token.GTR) {
				return false
			}
			isTok := func(v ssa.Value) bool { return v == ssa.Value(tok) }
			isEpoch := func(v ssa.Value) bool {
				ld, ok := v.(*ssa.UnOp)
				if !ok || ld.Op != token.MUL {
					return false
				}
				fa, ok := ld.X.(*ssa.FieldAddr)
				if !ok {
					return false
				}
				_, f := structFieldName(fa.X.Type(), fa.Field)
				return f == "epoch"
			}
			return (isTok(bo.X) && isEpoch(bo.Y)) || (isTok(bo.Y) && isEpoch(bo.X))
		}
		wakes := findInstrs(fn, isWake)
		for i, wk := range wakes {
			ww := wk
			tgt := func(in ssa.Instruction) bool { return in == ww }
			gv := func(in ssa.Instruction) ssa.Value { return in.(*ssa.BinOp) }
			ok := false
			// token != epoch (true edge), token == epoch (false edge), token < epoch (true edge)
			if len(findInstrs(fn, isEpochCmp)) > 0 {
				neq := func(in ssa.Instruction) bool { return isEpochCmp(in) && in.(*ssa.BinOp).Op != token.EQL }
				eql := func(in ssa.Instruction) bool { return isEpochCmp(in) && in.(*ssa.BinOp).Op == token.EQL }
				if len(findInstrs(fn, neq)) > 0 {
					ok, _ = mustPassGuard(fn, tgt, neq, gv, true, nil)
				}
				if !ok && len(findInstrs(fn, eql)) > 0 {
					ok, _ = mustPassGuard(fn, tgt, eql, gv, false, nil)
				}
			}
			r.Cond(ok, "ORD-9", fmt.Sprintf("opGate.leave:wake#%d:only-for-an-earlier-epoch", i+1), w.Pos(wk.Pos()), "the waiting drain is woken only behind a comparison of the operation's epoch with the current one", "opGate.leave wakes the waiting drain for an operation of ANY epoch: a short write that entered after the snapshot began ends the wait while older operations — whose commands are about to be truncated — are still applying; the snapshot misses them and their log records are discarded")
		}
	}
	if fn := w.SSAFunc(drain); fn != nil {
		waits := findInstrs(fn, func(in ssa.Instruction) bool {
			if u, ok := in.(*ssa.UnOp); ok && u.Op == token.ARROW {
				return true
			}
			if _, ok := in.(*ssa.Select); ok {
				return true
			}
			return isCallTo(in, "sync", "Cond.Wait") || isCallTo(in, "sync", "WaitGroup.Wait")
		})
		// … and the wait has one way out: the wake-up. A timer, a default or a context next to it ends the wait while
		// operations of the old epoch are still between their journal write and their change to memory.
		for i, wt := range waits {
			sel, isSel := wt.(*ssa.Select)
			if !isSel {
				continue
			}
			r.Cond(sel.Blocking && len(sel.States) == 1, "ORD-9", fmt.Sprintf("opGate.drain:wait#%d:ends-only-with-the-wake-up", i+1), w.Pos(sel.Pos()), "the wait has no other way out", "opGate.drain can stop waiting without having been woken (a timeout, a default or a cancellation next to the wake-up channel): SaveSnapshot / RewriteAOF then serialise the state while an operation that journaled before BeginSnapshotMode has not applied yet, and truncate or replace the log that holds its record — the operation is acknowledged later and gone after the next restart")
		}
		r.Cond(len(waits) > 0, "ORD-9", "opGate.drain:blocks", w.Pos(fn.Pos()), "drain contains a blocking wait", "opGate.drain never blocks: the snapshot protocols no longer wait for the operations that journaled before BeginSnapshotMode")
	}
}

// ---------- ORD-10: a precision change keeps the old arena until the new state is durable ----------

// ruleORD10: VCompress = DB.Compress (rebuilds the index in the new precision; moves the old arena directory away and
// writes a new one) followed by SaveSnapshot. Vectors live only in the arena files; the snapshot describes which
// precision they have. Between the two steps the directory holds the OLD snapshot and the NEW arena: a crash there
// leaves a data directory that cannot be opened (arena precision mismatch). The shape that would make the window
// safe: nothing under the arena directory of the old precision is renamed or removed before the snapshot of the new
// state has been written.
func ruleORD10(w *World, r *Report) {
	r.Doc("ORD-10", "a precision change does not move or remove the arena files of the old precision before the snapshot that describes the new state is durable (SaveSnapshot precedes the os.Rename/RemoveAll of the arena directory)", 1)
	vc := w.Func("pkg/engine", "Engine.VCompress")
	cp := w.Func("pkg/core", "DB.Compress")
	ss := w.FuncObj("pkg/engine", "Engine.SaveSnapshot")
	if vc == nil || cp == nil || ss == nil {
		r.Und("ORD-10", "anchor:VCompress/DB.Compress/SaveSnapshot", "", "anchor lost")
		return
	}
	cfn := w.SSAFunc(cp.Obj)
	moves := false
	for _, f := range append([]*ssa.Function{cfn}, closuresOf(cfn)...) {
		if len(findInstrs(f, func(in ssa.Instruction) bool { return isCallTo(in, "os", "Rename") || isCallTo(in, "os", "RemoveAll") })) > 0 {
			moves = true
		}
	}
	fn := w.SSAFunc(vc.Obj)
	if !moves {
		r.Ok("ORD-10", "Engine.VCompress:arena-kept-until-snapshot-durable", w.Pos(vc.Decl.Pos()), "DB.Compress neither renames nor removes arena files")
		return
	}
	// DB.Compress moves the arena: it must run after the snapshot
	ok, wit := mustPrecede(fn, callsTo(ss), callsTo(cp.Obj), nil)
	r.Cond(ok && len(findInstrs(fn, callsTo(ss))) > 0, "ORD-10", "Engine.VCompress:arena-kept-until-snapshot-durable", w.Pos(vc.Decl.Pos()), "the arena of the old precision is touched only after the snapshot of the new state", "Engine.VCompress lets DB.Compress move the old arena directory away and write the new one BEFORE SaveSnapshot records the new precision: a crash between the two leaves the old snapshot next to the new arena, and the next Open fails with 'arena precision mismatch' — the whole data directory is unusable", w.witness(wit)...)
}

// ruleORD11: the replay offset (what a torn tail is truncated to, and where a resync starts) is advanced over every
// frame that was read and decoded. A `continue` (or any other edge) that takes a decoded record back to the next
// ReadFrame without the `validOffset += frameSize` makes the offset lag for the rest of the replay.
func ruleORD11(w *World, r *Report) {
	r.Doc("ORD-11", "in the replay loop every path from a frame that was read and decoded to the next ReadFrame advances the replay offset by that frame's size: the offset a torn tail is truncated to (and a resync starts from) never lags behind the frames already applied", 1)
	rp := w.Func("pkg/engine", "Engine.replayAOF")
	if rp == nil {
		r.Und("ORD-11", "anchor:Engine.replayAOF", "", "anchor lost")
		return
	}
	fn := w.SSAFunc(rp.Obj)
	reads := findInstrs(fn, func(in ssa.Instruction) bool { return isCallTo(in, modPath+"/pkg/persistence", "ReadFrame") })
	parses := findInstrs(fn, func(in ssa.Instruction) bool { return isCallTo(in, modPath+"/pkg/persistence", "ParseCommand") })
	if len(reads) != 1 || len(parses) != 1 {
		r.Und("ORD-11", "Engine.replayAOF:offset-advanced-over-every-decoded-frame", w.Pos(rp.Decl.Pos()), fmt.Sprintf("expected one ReadFrame and one ParseCommand call in the replay loop, found %d/%d", len(reads), len(parses)))
		return
	}
	rd, ps := reads[0].(*ssa.Call), parses[0].(*ssa.Call)
	// the advance: an ADD one of whose operands is the frame size returned by this ReadFrame
	isSize := func(v ssa.Value) bool {
		for {
			switch x := v.(type) {
			case *ssa.Convert:
				v = x.X
				continue
			case *ssa.ChangeType:
				v = x.X
				continue
			case *ssa.Extract:
				return x.Tuple == ssa.Value(rd) && x.Index == 1
			}
			return false
		}
	}
	advance := func(in ssa.Instruction) bool {
		b, ok := in.(*ssa.BinOp)
		return ok && b.Op == token.ADD && (isSize(b.X) || isSize(b.Y)) && b.Referrers() != nil && len(*b.Referrers()) > 0
	}
	if len(findInstrs(fn, advance)) == 0 {
		r.Bad("ORD-11", "Engine.replayAOF:offset-advanced-over-every-decoded-frame", w.Pos(rp.Decl.Pos()), "no statement adds the size returned by ReadFrame to the replay offset")
		return
	}
	q := pathQuery{fn: fn, target: func(in ssa.Instruction) bool { return in == ssa.Instruction(rd) }, avoid: advance, blocked: failureEdges(fn, ps)}
	found, wit := q.find(posOf(ps))
	r.Cond(!found, "ORD-11", "Engine.replayAOF:offset-advanced-over-every-decoded-frame", w.Pos(rp.Decl.Pos()), "every path from a decoded record to the next ReadFrame passes the `validOffset += frameSize`", "a record that was read and decoded reaches the next ReadFrame without the replay offset being advanced over it (a `continue` inside the command switch): the offset lags by that frame for the rest of the replay, a later torn tail is 'repaired' by truncating the log inside the last intact frames and a resync starts inside records that were already applied", w.witness(wit)...)
}
