package main

// rules_c20.go — C20: text analysis, chunking and context assembly are total and bounded.
//
//   TBL-sep      what the recursive splitter removes from the text is given back or is whitespace
//   GRD-size     nothing uncounted is added to a chunk; the overlap tail is chosen knowing the next piece;
//                every built-in separator table ends with the character-level fallback
//   GRD-progress every loop/recursion of the splitters and chunker has a strictly advancing measure
//   GRD-budget   the assembled context only takes a chunk on the within-budget edge and counts it
//   GRD-expand   BFS expansion: visited-guard + mark before enqueue, depth cut, node cap, head advances
//   TBL-stop     lexical compression cannot drop negations / connectives
//   EFF-det      the text functions contain no source of non-determinism

import (
	"fmt"
	"go/ast"
	"go/constant"
	"go/token"
	"go/types"
	"sort"
	"strings"
	"unicode"

	"golang.org/x/tools/go/ssa"
)

const (
	ragPkg  = "pkg/rag"
	textPkg = "pkg/core/text"
	taPkg   = "pkg/textanalyzer"
)

func isStdCall(in ssa.Instruction, pkg, name string) (*ssa.Call, bool) {
	c, ok := in.(*ssa.Call)
	if !ok {
		return nil, false
	}
	o := calleeObj(&c.Call)
	if o == nil || o.Pkg() == nil || o.Pkg().Path() != pkg || shortName(o) != name {
		return nil, false
	}
	return c, true
}

func valueIsStdCall(v ssa.Value, pkg, name string) (*ssa.Call, bool) {
	in, ok := v.(ssa.Instruction)
	if !ok {
		return nil, false
	}
	return isStdCall(in, pkg, name)
}

// separatorTables: the constant []string literals assigned to a `Separators:` key in pkg/rag.
type sepTable struct {
	fn   string
	pos  token.Pos
	seps []string
	ok   bool // all elements constant
}

func separatorTables(w *World) []sepTable {
	pkg := w.Pkg(ragPkg)
	if pkg == nil {
		return nil
	}
	var out []sepTable
	for _, f := range pkg.Syntax {
		if isTestFile(w.Fset, f.Pos()) {
			continue
		}
		for _, d := range f.Decls {
			fd, ok := d.(*ast.FuncDecl)
			if !ok || fd.Body == nil {
				continue
			}
			n := 0
			ast.Inspect(fd.Body, func(nd ast.Node) bool {
				kv, ok := nd.(*ast.KeyValueExpr)
				if !ok {
					return true
				}
				id, ok := kv.Key.(*ast.Ident)
				if !ok || id.Name != "Separators" {
					return true
				}
				cl, ok := kv.Value.(*ast.CompositeLit)
				if !ok {
					return true // a variable (e.g. user-supplied separators): not a built-in table
				}
				n++
				t := sepTable{fn: fmt.Sprintf("%s#%d", fd.Name.Name, n), pos: cl.Pos(), ok: true}
				for _, e := range cl.Elts {
					tv, ok := pkg.TypesInfo.Types[e]
					if !ok || tv.Value == nil || tv.Value.Kind() != constant.String {
						t.ok = false
						continue
					}
					t.seps = append(t.seps, constant.StringVal(tv.Value))
				}
				out = append(out, t)
				return true
			})
		}
	}
	return out
}

func whitespaceOnly(s string) bool { return strings.TrimFunc(s, unicode.IsSpace) == "" }

func ruleTBLsep(w *World, r *Report) {
	r.Doc("TBL-sep", "the recursive splitter loses no non-whitespace text: what strings.Split removes (the separator) is either re-inserted by the join, or — for a separator that carries content — split into a whitespace joiner sep[:n] and a kept part sep[n:] (same n, n = length of the leading whitespace) that is put in front of every piece after the first", 2)
	fi := w.Func(ragPkg, "RecursiveCharacterSplitter.recursiveSplit")
	if fi == nil {
		r.Und("TBL-sep", "anchor:recursiveSplit", "", "anchor lost")
		return
	}
	fn := w.SSAFunc(fi.Obj)
	var split *ssa.Call
	for _, in := range findInstrs(fn, func(in ssa.Instruction) bool { _, ok := isStdCall(in, "strings", "Split"); return ok }) {
		split = in.(*ssa.Call)
	}
	var merge *ssa.Call
	for _, in := range findInstrs(fn, func(in ssa.Instruction) bool {
		return isModCall(in, ragPkg, "RecursiveCharacterSplitter.mergeSplits")
	}) {
		merge = in.(*ssa.Call)
	}
	if split == nil || merge == nil {
		r.Und("TBL-sep", "anchor:recursiveSplit:split/merge", w.Pos(fi.Decl.Pos()), "recursiveSplit no longer splits with strings.Split and re-joins with mergeSplits: separator accounting not recognised")
		return
	}
	sep := split.Call.Args[1]
	joiner := merge.Call.Args[len(merge.Call.Args)-1]
	tables := separatorTables(w)
	if len(tables) < 3 {
		r.Und("TBL-sep", "anchor:separator-tables", "", fmt.Sprintf("expected ≥3 built-in separator tables, found %d", len(tables)))
	}
	if joiner == sep {
		// whole separator is re-inserted inside a merged piece and dropped at chunk boundaries
		r.Ok("TBL-sep", "recursiveSplit:joiner", w.Pos(merge.Pos()), "pieces are re-joined with the separator that was removed")
		for _, t := range tables {
			var bad []string
			for _, s := range t.seps {
				if !whitespaceOnly(s) {
					bad = append(bad, fmt.Sprintf("%q", s))
				}
			}
			r.Cond(len(bad) == 0 && t.ok, "TBL-sep", "table:"+t.fn+":whitespace-only", w.Pos(t.pos), "all separators are whitespace", "built-in separator table "+t.fn+" contains "+strings.Join(bad, ", ")+": the splitter drops the separator at every chunk boundary, so these characters (keywords, heading markers) vanish from the chunks")
		}
		return
	}
	// partitioned separator
	js, ok := joiner.(*ssa.Slice)
	okPart := ok && js.X == sep && js.Low == nil && js.High != nil
	var kept *ssa.Slice
	if okPart {
		for _, ref := range *sep.Referrers() {
			if ks, ok := ref.(*ssa.Slice); ok && ks.X == sep && ks.High == nil && ks.Low == js.High {
				kept = ks
			}
		}
	}
	r.Cond(okPart && kept != nil, "TBL-sep", "recursiveSplit:partition", w.Pos(merge.Pos()), "joiner = sep[:n] and kept = sep[n:] with the same n", "the value pieces are re-joined with is neither the separator that strings.Split removed nor the first half of a sep[:n] / sep[n:] partition of it: part of every separator occurrence is lost (or invented) when chunks are assembled")
	if !okPart || kept == nil {
		return
	}
	// n = len(sep) − len(TrimLeft*(sep, whitespace))
	okWS := false
	if bo, ok := js.High.(*ssa.BinOp); ok && bo.Op == token.SUB && isLenOfValue(bo.X, sep) {
		if lc, ok := bo.Y.(*ssa.Call); ok {
			if _, isLen := isBuiltinCall(lc, "len"); isLen {
				if tc, ok := valueIsStdCall(lc.Call.Args[0], "strings", "TrimLeftFunc"); ok && tc.Call.Args[0] == sep {
					if f, ok := tc.Call.Args[1].(*ssa.Function); ok && f.Pkg != nil && f.Pkg.Pkg.Path() == "unicode" && f.Name() == "IsSpace" {
						okWS = true
					}
				}
				if tc, ok := valueIsStdCall(lc.Call.Args[0], "strings", "TrimLeft"); ok && tc.Call.Args[0] == sep {
					if cs, ok := constString(tc.Call.Args[1]); ok && cs != "" && whitespaceOnly(cs) {
						okWS = true
					}
				}
			}
		}
	}
	r.Cond(okWS, "TBL-sep", "recursiveSplit:joiner-is-whitespace", w.Pos(js.Pos()), "n is the length of the separator's leading whitespace", "the part of the separator that is dropped at chunk boundaries (sep[:n]) is not shown to be whitespace (n is not len(sep) − len(TrimLeft…(sep, whitespace))): separator characters can vanish from the chunks")
	// every piece after the first gets the kept part in front
	var elems []*ssa.UnOp
	for _, b := range fn.Blocks {
		for _, in := range b.Instrs {
			u, ok := in.(*ssa.UnOp)
			if !ok || u.Op != token.MUL {
				continue
			}
			if ia, ok := u.X.(*ssa.IndexAddr); ok && ia.X == ssa.Value(split) {
				elems = append(elems, u)
			}
		}
	}
	if len(elems) == 0 {
		r.Und("TBL-sep", "recursiveSplit:pieces", w.Pos(split.Pos()), "the pieces returned by strings.Split are not read element by element")
		return
	}
	for i, e := range elems {
		idx := e.X.(*ssa.IndexAddr).Index
		bad := ""
		for _, ref := range *e.Referrers() {
			switch x := ref.(type) {
			case *ssa.DebugRef:
			case *ssa.BinOp:
				if !(x.Op == token.ADD && x.X == ssa.Value(kept) && x.Y == ssa.Value(e)) {
					bad = "used in an expression other than kept+piece"
				}
			case *ssa.Store:
				// element 1 of a two-element literal []string{kept, piece} that is joined with ""
				if !joinedAfterKept(x, kept) {
					bad = "stored somewhere other than behind the kept part in a strings.Join(…, \"\")"
				}
			case *ssa.Phi:
				for k, edge := range x.Edges {
					if edge != ssa.Value(e) {
						continue
					}
					pred := x.Block().Preds[k]
					if !edgeMeansFirst(pred, x.Block(), idx) && !edgeMeansEmpty(pred, x.Block(), kept) {
						bad = "reaches its uses un-prefixed on a path that is not restricted to the first piece (index 0)"
					}
				}
			default:
				bad = fmt.Sprintf("used directly (%T) without the kept part of the separator", ref)
			}
		}
		r.Cond(bad == "", "TBL-sep", fmt.Sprintf("recursiveSplit:piece#%d:prefixed", i+1), w.Pos(e.Pos()), "a piece is used un-prefixed only when it is the first one; all others are kept+piece", "a piece produced by strings.Split is "+bad+": the content part of the separator (\"func\", \"## \") in front of that piece is lost")
	}
}

func isLenOfValue(v ssa.Value, of ssa.Value) bool {
	c, ok := v.(*ssa.Call)
	if !ok {
		return false
	}
	_, isLen := isBuiltinCall(c, "len")
	return isLen && c.Call.Args[0] == of
}

// edgeMeansFirst: the CFG edge pred→blk is taken only when idx == 0 (false edge of idx > 0 / idx != 0,
// true edge of idx == 0 / idx < 1).
func edgeMeansFirst(pred, blk *ssa.BasicBlock, idx ssa.Value) bool {
	iff, ok := pred.Instrs[len(pred.Instrs)-1].(*ssa.If)
	if !ok {
		return false
	}
	bo, ok := iff.Cond.(*ssa.BinOp)
	if !ok || bo.X != idx {
		return false
	}
	c, ok := constInt(bo.Y)
	if !ok {
		return false
	}
	trueEdge := pred.Succs[0] == blk && pred.Succs[1] != blk
	falseEdge := pred.Succs[1] == blk && pred.Succs[0] != blk
	switch {
	case bo.Op == token.GTR && c == 0, bo.Op == token.NEQ && c == 0, bo.Op == token.GEQ && c == 1:
		return falseEdge
	case bo.Op == token.EQL && c == 0, bo.Op == token.LSS && c == 1, bo.Op == token.LEQ && c == 0:
		return trueEdge
	}
	return false
}

// edgeMeansEmpty: the edge pred→blk is taken only when string value v is empty (v == "" true, v != "" false,
// len(v) == 0 …); a short-circuit `a && v != ""` is followed one step up.
func edgeMeansEmpty(pred, blk *ssa.BasicBlock, v ssa.Value) bool {
	iff, ok := pred.Instrs[len(pred.Instrs)-1].(*ssa.If)
	if !ok {
		return false
	}
	trueEdge := pred.Succs[0] == blk && pred.Succs[1] != blk
	falseEdge := pred.Succs[1] == blk && pred.Succs[0] != blk
	bo, ok := iff.Cond.(*ssa.BinOp)
	if !ok {
		return false
	}
	if (bo.X == v || bo.Y == v) && (bo.Op == token.EQL || bo.Op == token.NEQ) {
		other := bo.Y
		if other == v {
			other = bo.X
		}
		if cs, ok := constString(other); ok && cs == "" {
			if bo.Op == token.EQL {
				return trueEdge
			}
			return falseEdge
		}
	}
	return false
}

// joinedAfterKept: st stores a piece into element 1 of a fresh two-element array whose element 0 is `kept`, and the
// array is handed to strings.Join with an empty separator.
func joinedAfterKept(st *ssa.Store, kept ssa.Value) bool {
	ia, ok := st.Addr.(*ssa.IndexAddr)
	if !ok {
		return false
	}
	if c, ok := constInt(ia.Index); !ok || c != 1 {
		return false
	}
	arr, ok := ia.X.(*ssa.Alloc)
	if !ok {
		return false
	}
	first, joined := false, false
	for _, ref := range *arr.Referrers() {
		switch x := ref.(type) {
		case *ssa.IndexAddr:
			if c, ok := constInt(x.Index); ok && c == 0 {
				for _, r2 := range *x.Referrers() {
					if s0, ok := r2.(*ssa.Store); ok && s0.Val == kept {
						first = true
					}
				}
			}
		case *ssa.Slice:
			for _, r2 := range *x.Referrers() {
				if c, ok := r2.(*ssa.Call); ok && commonIs(&c.Call, "strings", "Join") && len(c.Call.Args) == 2 {
					if sep, ok := constString(c.Call.Args[1]); ok && sep == "" {
						joined = true
					}
				}
			}
		}
	}
	return first && joined
}

// ---------- GRD-size ----------

// flowsIntoChunkSizeTest: v is an addend (through + and *) of a value compared with the ChunkSize field.
func flowsIntoChunkSizeTest(v ssa.Value, seen map[ssa.Value]bool) bool {
	if seen[v] || v.Referrers() == nil {
		return false
	}
	seen[v] = true
	for _, ref := range *v.Referrers() {
		bo, ok := ref.(*ssa.BinOp)
		if !ok {
			if p, ok := ref.(*ssa.Phi); ok && flowsIntoChunkSizeTest(p, seen) {
				return true
			}
			continue
		}
		switch bo.Op {
		case token.ADD, token.MUL, token.SUB:
			if flowsIntoChunkSizeTest(bo, seen) {
				return true
			}
		case token.GTR, token.GEQ, token.LSS, token.LEQ:
			if isChunkSize(bo.X) || isChunkSize(bo.Y) {
				return true
			}
		}
	}
	return false
}

// isChunkSize: the ChunkSize field of the splitter — read directly, or handed in as a parameter that every call of the
// function (in its package) feeds with that field (`removeFirstUntilOverlap(…, s.ChunkSize, …)`).
func isChunkSize(v ssa.Value) bool {
	if isFieldLoad(v, "ChunkSize") {
		return true
	}
	p, ok := v.(*ssa.Parameter)
	if !ok || p.Parent() == nil || p.Parent().Pkg == nil {
		return false
	}
	g := p.Parent()
	idx := -1
	for i, q := range g.Params {
		if q == p {
			idx = i
		}
	}
	if idx < 0 {
		return false
	}
	fed, n := true, 0
	var scan func(f *ssa.Function)
	scan = func(f *ssa.Function) {
		for _, b := range f.Blocks {
			for _, in := range b.Instrs {
				if c := callCommon(in); c != nil && c.StaticCallee() == g {
					n++
					if idx >= len(c.Args) || !isFieldLoad(c.Args[idx], "ChunkSize") {
						fed = false
					}
				}
			}
		}
		for _, a := range f.AnonFuncs {
			scan(a)
		}
	}
	for _, mem := range g.Pkg.Members {
		switch m := mem.(type) {
		case *ssa.Function:
			scan(m)
		case *ssa.Type:
			for _, t := range []types.Type{m.Type(), types.NewPointer(m.Type())} {
				ms := g.Prog.MethodSets.MethodSet(t)
				for i := 0; i < ms.Len(); i++ {
					if mf := g.Prog.MethodValue(ms.At(i)); mf != nil && mf.Pkg == g.Pkg {
						scan(mf)
					}
				}
			}
		}
	}
	return fed && n > 0
}

func ruleGRDsize(w *World, r *Report) {
	r.Doc("GRD-size", "chunks stay within the configured size: every built-in separator table ends with the character-level fallback \"\"; SplitText and mergeSplits add to a chunk only text whose length entered the comparison with ChunkSize (pieces, and the joiner whose rune count is the counted separator length); the function that picks the overlap tail is given the length of the next piece and compares tail+next with ChunkSize", 6)
	for _, t := range separatorTables(w) {
		last := len(t.seps) > 0 && t.seps[len(t.seps)-1] == ""
		r.Cond(last && t.ok, "GRD-size", "table:"+t.fn+":ends-with-fallback", w.Pos(t.pos), "last separator is \"\" (split between any two characters)", "built-in separator table "+t.fn+" does not end with \"\": a run of text without any of the listed separators (one long word, a minified line) becomes a single chunk of unbounded length")
	}
	// SplitText: only counted text is concatenated
	if fi := w.Func(ragPkg, "RecursiveCharacterSplitter.SplitText"); fi == nil {
		r.Und("GRD-size", "anchor:SplitText", "", "anchor lost")
	} else {
		fn := w.SSAFunc(fi.Obj)
		counted := map[ssa.Value]bool{}
		for _, b := range fn.Blocks {
			for _, in := range b.Instrs {
				if c, ok := isStdCall(in, "unicode/utf8", "RuneCountInString"); ok && flowsIntoChunkSizeTest(c, map[ssa.Value]bool{}) {
					counted[c.Call.Args[0]] = true
				}
				if c, ok := in.(*ssa.Call); ok {
					if _, isLen := isBuiltinCall(c, "len"); isLen && basicKind(c.Call.Args[0].Type()) == types.String && flowsIntoChunkSizeTest(c, map[ssa.Value]bool{}) {
						counted[c.Call.Args[0]] = true
					}
				}
			}
		}
		n := 0
		for _, b := range fn.Blocks {
			for _, in := range b.Instrs {
				bo, ok := in.(*ssa.BinOp)
				if !ok || bo.Op != token.ADD || basicKind(bo.Type()) != types.String {
					continue
				}
				n++
				bad := ""
				for _, op := range []ssa.Value{bo.X, bo.Y} {
					if !countedOrDoc(op, counted, map[ssa.Value]bool{}) {
						bad = describeValue(op)
					}
				}
				r.Cond(bad == "", "GRD-size", fmt.Sprintf("SplitText:concat#%d:counted", n), w.Pos(bo.Pos()), "only the running chunk and pieces whose rune count was compared with ChunkSize are concatenated", "SplitText appends "+bad+" to the chunk although its length never entered the comparison with ChunkSize: two pieces that fit exactly are merged into a chunk longer than the configured size")
			}
		}
		if n == 0 || len(counted) == 0 {
			r.Und("GRD-size", "SplitText:concat", w.Pos(fi.Decl.Pos()), "no size-tested concatenation found in SplitText: final merge not recognised")
		}
	}
	// mergeSplits
	fi := w.Func(ragPkg, "RecursiveCharacterSplitter.mergeSplits")
	if fi == nil {
		r.Und("GRD-size", "anchor:mergeSplits", "", "anchor lost")
		return
	}
	fn := w.SSAFunc(fi.Obj)
	if len(fn.Params) < 3 {
		r.Und("GRD-size", "anchor:mergeSplits:params", w.Pos(fi.Decl.Pos()), "unexpected signature")
		return
	}
	sepParam := fn.Params[2]
	sepCounted := false
	for _, b := range fn.Blocks {
		for _, in := range b.Instrs {
			if c, ok := isStdCall(in, "unicode/utf8", "RuneCountInString"); ok && c.Call.Args[0] == ssa.Value(sepParam) && flowsIntoChunkSizeTest(c, map[ssa.Value]bool{}) {
				sepCounted = true
			}
		}
	}
	nj := 0
	for _, in := range findInstrs(fn, func(in ssa.Instruction) bool { _, ok := isStdCall(in, "strings", "Join"); return ok }) {
		nj++
		c := in.(*ssa.Call)
		r.Cond(c.Call.Args[1] == ssa.Value(sepParam) && sepCounted, "GRD-size", fmt.Sprintf("mergeSplits:join#%d:counted-joiner", nj), w.Pos(c.Pos()), "pieces are joined with the separator whose rune count is part of the size test", "mergeSplits joins pieces with a string whose length is not the one counted in the comparison with ChunkSize: merged chunks exceed the configured size by the uncounted joiners")
	}
	if nj == 0 {
		r.Und("GRD-size", "mergeSplits:join", w.Pos(fi.Decl.Pos()), "mergeSplits no longer joins with strings.Join")
	}
	// overlap tail
	var splitLens []ssa.Value
	for _, b := range fn.Blocks {
		for _, in := range b.Instrs {
			if c, ok := isStdCall(in, "unicode/utf8", "RuneCountInString"); ok && c.Call.Args[0] != ssa.Value(sepParam) && flowsIntoChunkSizeTest(c, map[ssa.Value]bool{}) {
				splitLens = append(splitLens, c)
			}
		}
	}
	nt := 0
	for _, b := range fn.Blocks {
		for _, in := range b.Instrs {
			c, ok := in.(*ssa.Call)
			if !ok {
				continue
			}
			g := c.Call.StaticCallee()
			if g == nil || !inModule(g) || g == fn || len(g.Blocks) == 0 {
				continue
			}
			if _, ok := c.Type().Underlying().(*types.Slice); !ok {
				continue
			}
			if !flowsIntoAppendBase(c, map[ssa.Value]bool{}) {
				continue
			}
			nt++
			// an argument that is the next piece's length, and a ChunkSize comparison over the matching parameter
			okArg := false
			for ai, a := range c.Call.Args {
				isLen := false
				for _, sl := range splitLens {
					if a == sl {
						isLen = true
					}
				}
				if !isLen || ai >= len(g.Params) {
					continue
				}
				if flowsIntoChunkSizeTest(g.Params[ai], map[ssa.Value]bool{}) {
					okArg = true
				}
			}
			r.Cond(okArg, "GRD-size", fmt.Sprintf("mergeSplits:overlap-tail#%d:fits-with-next", nt), w.Pos(c.Pos()), fnName(g)+" receives the next piece's length and compares tail+next with ChunkSize", "mergeSplits keeps an overlap tail chosen by "+fnName(g)+" without regard to the piece that is appended next (its length is not passed, or never compared with ChunkSize there): tail + next piece can exceed ChunkSize + overlap, and because this repeats at every recursion level the carried-over text is duplicated inside one chunk")
		}
	}
	if nt == 0 {
		r.Ok("GRD-size", "mergeSplits:overlap-tail:none", w.Pos(fi.Decl.Pos()), "no overlap tail is carried into the next chunk")
	}
}

func flowsIntoAppendBase(v ssa.Value, seen map[ssa.Value]bool) bool {
	if seen[v] || v.Referrers() == nil {
		return false
	}
	seen[v] = true
	for _, ref := range *v.Referrers() {
		switch x := ref.(type) {
		case *ssa.Phi:
			if flowsIntoAppendBase(x, seen) {
				return true
			}
		case *ssa.Call:
			if _, ok := isBuiltinCall(x, "append"); ok && len(x.Call.Args) > 0 && x.Call.Args[0] == v {
				return true
			}
		}
	}
	return false
}

func countedOrDoc(v ssa.Value, counted map[ssa.Value]bool, seen map[ssa.Value]bool) bool {
	if counted[v] {
		return true
	}
	if seen[v] {
		return true
	}
	seen[v] = true
	switch x := v.(type) {
	case *ssa.Const:
		s, ok := constString(x)
		return ok && s == ""
	case *ssa.Phi:
		for _, e := range x.Edges {
			if !countedOrDoc(e, counted, seen) {
				return false
			}
		}
		return true
	case *ssa.BinOp:
		return x.Op == token.ADD && countedOrDoc(x.X, counted, seen) && countedOrDoc(x.Y, counted, seen)
	}
	return false
}

func describeValue(v ssa.Value) string {
	if s, ok := constString(v); ok {
		return fmt.Sprintf("the constant %q", s)
	}
	if v.Name() != "" {
		return "the value " + v.Name() + " (" + v.Type().String() + ")"
	}
	return "a " + v.Type().String()
}

// ---------- GRD-progress ----------

func ruleGRDprogress(w *World, r *Report) {
	r.Doc("GRD-progress", "splitting terminates: every recursive call of recursiveSplit passes a strict suffix of its separator list and the empty list is the base case; FixedSizeChunker's step size−overlap is positive on every path into the loop; the overlap-tail loop shortens its slice on every iteration", 3)
	if fi := w.Func(ragPkg, "RecursiveCharacterSplitter.recursiveSplit"); fi == nil {
		r.Und("GRD-progress", "anchor:recursiveSplit", "", "anchor lost")
	} else {
		fn := w.SSAFunc(fi.Obj)
		n := 0
		var sepParam *ssa.Parameter
		for _, p := range fn.Params {
			if sl, ok := p.Type().Underlying().(*types.Slice); ok && basicKind(sl.Elem()) == types.String {
				sepParam = p
			}
		}
		// a suffix of the function's own list: the parameter, a re-slice [k:] of a suffix, or a loop variable that only ever
		// holds suffixes (the tail call "try the next separator" written as a loop that advances the list)
		var isSuffix func(v ssa.Value, seen map[ssa.Value]bool) bool
		isSuffix = func(v ssa.Value, seen map[ssa.Value]bool) bool {
			if sepParam == nil || seen[v] {
				return sepParam != nil
			}
			seen[v] = true
			switch x := v.(type) {
			case *ssa.Parameter:
				return x == sepParam
			case *ssa.Slice:
				if x.High != nil || x.Max != nil {
					return false
				}
				if x.Low != nil {
					if lo, ok := constInt(x.Low); !ok || lo < 0 {
						return false
					}
				}
				return isSuffix(x.X, seen)
			case *ssa.Phi:
				for _, e := range x.Edges {
					if !isSuffix(e, seen) {
						return false
					}
				}
				return true
			}
			return false
		}
		for _, b := range fn.Blocks {
			for _, in := range b.Instrs {
				c, ok := in.(*ssa.Call)
				if !ok || c.Call.StaticCallee() != fn {
					continue
				}
				n++
				okS := false
				for _, a := range c.Call.Args {
					if sl, ok := a.(*ssa.Slice); ok && sepParam != nil && sl.High == nil && isSuffix(sl.X, map[ssa.Value]bool{}) {
						if lo, ok := constInt(sl.Low); ok && lo >= 1 {
							okS = true
						}
					}
				}
				r.Cond(okS, "GRD-progress", fmt.Sprintf("recursiveSplit:recursion#%d:shorter-list", n), w.Pos(c.Pos()), "the recursive call gets separators[k:] with k ≥ 1", "recursiveSplit calls itself with a separator list that is not a strict suffix of its own: for a text that does not contain the separator the recursion never ends (stack overflow)")
			}
		}
		// base case: len(separators)==0 returns before separators[0]
		base := false
		for _, b := range fn.Blocks {
			for _, in := range b.Instrs {
				bo, ok := in.(*ssa.BinOp)
				if !ok || sepParam == nil {
					continue
				}
				if !isLenOfValue(bo.X, sepParam) {
					lc, isCall := bo.X.(*ssa.Call)
					if !isCall {
						continue
					}
					if _, isLen := isBuiltinCall(lc, "len"); !isLen || len(lc.Call.Args) != 1 || !isSuffix(lc.Call.Args[0], map[ssa.Value]bool{}) {
						continue
					}
				}
				if c, ok := constInt(bo.Y); ok && c == 0 && bo.Op == token.EQL {
					t, _ := condEdges(bo)
					for _, e := range t {
						if found, _ := (pathQuery{fn: fn, target: func(x ssa.Instruction) bool { cc, ok := x.(*ssa.Call); return ok && cc.Call.StaticCallee() == fn }}).find(ipos{e.from.Succs[e.succ], -1}); !found {
							base = true
						}
					}
				}
			}
		}
		r.Cond(base && n > 0, "GRD-progress", "recursiveSplit:base-case", w.Pos(fi.Decl.Pos()), "an empty separator list returns without recursing", "recursiveSplit has no base case for the empty separator list (or no longer recurses at all)")
	}
	if fi := w.Func(textPkg, "FixedSizeChunker"); fi == nil {
		r.Und("GRD-progress", "anchor:FixedSizeChunker", "", "anchor lost")
	} else {
		fn := w.SSAFunc(fi.Obj)
		found := false
		for _, b := range fn.Blocks {
			for _, in := range b.Instrs {
				add, ok := in.(*ssa.BinOp)
				if !ok || add.Op != token.ADD {
					continue
				}
				step, ok := add.Y.(*ssa.BinOp)
				if !ok || step.Op != token.SUB {
					continue
				}
				if _, ok := add.X.(*ssa.Phi); !ok {
					continue
				}
				p0, ok0 := step.X.(*ssa.Parameter)
				p1, ok1 := step.Y.(*ssa.Parameter)
				if !ok0 || !ok1 {
					r.Und("GRD-progress", "FixedSizeChunker:step", w.Pos(add.Pos()), "loop step is not size−overlap over the parameters")
					found = true
					continue
				}
				found = true
				isGuard := func(x ssa.Instruction) bool {
					bo, ok := x.(*ssa.BinOp)
					if !ok {
						return false
					}
					return (bo.X == ssa.Value(p1) && bo.Y == ssa.Value(p0) && (bo.Op == token.GEQ || bo.Op == token.LSS)) ||
						(bo.X == ssa.Value(p0) && bo.Y == ssa.Value(p1) && (bo.Op == token.LEQ || bo.Op == token.GTR))
				}
				gs := findInstrs(fn, isGuard)
				okG := false
				var wit []ssa.Instruction
				if len(gs) > 0 {
					op := gs[0].(*ssa.BinOp).Op
					want := op == token.LSS || op == token.GTR // overlap<size / size>overlap true ⇒ positive step
					aa := ssa.Instruction(add)
					okG, wit = mustPassGuard(fn, func(x ssa.Instruction) bool { return x == aa }, isGuard, func(x ssa.Instruction) ssa.Value { return x.(*ssa.BinOp) }, want, nil)
				}
				r.Cond(okG, "GRD-progress", "FixedSizeChunker:step-positive", w.Pos(add.Pos()), "the loop is entered only on the overlap < size edge, so i advances by at least 1", "FixedSizeChunker can enter its loop with overlap ≥ size: the index advances by zero or a negative amount and the loop never ends (or indexes before the start of the text)", w.witness(wit)...)
			}
		}
		if !found {
			r.Und("GRD-progress", "FixedSizeChunker:step", w.Pos(fi.Decl.Pos()), "no index advance of the form i += size−overlap found")
		}
	}
	if fi := w.Func(ragPkg, "RecursiveCharacterSplitter.removeFirstUntilOverlap"); fi != nil {
		fn := w.SSAFunc(fi.Obj)
		n := 0
		for _, b := range fn.Blocks {
			for _, in := range b.Instrs {
				phi, ok := in.(*ssa.Phi)
				if !ok {
					continue
				}
				sl, ok := phi.Type().Underlying().(*types.Slice)
				if !ok || basicKind(sl.Elem()) != types.String {
					continue
				}
				// loop header phi: some edge is a re-slice of itself
				self := false
				okAll := true
				for _, e := range phi.Edges {
					if s, ok := e.(*ssa.Slice); ok && s.X == ssa.Value(phi) {
						self = true
						lo, isC := constInt(s.Low)
						if !(s.Low != nil && isC && lo >= 1) {
							okAll = false
						}
					}
				}
				if !self {
					continue
				}
				n++
				r.Cond(okAll, "GRD-progress", fmt.Sprintf("removeFirstUntilOverlap:loop#%d:shrinks", n), w.Pos(phi.Pos()), "each iteration drops at least the first element", "the overlap-tail loop does not shorten its slice on every iteration: with a tail that never fits it spins forever")
			}
		}
	}
}

// ---------- GRD-budget ----------

func ruleGRDbudget(w *World, r *Report) {
	r.Doc("GRD-budget", "assembleContext appends a chunk to the selected context only on the false edge of total+chunkTokens > MaxTokens, adds exactly that chunkTokens to the total on the same path, and reports that total", 3)
	fi := w.Func(ragPkg, "AdaptiveRetriever.assembleContext")
	if fi == nil {
		r.Und("GRD-budget", "anchor:assembleContext", "", "anchor lost")
		return
	}
	fn := w.SSAFunc(fi.Obj)
	outer := fn // the function that reports the total; fn becomes the one that holds the selection loop
	derivesFromMaxTokens := func(v ssa.Value) bool {
		for _, leaf := range phiLeaves(stripConv(v)) {
			if isFieldLoad(stripConv(leaf), "MaxTokens") {
				return true
			}
		}
		return false
	}
	// the same quantity, whether it is looked at as an int or as a float
	same := func(a, b ssa.Value) bool { return stripConv(a) == stripConv(b) }
	// the budget test in any orientation: (total+t) >/>= B, B </<= (total+t) leave on the false edge;
	// (total+t) </<= B, B >/>= (total+t) on the true edge
	guardParts := func(in ssa.Instruction) (sum *ssa.BinOp, fitsOnTrue bool, ok bool) {
		bo, isBo := in.(*ssa.BinOp)
		if !isBo {
			return nil, false, false
		}
		var gt bool
		switch bo.Op {
		case token.GTR, token.GEQ:
			gt = true
		case token.LSS, token.LEQ:
		default:
			return nil, false, false
		}
		if x, isSum := bo.X.(*ssa.BinOp); isSum && x.Op == token.ADD && derivesFromMaxTokens(bo.Y) {
			return x, !gt, true
		}
		if y, isSum := bo.Y.(*ssa.BinOp); isSum && y.Op == token.ADD && derivesFromMaxTokens(bo.X) {
			return y, gt, true
		}
		return nil, false, false
	}
	isGuard := func(in ssa.Instruction) bool { _, _, ok := guardParts(in); return ok }
	isGuardPol := func(fits bool) func(ssa.Instruction) bool {
		return func(in ssa.Instruction) bool { _, f, ok := guardParts(in); return ok && f == fits }
	}
	guards := findInstrs(fn, isGuard)
	if len(guards) == 0 { // the selection loop as a method of its own, called by assembleContext only
		for _, h := range w.extractedHelpers(fn) {
			if hg := findInstrs(h, isGuard); len(hg) > 0 {
				fn, guards = h, hg
				break
			}
		}
	}
	if len(guards) == 0 {
		r.Bad("GRD-budget", "assembleContext:budget-test", w.Pos(fi.Decl.Pos()), "assembleContext contains no comparison of total+chunkTokens with MaxTokens: the context is assembled without a budget")
		return
	}
	n := 0
	for _, b := range fn.Blocks {
		for _, in := range b.Instrs {
			c, ok := in.(*ssa.Call)
			if !ok {
				continue
			}
			if _, ok := isBuiltinCall(c, "append"); !ok {
				continue
			}
			sl, ok := c.Type().Underlying().(*types.Slice)
			if !ok || !strings.HasSuffix(sl.Elem().String(), "core.VectorData") {
				continue
			}
			n++
			cc := ssa.Instruction(c)
			isC := func(x ssa.Instruction) bool { return x == cc }
			gv := func(x ssa.Instruction) ssa.Value { return x.(*ssa.BinOp) }
			ok2, wit := mustPassGuard(fn, isC, isGuardPol(false), gv, false, nil)
			if !ok2 {
				if ok3, _ := mustPassGuard(fn, isC, isGuardPol(true), gv, true, nil); ok3 {
					ok2 = true
				}
			}
			r.Cond(ok2, "GRD-budget", fmt.Sprintf("assembleContext:select#%d:within-budget", n), w.Pos(c.Pos()), "a chunk is selected only on the total+chunkTokens ≤ MaxTokens edge", "assembleContext can add a chunk to the context on a path where total+chunkTokens > MaxTokens (or before the test): a single oversized chunk — or the first one — makes the returned context exceed the token budget", w.witness(wit)...)
			// the same chunkTokens is added to the total in the selecting block
			sum, _, _ := guardParts(guards[0])
			counted := false
			// the sum the test uses (or an equal sum computed again) becomes the running total on the selecting path:
			// it feeds the total's phi through an edge whose predecessor the selecting block dominates
			feedsTotal := func(v *ssa.BinOp) bool {
				for _, ref := range *v.Referrers() {
					p, ok := ref.(*ssa.Phi)
					sx, sy := stripConv(sum.X), stripConv(sum.Y)
					if !ok || !(p == sx || p == sy || phiReaches(p, sx) || phiReaches(p, sy) || phiReaches(sx, p) || phiReaches(sy, p)) {
						continue
					}
					for i, e := range p.Edges {
						if e == v && (p.Block().Preds[i] == c.Block() || c.Block().Dominates(p.Block().Preds[i])) {
							return true
						}
					}
				}
				return false
			}
			for _, b2 := range fn.Blocks {
				for _, in2 := range b2.Instrs {
					if bo, ok := in2.(*ssa.BinOp); ok && bo.Op == token.ADD && (same(bo.X, sum.X) && same(bo.Y, sum.Y) || same(bo.X, sum.Y) && same(bo.Y, sum.X)) && feedsTotal(bo) {
						counted = true
					}
				}
			}
			r.Cond(counted, "GRD-budget", fmt.Sprintf("assembleContext:select#%d:counted", n), w.Pos(c.Pos()), "the selected chunk's tokens are added to the running total", "assembleContext selects a chunk without adding its token estimate to the running total: later chunks are admitted against a total that is too small and the context exceeds the budget")
		}
	}
	if n == 0 {
		r.Und("GRD-budget", "assembleContext:select", w.Pos(fi.Decl.Pos()), "no append to the selected []core.VectorData found")
	}
	// reported total
	okTot := false
	isTotal := func(v ssa.Value) bool {
		sum, _, _ := guardParts(guards[0])
		sx, sy := stripConv(sum.X), stripConv(sum.Y)
		return v == sx || v == sy || phiReaches(v, sx) || phiReaches(v, sy) || phiReaches(sx, v) || phiReaches(sy, v)
	}
	for _, b := range outer.Blocks {
		for _, in := range b.Instrs {
			st, ok := in.(*ssa.Store)
			if !ok {
				continue
			}
			fa, ok := st.Addr.(*ssa.FieldAddr)
			if !ok {
				continue
			}
			if _, f := structFieldName(fa.X.Type(), fa.Field); f == "TotalTokens" {
				if outer == fn {
					if isTotal(st.Val) {
						okTot = true
					}
					continue
				}
				// the total comes back from the helper: result #i of its call, and the helper returns its running total there
				if ex, ok := st.Val.(*ssa.Extract); ok {
					if c, ok := ex.Tuple.(*ssa.Call); ok && c.Call.StaticCallee() == fn {
						all := true
						n := 0
						for _, hb := range fn.Blocks {
							if rt, ok := hb.Instrs[len(hb.Instrs)-1].(*ssa.Return); ok && ex.Index < len(rt.Results) {
								n++
								if !isTotal(retVal(rt, ex.Index)) {
									all = false
								}
							}
						}
						okTot = all && n > 0
					}
				}
			}
		}
	}
	// the estimate itself: a quotient of the chunk length and the configured rate. It must reach the comparison as a
	// float (converted to int first, a tiny rate overflows the conversion and the estimate goes negative), and it must not
	// be truncated towards zero on the way (a chunk shorter than one token would cost nothing).
	for gi, g := range guards {
		sum, _, _ := guardParts(g)
		var quo *ssa.BinOp
		viaInt, roundedUp := false, false
		var walk func(v ssa.Value, depth int, sawIntConv bool)
		seenW := map[ssa.Value]bool{}
		walk = func(v ssa.Value, depth int, sawIntConv bool) {
			if depth > 12 || seenW[v] {
				return
			}
			seenW[v] = true
			switch x := v.(type) {
			case *ssa.Convert:
				toInt := isIntType(x.Type())
				fromFloat := false
				if b, ok := x.X.Type().Underlying().(*types.Basic); ok && b.Info()&types.IsFloat != 0 {
					fromFloat = true
				}
				walk(x.X, depth+1, sawIntConv || (toInt && fromFloat))
			case *ssa.ChangeType:
				walk(x.X, depth+1, sawIntConv)
			case *ssa.Phi:
				if loopCarried(x) {
					return // the running total of the earlier iterations, not this chunk's estimate
				}
				for _, e := range x.Edges {
					walk(e, depth+1, sawIntConv)
				}
			case *ssa.Call:
				if o := calleeObj(&x.Call); o != nil && o.Pkg() != nil && o.Pkg().Path() == "math" && (o.Name() == "Ceil" || o.Name() == "Round") {
					if o.Name() == "Ceil" {
						roundedUp = true
					}
					walk(x.Call.Args[0], depth+1, sawIntConv)
				} else if bi, ok := x.Call.Value.(*ssa.Builtin); ok && bi.Name() == "max" {
					for _, a := range x.Call.Args {
						if k, ok := constInt(stripConv(a)); ok && k >= 1 {
							roundedUp = true
						}
						walk(a, depth+1, sawIntConv)
					}
				}
			case *ssa.BinOp:
				switch x.Op {
				case token.QUO:
					quo = x
					if sawIntConv {
						viaInt = true
					}
				case token.ADD:
					if k, ok := constInt(stripConv(x.Y)); ok && k >= 1 {
						roundedUp = true
					}
					walk(x.X, depth+1, sawIntConv)
					walk(x.Y, depth+1, sawIntConv)
				}
			}
		}
		walk(sum.X, 0, false)
		walk(sum.Y, 0, false)
		if quo == nil {
			continue // the estimate is not a quotient computed here: nothing to say about its rounding
		}
		r.Cond(!viaInt, "GRD-budget", fmt.Sprintf("assembleContext:budget-test#%d:estimate-compared-as-a-float", gi+1), w.Pos(g.Pos()), "the quotient reaches the comparison without a float→int conversion", "the token estimate is converted to int before it is compared with the budget: chars_per_token is a request field (only tested > 0), a tiny value makes the quotient exceed the int range, the conversion yields a negative estimate, the budget test never fires and every candidate is assembled", w.witness([]ssa.Instruction{quo})...)
		r.Cond(roundedUp, "GRD-budget", fmt.Sprintf("assembleContext:budget-test#%d:estimate-rounded-up", gi+1), w.Pos(g.Pos()), "the per-chunk estimate is rounded up (or at least 1)", "the per-chunk token estimate is truncated towards zero: a chunk shorter than chars_per_token costs nothing, any number of such chunks fits any budget and the assembled context exceeds it by the retriever's own rate", w.witness([]ssa.Instruction{quo})...)
	}
	r.Cond(okTot, "GRD-budget", "assembleContext:reports-total", w.Pos(fi.Decl.Pos()), "TotalTokens is the running total the budget test uses", "the TotalTokens reported by assembleContext is not the running total its budget test uses")
}

// phiReaches: b is reachable from phi/value a through phi edges.
func phiReaches(a, b ssa.Value) bool {
	seen := map[ssa.Value]bool{}
	var rec func(v ssa.Value) bool
	rec = func(v ssa.Value) bool {
		if v == b {
			return true
		}
		if seen[v] {
			return false
		}
		seen[v] = true
		if p, ok := v.(*ssa.Phi); ok {
			for _, e := range p.Edges {
				if rec(e) {
					return true
				}
			}
		}
		return false
	}
	return rec(a)
}

// ---------- GRD-expand ----------

func ruleGRDexpand(w *World, r *Report) {
	r.Doc("GRD-expand", "expandGraphBFS fetches the neighbours of a node only below the depth limit and below the node cap, enqueues a neighbour only on the not-yet-visited edge after marking it visited, and takes work from the queue at a head index that advances on every iteration — so it terminates on cyclic graphs and never expands beyond its limits", 5)
	fi := w.Func(ragPkg, "AdaptiveRetriever.expandGraphBFS")
	if fi == nil {
		r.Und("GRD-expand", "anchor:expandGraphBFS", "", "anchor lost")
		return
	}
	fn := w.SSAFunc(fi.Obj)
	isExpand := func(in ssa.Instruction) bool {
		c, ok := in.(*ssa.Call)
		return ok && c.Call.IsInvoke() && c.Call.Method.Name() == "VGetRelations"
	}
	exps := findInstrs(fn, isExpand)
	if len(exps) == 0 {
		r.Und("GRD-expand", "anchor:expandGraphBFS:VGetRelations", w.Pos(fi.Decl.Pos()), "the expansion no longer asks the store for relations")
		return
	}
	// depth cut
	isDepth := func(in ssa.Instruction) bool {
		bo, ok := in.(*ssa.BinOp)
		if !ok || (bo.Op != token.GEQ && bo.Op != token.GTR) {
			return false
		}
		return isFieldLoad(bo.X, "Depth") && isFieldLoad(bo.Y, "GraphExpansionDepth")
	}
	ok, wit := mustPassGuard(fn, isExpand, isDepth, func(x ssa.Instruction) ssa.Value { return x.(*ssa.BinOp) }, false, nil)
	strict := false
	for _, g := range findInstrs(fn, isDepth) {
		if g.(*ssa.BinOp).Op == token.GEQ {
			strict = true
		}
	}
	r.Cond(ok && strict, "GRD-expand", "expandGraphBFS:depth-cut", w.Pos(exps[0].Pos()), "neighbours are fetched only when node.Depth < GraphExpansionDepth", "expandGraphBFS can fetch (and add) the neighbours of a node that is already at the depth limit (no `Depth >= GraphExpansionDepth` cut on the path, or a `>` cut): chunks deeper than graph_expansion_depth enter the context", w.witness(wit)...)
	// node cap
	var visited ssa.Value
	isCap := func(in ssa.Instruction) bool {
		bo, ok := in.(*ssa.BinOp)
		if !ok || (bo.Op != token.LSS && bo.Op != token.LEQ) || !isFieldLoad(bo.Y, "MaxExpansionNodes") {
			return false
		}
		lc, ok := bo.X.(*ssa.Call)
		if !ok {
			return false
		}
		if _, isLen := isBuiltinCall(lc, "len"); !isLen {
			return false
		}
		if _, isMap := lc.Call.Args[0].Type().Underlying().(*types.Map); isMap {
			visited = lc.Call.Args[0]
			return true
		}
		return false
	}
	caps := findInstrs(fn, isCap)
	ok, wit = mustPassGuard(fn, isExpand, isCap, func(x ssa.Instruction) ssa.Value { return x.(*ssa.BinOp) }, true, nil)
	r.Cond(ok && len(caps) > 0, "GRD-expand", "expandGraphBFS:node-cap", w.Pos(exps[0].Pos()), "neighbours are fetched only while len(visited) < MaxExpansionNodes", "expandGraphBFS keeps fetching neighbours although the number of visited nodes has reached max_expansion_nodes (the loop condition no longer tests it): on a hub-rich graph the expansion visits the whole component", w.witness(wit)...)
	// enqueues in the loop
	n := 0
	for _, b := range fn.Blocks {
		for _, in := range b.Instrs {
			c, ok := in.(*ssa.Call)
			if !ok {
				continue
			}
			if _, ok := isBuiltinCall(c, "append"); !ok {
				continue
			}
			sl, ok := c.Type().Underlying().(*types.Slice)
			if !ok || !strings.HasSuffix(sl.Elem().String(), "ExpansionNode") {
				continue
			}
			// only enqueues that happen after an expansion (inside the BFS loop)
			cc := ssa.Instruction(c)
			inLoop := false
			for _, e := range exps {
				if found, _ := (pathQuery{fn: fn, target: func(x ssa.Instruction) bool { return x == cc }}).find(posOf(e)); found {
					inLoop = true
				}
			}
			if !inLoop {
				continue
			}
			n++
			isLookup := func(x ssa.Instruction) bool {
				lk, ok := x.(*ssa.Lookup)
				if !ok || !lk.CommaOk {
					return false
				}
				_, isMap := lk.X.Type().Underlying().(*types.Map)
				return isMap && (visited == nil || lk.X == visited)
			}
			lks := findInstrs(fn, isLookup)
			ok2, wit := mustPassGuard(fn, func(x ssa.Instruction) bool { return x == cc }, isLookup, func(x ssa.Instruction) ssa.Value { return extractOfValue(x.(*ssa.Lookup), 1) }, false, nil)
			r.Cond(ok2 && len(lks) > 0, "GRD-expand", fmt.Sprintf("expandGraphBFS:enqueue#%d:not-visited", n), w.Pos(c.Pos()), "a neighbour is enqueued only on the not-in-visited edge", "expandGraphBFS enqueues a neighbour without the visited test (or on its already-visited edge): on a cyclic graph nodes are enqueued again and again until the caps stop it, and every revisit adds a duplicate chunk", w.witness(wit)...)
			marked := true
			var wit2 []ssa.Instruction
			for _, lkI := range lks {
				lk := lkI.(*ssa.Lookup)
				okv := extractOfValue(lk, 1)
				if okv == nil {
					continue
				}
				_, f := condEdges(okv)
				isMark := func(x ssa.Instruction) bool {
					mu, ok := x.(*ssa.MapUpdate)
					return ok && mu.Map == lk.X && mu.Key == lk.Index
				}
				for _, e := range f {
					if found, wt := (pathQuery{fn: fn, target: func(x ssa.Instruction) bool { return x == cc }, avoid: isMark}).find(ipos{e.from.Succs[e.succ], -1}); found {
						marked, wit2 = false, wt
					}
				}
			}
			r.Cond(marked && len(lks) > 0, "GRD-expand", fmt.Sprintf("expandGraphBFS:enqueue#%d:marked", n), w.Pos(c.Pos()), "the neighbour is recorded in visited before it is enqueued", "expandGraphBFS enqueues a neighbour without recording it in visited: the next edge to the same node enqueues it again — on a cycle the queue grows without bound", w.witness(wit2)...)
		}
	}
	if n == 0 {
		r.Und("GRD-expand", "expandGraphBFS:enqueue", w.Pos(fi.Decl.Pos()), "no enqueue of an ExpansionNode after an expansion found")
	}
	// the head index advances
	adv := false
	var hpos token.Pos
	for _, b := range fn.Blocks {
		for _, in := range b.Instrs {
			ia, ok := in.(*ssa.IndexAddr)
			if !ok {
				continue
			}
			sl, ok := ia.X.Type().Underlying().(*types.Slice)
			if !ok || !strings.HasSuffix(sl.Elem().String(), "ExpansionNode") {
				continue
			}
			h, ok := ia.Index.(*ssa.Phi)
			if !ok {
				continue
			}
			hpos = ia.Pos()
			okAll, some := true, false
			for _, e := range h.Edges {
				if c, ok := constInt(e); ok && c >= 0 {
					continue
				}
				some = true
				bo, ok := e.(*ssa.BinOp)
				if !ok || bo.Op != token.ADD || bo.X != ssa.Value(h) {
					okAll = false
					continue
				}
				if c, ok := constInt(bo.Y); !ok || c < 1 {
					okAll = false
				}
			}
			if okAll && some {
				adv = true
			}
		}
	}
	r.Cond(adv, "GRD-expand", "expandGraphBFS:head-advances", w.Pos(hpos), "the queue is read at an index that grows by ≥1 on every loop-back edge", "the BFS loop re-reads the same queue position on some path back to the loop head: it never terminates")
}

// ---------- TBL-stop ----------

var coreLogicWords = []string{"not", "no", "never", "and", "or", "but", "if", "non", "mai", "e", "o", "ma", "se"}

func mapLiteralKeys(pkgInfo *types.Info, cl *ast.CompositeLit) []string {
	var out []string
	for _, e := range cl.Elts {
		kv, ok := e.(*ast.KeyValueExpr)
		if !ok {
			continue
		}
		if tv, ok := pkgInfo.Types[kv.Key]; ok && tv.Value != nil && tv.Value.Kind() == constant.String {
			out = append(out, constant.StringVal(tv.Value))
		}
	}
	return out
}

func ruleTBLstop(w *World, r *Report) {
	r.Doc("TBL-stop", "lexical compression keeps negations and logical connectives: isStopWord answers true only on the isImportantWord==false edge, the protected set contains the core negations/connectives of both languages, no removal table lists one of them, and Compress drops a token only on the isStopWord==true edge", 4)
	pkg := w.Pkg(taPkg)
	if pkg == nil {
		r.Und("TBL-stop", "anchor:"+taPkg, "", "package not loaded")
		return
	}
	// protected words: string-keyed map literals inside isImportantWord
	prot := map[string]bool{}
	if fi := w.Func(taPkg, "isImportantWord"); fi != nil {
		ast.Inspect(fi.Decl.Body, func(n ast.Node) bool {
			if cl, ok := n.(*ast.CompositeLit); ok {
				if _, isMap := pkg.TypesInfo.TypeOf(cl).Underlying().(*types.Map); isMap {
					for _, k := range mapLiteralKeys(pkg.TypesInfo, cl) {
						prot[k] = true
					}
				}
			}
			return true
		})
		var missing []string
		for _, wd := range coreLogicWords {
			if !prot[wd] {
				missing = append(missing, wd)
			}
		}
		r.Cond(len(missing) == 0, "TBL-stop", "isImportantWord:covers-core", w.Pos(fi.Decl.Pos()), fmt.Sprintf("%d protected words, including every core negation/connective", len(prot)), "the protected set of isImportantWord lacks "+strings.Join(missing, ", ")+": once such a word is listed as a stop word, compression drops it and inverts or unlinks the sentence's logic")
		// a hit in a protected map returns true
		fn := w.SSAFunc(fi.Obj)
		n := 0
		for _, b := range fn.Blocks {
			for _, in := range b.Instrs {
				lk, ok := in.(*ssa.Lookup)
				if !ok || !lk.CommaOk {
					continue
				}
				n++
				okv := extractOfValue(lk, 1)
				bad := okv == nil
				if okv != nil {
					t, _ := condEdges(okv)
					if len(t) == 0 {
						bad = true
					}
					for _, e := range t {
						notTrue := func(x ssa.Instruction) bool {
							rt, ok := x.(*ssa.Return)
							return ok && !isConstBool(retVal(rt, 0), true)
						}
						if found, _ := (pathQuery{fn: fn, target: notTrue}).find(ipos{e.from.Succs[e.succ], -1}); found {
							bad = true
						}
					}
				}
				r.Cond(!bad, "TBL-stop", fmt.Sprintf("isImportantWord:lookup#%d:hit-protects", n), w.Pos(lk.Pos()), "a hit in the protected table returns true", "a word found in a protected table does not make isImportantWord return true")
			}
		}
	} else {
		r.Und("TBL-stop", "anchor:isImportantWord", "", "anchor lost")
	}
	// removal tables: package-level map[string]struct{} vars named *SafeStopWords
	for _, f := range pkg.Syntax {
		if isTestFile(w.Fset, f.Pos()) {
			continue
		}
		for _, d := range f.Decls {
			gd, ok := d.(*ast.GenDecl)
			if !ok || gd.Tok != token.VAR {
				continue
			}
			for _, sp := range gd.Specs {
				vs := sp.(*ast.ValueSpec)
				for i, nm := range vs.Names {
					if !strings.HasSuffix(nm.Name, "SafeStopWords") || i >= len(vs.Values) {
						continue
					}
					cl, ok := vs.Values[i].(*ast.CompositeLit)
					if !ok {
						continue
					}
					var hit []string
					for _, k := range mapLiteralKeys(pkg.TypesInfo, cl) {
						for _, c := range coreLogicWords {
							if k == c {
								hit = append(hit, k)
							}
						}
					}
					sort.Strings(hit)
					r.Cond(len(hit) == 0, "TBL-stop", "table:"+nm.Name+":no-core-word", w.Pos(nm.Pos()), "lists no negation or connective", "removal table "+nm.Name+" lists "+strings.Join(hit, ", ")+", a negation/connective")
				}
			}
		}
	}
	// isStopWord: true only behind isImportantWord == false
	if fi := w.Func(taPkg, "isStopWord"); fi != nil {
		fn := w.SSAFunc(fi.Obj)
		isImp := func(in ssa.Instruction) bool { return isModCall(in, taPkg, "isImportantWord") }
		mayTrue := func(in ssa.Instruction) bool {
			rt, ok := in.(*ssa.Return)
			return ok && !isConstBool(retVal(rt, 0), false)
		}
		ok, wit := mustPassGuard(fn, mayTrue, isImp, callValue, false, nil)
		r.Cond(ok && len(findInstrs(fn, isImp)) > 0, "TBL-stop", "isStopWord:protected-first", w.Pos(fi.Decl.Pos()), "every return that can be true lies behind isImportantWord(word)==false", "isStopWord can answer true for a word without having consulted isImportantWord (or on its true edge): a protected negation/connective that also appears in a removal table is dropped", w.witness(wit)...)
	} else {
		r.Und("TBL-stop", "anchor:isStopWord", "", "anchor lost")
	}
	// Compress: a token is dropped only on isStopWord == true
	if fi := w.Func(taPkg, "Compress"); fi != nil {
		fn := w.SSAFunc(fi.Obj)
		isSW := func(in ssa.Instruction) bool { return isModCall(in, taPkg, "isStopWord") }
		sws := findInstrs(fn, isSW)
		bad := len(sws) == 0
		var wit []ssa.Instruction
		for _, s := range sws {
			c := s.(*ssa.Call)
			_, f := condEdges(c)
			if len(f) == 0 {
				bad = true
			}
			isKeep := func(in ssa.Instruction) bool {
				a, ok := in.(*ssa.Call)
				if !ok {
					return false
				}
				_, isApp := isBuiltinCall(a, "append")
				return isApp
			}
			for _, e := range f {
				next := func(in ssa.Instruction) bool { return in == s || isReturn(in) }
				if found, wt := (pathQuery{fn: fn, target: next, avoid: isKeep}).find(ipos{e.from.Succs[e.succ], -1}); found {
					bad, wit = true, wt
				}
			}
		}
		r.Cond(!bad, "TBL-stop", "Compress:drops-only-stopwords", w.Pos(fi.Decl.Pos()), "a token that is not a stop word is always kept", "Compress can drop a token for which isStopWord answered false", w.witness(wit)...)
	} else {
		r.Und("TBL-stop", "anchor:Compress", "", "anchor lost")
	}
}

// ---------- EFF-det ----------

func ruleEFFdet(w *World, r *Report) {
	r.Doc("EFF-det", "the text functions (tokenise, stem, compress, split, chunk) and everything they call in the module contain no source of run-to-run variation: no iteration over a map, no goroutine or select, no use of math/rand, crypto/rand, time or os", 5)
	roots := []struct{ pkg, fn string }{
		{taPkg, "Tokenize"}, {taPkg, "EnglishStemmer.Analyze"}, {taPkg, "ItalianStemmer.Analyze"}, {taPkg, "Compress"},
		{ragPkg, "RecursiveCharacterSplitter.SplitText"}, {textPkg, "FixedSizeChunker"},
	}
	for _, rt := range roots {
		fi := w.Func(rt.pkg, rt.fn)
		if fi == nil {
			r.Und("EFF-det", "anchor:"+rt.fn, "", "anchor lost")
			continue
		}
		set := map[*ssa.Function]bool{}
		reachableStatic(w.SSAFunc(fi.Obj), set)
		// closures of reachable functions
		for f := range set {
			for _, c := range closuresOf(f) {
				set[c] = true
			}
		}
		var bad []string
		var bpos token.Pos
		for f := range set {
			for _, b := range f.Blocks {
				for _, in := range b.Instrs {
					what := ""
					switch x := in.(type) {
					case *ssa.Range:
						if _, isMap := x.X.Type().Underlying().(*types.Map); isMap {
							what = "ranges over a map"
						}
					case *ssa.Go:
						what = "starts a goroutine"
					case *ssa.Select:
						what = "selects on channels"
					case *ssa.Call:
						if o := calleeObj(&x.Call); o != nil && o.Pkg() != nil {
							switch o.Pkg().Path() {
							case "math/rand", "math/rand/v2", "crypto/rand", "time", "os":
								what = "calls " + o.Pkg().Path() + "." + o.Name()
							}
						}
					}
					if what != "" {
						bad = append(bad, fnName(f)+" "+what)
						if !bpos.IsValid() {
							bpos = in.Pos()
						}
					}
				}
			}
		}
		sort.Strings(bad)
		pos := w.Pos(fi.Decl.Pos())
		if bpos.IsValid() {
			pos = w.Pos(bpos)
		}
		r.Cond(len(bad) == 0, "EFF-det", "root:"+rt.fn, pos, fmt.Sprintf("%d functions reachable, none with a source of variation", len(set)), rt.fn+" is not a function of its input alone: "+strings.Join(bad, "; ")+" — the same text can give different tokens/chunks from run to run")
	}
}

// ---------- GRD-verbatim: the text that is split is the text that was given ----------

// ruleGRDverbatim: SplitText hands its input to the recursive splitter as it received it. Only whitespace trimming may
// sit in between: anything else that rewrites the string (dropping invalid UTF-8, mapping runes, replacing substrings)
// loses non-whitespace content before the first split is made.
func ruleGRDverbatim(w *World, r *Report) {
	r.Doc("GRD-verbatim", "RecursiveCharacterSplitter.SplitText passes its text parameter to recursiveSplit unchanged (whitespace trimming aside): no content-rewriting call sits between the input and the first split", 1)
	fi := w.Func(ragPkg, "RecursiveCharacterSplitter.SplitText")
	rs := w.FuncObj(ragPkg, "RecursiveCharacterSplitter.recursiveSplit")
	if fi == nil || rs == nil {
		r.Und("GRD-verbatim", "anchor:SplitText/recursiveSplit", "", "anchor lost")
		return
	}
	fn := w.SSAFunc(fi.Obj)
	calls := findInstrs(fn, callsTo(rs))
	if len(calls) == 0 {
		r.Und("GRD-verbatim", "SplitText:first-split", w.Pos(fi.Decl.Pos()), "SplitText no longer calls recursiveSplit (shape not recognised)")
		return
	}
	whitespaceOnly := map[string]bool{"TrimSpace": true}
	for i, c := range calls {
		arg := c.(*ssa.Call).Call.Args[1] // receiver, text, separators
		ok := true
		why := ""
		var walk func(v ssa.Value, depth int)
		walk = func(v ssa.Value, depth int) {
			if depth > 8 {
				ok, why = false, "provenance too deep"
				return
			}
			for _, leaf := range valueRoots(v) {
				switch x := leaf.(type) {
				case *ssa.Parameter:
					if x.Parent() != fn || !isStringType(x.Type()) {
						ok, why = false, "not the text parameter"
					}
				case *ssa.Call:
					o := calleeObj(&x.Call)
					if o != nil && o.Pkg() != nil && o.Pkg().Path() == "strings" && whitespaceOnly[o.Name()] && len(x.Call.Args) == 1 {
						walk(x.Call.Args[0], depth+1)
					} else if o != nil {
						ok, why = false, "rewritten by "+o.Pkg().Name()+"."+o.Name()
					} else {
						ok, why = false, "rewritten by a dynamic call"
					}
				default:
					ok, why = false, fmt.Sprintf("computed (%T)", leaf)
				}
			}
		}
		walk(arg, 0)
		r.Cond(ok, "GRD-verbatim", fmt.Sprintf("SplitText:split#%d:input-verbatim", i+1), w.Pos(c.Pos()), "the text parameter reaches recursiveSplit unchanged (whitespace trimming aside)", "SplitText does not hand its input to the splitter as received ("+why+"): content that the rewriting call drops or changes — bytes that are not valid UTF-8, mapped runes, replaced substrings — is missing from every chunk")
	}
}

// verbatimFrom: does string value v reach this point unchanged from a string parameter of fn (whitespace trimming aside)?
func verbatimFrom(fn *ssa.Function, v ssa.Value) (bool, string) {
	ok, why := true, ""
	var walk func(v ssa.Value, depth int)
	walk = func(v ssa.Value, depth int) {
		if depth > 8 {
			ok, why = false, "provenance too deep"
			return
		}
		for _, leaf := range valueRoots(v) {
			switch x := leaf.(type) {
			case *ssa.Parameter:
				if x.Parent() != fn || !isStringType(x.Type()) {
					ok, why = false, "not the string parameter"
				}
			case *ssa.Call:
				o := calleeObj(&x.Call)
				if o != nil && o.Pkg() != nil && o.Pkg().Path() == "strings" && o.Name() == "TrimSpace" && len(x.Call.Args) == 1 {
					walk(x.Call.Args[0], depth+1)
				} else if o != nil && o.Pkg() != nil {
					ok, why = false, "rewritten by "+o.Pkg().Name()+"."+o.Name()
				} else {
					ok, why = false, "rewritten by a call"
				}
			default:
				ok, why = false, fmt.Sprintf("computed (%T)", leaf)
			}
		}
	}
	walk(v, 0)
	return ok, why
}

// ruleGRDverbatimFilter: the filter expression given to Engine.VFilter is the one that is evaluated. Quoted literals
// may contain any whitespace; a normalisation of the whole expression that is not quote-aware changes which values a
// clause names.
func ruleGRDverbatimFilter(w *World, r *Report) {
	r.Doc("GRD-verbatim-filter", "Engine.VFilter hands its filter parameter to DB.FindIDsByFilter unchanged (whitespace trimming of the whole expression aside): nothing rewrites the text of quoted literals on the way to the evaluator", 1)
	fi := w.Func("pkg/engine", "Engine.VFilter")
	ff := w.FuncObj("pkg/core", "DB.FindIDsByFilter")
	if fi == nil || ff == nil {
		r.Und("GRD-verbatim-filter", "anchor:Engine.VFilter/DB.FindIDsByFilter", "", "anchor lost")
		return
	}
	fn := w.SSAFunc(fi.Obj)
	calls := findInstrs(fn, callsTo(ff))
	if len(calls) == 0 {
		r.Und("GRD-verbatim-filter", "VFilter:evaluation", w.Pos(fi.Decl.Pos()), "VFilter no longer calls DB.FindIDsByFilter (shape not recognised)")
		return
	}
	for i, c := range calls {
		arg := c.(*ssa.Call).Call.Args[2] // receiver, index, filter
		ok, why := verbatimFrom(fn, arg)
		r.Cond(ok, "GRD-verbatim-filter", fmt.Sprintf("VFilter:evaluation#%d:filter-verbatim", i+1), w.Pos(c.Pos()), "the filter parameter reaches the evaluator unchanged", "Engine.VFilter does not evaluate the filter it was given ("+why+"): a rewrite of the whole expression also rewrites the text inside quoted literals, so `title='New  York'` selects the ids of 'New York' — while VSearch with the same filter still evaluates it as written")
	}
}

func isStringType(t types.Type) bool {
	b, ok := t.Underlying().(*types.Basic)
	return ok && b.Info()&types.IsString != 0
}

// loopCarried: a phi one of whose incoming values is computed from the phi itself (an accumulator or counter).
func loopCarried(p *ssa.Phi) bool {
	seen := map[ssa.Value]bool{}
	var uses func(v ssa.Value, depth int) bool
	uses = func(v ssa.Value, depth int) bool {
		if v == ssa.Value(p) {
			return true
		}
		if depth > 8 || seen[v] {
			return false
		}
		seen[v] = true
		switch x := v.(type) {
		case *ssa.BinOp:
			return uses(x.X, depth+1) || uses(x.Y, depth+1)
		case *ssa.Convert:
			return uses(x.X, depth+1)
		case *ssa.ChangeType:
			return uses(x.X, depth+1)
		case *ssa.UnOp:
			return uses(x.X, depth+1)
		case *ssa.Phi:
			for _, e := range x.Edges {
				if uses(e, depth+1) {
					return true
				}
			}
		}
		return false
	}
	for _, e := range p.Edges {
		if e != ssa.Value(p) && uses(e, 0) {
			return true
		}
	}
	return false
}
