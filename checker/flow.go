package main

// flow.go — path queries over SSA control flow at instruction granularity.
//
// A query asks: is there a control-flow path from a start point to an instruction satisfying
// `target` that does not execute any instruction satisfying `avoid`, never taking an edge that
// `blocked` rejects?  "A precedes B on every path" is "no path entry→B avoiding A";
// "after A succeeded, B happens before any return" is "no path A→return avoiding B with A's
// failure edges blocked".

import (
	"fmt"
	"go/constant"
	"go/token"
	"go/types"
	"sort"
	"strings"
	"sync"

	"golang.org/x/tools/go/ssa"
)

type ipos struct {
	b *ssa.BasicBlock
	i int // index into b.Instrs; -1 = before first
}

type edgeKey struct {
	from *ssa.BasicBlock
	succ int
}

type pathQuery struct {
	fn      *ssa.Function
	target  func(ssa.Instruction) bool
	avoid   func(ssa.Instruction) bool
	blocked map[edgeKey]bool
	assume  map[ssa.Value]bool // boolean values taken as given on every path (scenario / truth-table row)
}

func entryPos(fn *ssa.Function) ipos { return ipos{fn.Blocks[0], -1} }

func posOf(in ssa.Instruction) ipos {
	b := in.Block()
	for i, x := range b.Instrs {
		if x == in {
			return ipos{b, i}
		}
	}
	return ipos{b, -1}
}

// find returns (true, witness) if a path exists from just after `from` to a target.
//
// The search is path-sensitive for boolean facts: taking an edge of `if v` records v (an immutable SSA value) as
// true/false, entering a block evaluates its boolean phis for the edge taken (a constant, or a value whose fact is
// known), and a later `if v` / `if !v` whose value is known follows only the consistent edge. Facts about values
// defined in a block are dropped when the block is entered again (a new loop iteration recomputes them). This
// resolves correlated flags (`corrupted`, `snapshotDone`, an `isValid` flag that accumulates several tests).
func (q pathQuery) find(from ipos) (bool, []ssa.Instruction) {
	type state struct {
		b     *ssa.BasicBlock
		prev  *state
		via   *ssa.BasicBlock
		facts map[ssa.Value]bool
	}
	// scan the remainder of the start block
	scan := func(b *ssa.BasicBlock, start int) (hit ssa.Instruction, stopped bool) {
		for i := start; i < len(b.Instrs); i++ {
			in := b.Instrs[i]
			if q.avoid != nil && q.avoid(in) {
				return nil, true
			}
			if q.target(in) {
				return in, false
			}
		}
		return nil, false
	}
	if hit, stopped := scan(from.b, from.i+1); hit != nil {
		return true, []ssa.Instruction{hit}
	} else if stopped {
		return false, nil
	}
	type vkey struct {
		b, pred *ssa.BasicBlock
		facts   string
	}
	visited := map[vkey]bool{}
	var queue []*state
	rel := relevantFacts(q.fn)
	dropFacts := false // safety valve: beyond the budget the search continues without facts (more paths, never fewer)
	push := func(prev *state, from *ssa.BasicBlock) {
		forced := -1
		var condVal ssa.Value
		condNeg := false
		if len(from.Instrs) > 0 {
			if iff, ok := from.Instrs[len(from.Instrs)-1].(*ssa.If); ok {
				condVal = iff.Cond
				if u, ok := condVal.(*ssa.UnOp); ok && u.Op == token.NOT {
					condVal, condNeg = u.X, true
				}
				v, known := q.assume[condVal]
				if !known {
					v, known = prev.facts[condVal]
				}
				if known {
					if v != condNeg {
						forced = 0
					} else {
						forced = 1
					}
				}
			}
		}
		for si, s := range from.Succs {
			if q.blocked != nil && q.blocked[edgeKey{from, si}] {
				continue
			}
			if forced >= 0 && si != forced {
				continue // branch decided by what this path already knows about the condition
			}
			var facts map[ssa.Value]bool
			if !dropFacts {
				facts = enterFacts(prev.facts, from, si, s, condVal, condNeg, rel, q.assume)
			}
			k := vkey{s, from, factsKey(facts)}
			if !visited[k] {
				visited[k] = true
				if len(visited) > 400000 {
					dropFacts = true
				}
				queue = append(queue, &state{s, prev, from, facts})
			}
		}
	}
	push(&state{from.b, nil, nil, nil}, from.b)
	for len(queue) > 0 {
		st := queue[0]
		queue = queue[1:]
		hit, stopped := scan(st.b, 0)
		if hit != nil {
			var wit []ssa.Instruction
			wit = append(wit, hit)
			for p := st; p != nil; p = p.prev {
				if len(p.b.Instrs) > 0 {
					wit = append(wit, p.b.Instrs[len(p.b.Instrs)-1])
				}
			}
			// reverse
			for i, j := 0, len(wit)-1; i < j; i, j = i+1, j-1 {
				wit[i], wit[j] = wit[j], wit[i]
			}
			return true, wit
		}
		if stopped {
			continue
		}
		push(st, st.b)
	}
	return false, nil
}

// enterFacts: the facts that hold on entering s from `from` through its si-th edge, given the facts at `from`.
func enterFacts(old map[ssa.Value]bool, from *ssa.BasicBlock, si int, s *ssa.BasicBlock, condVal ssa.Value, condNeg bool, rel map[ssa.Value]bool, assume map[ssa.Value]bool) map[ssa.Value]bool {
	out := map[ssa.Value]bool{}
	for k, v := range old {
		out[k] = v
	}
	// the edge taken decides the condition (only for a two-way branch with distinct targets)
	if condVal != nil && len(from.Succs) == 2 && from.Succs[0] != from.Succs[1] {
		if _, isConst := condVal.(*ssa.Const); !isConst && rel[condVal] {
			out[condVal] = (si == 0) != condNeg
		}
	}
	// phis of s for this edge, evaluated simultaneously against the facts before entry
	type upd struct {
		p     *ssa.Phi
		v     bool
		known bool
	}
	var upds []upd
	pi := -1
	for i, p := range s.Preds {
		if p == from {
			// a block can be a predecessor twice (both edges of an `if`): take the edge index that matches
			if pi < 0 || i == predIndexForSucc(from, si, s) {
				pi = i
			}
		}
	}
	for _, in := range s.Instrs {
		p, ok := in.(*ssa.Phi)
		if !ok {
			break
		}
		if !isBoolType(p.Type()) || pi < 0 || !rel[p] {
			upds = append(upds, upd{p, false, false})
			continue
		}
		e := p.Edges[pi]
		neg := false
		if u, ok := e.(*ssa.UnOp); ok && u.Op == token.NOT {
			e, neg = u.X, true
		}
		if c, ok := e.(*ssa.Const); ok && c.Value != nil && c.Value.Kind() == constant.Bool {
			upds = append(upds, upd{p, constant.BoolVal(c.Value) != neg, true})
		} else if v, known := assume[e]; known {
			upds = append(upds, upd{p, v != neg, true})
		} else if v, known := out[e]; known {
			upds = append(upds, upd{p, v != neg, true})
		} else {
			upds = append(upds, upd{p, false, false})
		}
	}
	// values defined in s are recomputed now: forget what an earlier visit knew about them
	for k := range out {
		if in, ok := k.(ssa.Instruction); ok && in.Block() == s {
			delete(out, k)
		}
	}
	for _, u := range upds {
		if u.known {
			out[u.p] = u.v
		}
	}
	if len(out) == 0 {
		return nil
	}
	return out
}

var relevantCache = map[*ssa.Function]map[ssa.Value]bool{}
var relevantMu sync.Mutex

// relevantFacts: the boolean values worth remembering along a path — conditions that more than one branch tests,
// boolean phis that (transitively) feed a branch condition, and the non-constant values those phis merge.
func relevantFacts(fn *ssa.Function) map[ssa.Value]bool {
	relevantMu.Lock()
	defer relevantMu.Unlock()
	if r, ok := relevantCache[fn]; ok {
		return r
	}
	rel := map[ssa.Value]bool{}
	uses := map[ssa.Value]int{}
	strip := func(v ssa.Value) ssa.Value {
		if u, ok := v.(*ssa.UnOp); ok && u.Op == token.NOT {
			return u.X
		}
		return v
	}
	var work []*ssa.Phi
	for _, b := range fn.Blocks {
		if len(b.Instrs) == 0 {
			continue
		}
		if iff, ok := b.Instrs[len(b.Instrs)-1].(*ssa.If); ok {
			c := strip(iff.Cond)
			uses[c]++
			if p, ok := c.(*ssa.Phi); ok && !rel[p] {
				rel[p] = true
				work = append(work, p)
			}
		}
	}
	for v, n := range uses {
		if n > 1 {
			rel[v] = true
		}
	}
	for len(work) > 0 {
		p := work[0]
		work = work[1:]
		for _, e := range p.Edges {
			e = strip(e)
			if _, isConst := e.(*ssa.Const); isConst {
				continue
			}
			if !isBoolType(e.Type()) {
				continue
			}
			if p2, ok := e.(*ssa.Phi); ok {
				if !rel[p2] {
					rel[p2] = true
					work = append(work, p2)
				}
				continue
			}
			rel[e] = true
		}
	}
	relevantCache[fn] = rel
	return rel
}

// predIndexForSucc: the index in s.Preds that corresponds to from's si-th successor edge (go/ssa keeps duplicate
// predecessor entries in edge order).
func predIndexForSucc(from *ssa.BasicBlock, si int, s *ssa.BasicBlock) int {
	// count how many earlier successor edges of `from` also lead to s
	nth := 0
	for k := 0; k < si; k++ {
		if from.Succs[k] == s {
			nth++
		}
	}
	for i, p := range s.Preds {
		if p == from {
			if nth == 0 {
				return i
			}
			nth--
		}
	}
	return -1
}

func isBoolType(t types.Type) bool {
	b, ok := t.Underlying().(*types.Basic)
	return ok && b.Info()&types.IsBoolean != 0
}

func factsKey(f map[ssa.Value]bool) string {
	if len(f) == 0 {
		return ""
	}
	ks := make([]string, 0, len(f))
	for k, v := range f {
		c := byte('0')
		if v {
			c = '1'
		}
		ks = append(ks, fmt.Sprintf("%p%c", k, c))
	}
	sort.Strings(ks)
	return strings.Join(ks, ",")
}

func isReturn(in ssa.Instruction) bool { _, ok := in.(*ssa.Return); return ok }

// isExit: return or panic.
func isExit(in ssa.Instruction) bool {
	switch in.(type) {
	case *ssa.Return:
		return true
	}
	return false
}

// callCommon returns the CallCommon of call/defer/go instructions.
func callCommon(in ssa.Instruction) *ssa.CallCommon {
	switch x := in.(type) {
	case *ssa.Call:
		return &x.Call
	case *ssa.Defer:
		return &x.Call
	case *ssa.Go:
		return &x.Call
	}
	return nil
}

// staticCalleeObj: the *types.Func statically called (method or function), or the interface method.
func calleeObj(c *ssa.CallCommon) *types.Func {
	if c == nil {
		return nil
	}
	if c.IsInvoke() {
		return c.Method
	}
	if f := c.StaticCallee(); f != nil {
		if o, ok := f.Object().(*types.Func); ok {
			return o.Origin()
		}
		if f.Origin() != nil {
			if o, ok := f.Origin().Object().(*types.Func); ok {
				return o
			}
		}
	}
	return nil
}

// callsTo: predicate matching call instructions (not defer/go) to any of the given functions.
func callsTo(fs ...*types.Func) func(ssa.Instruction) bool {
	set := map[*types.Func]bool{}
	for _, f := range fs {
		if f != nil {
			set[f.Origin()] = true
		}
	}
	return func(in ssa.Instruction) bool {
		c, ok := in.(*ssa.Call)
		if !ok {
			return false
		}
		o := calleeObj(&c.Call)
		return o != nil && set[o]
	}
}

// callsNamed matches calls by package path + (recv) name for non-module callees (os.Rename, (*os.File).Sync).
func isCallTo(in ssa.Instruction, pkg, name string) bool {
	c := callCommon(in)
	if c == nil {
		return false
	}
	if _, isCall := in.(*ssa.Call); !isCall {
		return false
	}
	return commonIs(c, pkg, name)
}

func commonIs(c *ssa.CallCommon, pkg, name string) bool {
	o := calleeObj(c)
	if o == nil || o.Pkg() == nil || o.Pkg().Path() != pkg {
		return false
	}
	return shortName(o) == name
}

func findInstrs(fn *ssa.Function, pred func(ssa.Instruction) bool) []ssa.Instruction {
	var out []ssa.Instruction
	for _, b := range fn.Blocks {
		for _, in := range b.Instrs {
			if pred(in) {
				out = append(out, in)
			}
		}
	}
	return out
}

// errValue returns the SSA value holding the error result of call c (the call itself, or the
// Extract of its last tuple element), or nil.
func errValues(c *ssa.Call) []ssa.Value {
	sig := c.Call.Signature()
	res := sig.Results()
	if res.Len() == 0 {
		return nil
	}
	last := res.At(res.Len() - 1).Type()
	if !isErrorType(last) {
		return nil
	}
	if res.Len() == 1 {
		return []ssa.Value{c}
	}
	var out []ssa.Value
	for _, r := range *c.Referrers() {
		if e, ok := r.(*ssa.Extract); ok && e.Index == res.Len()-1 {
			out = append(out, e)
		}
	}
	return out
}

func isErrorType(t types.Type) bool {
	return types.Identical(t, types.Universe.Lookup("error").Type())
}

func isNilConst(v ssa.Value) bool {
	c, ok := v.(*ssa.Const)
	return ok && c.Value == nil
}

// failureEdges returns the CFG edges taken only when call c returned a non-nil error
// (the `if err != nil` true edge / `if err == nil` false edge), following one level of
// store-to-alloc/load (variables captured by deferred closures) and phi-free renames.
func failureEdges(fn *ssa.Function, c *ssa.Call) map[edgeKey]bool {
	out := map[edgeKey]bool{}
	addFor := func(v ssa.Value) {
		for _, r := range *v.Referrers() {
			bo, ok := r.(*ssa.BinOp)
			if !ok || (bo.Op != token.NEQ && bo.Op != token.EQL) {
				continue
			}
			if !(isNilConst(bo.X) || isNilConst(bo.Y)) {
				continue
			}
			for _, rr := range *bo.Referrers() {
				iff, ok := rr.(*ssa.If)
				if !ok {
					continue
				}
				if bo.Op == token.NEQ {
					out[edgeKey{iff.Block(), 0}] = true
				} else {
					out[edgeKey{iff.Block(), 1}] = true
				}
			}
		}
	}
	for _, ev := range errValues(c) {
		addFor(ev)
		// spilled: store ev -> alloc ; later loads in the same or dominated blocks
		for _, r := range *ev.Referrers() {
			st, ok := r.(*ssa.Store)
			if !ok || st.Val != ev {
				continue
			}
			for _, lr := range *st.Addr.Referrers() {
				ld, ok := lr.(*ssa.UnOp)
				if !ok || ld.Op != token.MUL {
					continue
				}
				if !st.Block().Dominates(ld.Block()) {
					continue
				}
				// no other store to the same address between (approximation: no other store
				// that dominates the load and is dominated by st)
				intervening := false
				for _, lr2 := range *st.Addr.Referrers() {
					if st2, ok := lr2.(*ssa.Store); ok && st2 != st {
						if st.Block().Dominates(st2.Block()) && st2.Block().Dominates(ld.Block()) && (st2.Block() != st.Block() || after(st2, st)) && (st2.Block() != ld.Block() || after(ld, st2)) {
							intervening = true
						}
					}
				}
				if !intervening {
					addFor(ld)
				}
			}
		}
	}
	return out
}

// after reports whether a comes after b within the same block.
func after(a, b ssa.Instruction) bool {
	if a.Block() != b.Block() {
		return false
	}
	seenB := false
	for _, in := range a.Block().Instrs {
		if in == b {
			seenB = true
		}
		if in == a {
			return seenB && a != b
		}
	}
	return false
}

func mergeEdges(ms ...map[edgeKey]bool) map[edgeKey]bool {
	out := map[edgeKey]bool{}
	for _, m := range ms {
		for k, v := range m {
			if v {
				out[k] = true
			}
		}
	}
	return out
}

// precedesAll: every path from entry to an instruction matching `b` executes one matching `a` first.
// Returns ok, and a witness path if not.
func mustPrecede(fn *ssa.Function, a, b func(ssa.Instruction) bool, blocked map[edgeKey]bool) (bool, []ssa.Instruction) {
	found, wit := pathQuery{fn: fn, target: b, avoid: a, blocked: blocked}.find(entryPos(fn))
	return !found, wit
}

// mustFollow: after instruction `from`, every path to a return executes an instruction matching `b`.
func mustFollow(fn *ssa.Function, from ssa.Instruction, b func(ssa.Instruction) bool, blocked map[edgeKey]bool) (bool, []ssa.Instruction) {
	found, wit := pathQuery{fn: fn, target: isExit, avoid: b, blocked: blocked}.find(posOf(from))
	return !found, wit
}

func (w *World) witness(ins []ssa.Instruction) []string {
	var out []string
	last := ""
	for _, in := range ins {
		p := in.Pos()
		if !p.IsValid() {
			// use the position of any operand-bearing neighbour
			continue
		}
		s := w.Pos(p)
		if s != last {
			out = append(out, s)
			last = s
		}
	}
	return out
}

// constString returns the constant string value of an SSA value if it is one.
func constString(v ssa.Value) (string, bool) {
	c, ok := v.(*ssa.Const)
	if !ok || c.Value == nil || c.Value.Kind() != constant.String {
		return "", false
	}
	return constant.StringVal(c.Value), true
}

func constInt(v ssa.Value) (int64, bool) {
	c, ok := v.(*ssa.Const)
	if !ok || c.Value == nil || c.Value.Kind() != constant.Int {
		return 0, false
	}
	i, ok := constant.Int64Val(c.Value)
	return i, ok
}

// anonymous closures declared (transitively) inside fn
func closuresOf(fn *ssa.Function) []*ssa.Function {
	var out []*ssa.Function
	var rec func(f *ssa.Function)
	rec = func(f *ssa.Function) {
		for _, a := range f.AnonFuncs {
			out = append(out, a)
			rec(a)
		}
	}
	rec(fn)
	return out
}

func fnName(fn *ssa.Function) string {
	if fn == nil {
		return "<nil>"
	}
	if o, ok := fn.Object().(*types.Func); ok {
		return qname(o)
	}
	if fn.Parent() != nil {
		return fnName(fn.Parent()) + "$" + fmt.Sprint(fn.Name())
	}
	return fn.String()
}

// forcedSucc: if block b ends in `if φ` where φ is a phi of b whose edge for predecessor `via` is a
// boolean constant, the branch taken is known (correlated flags such as `corrupted`, `snapshotDone`).
func forcedSucc(b, via *ssa.BasicBlock) int {
	if via == nil || len(b.Instrs) == 0 {
		return -1
	}
	iff, ok := b.Instrs[len(b.Instrs)-1].(*ssa.If)
	if !ok {
		return -1
	}
	cond := iff.Cond
	neg := false
	if u, ok := cond.(*ssa.UnOp); ok && u.Op == token.NOT {
		cond, neg = u.X, true
	}
	phi, ok := cond.(*ssa.Phi)
	if !ok || phi.Block() != b {
		return -1
	}
	for i, p := range b.Preds {
		if p != via {
			continue
		}
		c, ok := phi.Edges[i].(*ssa.Const)
		if !ok || c.Value == nil || c.Value.Kind() != constant.Bool {
			return -1
		}
		v := constant.BoolVal(c.Value)
		if neg {
			v = !v
		}
		if v {
			return 0
		}
		return 1
	}
	return -1
}

// retVal resolves the i-th returned value of rt. Functions with defers spill results into a local
// (`*t0 = v; rundefers; t = *t0; return t`); the stored value is what is returned.
func retVal(rt *ssa.Return, i int) ssa.Value {
	v := rt.Results[i]
	ld, ok := v.(*ssa.UnOp)
	if !ok || ld.Op != token.MUL {
		return v
	}
	al, ok := ld.X.(*ssa.Alloc)
	if !ok {
		return v
	}
	var last ssa.Value
	for _, in := range rt.Block().Instrs {
		if in == ssa.Instruction(ld) {
			break
		}
		if st, ok := in.(*ssa.Store); ok && st.Addr == al {
			last = st.Val
		}
	}
	if last != nil {
		return last
	}
	return v
}

// findVia: like find, but the path must execute an instruction matching `via` before it reaches the target.
func (q pathQuery) findVia(from ipos, via func(ssa.Instruction) bool) (bool, []ssa.Instruction) {
	for _, v := range findInstrs(q.fn, via) {
		v := v
		f1, w1 := pathQuery{fn: q.fn, target: func(in ssa.Instruction) bool { return in == v }, avoid: q.avoid, blocked: q.blocked}.find(from)
		if !f1 {
			continue
		}
		if f2, w2 := q.find(posOf(v)); f2 {
			return true, append(w1, w2...)
		}
	}
	return false, nil
}
